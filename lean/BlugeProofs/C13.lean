import Bluge.FS
import BlugeGen.C13
import BlugeProofs.C13.Canon
import BlugeProofs.C13.Eqns
/-! # C13 — the file-system directory reports success only for durable, exact files

Property theorems only (helper lemmas: `BlugeProofs/C13/Lemmas.lean`, `BlugeProofs/C13/Canon.lean`).
Every theorem is about `interp BlugeGen.C13.persistProgram` / `removeProgram`, the programs that
`go/extract/c13.go` regenerates from `FileSystemDirectory.Persist` / `.remove` of /repo's working
tree on every run.  They quantify over **every** environment `env` (content, chunking, the byte at
which the writer stops with an error or is cancelled, which calls fail, a lock held by somebody
else) and **every** prior state `s` (file absent / shorter / equal / longer, durable or not).

The generated program is tied to the proved family `canon p` by `persist_shape` (`decide`): a
dropped or moved `Sync`, a missing clean-up call, an error branch that does not return — each makes
`persist_shape` (and with it `lake build`) fail.  Whether the program empties the file before
writing is *not* fixed by the shape: it is the decidable `HasTruncate persistProgram`, and

* `persist_exact_durable`   : `HasTruncate persistProgram = true → ExactDurable persistProgram`
  is the FULL statement of the property (no restriction on the prior file);
* `persist_exact_durable_partial` is what holds without truncation (prior file not longer);
* `persist_no_truncate_counterexample` / `persist_exact_durable_iff` : without truncation the full
  statement is FALSE, with the concrete witness `new` over `OLDOLDOLDOLDOLDOLD`.

Which of the two worlds the current tree is in is decided by the kernel in `checks/c13.py`
(`ExactDurable persistProgram := persist_exact_durable (by decide)` either checks or it does not) and
the witness is replayed on the real code by the correspondence stream.
-/
set_option linter.unusedSimpArgs false
namespace Bluge.C13
open Bluge.FS BlugeGen.C13

/-- Gen tie: the extracted `Persist` is a program of the proved shape (exclusive non-truncating open
with usable flags; optional `Truncate(0)`; writer, `Sync`, `Close` in this order; every error branch
after the open closes and unlinks). -/
theorem persist_shape :
    canon (shapeOf persistProgram) = persistProgram ∧ Good (shapeOf persistProgram) = true ∧
    (shapeOf persistProgram).lock = .exclusive := by decide

/-- Gen tie: the open of `Persist` does not carry `O_TRUNC` (which would empty a file whose lock is not ours). -/
theorem persist_open_does_not_truncate : openTruncates persistProgram = false := by decide

/-- Gen tie: the extracted `remove` is: exclusive non-truncating open, deferred close, unlink. -/
theorem remove_shape :
    canonRemove (removeShapeOf removeProgram).1 (removeShapeOf removeProgram).2.1 (removeShapeOf removeProgram).2.2 = removeProgram ∧
    Good ⟨(removeShapeOf removeProgram).1, (removeShapeOf removeProgram).2.1, (removeShapeOf removeProgram).2.2, false⟩ = true ∧
    (removeShapeOf removeProgram).1.contains .O_TRUNC = false ∧
    (removeShapeOf removeProgram).2.2 = .exclusive := by decide

/-- FULL statement. For every content, chunking, fault placement and every prior file state
(absent, shorter, equal, longer): if `Persist` returns nil then the file is exactly the content,
volatile and durable image alike, the handle is released, and an `fsync` succeeded after the last
write/truncate and before the return.  Hypothesis: the extracted program empties the file before
writing (decidable on the generated program; FALSE on the pinned tree, see below). -/
theorem persist_exact_durable (h : HasTruncate persistProgram = true) : ExactDurable persistProgram := by
  have e := persist_shape.1
  rw [← e] at h ⊢
  exact canon_exact _ persist_shape.2.1 h

/-- What holds for the program as extracted, truncating or not: the full conclusion for every prior
file that is not longer than the new content. -/
theorem persist_exact_durable_partial : ExactDurableIfNotLonger persistProgram := by
  have e := persist_shape.1
  rw [← e]
  exact canon_partial _ persist_shape.2.1

/-- Without truncation the full statement fails on a concrete input: persisting `new` over an
existing `OLDOLDOLDOLDOLDOLD` returns nil and leaves (durably) `newOLDOLDOLDOLDOLD`. -/
theorem persist_no_truncate_counterexample (h : HasTruncate persistProgram = false) :
    (interp persistProgram witnessEnv witnessState).1 = .ok ∧
    (interp persistProgram witnessEnv witnessState).2.1.dir witnessEnv.name =
      some ⟨bNew ++ bOld.drop bNew.length, some (bNew ++ bOld.drop bNew.length)⟩ := by
  have e := persist_shape.1
  rw [← e] at h ⊢
  exact canon_witness _ persist_shape.2.1 h

/-- The full statement holds exactly when the program truncates. -/
theorem persist_exact_durable_iff : ExactDurable persistProgram ↔ HasTruncate persistProgram = true := by
  constructor
  · intro hx
    cases h : HasTruncate persistProgram
    · exfalso
      have e := persist_shape.1
      rw [← e] at h hx
      exact canon_not_exact _ persist_shape.2.1 h hx
    · rfl
  · exact persist_exact_durable

/-- If the writer fails after any k bytes or is cancelled, or `Sync` fails, or `Close` fails (or the
truncation fails), `Persist` returns the error and the name is absent afterwards, handle released —
for every prior state and chunking; given that the file could be opened and `unlink` itself works.
Conversely a nil return implies that none of these happened. -/
theorem persist_fail_clean : FailClean persistProgram := by
  have e := persist_shape.1
  rw [← e]
  exact canon_fail_clean _ persist_shape.2.1

/-- `Persist` touches no other name, whatever happens. -/
theorem persist_frame : Frame persistProgram := by
  have e := persist_shape.1
  rw [← e]
  exact canon_frame _ persist_shape.2.1

/-- `OpenFile` itself fails: error, directory untouched. -/
theorem persist_open_fault (env : Env) (s : FSState) (h : env.openFault = true) :
    (interp persistProgram env s).1 = .err ∧ (interp persistProgram env s).2.1.dir = s.dir := by
  have e := persist_shape.1
  rw [← e]
  exact canon_open_fault _ env s h

/-- The one failure that leaves a file: somebody else holds a lock (so the exclusive, non-blocking
lock attempt fails) on a name that did not exist when `O_CREATE` ran — the empty file stays.
Stated, not judged: the file is empty, not partial, and belongs to whoever holds the lock. -/
theorem open_fail_leaves_empty (env : Env) (s : FSState) (h1 : env.openFault = false)
    (h2 : env.otherLock ≠ .none) (hd : s.dir env.name = none) :
    (interp persistProgram env s).1 = .err ∧
    (interp persistProgram env s).2.1.dir env.name = some ⟨[], none⟩ := by
  have e := persist_shape.1
  have hl : lockBlocked (shapeOf persistProgram).lock env.otherLock = true := by
    rw [persist_shape.2.2]; cases ho : env.otherLock <;> simp_all [lockBlocked]
  rw [← e]
  exact canon_lock_fail_absent _ persist_shape.2.1 env s h1 hl hd

/-- A file that somebody else holds a lock on is not modified by a `Persist` of the same name
(this is what `O_TRUNC` in the open flags would break, and why the repair truncates after the lock). -/
theorem lock_fail_preserves_prior (env : Env) (s : FSState) (f : File) (h1 : env.openFault = false)
    (h2 : env.otherLock ≠ .none) (hd : s.dir env.name = some f) :
    (interp persistProgram env s).1 = .err ∧ (interp persistProgram env s).2.1.dir env.name = some f := by
  have e := persist_shape.1
  have hl : lockBlocked (shapeOf persistProgram).lock env.otherLock = true := by
    rw [persist_shape.2.2]; cases ho : env.otherLock <;> simp_all [lockBlocked]
  have hnt := persist_open_does_not_truncate
  rw [← e] at hnt ⊢
  exact canon_lock_fail_present _ persist_shape.2.1 env s f hnt h1 hl hd

/-- `remove` reports success only when the name is gone, and has released its handle. -/
theorem remove_ok_absent (env : Env) (s : FSState) (hok : (interp removeProgram env s).1 = .ok) :
    (interp removeProgram env s).2.1.dir env.name = none ∧ (interp removeProgram env s).2.1.h = none := by
  have e := remove_shape.1
  rw [← e] at hok ⊢
  exact canonRemove_ok _ _ _ remove_shape.2.1 env s hok

/-- `remove` takes the exclusive non-blocking lock first: a file held by anybody else (an open reader
holds a shared lock) is neither unlinked nor modified, and the error is returned (C11 re-uses this). -/
theorem remove_blocked_by_lock (env : Env) (s : FSState) (f : File) (h1 : env.openFault = false)
    (h2 : env.otherLock ≠ .none) (hd : s.dir env.name = some f) :
    (interp removeProgram env s).1 = .err ∧ (interp removeProgram env s).2.1.dir env.name = some f := by
  have e := remove_shape.1
  have hl : lockBlocked (removeShapeOf removeProgram).2.2 env.otherLock = true := by
    rw [remove_shape.2.2.2]; cases ho : env.otherLock <;> simp_all [lockBlocked]
  rw [← e]
  exact canonRemove_blocked _ _ _ remove_shape.2.1 remove_shape.2.2.1 env s f h1 hl hd


/-! ## Lock / Unlock on `bluge.pid`, Load and its closer: locks as state (`Bluge.FS.World`)

`lockProgram`, `unlockProgram`, `loadProgram`, the two loaders and their closers are regenerated from
`FileSystemDirectory.Lock`, `.Unlock`, `.Load`, `LoadMMapAlways`, `LoadMMapNever` like `persistProgram`.
They run in the several-actor world of `Bluge.FS.World`: one path, `flock` locks on the inode. -/

section World
open Bluge.FS.World

/-- Gen tie (shape only; the theorems below do not use it): what `Lock` and `Unlock` are -/
theorem lock_unlock_shape :
    lockProgram = [.act (.openFile [.O_CREATE, .O_RDWR] 0o600 .exclusive) [], .act (.truncate 0) [], .act .write [], .act .sync []] ∧
    unlockProgram = [.act .close [], .act .removeAll []] := by decide

/-- **lock_exclusive.** A `Lock()` on a directory whose pid file somebody holds a lock on fails at the
non-blocking exclusive `flock`, before the truncation and the write: the world — name, inode, content of the pid
file, every lock, every handle — is exactly as before. (`conflicts`: a new open file description conflicts with
every existing lock, also one of the same process.) -/
theorem lock_exclusive (a : Actor) (data : Bytes) (w : W) (i : Nat) (hl : w.link = some i)
    (hh : (w.ino i).locks ≠ []) : World.run a data lockProgram w = (false, w) := by
  have hc : conflicts true (w.ino i).locks = true := by
    cases h : (w.ino i).locks with
    | nil => exact absurd h hh
    | cons x xs => simp [conflicts]
  simp [World.run, World.body, World.runQuiet, lockProgram, World.runOp, hl, hc]

/-- `Lock()` is refused exactly when `lockAbs` says so: the name exists and its inode carries a lock -/
theorem lock_refused_iff (a : Actor) (data : Bytes) (w : W) :
    (World.run a data lockProgram w).1 = false ↔ lockAbs w = true := by
  unfold lockAbs
  cases hl : w.link with
  | none => simp [World.run, World.body, World.runQuiet, lockProgram, World.runOp, hl, setFd, setIno, isWritable]
  | some i =>
    cases hk : (w.ino i).locks with
    | nil =>
      simp [World.run, World.body, World.runQuiet, lockProgram, World.runOp, hl, hk, conflicts, setFd, setIno, isWritable]
    | cons x xs =>
      have := lock_exclusive a data w i hl (by rw [hk]; simp)
      rw [this]; simp [hk]

/-- A `Lock()` on a directory without a pid file creates it, takes the exclusive lock, truncates, writes the
pid line and syncs it; the handle stays open (that is what holds the lock). -/
theorem lock_acquires_fresh (a : Actor) (data : Bytes) (w : W) (hl : w.link = none) :
    (World.run a data lockProgram w).1 = true ∧
    (World.run a data lockProgram w).2.link = some w.next ∧
    (World.run a data lockProgram w).2.ino w.next = ⟨data, some data, [(a, true)]⟩ ∧
    (World.run a data lockProgram w).2.fd a = some ⟨w.next, true, data.length, .exclusive⟩ := by
  simp [World.run, World.body, World.runQuiet, lockProgram, World.runOp, hl, setFd, setIno, isWritable, overwrite]

/-- … and on a pid file left behind by a writer that did not unlock (nobody holds a lock on it) it takes the lock
and replaces the content. -/
theorem lock_acquires_stale (a : Actor) (data : Bytes) (w : W) (i : Nat) (hl : w.link = some i)
    (hk : (w.ino i).locks = []) :
    (World.run a data lockProgram w).1 = true ∧
    (World.run a data lockProgram w).2.link = some i ∧
    ((World.run a data lockProgram w).2.ino i).vol = data ∧
    ((World.run a data lockProgram w).2.ino i).dur = some data ∧
    ((World.run a data lockProgram w).2.ino i).locks = [(a, true)] ∧
    (World.run a data lockProgram w).2.fd a = some ⟨i, true, data.length, .exclusive⟩ := by
  simp [World.run, World.body, World.runQuiet, lockProgram, World.runOp, hl, hk, conflicts, setFd, setIno, isWritable, overwrite]

/-- **unlock_releases.** `Unlock()` by the holder closes the handle — the `flock` goes with it — and removes the
name; afterwards nothing refuses a new `Lock()`. -/
theorem unlock_releases (a : Actor) (data : Bytes) (w : W) (i pos : Nat) (wr : Bool)
    (hfd : w.fd a = some ⟨i, wr, pos, .exclusive⟩) :
    (World.run a data unlockProgram w).1 = true ∧
    (World.run a data unlockProgram w).2.link = none ∧
    (World.run a data unlockProgram w).2.fd a = none ∧
    ((World.run a data unlockProgram w).2.ino i).locks = (w.ino i).locks.erase (a, true) ∧
    lockAbs (World.run a data unlockProgram w).2 = false := by
  simp [World.run, World.body, World.runQuiet, unlockProgram, World.runOp, hfd, setFd, setIno, lockAbs]

/-- the directory can be locked again at once (by anybody) after the holder unlocked -/
theorem relock_after_unlock (a b : Actor) (data data' : Bytes) (w : W) (i pos : Nat) (wr : Bool)
    (hfd : w.fd a = some ⟨i, wr, pos, .exclusive⟩) :
    (World.run b data' lockProgram (World.run a data unlockProgram w).2).1 = true := by
  have h := (unlock_releases a data w i pos wr hfd).2.2.2.2
  cases hr : (World.run b data' lockProgram (World.run a data unlockProgram w).2).1 with
  | true => rfl
  | false => rw [(lock_refused_iff b data' _).mp hr] at h; cases h

/-- what `OpenWriter` runs on the directory after `Lock()` failed, from the statements the extractor found
between the failed `Lock()` and the `return` (only the empty list is understood: nothing is run) -/
def afterLockFailProg : List String → Option Prog
  | [] => some []
  | _ => none

/-- `OpenWriter` as far as the pid file is concerned: `Lock()`, and on failure the statements of its failure branch -/
def openWriterFs (b : Actor) (data : Bytes) (w : W) : Option (Bool × W) :=
  (afterLockFailProg openWriterAfterLockFail).map fun p =>
    let r := World.run b data lockProgram w
    if r.1 then r else (false, (World.run b data p r.2).2)

/-- **second_writer_refused** (the file-system side of `Bluge.C11.second_writer_refused`): while somebody holds
the lock, `OpenWriter` fails at `Lock()` and leaves the world exactly as it was — the first writer's pid file, its
content and its lock included — so a third writer is refused as well. Depends on the regenerated failure branch
of `OpenWriter` being a bare `return`. -/
theorem second_writer_refused (b : Actor) (data : Bytes) (w : W) (hl : lockAbs w = true) :
    openWriterFs b data w = some (false, w) ∧
    ∀ (c : Actor) (data' : Bytes), (World.run c data' lockProgram w).1 = false := by
  have hw : World.run b data lockProgram w = (false, w) := by
    cases hk : w.link with
    | none => simp [lockAbs, hk] at hl
    | some i =>
      simp only [lockAbs, hk] at hl
      exact lock_exclusive b data w i hk (by intro h; simp [h] at hl)
  refine ⟨?_, fun c data' => (lock_refused_iff c data' w).mpr hl⟩
  have hp : afterLockFailProg openWriterAfterLockFail = some [] := by decide
  unfold openWriterFs
  rw [hp]
  simp only [Option.map_some, hw]
  simp [World.run, World.body]

/-- Gen tie: `Writer.close` ends its work on the directory with `Unlock` (and calls nothing else on it) -/
theorem writer_close_unlocks : writerCloseDirectoryCalls = ["Unlock"] := by decide

/-- **the snapshot item writer reports a failed flush.** `Persist` reports success when the item writer returned
no error (`persist_exact_durable` is stated for a writer whose error result tells whether every byte reached the
file). `(*Snapshot).WriteTo` writes through a `bufio.Writer`: a snapshot smaller than the buffer reaches the file
ONLY through the final `Flush`, so its error must be returned and must not sit in a `defer`. Regenerated from
/repo on every run. -/
theorem gen_snapshot_writer_reports_flush_error :
    BlugeGen.C13.snapshotWriteToTail =
      ["err = bw.Flush()", "if err != nil { return bytesWritten, err }", "return bytesWritten, nil"] ∧
    BlugeGen.C13.snapshotWriteToDefers = [] := by decide

/-- **Why the failure branch must not unlock.** Writer 1 holds the lock; writer 2 is refused and then removes the
pid file (what `Close()` → `Unlock()` on the failure path of `Lock()` amounts to); writer 3 finds no pid file,
creates a NEW inode, locks it and is admitted: two writers, each holding "the" exclusive lock. -/
theorem refused_unlock_admits_third :
    let w1 := (World.run 1 [0x31] lockProgram {}).2
    let w2 := (World.run 2 [0x32] lockProgram w1).2
    let w2' := (World.run 2 [0x32] [.act .removeAll []] w2).2
    let r3 := World.run 3 [0x33] lockProgram w2'
    (World.run 2 [0x32] lockProgram w1).1 = false ∧ r3.1 = true ∧
    r3.2.fd 1 = some ⟨0, true, 1, .exclusive⟩ ∧ r3.2.fd 3 = some ⟨1, true, 1, .exclusive⟩ ∧
    -- … while with the bare `return` the third writer is refused
    (World.run 3 [0x33] lockProgram w2).1 = false := by decide

/-! ### Load and its closer -/

/-- Gen tie: `Load` opens read-only with a SHARED non-blocking lock and hands the file to the loader stored in
`loadMMapFunc` (default `LoadMMapAlways`); the mmap loader maps read-only and closes the file when the mapping
fails; its closer unmaps and closes (both, whatever the first returns); the plain loader's closer closes. -/
theorem load_shape :
    loadProgram = [.act (.openFile [.O_RDONLY] 0 .shared) []] ∧
    loadTailField = "loadMMapFunc" ∧ loadDefaultLoader = "LoadMMapAlways" ∧
    loadMMapAlwaysProgram = [.act .mmap [.close]] ∧ loadMMapAlwaysCloser = [.always .unmap, .always .close] ∧
    loadMMapNeverProgram = [.act .dataFile []] ∧ loadMMapNeverCloser = [.act .close []] := by decide

/-- `Load` (either loader) of an existing, non-empty item that nobody holds exclusively succeeds, changes no byte
and leaves the caller holding a shared lock on the item's inode until the closer runs -/
theorem load_holds_shared_lock (a : Actor) (w : W) (i : Nat) (hl : w.link = some i)
    (hx : conflicts false (w.ino i).locks = false) (hne : (w.ino i).vol ≠ []) (mm : Bool) :
    let prog := loadProgram ++ (if mm then loadMMapAlwaysProgram else loadMMapNeverProgram)
    (World.run a [] prog w).1 = true ∧
    (World.run a [] prog w).2.link = some i ∧
    ((World.run a [] prog w).2.ino i).vol = (w.ino i).vol ∧
    ((World.run a [] prog w).2.ino i).locks = (a, false) :: (w.ino i).locks ∧
    (World.run a [] prog w).2.fd a = some ⟨i, false, 0, .shared⟩ := by
  have hne' : (w.ino i).vol.isEmpty = false := by
    cases h : (w.ino i).vol with
    | nil => exact absurd h hne
    | cons x xs => rfl
  have hse : (LockMode.shared == LockMode.exclusive) = false := by decide
  cases mm <;>
    simp [World.run, World.body, World.runQuiet, loadProgram, loadMMapAlwaysProgram, loadMMapNeverProgram, World.runOp, hl, hx,
      setFd, setIno, isWritable, hne', hse]

/-- **load_shared_lock_blocks_remove.** While ANY lock sits on the item's inode — a reader's shared lock taken by
`Load` in particular — `remove` (exclusive non-blocking lock first) fails and leaves the world as it is: name,
bytes and locks. This is `remove_blocked_by_lock` with the lock as state instead of an assumption. -/
theorem load_shared_lock_blocks_remove (b : Actor) (data : Bytes) (w : W) (i : Nat) (hl : w.link = some i)
    (hh : (w.ino i).locks ≠ []) : World.run b data removeProgram w = (false, w) := by
  have hc : conflicts true (w.ino i).locks = true := by
    cases h : (w.ino i).locks with
    | nil => exact absurd h hh
    | cons x xs => simp [conflicts]
  simp [World.run, World.body, World.runQuiet, removeProgram, World.runOp, hl, hc]

/-- the two together: after a successful `Load` by `a`, a `remove` by anybody is refused and changes nothing -/
theorem remove_after_load_refused (a b : Actor) (data : Bytes) (w : W) (i : Nat) (hl : w.link = some i)
    (hx : conflicts false (w.ino i).locks = false) (hne : (w.ino i).vol ≠ []) (mm : Bool) :
    let w' := (World.run a [] (loadProgram ++ (if mm then loadMMapAlwaysProgram else loadMMapNeverProgram)) w).2
    World.run b data removeProgram w' = (false, w') := by
  obtain ⟨_, h2, _, h4, _⟩ := load_holds_shared_lock a w i hl hx hne mm
  exact load_shared_lock_blocks_remove b data _ i h2 (by rw [h4]; simp)

/-- the closer (of either loader) releases the handle and with it the shared lock -/
theorem closer_releases (a : Actor) (w : W) (i : Nat) (hfd : w.fd a = some ⟨i, false, 0, .shared⟩) (mm : Bool) :
    let prog := if mm then loadMMapAlwaysCloser else loadMMapNeverCloser
    (World.run a [] prog w).1 = true ∧ (World.run a [] prog w).2.fd a = none ∧
    ((World.run a [] prog w).2.ino i).locks = (w.ino i).locks.erase (a, false) ∧
    (World.run a [] prog w).2.link = w.link := by
  have hse : (LockMode.shared == LockMode.exclusive) = false := by decide
  cases mm <;>
    simp [World.run, World.body, World.runQuiet, loadMMapAlwaysCloser, loadMMapNeverCloser, World.runOp, hfd, setFd, setIno, hse]

/-- an empty item cannot be mapped: `LoadMMapAlways` reports the error and closes the file (no lock is left) -/
theorem load_mmap_of_empty_item_fails_clean (a : Actor) (w : W) (i : Nat) (hl : w.link = some i)
    (hk : (w.ino i).locks = []) (he : (w.ino i).vol = []) :
    (World.run a [] (loadProgram ++ loadMMapAlwaysProgram) w).1 = false ∧
    (World.run a [] (loadProgram ++ loadMMapAlwaysProgram) w).2.fd a = none ∧
    ((World.run a [] (loadProgram ++ loadMMapAlwaysProgram) w).2.ino i).locks = [] := by
  have hse : (LockMode.shared == LockMode.exclusive) = false := by decide
  simp [World.run, World.body, World.runQuiet, loadProgram, loadMMapAlwaysProgram, World.runOp, hl, hk, he, conflicts,
    setFd, setIno, isWritable, hse]

/-- reader opens, policy's remove is refused, reader closes, remove succeeds (pure evaluation; non-vacuity of the above) -/
example :
    let w0 : W := { link := some 0, next := 1, ino := fun _ => { vol := [1, 2, 3], dur := some [1, 2, 3] } }
    let w1 := (World.run 7 [] (loadProgram ++ loadMMapAlwaysProgram) w0).2
    let r2 := World.run 8 [] removeProgram w1
    let w3 := (World.run 7 [] loadMMapAlwaysCloser r2.2).2
    let r4 := World.run 8 [] removeProgram w3
    r2.1 = false ∧ r2.2.link = some 0 ∧ r4.1 = true ∧ r4.2.link = none := by decide

end World

/-! Non-vacuity: the premises are satisfiable and the conclusions are about real runs. -/

-- the premise of `persist_exact_durable` is satisfiable: the routine with a `Truncate(0)` step after the
-- open (the proposed repair) has it, and the full statement then holds for that program
example : HasTruncate (canon ⟨[.O_CREATE, .O_RDWR], 0o600, .exclusive, true⟩) = true := by decide
example : ExactDurable (canon ⟨[.O_CREATE, .O_RDWR], 0o600, .exclusive, true⟩) :=
  canon_exact _ (by decide) (by decide)
-- … and so is the premise of `persist_no_truncate_counterexample` (the routine as pinned)
example : HasTruncate (canon ⟨[.O_CREATE, .O_RDWR], 0o600, .exclusive, false⟩) = false := by decide
example : ¬ ExactDurable (canon ⟨[.O_CREATE, .O_RDWR], 0o600, .exclusive, false⟩) :=
  canon_not_exact _ (by decide) (by decide)
-- a prior file that IS longer, on the repaired routine: exact all the same (pure evaluation)
example : ((interp (canon ⟨[.O_CREATE, .O_RDWR], 0o600, .exclusive, true⟩) witnessEnv witnessState).2.1.dir 10)
    = some ⟨bNew, some bNew⟩ := by decide

-- a successful run exists (so `ExactDurable…` is not vacuous): 5 bytes in chunks of 2 over a shorter prior file
example : (interp persistProgram { name := 3, content := [1, 2, 3, 4, 5], chunks := [2, 2] }
    { dir := fun n => if n = 3 then some ⟨[9, 9], none⟩ else none }).1 = .ok := by decide
example : PriorNotLonger { name := 3, content := [1, 2, 3, 4, 5] }
    { dir := fun n => if n = 3 then some ⟨[9, 9], none⟩ else none } := by decide
-- a failing run exists and is cleaned up: the writer stops after 3 of 5 bytes
example : (interp persistProgram { name := 3, content := [1, 2, 3, 4, 5], writerStop := some 3 }
    { dir := fun _ => none }).1 = .err := by decide
example : (interp persistProgram { name := 3, content := [1, 2, 3, 4, 5], writerStop := some 3 }
    { dir := fun _ => none }).2.1.dir 3 = none := by decide
example : OpenOk { name := 3, content := [] } = true := by decide
-- the lock premise of `open_fail_leaves_empty` / `lock_fail_preserves_prior` / `remove_blocked_by_lock`
example : ({ name := 3, content := [], otherLock := .shared } : Env).otherLock ≠ .none := by decide
-- the trace of a successful run has its fsync after the last write
example : syncedAtReturn (interp persistProgram { name := 3, content := [1, 2, 3], chunks := [1] }
    { dir := fun _ => none }).2.2 = true := by decide

end Bluge.C13

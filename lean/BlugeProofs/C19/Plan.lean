import Bluge.MergePlan
import BlugeProofs.C19.Lemmas
/-! Structure of the tasks returned by the model `planTasks` (helper lemmas for `BlugeProofs.C19`). -/
namespace Bluge.C19
open Bluge.MergePlan List

variable {σ : Type} (o : Options) (cb : Int → Int → Int) (score : List Seg → σ) (lt : σ → σ → Bool)

@[simp] theorem prep_sorted (segs : List Seg) : (prep o cb segs).sorted = sortSegs segs := rfl
@[simp] theorem prep_eligibles (segs : List Seg) : (prep o cb segs).eligibles = eligibles o (sortSegs segs) := rfl
@[simp] theorem prep_empties (segs : List Seg) :
    (prep o cb segs).empties = (eligibles o (sortSegs segs)).filter isEmptySeg := rfl
theorem prep_eligibles1 (segs : List Seg) :
    (prep o cb segs).eligibles1 =
      if ((eligibles o (sortSegs segs)).filter isEmptySeg).length > 0
      then removeSegments (eligibles o (sortSegs segs)) ((eligibles o (sortSegs segs)).filter isEmptySeg)
      else eligibles o (sortSegs segs) := rfl
theorem prep_budget (segs : List Seg) :
    (prep o cb segs).budget =
      cb (liveSum (eligibles o (sortSegs segs))) (raiseToFloor o (minLiveSize (sortSegs segs))) := rfl

theorem isEmpty_iff (s : Seg) : isEmptySeg s = true ↔ s.liveSize ≤ 0 := by simp [isEmptySeg]

theorem mem_prep_eligibles {segs : List Seg} {s : Seg} :
    s ∈ (prep o cb segs).eligibles ↔ s ∈ segs ∧ s.liveSize < Int.tdiv o.maxSegmentSize 2 := by
  rw [prep_eligibles, mem_eligibles, mem_sortSegs]

theorem mem_prep_empties {segs : List Seg} {s : Seg} :
    s ∈ (prep o cb segs).empties ↔ s ∈ (prep o cb segs).eligibles ∧ s.liveSize ≤ 0 := by
  rw [prep_empties, mem_filter, isEmpty_iff, prep_eligibles]

/-- after the empties task nothing empty is left among the eligibles -/
theorem mem_prep_eligibles1 {segs : List Seg} {s : Seg} (h : s ∈ (prep o cb segs).eligibles1) :
    s ∈ (prep o cb segs).eligibles ∧ 0 < s.liveSize := by
  rw [prep_eligibles1] at h
  split at h
  · have h' := mem_removeSegments.1 h
    refine ⟨h'.1, ?_⟩
    have hn : ¬ (s ∈ (eligibles o (sortSegs segs)).filter isEmptySeg) := h'.2
    rw [mem_filter, isEmpty_iff] at hn
    have hn' : ¬ s.liveSize ≤ 0 := fun hh => hn ⟨h'.1, hh⟩
    omega
  · rename_i hlen
    refine ⟨h, ?_⟩
    have hnil : (eligibles o (sortSegs segs)).filter isEmptySeg = [] := by
      apply length_eq_zero_iff.1; omega
    have hn : ¬ (s ∈ (eligibles o (sortSegs segs)).filter isEmptySeg) := by rw [hnil]; simp
    rw [mem_filter, isEmpty_iff] at hn
    have hn' : ¬ s.liveSize ≤ 0 := fun hh => hn ⟨h, hh⟩
    omega

theorem prep_eligibles1_sublist (segs : List Seg) :
    (prep o cb segs).eligibles1.Sublist (prep o cb segs).eligibles := by
  rw [prep_eligibles1]
  split
  · exact removeSegments_sublist _ _
  · exact Sublist.refl _

/-- every task is either the empties task or a roster built by the roster loop -/
theorem task_cases {segs t : List Seg} (ht : t ∈ planTasks o cb score lt segs) :
    (t = (prep o cb segs).empties ∧ t ≠ []) ∨ GoodRoster o (prep o cb segs).eligibles1 t := by
  unfold planTasks at ht
  simp only at ht
  rcases mem_append.1 ht with h | h
  · left
    split at h
    · rename_i hlen
      have : t = (prep o cb segs).empties := by simpa using h
      refine ⟨this, ?_⟩
      intro hnil
      rw [this] at hnil
      rw [hnil] at hlen
      simp at hlen
    · simp at h
  · right
    exact planLoop_good o _ score lt _ _ _ t h

theorem eligibles_nodup {segs : List Seg} (h : segs.Nodup) : (prep o cb segs).eligibles.Nodup := by
  rw [prep_eligibles]
  unfold eligibles
  exact ((sortSegs_perm segs).nodup_iff.2 h).sublist filter_sublist

theorem planTasks_flatten_nodup {segs : List Seg} (h : segs.Nodup) :
    (planTasks o cb score lt segs).flatten.Nodup := by
  have hel := eligibles_nodup o cb h
  have hel1 : (prep o cb segs).eligibles1.Nodup := hel.sublist (prep_eligibles1_sublist o cb segs)
  have hloop := planLoop_nodup o (prep o cb segs).budget score lt (prep o cb segs).eligibles1.length
    (prep o cb segs).eligibles1
  unfold planTasks
  simp only
  rw [flatten_append, nodup_append]
  refine ⟨?_, hloop _ hel1, ?_⟩
  · split
    · simp only [flatten_cons, flatten_nil, append_nil]
      rw [prep_empties]
      exact (by rw [prep_eligibles] at hel; exact hel : (eligibles o (sortSegs segs)).Nodup).sublist filter_sublist
    · simp
  · intro a ha b hb hab
    subst hab
    split at ha
    · simp only [flatten_cons, flatten_nil, append_nil] at ha
      obtain ⟨t, ht, hat⟩ := mem_flatten.1 hb
      have hg := planLoop_good o _ score lt _ _ _ t ht
      have h1 := mem_prep_eligibles1 o cb (hg.sub.subset hat)
      have h2 := (mem_prep_empties o cb).1 ha
      omega
    · simp at ha

theorem sortSegs_eq_of_perm {l₁ l₂ : List Seg} (hp : l₁.Perm l₂) (hid : (l₁.map (·.id)).Nodup) :
    sortSegs l₁ = sortSegs l₂ := by
  have p12 : (sortSegs l₁).Perm (sortSegs l₂) := (sortSegs_perm l₁).trans (hp.trans (sortSegs_perm l₂).symm)
  apply Perm.eq_of_pairwise (le := NotAfter) ?_ (sortSegs_sorted l₁) (sortSegs_sorted l₂) p12
  intro a b ha hb hab hba
  have ha1 : a ∈ l₁ := mem_sortSegs.1 ha
  have hb1 : b ∈ l₁ := hp.mem_iff.2 (mem_sortSegs.1 hb)
  apply id_inj_of_ids_nodup hid a ha1 b hb1
  unfold NotAfter LessP at hab hba
  omega

/-- a flattened list without duplicates has pairwise disjoint parts -/
theorem pairwise_disjoint_of_flatten_nodup {α : Type} :
    ∀ (ts : List (List α)), ts.flatten.Nodup → ts.Pairwise (fun a b => ∀ s ∈ a, s ∉ b) := by
  intro ts
  induction ts with
  | nil => intro _; exact Pairwise.nil
  | cons a ts ih =>
    intro h
    rw [flatten_cons, nodup_append] at h
    rw [pairwise_cons]
    refine ⟨?_, ih h.2.1⟩
    intro b hb s hsa hsb
    exact h.2.2 s hsa s (mem_flatten.2 ⟨b, hb, hsb⟩) rfl

end Bluge.C19

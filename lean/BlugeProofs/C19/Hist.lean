import Bluge.MergePlan
import BlugeProofs.C19.Lemmas
import BlugeProofs.C19.Plan
/-! Plan/execute histories on sizes (helper lemmas for the convergence theorems of `BlugeProofs.C19`;
core Lean only). -/
namespace Bluge.C19
open Bluge.MergePlan List

/-- what every state of a history satisfies: ids pairwise distinct and below the id counter, sizes sane -/
structure HInv (st : HState) : Prop where
  ids : (st.segs.map (·.id)).Nodup
  fresh : ∀ s ∈ st.segs, s.id < st.next
  sizes : ∀ s ∈ st.segs, 0 ≤ s.liveSize ∧ s.liveSize ≤ s.fullSize

theorem hinv_of_bools {st : HState} (hid : idsDistinct st.segs = true) (hsz : sizesSane st.segs = true)
    (hfr : freshIds st = true) : HInv st := by
  refine ⟨by simpa [idsDistinct] using hid, ?_, ?_⟩
  · simpa [freshIds, all_eq_true] using hfr
  · simpa [sizesSane, all_eq_true] using hsz

theorem mem_executeTask {next : Nat} {segs t : List Seg} {s : Seg} (h : s ∈ executeTask next segs t) :
    (s ∈ segs ∧ s ∉ t) ∨ s = ⟨next, liveSum t, liveSum t⟩ ∧ 0 < liveSum t := by
  unfold executeTask at h
  split at h
  · rename_i hl
    rcases mem_append.1 h with h | h
    · left; exact mem_removeSegments.1 h
    · right; simp only [mem_cons, not_mem_nil, or_false] at h; exact ⟨h, hl⟩
  · left; exact mem_removeSegments.1 h

theorem mem_executeTask_of_kept {next : Nat} {segs t : List Seg} {s : Seg} (hs : s ∈ segs) (hn : s ∉ t) :
    s ∈ executeTask next segs t := by
  have : s ∈ removeSegments segs t := mem_removeSegments.2 ⟨hs, hn⟩
  unfold executeTask
  split
  · exact mem_append_left _ this
  · exact this

/-- executing one task keeps the invariant (the new segment takes the counter's id) -/
theorem hinv_executeTask {next : Nat} {segs t : List Seg} (h : HInv ⟨next, segs⟩)
    (_hsub : ∀ s ∈ t, s ∈ segs) : HInv ⟨next + 1, executeTask next segs t⟩ := by
  have hrem : ((removeSegments segs t).map (·.id)).Nodup :=
    h.ids.sublist ((removeSegments_sublist segs t).map _)
  refine ⟨?_, ?_, ?_⟩
  · show ((executeTask next segs t).map (·.id)).Nodup
    unfold executeTask
    split
    · rw [map_append, nodup_append]
      refine ⟨hrem, by simp, ?_⟩
      intro a ha b hb hab
      simp only [map_cons, map_nil, mem_cons, not_mem_nil, or_false] at hb
      obtain ⟨x, hx, rfl⟩ := mem_map.1 ha
      have := h.fresh x (mem_removeSegments.1 hx).1
      simp only at this
      omega
    · exact hrem
  · intro s hs
    show s.id < next + 1
    rcases mem_executeTask hs with ⟨h1, _⟩ | ⟨rfl, _⟩
    · have := h.fresh s h1; simp only at this; omega
    · simp
  · intro s hs
    rcases mem_executeTask hs with ⟨h1, _⟩ | ⟨rfl, hl⟩
    · exact h.sizes s h1
    · simp only; omega

/-- one task: the measure never grows, and drops unless the task rewrites one deletion-free segment -/
theorem executeTask_measure {next : Nat} {segs t : List Seg} (h : HInv ⟨next, segs⟩) (htnd : t.Nodup)
    (hsub : ∀ s ∈ t, s ∈ segs) (hne : t ≠ []) :
    mergeMeasure (executeTask next segs t) ≤ mergeMeasure segs ∧
      (isNoopSingleton t = false → mergeMeasure (executeTask next segs t) < mergeMeasure segs) := by
  have hnd : segs.Nodup := nodup_of_ids_nodup h.ids
  have hsz' := h.sizes
  simp only at hsz'
  have hlf := live_le_full_sum (t := t) (fun s hs => hsz' s (hsub s hs))
  have hc := sumBy_removeSegments (fun _ => 1) segs hnd t htnd hsub
  have hf := sumBy_removeSegments (·.fullSize) segs hnd t htnd hsub
  simp only [sumBy_one, sumBy_full] at hc hf
  have hlen : 1 ≤ t.length := length_pos_iff.2 hne
  constructor
  · unfold mergeMeasure executeTask
    split
    · simp only [length_append, fullSum_append, length_cons, length_nil, fullSum]
      omega
    · omega
  · intro hnoop
    have hkey : 2 ≤ t.length ∨ liveSum t < fullSum t ∨ liveSum t ≤ 0 := by
      match t, hnoop with
      | [], _ => simp at hne
      | [s], hn =>
        simp only [isNoopSingleton, decide_eq_false_iff_not] at hn
        have := hsz' s (hsub s mem_cons_self)
        simp only [liveSum, fullSum]
        omega
      | _ :: _ :: _, _ => left; simp
    unfold mergeMeasure executeTask
    split
    · simp only [length_append, fullSum_append, length_cons, length_nil, fullSum]
      omega
    · omega

/-- a whole plan, task after task: the invariant survives, the measure never grows, and drops as soon as
one task is not a no-op -/
theorem executeAll_measure :
    ∀ (ts : List (List Seg)) (next : Nat) (segs : List Seg), HInv ⟨next, segs⟩ → ts.flatten.Nodup →
      (∀ t ∈ ts, t ≠ [] ∧ ∀ s ∈ t, s ∈ segs) →
      HInv ⟨next + ts.length, executeAll next segs ts⟩ ∧
      mergeMeasure (executeAll next segs ts) ≤ mergeMeasure segs ∧
      ((∃ t ∈ ts, isNoopSingleton t = false) → mergeMeasure (executeAll next segs ts) < mergeMeasure segs) := by
  intro ts
  induction ts with
  | nil =>
    intro next segs h _ _
    refine ⟨by simpa [executeAll] using h, by simp [executeAll], ?_⟩
    rintro ⟨t, ht, _⟩; simp at ht
  | cons t ts ih =>
    intro next segs h hnd hall
    rw [flatten_cons, nodup_append] at hnd
    obtain ⟨htnd, htsnd, hdisj⟩ := hnd
    obtain ⟨hne, hsub⟩ := hall t mem_cons_self
    have hinv' := hinv_executeTask h hsub
    have hm := executeTask_measure h htnd hsub hne
    have hall' : ∀ t' ∈ ts, t' ≠ [] ∧ ∀ s ∈ t', s ∈ executeTask next segs t := by
      intro t' ht'
      obtain ⟨hne', hsub'⟩ := hall t' (mem_cons_of_mem _ ht')
      refine ⟨hne', fun s hs => mem_executeTask_of_kept (hsub' s hs) ?_⟩
      intro hst
      exact hdisj s hst s (mem_flatten.2 ⟨t', ht', hs⟩) rfl
    obtain ⟨i1, i2, i3⟩ := ih (next + 1) (executeTask next segs t) hinv' htsnd hall'
    simp only [executeAll, length_cons]
    refine ⟨?_, by omega, ?_⟩
    · have e : next + (ts.length + 1) = next + 1 + ts.length := by omega
      rw [e]; exact i1
    · rintro ⟨t', ht', hn⟩
      rcases mem_cons.1 ht' with rfl | ht''
      · have := hm.2 hn; omega
      · have := i3 ⟨t', ht'', hn⟩; omega

theorem exists_not_noop {ts : List (List Seg)} (h0 : ts ≠ []) (h1 : ¬ allNoop ts = true) :
    ∃ t ∈ ts, isNoopSingleton t = false := by
  have hall : ts.all isNoopSingleton = false := by
    cases hb : ts.all isNoopSingleton
    · rfl
    · exfalso; apply h1
      have : ts.isEmpty = false := by cases ts <;> simp_all
      simp [allNoop, hb, this]
  obtain ⟨t, ht, hn⟩ := all_eq_false.1 hall
  exact ⟨t, ht, by simpa using hn⟩

variable {σ : Type} (o : Options) (cb : Int → Int → Int) (score : List Seg → σ) (lt : σ → σ → Bool)

theorem planOf_cases (segs : List Seg) :
    planOf o cb score lt segs = [] ∨ planOf o cb score lt segs = planTasks o cb score lt segs := by
  unfold planOf plan
  split
  · left; rfl
  · right; rfl

/-- the tasks of a plan are non-empty sub-lists of the state, pairwise disjoint -/
theorem planOf_wf {segs : List Seg} (hnd : segs.Nodup) :
    (planOf o cb score lt segs).flatten.Nodup ∧
      ∀ t ∈ planOf o cb score lt segs, t ≠ [] ∧ ∀ s ∈ t, s ∈ segs := by
  rcases planOf_cases o cb score lt segs with h | h
  · rw [h]; simp
  · rw [h]
    refine ⟨planTasks_flatten_nodup o cb score lt hnd, ?_⟩
    intro t ht
    rcases task_cases o cb score lt ht with ⟨rfl, hne⟩ | hg
    · refine ⟨hne, fun s hs => ?_⟩
      exact ((mem_prep_eligibles o cb).1 ((mem_prep_empties o cb).1 hs).1).1
    · refine ⟨hg.ne, fun s hs => ?_⟩
      exact ((mem_prep_eligibles o cb).1 (mem_prep_eligibles1 o cb (hg.sub.subset hs)).1).1

/-- with the repaired guard no task is a one-segment rewrite of a deletion-free segment -/
theorem planOf_skip_no_noop (hv : o.skipNoop = true) (segs : List Seg) :
    ∀ t ∈ planOf o cb score lt segs, isNoopSingleton t = false := by
  intro t ht
  rcases planOf_cases o cb score lt segs with h | h
  · rw [h] at ht; simp at ht
  · rw [h] at ht
    rcases task_cases o cb score lt ht with ⟨rfl, _⟩ | hg
    · -- the empties task: nothing live
      have hall : ∀ s ∈ (prep o cb segs).empties, s.liveSize ≤ 0 :=
        fun s hs => ((mem_prep_empties o cb).1 hs).2
      match hm : (prep o cb segs).empties, hall with
      | [], _ => simp [isNoopSingleton]
      | [s], hall =>
        have := hall s mem_cons_self
        simp only [isNoopSingleton, decide_eq_false_iff_not]
        omega
      | _ :: _ :: _, _ => simp [isNoopSingleton]
    · exact rosterOk_skip_not_noop hv hg.ok

theorem hinv_round {st : HState} (h : HInv st) : HInv (round o cb score lt st) := by
  obtain ⟨w1, w2⟩ := planOf_wf o cb score lt (nodup_of_ids_nodup h.ids)
  exact (executeAll_measure _ st.next st.segs h w1 w2).1

theorem measure_nonneg' {st : HState} (h : HInv st) : 0 ≤ mergeMeasure st.segs := by
  have := live_le_full_sum (t := st.segs) h.sizes
  unfold mergeMeasure; omega

/-- the descent: within `m ≥ measure` rounds a history without arrivals reaches a state where the planner
returns no task, or one where it returns nothing but one-segment rewrites of deletion-free segments -/
theorem converge_aux :
    ∀ (m : Nat) (st : HState), HInv st → mergeMeasure st.segs ≤ m →
      ∃ k, k ≤ m ∧ (planOf o cb score lt (rounds o cb score lt k st).segs = [] ∨
        allNoop (planOf o cb score lt (rounds o cb score lt k st).segs) = true) := by
  intro m
  induction m with
  | zero =>
    intro st h hm
    by_cases h0 : planOf o cb score lt st.segs = []
    · exact ⟨0, Nat.le_refl _, Or.inl h0⟩
    · by_cases h1 : allNoop (planOf o cb score lt st.segs) = true
      · exact ⟨0, Nat.le_refl _, Or.inr h1⟩
      · exfalso
        obtain ⟨w1, w2⟩ := planOf_wf o cb score lt (nodup_of_ids_nodup h.ids)
        have hex := exists_not_noop h0 h1
        have hlt := (executeAll_measure _ st.next st.segs h w1 w2).2.2 hex
        have hnn := measure_nonneg' (hinv_round o cb score lt h)
        simp only [round] at hnn
        simp only [Int.natCast_zero] at hm
        omega
  | succ m ih =>
    intro st h hm
    by_cases h0 : planOf o cb score lt st.segs = []
    · exact ⟨0, Nat.zero_le _, Or.inl h0⟩
    · by_cases h1 : allNoop (planOf o cb score lt st.segs) = true
      · exact ⟨0, Nat.zero_le _, Or.inr h1⟩
      · obtain ⟨w1, w2⟩ := planOf_wf o cb score lt (nodup_of_ids_nodup h.ids)
        have hex := exists_not_noop h0 h1
        have hlt := (executeAll_measure _ st.next st.segs h w1 w2).2.2 hex
        have hm' : mergeMeasure (round o cb score lt st).segs ≤ m := by
          simp only [round]
          have : ((m + 1 : Nat) : Int) = (m : Int) + 1 := by omega
          omega
        obtain ⟨k, hk, hres⟩ := ih (round o cb score lt st) (hinv_round o cb score lt h) hm'
        exact ⟨k + 1, by omega, by simpa [rounds] using hres⟩

end Bluge.C19

import Bluge.MergePlan
import BlugeProofs.C19.Lemmas
/-! The budget staircase for a rational growth factor (helper lemmas for `BlugeProofs.C19`; core Lean only). -/
namespace Bluge.C19
open Bluge.MergePlan

/-- with `den = 1` the rational staircase is the whole-number one -/
theorem calcBudgetRat_den_one (per g : Nat) :
    ∀ (fuel total tier : Nat), calcBudgetRat per g 1 fuel total tier = calcBudgetNat per g fuel total tier := by
  intro fuel
  induction fuel with
  | zero => intro _ _; rfl
  | succ fuel ih =>
    intro total tier
    rw [calcBudgetRat, calcBudgetNat, Nat.div_one, ih]

/-- what `growthAtLeast` buys: from `first` on, a step of the staircase multiplies the tier size by at least
`hn/hd` although the product is truncated -/
theorem tier_step_ge {num den hn hd first : Nat} (h : growthAtLeast num den hn hd first = true)
    {t : Nat} (ht : first ≤ t) : t * hn ≤ (t * num / den) * hd := by
  simp only [growthAtLeast, decide_eq_true_eq] at h
  obtain ⟨hden, hhd, _, hle, hslack⟩ := h
  -- q·den + r = t·num with r ≤ den - 1
  have hq : den * (t * num / den) + t * num % den = t * num := Nat.div_add_mod (t * num) den
  have hr : t * num % den < den := Nat.mod_lt _ hden
  -- enough: (t·hn)·den ≤ (q·hd)·den
  apply Nat.le_of_mul_le_mul_right (c := den) _ hden
  -- t·(num·hd − hn·den) ≥ first·(…) ≥ hd·(den−1)
  have h1 : first * (num * hd - hn * den) ≤ t * (num * hd - hn * den) := Nat.mul_le_mul_right _ ht
  have h2 : t * (num * hd - hn * den) = t * (num * hd) - t * (hn * den) := Nat.mul_sub t _ _
  have h3 : t * (hn * den) ≤ t * (num * hd) := Nat.mul_le_mul_left t hle
  have h4 : hd * (den * (t * num / den)) + hd * (t * num % den) = hd * (t * num) := by
    rw [← Nat.mul_add, hq]
  have h5 : hd * (t * num % den) ≤ hd * (den - 1) := Nat.mul_le_mul_left hd (by omega)
  have e1 : t * hn * den = t * (hn * den) := Nat.mul_assoc _ _ _
  have e2 : t * num / den * hd * den = hd * (den * (t * num / den)) := by
    rw [Nat.mul_comm (t * num / den) hd, Nat.mul_assoc, Nat.mul_comm (t * num / den) den]
  have e3 : hd * (t * num) = t * (num * hd) := by
    rw [Nat.mul_comm hd, Nat.mul_assoc]
  rw [e1, e2]
  omega

theorem tier_step_mono {num den hn hd first : Nat} (h : growthAtLeast num den hn hd first = true)
    {t : Nat} (ht : first ≤ t) : t ≤ t * num / den := by
  have h1 := tier_step_ge h ht
  simp only [growthAtLeast, decide_eq_true_eq] at h
  obtain ⟨_, hhd, hge, _, _⟩ := h
  have h2 : t * hd ≤ t * hn := Nat.mul_le_mul_left t hge
  exact Nat.le_of_mul_le_mul_right (Nat.le_trans h2 h1) hhd

/-- the induction behind `budget_logarithmic_rat`, from any tier `tier ≥ first` -/
theorem calcBudgetRat_le (per num den hn hd first : Nat) (hg : growthAtLeast num den hn hd first = true) :
    ∀ (k fuel total tier : Nat), 0 < tier → first ≤ tier → total * hd ^ k < per * tier * hn ^ k →
      calcBudgetRat per num den fuel total tier ≤ per * (k + 1) := by
  have hhd : 0 < hd := by
    simp only [growthAtLeast, decide_eq_true_eq] at hg; exact hg.2.1
  intro k
  induction k with
  | zero =>
    intro fuel total tier hf _ h
    simp only [Nat.pow_zero, Nat.mul_one] at h
    cases fuel with
    | zero => simp [calcBudgetRat]
    | succ fuel =>
      rw [calcBudgetRat]
      by_cases h0 : total = 0
      · rw [if_pos h0]; omega
      · rw [if_neg h0, if_pos h]
        have := ceil_div_le hf h
        omega
  | succ k ih =>
    intro fuel total tier hf hft h
    cases fuel with
    | zero => simp [calcBudgetRat]
    | succ fuel =>
      rw [calcBudgetRat]
      have e2 : per * (k + 1 + 1) = per + per * (k + 1) := by
        rw [Nat.mul_add per (k + 1) 1]; omega
      by_cases h0 : total = 0
      · rw [if_pos h0]; omega
      · rw [if_neg h0]
        by_cases hlt : total < per * tier
        · rw [if_pos hlt]
          have := ceil_div_le hf hlt
          omega
        · rw [if_neg hlt]
          have hstep := tier_step_ge hg hft
          have hmono := tier_step_mono hg hft
          have hf' : 0 < tier * num / den := by omega
          have hft' : first ≤ tier * num / den := by omega
          -- (total − per·tier)·hd^k < per·tier'·hn^k, shown after multiplying by hd
          have hlt' : (total - per * tier) * hd ^ k < per * (tier * num / den) * hn ^ k := by
            apply Nat.lt_of_mul_lt_mul_right (a := hd)
            have a1 : (total - per * tier) * hd ^ k * hd ≤ total * hd ^ (k + 1) := by
              rw [Nat.pow_succ, ← Nat.mul_assoc]
              exact Nat.mul_le_mul_right _ (Nat.mul_le_mul_right _ (Nat.sub_le _ _))
            have a2 : per * tier * hn ^ (k + 1) ≤ per * (tier * num / den) * hn ^ k * hd := by
              have : per * tier * hn ^ (k + 1) = per * hn ^ k * (tier * hn) := by
                rw [Nat.pow_succ]; ac_rfl
              rw [this]
              have : per * (tier * num / den) * hn ^ k * hd = per * hn ^ k * (tier * num / den * hd) := by
                ac_rfl
              rw [this]
              exact Nat.mul_le_mul_left _ hstep
            omega
          have := ih fuel (total - per * tier) (tier * num / den) hf' hft' hlt'
          omega

/-- if the truncation eats the whole growth step (`⌊tier·num/den⌋ = tier`: e.g. `tier = 1`, growth 1.5) the
tier never grows and every step covers only `per·tier` of the total -/
theorem calcBudgetRat_stuck (per num den tier : Nat) (hstuck : tier * num / den = tier) (htier : 0 < tier)
    (hper : 0 < per) :
    ∀ (fuel total : Nat), total < fuel → total ≤ tier * calcBudgetRat per num den fuel total tier := by
  intro fuel
  induction fuel with
  | zero => intro total h; omega
  | succ fuel ih =>
    intro total hfuel
    rw [calcBudgetRat]
    by_cases h0 : total = 0
    · rw [if_pos h0]; omega
    · rw [if_neg h0]
      by_cases hlt : total < per * tier
      · rw [if_pos hlt]
        -- total ≤ tier · ⌈total/tier⌉
        have h1 : (total + tier - 1) % tier < tier := Nat.mod_lt _ htier
        have h2 := Nat.div_add_mod (total + tier - 1) tier
        omega
      · rw [if_neg hlt, hstuck]
        have hp : 0 < per * tier := Nat.mul_pos hper htier
        have := ih (total - per * tier) (by omega)
        rw [Nat.mul_add]
        have e : tier * per = per * tier := Nat.mul_comm _ _
        omega

end Bluge.C19

import Bluge.MergePlan
import BlugeProofs.C19.Lemmas
/-! `pickBestCtx`: the roster loop with the rest of the eligible list made explicit (helper lemmas for
`noop_singleton_iff` in `BlugeProofs.C19`; core Lean only). -/
namespace Bluge.C19
open Bluge.MergePlan List

variable {σ : Type} (o : Options) (score : List Seg → σ) (lt : σ → σ → Bool)

theorem pickBest_eq_ctx :
    ∀ (l : List Seg) (best : Option (List Seg × σ)),
      pickBest o score lt l best = pickBestCtx o score lt l [] best := by
  intro l
  induction l with
  | nil => intro best; simp [pickBest, pickBestCtx]
  | cons e rest ih =>
    intro best
    simp only [pickBest, pickBestCtx, append_nil]
    exact ih _

theorem pickBestCtx_append :
    ∀ (a b tail : List Seg) (best : Option (List Seg × σ)),
      pickBestCtx o score lt (a ++ b) tail best
        = pickBestCtx o score lt b tail (pickBestCtx o score lt a (b ++ tail) best) := by
  intro a
  induction a with
  | nil => intro b tail best; simp [pickBestCtx]
  | cons e a ih =>
    intro b tail best
    simp only [cons_append, pickBestCtx, append_assoc]
    exact ih _ _ _

/-- every roster the loop over the start indices of `starts` can come back with, other than the one it
was started with, was built from a suffix of `starts` (non-empty) followed by `tail` -/
theorem pickBestCtx_from (tail : List Seg) :
    ∀ (starts : List Seg) (best : Option (List Seg × σ)) (r : List Seg) (s : σ),
      pickBestCtx o score lt starts tail best = some (r, s) →
        best = some (r, s) ∨ ∃ suf, suf <:+ starts ∧ suf ≠ [] ∧ r = buildRoster o (suf ++ tail) 0 0 := by
  intro starts
  induction starts with
  | nil => intro best r s h; left; simpa [pickBestCtx] using h
  | cons e rest ih =>
    intro best r s h
    simp only [pickBestCtx] at h
    have hsuf : ∀ suf, suf <:+ rest → suf <:+ e :: rest := fun suf hs => hs.trans (suffix_cons e rest)
    have here : ∃ suf, suf <:+ e :: rest ∧ suf ≠ [] ∧
        buildRoster o (e :: rest ++ tail) 0 0 = buildRoster o (suf ++ tail) 0 0 :=
      ⟨e :: rest, suffix_refl _, cons_ne_nil _ _, rfl⟩
    rcases ih _ r s h with hb | ⟨suf, hs, hne, hr⟩
    · split at hb
      · split at hb
        · cases hb; right; exact here
        · split at hb
          · cases hb; right; exact here
          · left; exact hb
      · left; exact hb
    · right; exact ⟨suf, hsuf suf hs, hne, hr⟩

/-- a single remaining eligible segment that fits is a roster of its own -/
theorem buildRoster_single (s : Seg) (h1 : 1 ≤ o.segmentsPerMergeTask) (hs : s.liveSize < o.maxSegmentSize) :
    buildRoster o [s] 0 0 = [s] := by
  unfold buildRoster
  have a0 : ((0 : Nat) : Int) < o.segmentsPerMergeTask := by omega
  have a1 : 0 + s.liveSize < o.maxSegmentSize := by omega
  simp only [a0, a1, if_true]
  simp [buildRoster]

/-- with `SegmentsPerMergeTask ≥ 2`, a roster built from a start index that is not the last one has at least
two segments (two segments below half the maximum always fit together) -/
theorem buildRoster_nonlast_two (suf : List Seg) (s : Seg) (hne : suf ≠ [])
    (h2 : 2 ≤ o.segmentsPerMergeTask)
    (hel : ∀ e ∈ suf ++ [s], 0 < e.liveSize ∧ e.liveSize < Int.tdiv o.maxSegmentSize 2) :
    2 ≤ (buildRoster o (suf ++ [s]) 0 0).length := by
  match suf, hne with
  | [e], _ =>
    have he := hel e (by simp)
    have hs := hel s (by simp)
    exact buildRoster_two o e s [] h2 he hs
  | e :: f :: rest, _ =>
    have he := hel e (by simp)
    have hf := hel f (by simp)
    exact buildRoster_two o e f (rest ++ [s]) h2 he hf

/-- small segments fit on their own -/
theorem small_fits (s : Seg) (h : s.liveSize < Int.tdiv o.maxSegmentSize 2) (hp : 0 < s.liveSize) :
    s.liveSize < o.maxSegmentSize := by
  have := tdiv_two o.maxSegmentSize
  omega

end Bluge.C19

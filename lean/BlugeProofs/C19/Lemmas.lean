import Bluge.MergePlan
/-! Helper lemmas for `BlugeProofs.C19` (core Lean only). -/
namespace Bluge.C19
open Bluge.MergePlan List

/-! ### the order of sort.go -/

/-- `byLiveSizeDescending.Less` as a proposition -/
def LessP (a b : Seg) : Prop := a.liveSize > b.liveSize ∨ (a.liveSize = b.liveSize ∧ a.id < b.id)

theorem less_iff (a b : Seg) : less a b = true ↔ LessP a b := by
  unfold less LessP
  by_cases h : a.liveSize = b.liveSize
  · simp [h]
  · simp [h]

theorem lessP_asymm {a b : Seg} : LessP a b → ¬ LessP b a := by
  unfold LessP; omega

theorem lessP_trans {a b c : Seg} : LessP a b → LessP b c → LessP a c := by
  unfold LessP; omega

/-- "not after": the relation a sorted list satisfies pairwise -/
def NotAfter (a b : Seg) : Prop := ¬ LessP b a

theorem notAfter_trans {a b c : Seg} : NotAfter a b → NotAfter b c → NotAfter a c := by
  unfold NotAfter LessP; omega

theorem notAfter_of_lessP {a b : Seg} : LessP a b → NotAfter a b := lessP_asymm

theorem insertSeg_perm (a : Seg) (l : List Seg) : (insertSeg a l).Perm (a :: l) := by
  induction l with
  | nil => exact Perm.refl _
  | cons b l ih =>
    unfold insertSeg
    split
    · exact Perm.refl _
    · exact (Perm.cons b ih).trans (Perm.swap a b l)

theorem sortSegs_perm (l : List Seg) : (sortSegs l).Perm l := by
  induction l with
  | nil => exact Perm.refl _
  | cons a l ih =>
    unfold sortSegs
    exact (insertSeg_perm a _).trans (Perm.cons a ih)

theorem mem_sortSegs {s : Seg} {l : List Seg} : s ∈ sortSegs l ↔ s ∈ l := (sortSegs_perm l).mem_iff

theorem insertSeg_sorted (a : Seg) (l : List Seg) (h : l.Pairwise NotAfter) :
    (insertSeg a l).Pairwise NotAfter := by
  induction l with
  | nil => simp [insertSeg]
  | cons b l ih =>
    unfold insertSeg
    rw [pairwise_cons] at h
    split
    · rename_i hab
      have hab' : LessP a b := (less_iff a b).1 hab
      rw [pairwise_cons]
      refine ⟨?_, pairwise_cons.2 h⟩
      intro x hx
      rcases mem_cons.1 hx with rfl | hx
      · exact notAfter_of_lessP hab'
      · exact notAfter_trans (notAfter_of_lessP hab') (h.1 x hx)
    · rename_i hab
      have hab' : ¬ LessP a b := fun hh => hab ((less_iff a b).2 hh)
      rw [pairwise_cons]
      refine ⟨?_, ih h.2⟩
      intro x hx
      rcases mem_cons.1 ((insertSeg_perm a l).mem_iff.1 hx) with rfl | hx
      · exact hab'
      · exact h.1 x hx

theorem sortSegs_sorted (l : List Seg) : (sortSegs l).Pairwise NotAfter := by
  induction l with
  | nil => simp [sortSegs]
  | cons a l ih => unfold sortSegs; exact insertSeg_sorted a _ ih

/-! ### distinct ids -/

theorem nodup_of_ids_nodup {l : List Seg} (h : (l.map (·.id)).Nodup) : l.Nodup := by
  induction l with
  | nil => simp
  | cons a l ih =>
    simp only [map_cons, nodup_cons] at h ⊢
    refine ⟨fun ha => h.1 (mem_map.2 ⟨a, ha, rfl⟩), ih h.2⟩

theorem id_inj_of_ids_nodup {l : List Seg} (h : (l.map (·.id)).Nodup) :
    ∀ a ∈ l, ∀ b ∈ l, a.id = b.id → a = b := by
  induction l with
  | nil => simp
  | cons x l ih =>
    simp only [map_cons, nodup_cons] at h
    intro a ha b hb hab
    rcases mem_cons.1 ha with rfl | ha' <;> rcases mem_cons.1 hb with rfl | hb'
    · rfl
    · exact absurd (mem_map.2 ⟨b, hb', hab.symm⟩) h.1
    · exact absurd (mem_map.2 ⟨a, ha', hab⟩) h.1
    · exact ih h.2 a ha' b hb' hab

theorem ids_nodup_of_nodup_subset {l t : List Seg} (hl : (l.map (·.id)).Nodup) (ht : t.Nodup)
    (hsub : ∀ s ∈ t, s ∈ l) : (t.map (·.id)).Nodup := by
  induction t with
  | nil => simp
  | cons a t ih =>
    simp only [map_cons, nodup_cons] at ht ⊢
    refine ⟨?_, ih ht.2 (fun s hs => hsub s (mem_cons_of_mem _ hs))⟩
    intro hmem
    obtain ⟨b, hb, hba⟩ := mem_map.1 hmem
    have : b = a := id_inj_of_ids_nodup hl b (hsub b (mem_cons_of_mem _ hb)) a (hsub a mem_cons_self) hba
    exact ht.1 (this ▸ hb)

/-! ### removeSegments, eligibles -/

theorem mem_removeSegments {s : Seg} {l r : List Seg} : s ∈ removeSegments l r ↔ s ∈ l ∧ s ∉ r := by
  unfold removeSegments
  simp [mem_filter]

theorem removeSegments_sublist (l r : List Seg) : (removeSegments l r).Sublist l := filter_sublist

theorem removeSegments_length_lt {l r : List Seg} (hne : r ≠ []) (hsub : ∀ s ∈ r, s ∈ l) :
    (removeSegments l r).length < l.length := by
  unfold removeSegments
  rw [length_filter_lt_length_iff_exists]
  obtain ⟨a, r', rfl⟩ := exists_cons_of_ne_nil hne
  exact ⟨a, hsub a mem_cons_self, by simp⟩

theorem mem_eligibles {o : Options} {s : Seg} {l : List Seg} :
    s ∈ eligibles o l ↔ s ∈ l ∧ s.liveSize < Int.tdiv o.maxSegmentSize 2 := by
  unfold eligibles isEligible
  simp [mem_filter]

theorem liveSum_append (a b : List Seg) : liveSum (a ++ b) = liveSum a + liveSum b := by
  induction a with
  | nil => simp [liveSum]
  | cons x a ih => simp [liveSum, ih]; omega

theorem fullSum_append (a b : List Seg) : fullSum (a ++ b) = fullSum a + fullSum b := by
  induction a with
  | nil => simp [fullSum]
  | cons x a ih => simp [fullSum, ih]; omega

theorem liveSum_nonpos_of_all_empty {t : List Seg} (h : ∀ s ∈ t, s.liveSize ≤ 0) : liveSum t ≤ 0 := by
  induction t with
  | nil => simp [liveSum]
  | cons a t ih =>
    have h1 := h a mem_cons_self
    have h2 := ih (fun s hs => h s (mem_cons_of_mem _ hs))
    simp only [liveSum]; omega

/-- Go's `m/2` on int64 (truncation toward zero) in terms `omega` understands -/
theorem tdiv_two (m : Int) : (0 ≤ m → Int.tdiv m 2 = m / 2) ∧ (m < 0 → Int.tdiv m 2 ≤ 0) := by
  constructor
  · intro h; exact Int.tdiv_eq_ediv_of_nonneg h
  · intro h
    rw [Int.tdiv_eq_ediv]
    have hs : Int.sign 2 = 1 := rfl
    split
    · omega
    · rw [hs]; omega

/-- `ceil(total/first) ≤ per` when `total < per*first` -/
theorem ceil_div_le {total first per : Nat} (hf : 0 < first) (h : total < per * first) :
    (total + first - 1) / first ≤ per := by
  apply Nat.le_of_lt_succ
  rw [Nat.div_lt_iff_lt_mul hf, Nat.succ_mul]
  omega

/-! ### buildRoster -/

theorem buildRoster_sublist (o : Options) (l : List Seg) (n : Nat) (v : Int) :
    (buildRoster o l n v).Sublist l := by
  induction l generalizing n v with
  | nil => simp [buildRoster]
  | cons e rest ih =>
    unfold buildRoster
    split
    · split
      · exact (ih _ _).cons_cons e
      · exact (ih _ _).cons e
    · exact nil_sublist _

/-- the size guard: a non-empty roster stays strictly below `MaxSegmentSize` -/
theorem buildRoster_liveSum (o : Options) (l : List Seg) (n : Nat) (v : Int) :
    buildRoster o l n v = [] ∨ v + liveSum (buildRoster o l n v) < o.maxSegmentSize := by
  induction l generalizing n v with
  | nil => simp [buildRoster]
  | cons e rest ih =>
    unfold buildRoster
    split
    · split
      · rename_i hlt
        right
        rcases ih (n + 1) (v + e.liveSize) with h | h
        · rw [h]; simp only [liveSum]; omega
        · simp only [liveSum]; omega
      · exact ih n v
    · simp

/-- the length guard: a roster never exceeds `SegmentsPerMergeTask` -/
theorem buildRoster_length (o : Options) (l : List Seg) (n : Nat) (v : Int) :
    buildRoster o l n v = [] ∨ (((buildRoster o l n v).length + n : Nat) : Int) ≤ o.segmentsPerMergeTask := by
  induction l generalizing n v with
  | nil => simp [buildRoster]
  | cons e rest ih =>
    unfold buildRoster
    split
    · rename_i hn
      split
      · right
        rcases ih (n + 1) (v + e.liveSize) with h | h
        · rw [h]; simp only [length_cons, length_nil]; omega
        · simp only [length_cons]; omega
      · exact ih n v
    · simp

theorem buildRoster_head_accepted (o : Options) (e : Seg) (rest : List Seg)
    (h1 : 1 ≤ o.segmentsPerMergeTask) (h2 : e.liveSize < o.maxSegmentSize) :
    buildRoster o (e :: rest) 0 0 ≠ [] := by
  unfold buildRoster
  have : (0 : Int) < o.segmentsPerMergeTask := by omega
  simp [this, h2]

/-- with `SegmentsPerMergeTask ≥ 2`, two segments below half the maximum always fit together -/
theorem buildRoster_two (o : Options) (e f : Seg) (rest : List Seg)
    (h1 : 2 ≤ o.segmentsPerMergeTask)
    (he : 0 < e.liveSize ∧ e.liveSize < Int.tdiv o.maxSegmentSize 2)
    (hf : 0 < f.liveSize ∧ f.liveSize < Int.tdiv o.maxSegmentSize 2) :
    2 ≤ (buildRoster o (e :: f :: rest) 0 0).length := by
  have hmax : 2 * Int.tdiv o.maxSegmentSize 2 ≤ o.maxSegmentSize := by
    have := tdiv_two o.maxSegmentSize
    omega
  unfold buildRoster
  have a0 : ((0 : Nat) : Int) < o.segmentsPerMergeTask := by omega
  have a1 : 0 + e.liveSize < o.maxSegmentSize := by omega
  simp only [a0, a1, if_true]
  unfold buildRoster
  have b0 : ((0 + 1 : Nat) : Int) < o.segmentsPerMergeTask := by omega
  have b1 : 0 + e.liveSize + f.liveSize < o.maxSegmentSize := by omega
  simp only [b0, b1, if_true, length_cons]
  omega

/-! ### pickBest -/

/-- what the roster loop guarantees about the roster it hands to the budget loop -/
structure GoodRoster (o : Options) (elig r : List Seg) : Prop where
  ne : r ≠ []
  sub : r.Sublist elig
  live : liveSum r < o.maxSegmentSize
  len : (r.length : Int) ≤ o.segmentsPerMergeTask
  ok : rosterOk o r = true

/-- both variants of the guard only let non-empty rosters through -/
theorem rosterOk_ne_nil {o : Options} {r : List Seg} (h : rosterOk o r = true) : r ≠ [] := by
  intro hr; subst hr
  unfold rosterOk at h
  split at h <;> simp at h

/-- the pinned guard is `len(roster) > 0` -/
theorem rosterOk_pinned {o : Options} (hv : o.skipNoop = false) (r : List Seg) :
    rosterOk o r = decide (r.length > 0) := by
  unfold rosterOk; simp [hv]

/-- the repaired guard never lets a one-segment rewrite of a deletion-free segment through -/
theorem rosterOk_skip_not_noop {o : Options} (hv : o.skipNoop = true) {r : List Seg}
    (h : rosterOk o r = true) : isNoopSingleton r = false := by
  unfold rosterOk at h
  simp only [hv, if_true] at h
  match r, h with
  | [], h => simp [isNoopSingleton]
  | [s], h =>
    simp at h
    simp only [isNoopSingleton, decide_eq_false_iff_not]
    omega
  | _ :: _ :: _, _ => simp [isNoopSingleton]

/-- a roster of at least two segments passes both variants of the guard -/
theorem rosterOk_of_two {o : Options} {r : List Seg} (h : 2 ≤ r.length) : rosterOk o r = true := by
  unfold rosterOk
  split
  · have : r.length > 1 := by omega
    simp [this]
  · have : r.length > 0 := by omega
    simp [this]

theorem goodRoster_of_buildRoster (o : Options) (elig suf : List Seg) (hs : suf <:+ elig)
    (hne : rosterOk o (buildRoster o suf 0 0) = true) : GoodRoster o elig (buildRoster o suf 0 0) := by
  have hne' : buildRoster o suf 0 0 ≠ [] := rosterOk_ne_nil hne
  refine ⟨hne', (buildRoster_sublist o suf 0 0).trans hs.sublist, ?_, ?_, hne⟩
  · rcases buildRoster_liveSum o suf 0 0 with h | h
    · exact absurd h hne'
    · omega
  · rcases buildRoster_length o suf 0 0 with h | h
    · exact absurd h hne'
    · simpa using h

theorem pickBest_good {σ : Type} (o : Options) (score : List Seg → σ) (lt : σ → σ → Bool)
    (elig : List Seg) :
    ∀ (l : List Seg) (best : Option (List Seg × σ)), l <:+ elig →
      (∀ r s, best = some (r, s) → GoodRoster o elig r) →
      ∀ r s, pickBest o score lt l best = some (r, s) → GoodRoster o elig r := by
  intro l
  induction l with
  | nil => intro best _ hb r s h; simp only [pickBest] at h; exact hb r s h
  | cons e rest ih =>
    intro best hs hb r s h
    simp only [pickBest] at h
    have hs' : rest <:+ elig := (suffix_cons e rest).trans hs
    refine ih _ hs' ?_ r s h
    intro r' s' hbest
    split at hbest
    · rename_i hlen
      have hg := goodRoster_of_buildRoster o elig (e :: rest) hs hlen
      split at hbest
      · cases hbest; exact hg
      · rename_i b bs
        split at hbest
        · cases hbest; exact hg
        · cases hbest; exact hb _ _ rfl
    · exact hb r' s' hbest

theorem pickBest_isSome_of_isSome {σ : Type} (o : Options) (score : List Seg → σ) (lt : σ → σ → Bool) :
    ∀ (l : List Seg) (best : Option (List Seg × σ)), best.isSome → (pickBest o score lt l best).isSome := by
  intro l
  induction l with
  | nil => intro best h; simpa [pickBest] using h
  | cons e rest ih =>
    intro best h
    simp only [pickBest]
    apply ih
    split
    · split
      · rfl
      · split <;> rfl
    · exact h

theorem pickBest_isSome_of_head {σ : Type} (o : Options) (score : List Seg → σ) (lt : σ → σ → Bool)
    (e : Seg) (rest : List Seg) (h : rosterOk o (buildRoster o (e :: rest) 0 0) = true) :
    (pickBest o score lt (e :: rest) none).isSome := by
  simp only [pickBest]
  apply pickBest_isSome_of_isSome
  simp [h]

/-- the roster `pickBest` returns was built from a non-empty suffix of the eligibles -/
theorem pickBest_from_suffix {σ : Type} (o : Options) (score : List Seg → σ) (lt : σ → σ → Bool)
    (elig : List Seg) :
    ∀ (l : List Seg) (best : Option (List Seg × σ)), l <:+ elig →
      (∀ r s, best = some (r, s) → ∃ suf, suf <:+ elig ∧ suf ≠ [] ∧ r = buildRoster o suf 0 0) →
      ∀ r s, pickBest o score lt l best = some (r, s) →
        ∃ suf, suf <:+ elig ∧ suf ≠ [] ∧ r = buildRoster o suf 0 0 := by
  intro l
  induction l with
  | nil => intro best _ hb r s h; simp only [pickBest] at h; exact hb r s h
  | cons e rest ih =>
    intro best hs hb r s h
    simp only [pickBest] at h
    have hs' : rest <:+ elig := (suffix_cons e rest).trans hs
    refine ih _ hs' ?_ r s h
    intro r' s' hbest
    have hg : ∃ suf, suf <:+ elig ∧ suf ≠ [] ∧ buildRoster o (e :: rest) 0 0 = buildRoster o suf 0 0 :=
      ⟨e :: rest, hs, cons_ne_nil _ _, rfl⟩
    split at hbest
    · split at hbest
      · cases hbest; exact hg
      · rename_i b bs
        split at hbest
        · cases hbest; exact hg
        · cases hbest; exact hb _ _ rfl
    · exact hb r' s' hbest

/-! ### the budget loop -/

theorem planLoop_good {σ : Type} (o : Options) (budget : Int) (score : List Seg → σ) (lt : σ → σ → Bool) :
    ∀ (fuel : Nat) (elig : List Seg) (n : Nat),
      ∀ t ∈ planLoop o budget score lt fuel elig n, GoodRoster o elig t := by
  intro fuel
  induction fuel with
  | zero => intro elig n; simp [planLoop]
  | succ fuel ih =>
    intro elig n
    unfold planLoop
    split
    · split
      · simp
      · rename_i r s hpb
        have hg : GoodRoster o elig r :=
          pickBest_good o score lt elig elig none (suffix_refl _) (by intro _ _ h; cases h) r s hpb
        intro t ht
        rcases mem_cons.1 ht with rfl | ht
        · exact hg
        · have g := ih (removeSegments elig r) (n + 1) t ht
          exact ⟨g.ne, g.sub.trans (removeSegments_sublist _ _), g.live, g.len, g.ok⟩
    · simp

theorem planLoop_nodup {σ : Type} (o : Options) (budget : Int) (score : List Seg → σ) (lt : σ → σ → Bool) :
    ∀ (fuel : Nat) (elig : List Seg) (n : Nat), elig.Nodup →
      (planLoop o budget score lt fuel elig n).flatten.Nodup := by
  intro fuel
  induction fuel with
  | zero => intro elig n _; simp [planLoop]
  | succ fuel ih =>
    intro elig n hnd
    unfold planLoop
    split
    · split
      · simp
      · rename_i r s hpb
        have hg : GoodRoster o elig r :=
          pickBest_good o score lt elig elig none (suffix_refl _) (by intro _ _ h; cases h) r s hpb
        have hnd' : (removeSegments elig r).Nodup := hnd.sublist (removeSegments_sublist _ _)
        rw [flatten_cons, nodup_append]
        refine ⟨hg.sub.nodup hnd, ih _ _ hnd', ?_⟩
        intro a ha b hb hab
        subst hab
        obtain ⟨t, ht, hat⟩ := mem_flatten.1 hb
        have := (planLoop_good o budget score lt fuel _ _ t ht).sub.subset hat
        exact (mem_removeSegments.1 this).2 ha
    · simp

/-- `plan_terminates`, general form: any two amounts of fuel that are at least the number of eligibles
give the same result (so the fuel-exhausted branch of `planLoop` is never what cuts the loop) -/
theorem planLoop_fuel {σ : Type} (o : Options) (budget : Int) (score : List Seg → σ) (lt : σ → σ → Bool) :
    ∀ (f1 f2 : Nat) (elig : List Seg) (n : Nat), elig.length ≤ f1 → elig.length ≤ f2 →
      planLoop o budget score lt f1 elig n = planLoop o budget score lt f2 elig n := by
  intro f1
  induction f1 with
  | zero =>
    intro f2 elig n h1 _
    have : elig = [] := length_eq_zero_iff.1 (by omega)
    subst this
    cases f2 <;> simp [planLoop]
  | succ f1 ih =>
    intro f2 elig n h1 h2
    cases f2 with
    | zero =>
      have : elig = [] := length_eq_zero_iff.1 (by omega)
      subst this
      simp [planLoop]
    | succ f2 =>
      unfold planLoop
      split
      · split
        · rfl
        · rename_i r s hpb
          have hg : GoodRoster o elig r :=
            pickBest_good o score lt elig elig none (suffix_refl _) (by intro _ _ h; cases h) r s hpb
          have hlt := removeSegments_length_lt hg.ne (fun s hs => hg.sub.subset hs)
          rw [ih f2 (removeSegments elig r) (n + 1) (by omega) (by omega)]
      · rfl

/-! ### sums over removed segments (for `executeTask`) -/

def sumBy (f : Seg → Int) : List Seg → Int
  | [] => 0
  | s :: l => f s + sumBy f l

theorem sumBy_filter_ne (f : Seg → Int) (a : Seg) :
    ∀ (l : List Seg), l.Nodup → a ∈ l → sumBy f (l.filter (fun s => !(s == a))) = sumBy f l - f a := by
  intro l
  induction l with
  | nil => intro _ h; simp at h
  | cons x l ih =>
    intro hnd ha
    rw [nodup_cons] at hnd
    by_cases hx : x = a
    · subst hx
      have : l.filter (fun s => !(s == x)) = l := by
        rw [filter_eq_self]
        intro y hy
        have : y ≠ x := fun h => hnd.1 (h ▸ hy)
        simp [this]
      have hf : (x :: l).filter (fun s => !(s == x)) = l := by simp [this]
      rw [hf]; simp only [sumBy]; omega
    · have ha' : a ∈ l := by
        rcases mem_cons.1 ha with h | h
        · exact absurd h.symm hx
        · exact h
      have hxa : (x == a) = false := by simp [hx]
      simp only [filter_cons, hxa, Bool.not_false, if_true, sumBy, ih hnd.2 ha']
      omega

theorem sumBy_removeSegments (f : Seg → Int) (l : List Seg) (hl : l.Nodup) :
    ∀ (t : List Seg), t.Nodup → (∀ s ∈ t, s ∈ l) → sumBy f (removeSegments l t) = sumBy f l - sumBy f t := by
  intro t
  induction t with
  | nil =>
    intro _ _
    have : removeSegments l [] = l := by unfold removeSegments; simp
    simp [this, sumBy]
  | cons a t ih =>
    intro hnd hsub
    rw [nodup_cons] at hnd
    have hstep : removeSegments l (a :: t) = (removeSegments l t).filter (fun s => !(s == a)) := by
      unfold removeSegments
      rw [filter_filter]
      apply filter_congr
      intro x _
      by_cases hxa : x = a <;> simp [hxa]
    have hmem : a ∈ removeSegments l t := mem_removeSegments.2 ⟨hsub a mem_cons_self, hnd.1⟩
    rw [hstep, sumBy_filter_ne f a _ (hl.sublist (removeSegments_sublist _ _)) hmem,
      ih hnd.2 (fun s hs => hsub s (mem_cons_of_mem _ hs))]
    simp only [sumBy]; omega

theorem sumBy_one (l : List Seg) : sumBy (fun _ => 1) l = l.length := by
  induction l with
  | nil => simp [sumBy]
  | cons a l ih => simp [sumBy, ih]; omega

theorem sumBy_full (l : List Seg) : sumBy (·.fullSize) l = fullSum l := by
  induction l with
  | nil => simp [sumBy, fullSum]
  | cons a l ih => simp [sumBy, fullSum, ih]

theorem live_le_full_sum {t : List Seg} (h : ∀ s ∈ t, 0 ≤ s.liveSize ∧ s.liveSize ≤ s.fullSize) :
    0 ≤ liveSum t ∧ liveSum t ≤ fullSum t := by
  induction t with
  | nil => simp [liveSum, fullSum]
  | cons a t ih =>
    have h1 := h a mem_cons_self
    have h2 := ih (fun s hs => h s (mem_cons_of_mem _ hs))
    simp only [liveSum, fullSum]; omega

end Bluge.C19

/-! The guards of `index/mergeplan/merge_plan.go` / `sort.go` that the hand-written model
`Bluge.MergePlan` was transcribed from, in the normalised form `go/extract/c19.go` produces (local
identifiers are `_`). `BlugeProofs.C19.gen_facts_match_model` obliges the table regenerated from /repo's
current source to be this one. Where each line went in the model:

* `plan.tooFew` → `plan` (`segmentsIn.length ≤ 1 → none`); `plan.sort`, `sort.less` → `sortSegs`, `less`
* `eligible` → `isEligible` (`<`, `Int.tdiv … 2`); `plan.emptyRule`, `plan.emptiesTask` → `isEmptySeg`, `prep`
* `plan.budgetLoop`, `plan.afterRosters` → `planLoop` (guard, `none => []`, task appended, `removeSegments`)
* `plan.startLoop`, `plan.scoreIf`, `plan.bestRule` → `pickBest`; `plan.rosterLoop`, `plan.rosterGuard` → `buildRoster`
* `removeSegments` → `removeSegments`; `calcBudget.guards`, `scoreSegments` → `calcBudgetF`, `scoreSegmentsF`
* `calcBudget.body` (the whole function, local names numbered in order of first appearance: v1 `totalSize`,
  v2 `firstTierSize`, v3 `o`, v4 `budgetNumSegments`, v5 `tierSize`, v6 `maxSegmentsPerTier`, v7 `tierGrowth`,
  v8 `segmentsInTier`) → `calcBudgetF` / `calcBudgetLoopF` statement by statement, and with exact arithmetic
  `calcBudgetRat` (`v8 < float64(v6)` ⇔ `total < per·tier`; `int(math.Ceil(v8))` = `(total+tier-1)/tier`;
  `int64(float64(v5) * v7)` = `tier·num/den`) and `calcBudgetNat` (`den = 1`)
* `plan.scoreIf` is the one entry that depends on the variant (`Options.skipNoop`, regenerated as
  `BlugeGen.C19.skipNoop`): the pinned `len(roster) > 0` or the guard of work/C19/fix-noop-singleton-rosters.diff
* `writer.*` (index/config.go): `defaultConfig()` initialises the writer's `MergePlanOptions` from the identifier
  `mergeplan.DefaultMergePlanOptions` (not from a literal that can forget a field) and the three constructors only
  go through `defaultConfig()` → the options of every writer are the model's `defaultOptions` with growth 10.0, weight 2.0
  (also compared field by field on the real constructors: harness line `defaults`)
* `package.*` → determinism on the Go side: no clock, random source, map, goroutine or select in the package -/
namespace Bluge.C19

def expectedFacts (skipNoop : Bool) : List (String × String) := [
  ("plan.tooFew", "len(_) <= 1 => return nil, nil"),
  ("plan.sort", "_.Sort(byLiveSizeDescending(_))"),
  ("plan.emptyRule", "_.LiveSize() <= 0 => _ = append(_, _)"),
  ("plan.emptiesTask", "len(_) > 0 => _.Tasks = append(_.Tasks, &MergeTask{Segments: _}); _ = removeSegments(_, _)"),
  ("plan.budgetLoop", "len(_) > 0 && (len(_) + len(_.Tasks)) > _"),
  ("plan.afterRosters", "if len(_) == 0 { return _, nil }; _.Tasks = append(_.Tasks, &MergeTask{Segments: _}); _ = removeSegments(_, _)"),
  ("plan.startLoop", "_ := 0; _ < len(_); _++"),
  ("plan.rosterLoop", "_ := _; _ < len(_) && len(_) < _.SegmentsPerMergeTask; _++"),
  ("plan.rosterGuard", "_ + _.LiveSize() < _.MaxSegmentSize => _ = append(_, _); _ += _.LiveSize()"),
  ("plan.scoreIf", if skipNoop then "len(_) > 1 || (len(_) == 1 && _[0].LiveSize() < _[0].FullSize()) => _ := scoreSegments(_, _)"
                   else "len(_) > 0 => _ := scoreSegments(_, _)"),
  ("plan.bestRule", "len(_) == 0 || _ < _ => _ = _; _ = _"),
  ("eligible", "_.LiveSize() < _.MaxSegmentSize / 2 => _ = append(_, _); _ += _.LiveSize()"),
  ("removeSegments", "range _ { range _ { if _ == _ { continue L } }"),
  ("sort.less", "if a[i].LiveSize() != a[j].LiveSize() { return a[i].LiveSize() > a[j].LiveSize() }; return a[i].ID() < a[j].ID()"),
  ("calcBudget.guards", "if _ < 1; if _ < 1; if _ < 1; for _ > 0; if _ < float64(_)"),
  ("calcBudget.body", "{ v5 := v2; if v5 < 1 { v5 = 1 }; v6 := v3.MaxSegmentsPerTier; if v6 < 1 { v6 = 1 }; v7 := v3.TierGrowth; if v7 < 1 { v7 = 1 }; for v1 > 0 { v8 := float64(v1) / float64(v5); if v8 < float64(v6) { v4 += int(math.Ceil(v8)); break }; v4 += v6; v1 -= int64(v6) * v5; v5 = int64(float64(v5) * v7) }; return v4 }"),
  ("scoreSegments", "_ <= 0 || _ <= 0 || _ <= 0 => return 0 lits 0,0,0,0,0,0.05"),
  ("writer.mergePlanOptions", "mergeplan.DefaultMergePlanOptions"),
  ("writer.DefaultConfig", "defaultConfig()=1 MergePlanOptions-touched=0"),
  ("writer.InMemoryOnlyConfig", "defaultConfig()=1 MergePlanOptions-touched=0"),
  ("writer.DefaultConfigWithDirectory", "defaultConfig()=1 MergePlanOptions-touched=0"),
  ("package.imports", "errors,fmt,math,sort,strings"),
  ("package.nondeterminism", "maps=0 go=0 select=0")
]

end Bluge.C19

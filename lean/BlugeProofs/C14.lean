import BlugeProofs.C14.Lemmas
import BlugeProofs.C02
import BlugeGen.C03
/-! # C14 — I/O failures are reported, contained and recovered from

Property theorems about the model `Bluge.Persist` (of C02/C11) + `Bluge.Faults` (helper lemmas: `BlugeProofs/C14/*.lean`,
`BlugeProofs/C03/*.lean`).

The failure events of the model: a directory write that returns an error (`segEnd/mergeSegEnd/snapEnd … false`: Persist's own
clean-up has removed the file), an error inside `persistSnapshot` outside a write (`fault .persister`: Load of a just-written
segment, closeCh), a merger error (`fault .merger`), a failed `Remove` (`cleanupRemove… false`), and the persister's report of a
failed `persistSnapshot` (`persistFail`). `observe` is what the loops SAY at an event: the error sent to the waiting batches, the
asynchronous error callback, the callbacks invoked with nil. All theorems are about every `XReachable` state: any history, any
interleaving, any number of earlier failures, crashes and reopens, under `PersistExact` (C13).

Not covered by the event alphabet, and a FINDING of the correspondence run on the real code (see `load_fault_at_open_loses_acked`):
a `Load` error while `OpenWriter` walks the snapshot files is treated like a damaged file. -/
namespace Bluge.C14
open Bluge.Persist

/-! ## surfaced -/

/-- a failed write of the persister's job, or an error inside `persistSnapshot`, makes `persistSnapshot` return an error:
the job is `failed` -/
theorem persist_failure_fails_job {s s' : State} {ev : Event}
    (hev : (∃ sid x, ev = .segEnd sid false x) ∨ (∃ x, ev = .snapEnd false x) ∨ ev = .fault .persister)
    (h : step s ev = some s') : ∃ j', s'.job = some j' ∧ j'.phase = .failed := by
  rcases hev with ⟨sid, x, rfl⟩ | ⟨x, rfl⟩ | rfl
  · simp only [step, stepSegEnd, Bool.false_eq_true, if_false] at h
    repeat' split at h
    all_goals first | (cases h; done) | (cases h; exact ⟨_, rfl, rfl⟩)
  · simp only [step, stepSnapEnd, Bool.false_eq_true, if_false] at h
    repeat' split at h
    all_goals first | (cases h; done) | (cases h; exact ⟨_, rfl, rfl⟩)
  · simp only [step, stepFault] at h
    repeat' split at h
    all_goals first | (cases h; done) | (cases h; exact ⟨_, rfl, rfl⟩)

/-- a failed job can only be reported as failed: no snapshot write, no commit, no acknowledgement is enabled for it -/
theorem failed_job_never_acks {s : State} {j : Job} (hj : s.job = some j) (hp : j.phase = .failed) :
    step s .ack = none ∧ step s .commit = none ∧ step s .snapBegin = none ∧ step s .persistGrab = none := by
  simp [step, stepAck, stepCommit, stepSnapBegin, stepGrab, hj, hp]

/-- **fault_surfaced**: when `persistSnapshot` has failed, the persister's report (`persistFail`) sends the error to EVERY safe
batch that was waiting on the root it had grabbed, fires the asynchronous error callback (unless the writer is closing),
releases NO acknowledgement (no channel closed without error, no callback invoked with nil, `acked` unchanged), parks the
grabbed callbacks for the retry, and leaves the batches waiting on later roots waiting -/
theorem fault_surfaced {s s' : State} {closed : Bool} (h : step s (.persistFail closed) = some s') :
    ∃ j, s.job = some j ∧ j.phase = .failed ∧
      (observe s (.persistFail closed)).errTo = j.acks ∧
      (observe s (.persistFail closed)).asyncErr = !closed ∧
      (observe s (.persistFail closed)).ackNil = [] ∧ (observe s (.persistFail closed)).cbNil = [] ∧
      s'.acked = s.acked ∧ s'.job = none ∧
      s'.unpCbs = (if closed then s.unpCbs else s.unpCbs ++ j.cbs) ∧
      s'.waitAcks = s.waitAcks ∧ s'.waitCbs = s.waitCbs := by
  simp only [step, stepPersistFail] at h
  split at h
  · rename_i j hj
    split at h
    · rename_i hp
      cases h
      refine ⟨j, hj, hp, ?_, ?_, ?_, ?_, rfl, rfl, rfl, rfl, rfl⟩ <;> simp [observe, hj, hp]
    · cases h
  · cases h

/-- the batches told the error were waiting on the failed grab: all are `≤` its content, hence `≤ applied` -/
theorem nacked_le_applied {n : Nat} (hn : 1 ≤ n) {s s' : State} (hr : XReachable n s) {closed : Bool}
    (h : step s (.persistFail closed) = some s') :
    ∀ c ∈ (observe s (.persistFail closed)).errTo, c ≤ s.applied := by
  have hI := inv_xreachable hn hr
  obtain ⟨j, hj, _, he, _⟩ := fault_surfaced h
  intro c hc
  rw [he] at hc
  have ho : s.isOpen = true := by
    cases hopen : s.isOpen with
    | true => rfl
    | false => have := (hI.closed_idle hopen).1; rw [hj] at this; cases this
  have h1 := (hI.kj j hj).2.2 c (Or.inr (Or.inl hc))
  have h2 := (hI.kb ho).2.2.2 j hj
  omega

/-- a merger failure fires the asynchronous error and changes nothing else -/
theorem merge_failure_surfaced {s s' : State} (h : step s (.fault .merger) = some s') :
    (observe s (.fault .merger)).asyncErr = true ∧ s' = s := by
  simp only [step, stepFault] at h
  cases h
  exact ⟨rfl, rfl⟩

/-! ## contained -/

/-- **fault_contained**: a failure event changes neither the root (epoch, segments, content — so every open Reader and every
new Reader answers as before), nor the readers, nor the set of acknowledged batches; the protocol invariant survives it, so
durability (C02) and crash recovery (C03) hold in every state reachable through any number of failures -/
theorem fault_contained {n : Nat} (hn : 1 ≤ n) {s s' : State} {ev : Event} (hr : XReachable n s) (hf : isFault ev = true)
    (h : step s ev = some s') :
    s'.applied = s.applied ∧ s'.rootEpoch = s.rootEpoch ∧ s'.rootSegs = s.rootSegs ∧ s'.rootMem = s.rootMem ∧
    s'.readers = s.readers ∧ s'.isOpen = s.isOpen ∧ s'.acked = s.acked ∧ s'.nextEpoch = s.nextEpoch ∧
    XReachable n s' ∧ Durable s' := by
  have hx := isFault_exact hf
  have hr' : XReachable n s' := XReachable.step (.base ev) hr hx h
  have hd : Durable s' := C02.durable_of_inv (inv_xreachable hn hr')
  have key : s'.applied = s.applied ∧ s'.rootEpoch = s.rootEpoch ∧ s'.rootSegs = s.rootSegs ∧ s'.rootMem = s.rootMem ∧
      s'.readers = s.readers ∧ s'.isOpen = s.isOpen ∧ s'.acked = s.acked ∧ s'.nextEpoch = s.nextEpoch := by
    cases ev <;> simp [isFault] at hf
    all_goals
      simp only [step, stepSegEnd, stepMergeSegEnd, stepSnapEnd, stepFault, stepPersistFail, stepCleanupSnap, stepCleanupSeg] at h
      subst_vars
      repeat' split at h
      all_goals first | (cases h; done) | (cases h; exact ⟨rfl, rfl, rfl, rfl, rfl, rfl, rfl, rfl⟩)
  exact ⟨key.1, key.2.1, key.2.2.1, key.2.2.2.1, key.2.2.2.2.1, key.2.2.2.2.2.1, key.2.2.2.2.2.2.1, key.2.2.2.2.2.2.2, hr', hd⟩

/-- **nothing on disk can be mistaken for a complete item**: after a failed write the file is gone — Persist's clean-up
(C13 `persist_fail_clean`) is the event's effect -/
theorem failed_write_leaves_no_file {s s' : State} :
    (∀ sid x, step s (.segEnd sid false x) = some s' → ∀ g ∈ s'.disk.segs, g.1 ≠ sid) ∧
    (∀ sid x, step s (.mergeSegEnd sid false x) = some s' → ∀ g ∈ s'.disk.segs, g.1 ≠ sid) ∧
    (∀ x, step s (.snapEnd false x) = some s' → ∃ j, s.job = some j ∧ ∀ f ∈ s'.disk.snaps, f.epoch ≠ j.epoch) := by
  refine ⟨?_, ?_, ?_⟩
  · intro sid x h
    simp only [step, stepSegEnd, Bool.false_eq_true, if_false] at h
    repeat' split at h
    all_goals first | (cases h; done) | (cases h; intro g hg; simp [Disk.delSeg] at hg; exact hg.2)
  · intro sid x h
    simp only [step, stepMergeSegEnd, Bool.false_eq_true, if_false] at h
    repeat' split at h
    all_goals first | (cases h; done) | (cases h; intro g hg; simp [Disk.delSeg] at hg; exact hg.2)
  · intro x h
    simp only [step, stepSnapEnd, Bool.false_eq_true, if_false] at h
    split at h
    · rename_i j hj
      repeat' split at h
      all_goals first | (cases h; done) | (cases h; exact ⟨j, hj, fun f hf => (Disk.mem_delSnap.mp hf).2⟩)
    · cases h

/-- failed removals change nothing: the epoch stays in `deletableEpochs`, the segment in `knownSegmentFiles`, and the removal
stays enabled — it is tried again at the next clean-up -/
theorem failed_remove_retried {s s' : State} :
    (∀ e, step s (.cleanupRemoveSnap e false) = some s' → s' = s ∧ e ∈ s'.pol.deletable) ∧
    (∀ sid, step s (.cleanupRemoveSeg sid false) = some s' → s' = s ∧ sid ∈ s'.pol.known) := by
  constructor
  · intro e h
    simp only [step, stepCleanupSnap] at h
    split at h
    · rename_i hg
      simp only [Bool.false_eq_true, if_false] at h
      cases h; exact ⟨rfl, hg.2.2⟩
    · cases h
  · intro sid h
    simp only [step, stepCleanupSeg] at h
    split at h
    · rename_i hg
      simp only [Bool.false_eq_true, if_false] at h
      cases h; exact ⟨rfl, hg.2.2.1⟩
    · cases h

/-! ## recovered from -/

/-- after the failure report the persister can grab again at once (the retry is enabled; that it is also TAKEN is a fairness
assumption on the Go scheduler — the loop is at a `select` whose notify channel is closed) -/
theorem retry_enabled {n : Nat} (hn : 1 ≤ n) {s s' : State} (hr : XReachable n s)
    (h : step s (.persistFail false) = some s') : ∃ s'', step s' .persistGrab = some s'' := by
  have hI := inv_xreachable hn hr
  obtain ⟨j, hj, hp, _⟩ := fault_surfaced h
  have ho : s.isOpen = true := by
    cases hopen : s.isOpen with
    | true => rfl
    | false => have := (hI.closed_idle hopen).1; rw [hj] at this; cases this
  have he := hI.e1 j hj
  have hs' : s'.isOpen = true ∧ s'.job = none ∧ s'.lastPersisted < s'.rootEpoch := by
    simp only [step, stepPersistFail, hj, hp, if_true] at h
    cases h
    exact ⟨ho, rfl, Nat.lt_of_lt_of_le he.1 he.2⟩
  simp only [step, stepGrab, if_pos hs']
  exact ⟨_, rfl⟩

/-- **retry_covers (the grab)**: whatever happens after a failed persist — more batches, merges, more failures — as long as the
same writer runs, the next grab takes a root whose content is at least everything applied when the failure was reported:
in particular every batch whose own call returned the error -/
theorem retry_covers {n : Nat} (hn : 1 ≤ n) {s0 s1 s2 s3 : State} {closed : Bool} (hr : XReachable n s0)
    (hfail : step s0 (.persistFail closed) = some s1) (hl : SameLifetime s1 s2) (hg : step s2 .persistGrab = some s3) :
    ∃ j, s3.job = some j ∧ s0.applied ≤ j.k ∧ ∀ c ∈ (observe s0 (.persistFail closed)).errTo, c ≤ j.k := by
  have hI0 := inv_xreachable hn hr
  obtain ⟨j0, hj0, hp0, _⟩ := fault_surfaced hfail
  have ho0 : s0.isOpen = true := by
    cases hopen : s0.isOpen with
    | true => rfl
    | false => have := (hI0.closed_idle hopen).1; rw [hj0] at this; cases this
  have hI1 : Inv s1 := inv_step hI0 rfl hfail
  have h01 : s1.applied = s0.applied ∧ s1.isOpen = s0.isOpen := by
    simp only [step, stepPersistFail, hj0, hp0, if_true] at hfail
    cases hfail; exact ⟨rfl, rfl⟩
  obtain ⟨hmono, _, _⟩ := sameLifetime_applied hI1 (by rw [h01.2]; exact ho0) hl
  simp only [step, stepGrab] at hg
  split at hg
  · cases hg
    refine ⟨_, rfl, by simp only []; omega, ?_⟩
    intro c hc
    have := nacked_le_applied hn hr hfail c hc
    simp only []; omega
  · cases hg

/-- **retry_covers (the acknowledgement)**: when the persister releases acknowledgements for a job of content `k`, content `k`
— every batch applied when that root was grabbed, whether its own call had returned nil, an error, or nothing yet — is
recovered from every crash image of every later state, through any further failures, crashes and reopens -/
theorem acked_content_stays_durable {n : Nat} (hn : 1 ≤ n) {s s' s'' : State} (hr : XReachable n s) {j : Job}
    (hj : s.job = some j) (h : step s .ack = some s') (hl : XLater s' s'') {d' : Disk} (hci : CrashImage s''.disk d') :
    ∃ g, d'.recover = some g ∧ j.k ≤ g.k := by
  have hI := inv_xreachable hn hr
  have hr' : XReachable n s' := XReachable.step (.base .ack) hr rfl h
  -- the job's snapshot file is complete on disk when the acknowledgement is released
  have hfile : ({ epoch := j.epoch, k := j.k, segs := j.segs, complete := true } : SnapFile) ∈ s'.disk.snaps := by
    simp only [step, stepAck, hj] at h
    split at h
    · rename_i hp
      cases h
      exact hI.jf j hj (Or.inr hp)
    · cases h
  obtain ⟨g0, hg0, hg0c, _, hk0⟩ := content_stable_xlater hn hr' hl hfile rfl
  have hI'' := inv_xreachable hn (xreachable_xlater hr' hl)
  obtain ⟨hfwd, hback⟩ := crashImage_loadable hci
  obtain ⟨hg0', hg0l'⟩ := hfwd g0 hg0 (loadable_of_complete hI'' hg0 hg0c)
  obtain ⟨g, hg, hgm, hgl, hmax⟩ := recover_spec hg0' hg0l'
  obtain ⟨hgd, hgld⟩ := hback g hgm hgl
  refine ⟨g, hg, ?_⟩
  have := hI''.mo g0 hg0 g hgd hg0c (complete_of_loadable hgld) (hmax g0 hg0' hg0l')
  simp only [] at hk0
  omega

/-- **parked callbacks**: on the successful persist that follows failures the callbacks parked in `unpersistedCallbacks` are
invoked with nil BEFORE the newer ones, in order, `unpersistedCallbacks` is emptied (each is invoked once), and every batch
among them is `≤` the content that has just become durable -/
theorem parked_callbacks_first_once {n : Nat} (hn : 1 ≤ n) {s s' : State} (hr : XReachable n s) {j : Job}
    (hj : s.job = some j) (h : step s .ack = some s') :
    (observe s .ack).cbNil = s.unpCbs ++ j.cbs ∧ (observe s .ack).ackNil = j.acks ∧ (observe s .ack).errTo = [] ∧
    s'.unpCbs = [] ∧ (∀ c ∈ s.unpCbs ++ j.cbs, c ∈ s'.acked) ∧ (∀ c ∈ s.unpCbs ++ j.cbs, c ≤ j.k) := by
  have hI := inv_xreachable hn hr
  simp only [step, stepAck, hj] at h
  split at h
  · rename_i hp
    cases h
    refine ⟨by simp [observe, hj, hp], by simp [observe, hj, hp], by simp [observe, hj, hp], rfl, ?_, ?_⟩
    · intro c hc
      simp only [List.mem_append] at hc ⊢
      rcases hc with hc | hc
      · exact Or.inr (Or.inr (Or.inl hc))
      · exact Or.inr (Or.inr (Or.inr hc))
    · intro c hc
      rcases List.mem_append.mp hc with hc | hc
      · exact (hI.kj j hj).2.2 c (Or.inl hc)
      · exact (hI.kj j hj).2.2 c (Or.inr (Or.inr hc))
  · cases h

/-! ## a Load fault while OpenWriter runs (not an event of the protocol above: a finding) -/

/-- two snapshots (epochs 1 and 5: batches 1 and 2, acknowledged), retention 2; the writer is closed and opened again while
`Load` fails ONCE, on the newest snapshot file: `loadSnapshots` logs it and continues — the writer silently runs on epoch 1
(content 1). Two more batches are applied under the epochs 2 and 3, persisted (snapshot epoch 3), acknowledged. The untouched
file of epoch 5 is still there. -/
def loadFaultTrace : List Event :=
  [.openWriter,
   .intro 1 (some 2) [] true false, .persistGrab, .segBegin 2, .segEnd 2 true true, .introPersist 2, .snapBegin, .snapEnd true true, .commit, .ack, .ackObs 1,
   .intro 5 (some 3) [] true false, .persistGrab, .segBegin 3, .segEnd 3 true true, .introPersist 6, .snapBegin, .snapEnd true true, .commit, .ack, .ackObs 2,
   .closeWriter]

def afterLoadFault : List Event :=
  [.intro 2 (some 5) [] false true, .intro 3 (some 6) [] false true, .persistGrab, .segBegin 5, .segEnd 5 true true,
   .segBegin 6, .segEnd 6 true true, .introPersist 4, .snapBegin, .snapEnd true true, .commit, .ack, .ackObs 3]

/-- **a transient Load error on the newest snapshot while OpenWriter runs loses an acknowledged batch**: after the faulted
open the writer acknowledges batches persisted under an epoch BELOW the skipped file's; every later recovery (`OpenReader`,
the next `OpenWriter`) returns the skipped file — the newest epoch — whose content lacks them. The error was only logged. -/
theorem load_fault_at_open_loses_acked :
    (((run (init 2) loadFaultTrace).bind (reopenSkip [5])).bind fun s => run s afterLoadFault).map
      (fun s => (s.applied, s.acked, s.disk.recoverK, s.disk.snaps.map (·.epoch))) =
    some (3, [1, 2, 2, 3], some 2, [3, 5, 1]) := by decide

/-- the same history without the fault: the newest snapshot is loaded and nothing acknowledged is ever lost (C02) -/
example : (((run (init 2) loadFaultTrace).bind (reopenSkip [])).map fun s => (s.applied, s.rootEpoch, s.nextEpoch)) = some (2, 5, 6) := by decide

/-! ## Gen obligations: what /repo's CURRENT source says (regenerated into `BlugeGen.C03`, `BlugeGen.C02`) -/

/-- `stepPersistFail` / `observe (.persistFail …)`: after a failed `persistSnapshot` the loop — having sent the error to every
grabbed channel (C02 `errSentOnFailure`) — leaves on ErrClosed, otherwise parks the callbacks, fires the asynchronous error and
retries -/
theorem gen_persist_error_branch :
    BlugeGen.C03.persistErrBranch = ["if-closed:break OUTER", "park-callbacks", "fire-async-error", "continue OUTER"] ∧
    BlugeGen.C02.errSentOnFailure = true ∧ BlugeGen.C02.cbAfterErrBranch = true ∧ BlugeGen.C02.lastPersistedOnOk = true := by decide

/-- `snapEnd false` / `mergeSegEnd false` / `fault .persister` make the job `failed` (`persist_failure_fails_job`) ALSO on the
in-memory-merge path: `persistSnapshot` tests the error of `persistSnapshotMaybeMerge` BEFORE (independently of) its "persisted"
flag; `persistSnapshotMaybeMerge` says "persisted" only together with a nil error, and the error of writing the merged
equivalent snapshot (`persistSnapshotDirect(equiv)`) is tested and returned as `(false, err)` -/
theorem gen_maybe_merge_error_not_dropped :
    BlugeGen.C03.maybeMergeHandling = ["if-err:return err", "if-done:return nil"] ∧
    BlugeGen.C03.maybeMergeTrueReturns = ["true, nil"] ∧ BlugeGen.C03.maybeMergeEquivErrReturned = true := by decide

/-- `reopen` sets `sidFloor := disk.maxSeg + 2` from the listing of the segment files: when that listing fails OpenWriter
returns the error (the `if err != nil { …; return }` directly follows the call, before `err` is assigned again) instead of
going on with an empty listing -/
theorem gen_open_list_segments_error_returned : BlugeGen.C03.listSegmentsErrReturned = true := by decide

/-- `stepAck` / `observe .ack`: on success the parked callbacks are put in front of the grabbed ones, the parked list is
reset, and all are invoked -/
theorem gen_parked_first :
    BlugeGen.C03.okPrependsParked = true ∧ BlugeGen.C03.okResetsParked = true ∧ BlugeGen.C03.okInvokesAll = true := by decide

/-- `fault .merger`: the merger's error branch fires the asynchronous error (unless ErrClosed) and retries -/
theorem gen_merge_error_branch :
    BlugeGen.C03.mergeErrBranch = ["if-closed:break OUTER", "fire-async-error", "continue OUTER"] := by decide

/-- `cleanupRemove… false`: an item whose Remove failed stays listed -/
theorem gen_cleanup_keeps_failed : BlugeGen.C03.cleanupOnRemoveErr = ["kept-in-remaining", "continue-before-delete"] := by decide

/-! ## non-vacuity: a concrete faulted run -/

/-- batch 1 (safe): its segment write fails; the error is reported; batch 2 arrives; the retry grabs both, persists, acknowledges -/
def faulted : List Event :=
  [.openWriter, .intro 1 (some 2) [] true true, .persistGrab, .segBegin 2, .segEnd 2 false true, .persistFail false,
   .intro 2 (some 3) [] true false, .persistGrab, .segBegin 2, .segEnd 2 true true, .segBegin 3, .segEnd 3 true true, .introPersist 3,
   .snapBegin, .snapEnd true true, .commit, .ack]

example : (run (init 1) faulted).map (fun s => (s.acked, s.disk.recoverK, s.unpCbs)) = some ([2, 1], some 2, []) := by decide

example : ((run (init 1) (faulted.take 5)).map fun s => (observe s (.persistFail false)).errTo) = some [1] := by decide

end Bluge.C14

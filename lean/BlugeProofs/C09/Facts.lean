/-! # C09 — statement facts `go/extract/c09.go` must find in /repo beside the translated comparator

`BlugeGen.C09.stmts` / `.derived` are regenerated from /repo's working tree on every run of `./check C09`;
`BlugeProofs.C09.gen_sort_value_and_comparator_uses` obliges them to be the tables below. They pin what the translation
of `SortOrder.Compare` / `sortFirstLast.Value` / `SortOrder.Reverse` (bridged in `BlugeProofs/C09/Bridge.lean`) does not
cover: how a sort value is produced and which test every caller applies to the comparator's `int`. Each entry names
the line of `Bluge/TopN.lean` it justifies. -/
namespace Bluge.C09

def expectedStmts : List (String × String) := [
  -- search/sort.go SortBy  ==>  Bluge/C09/GoBind.lean `FirstLast.of` (the replacement source reads THIS Sort's desc / missingFirst),
  --                              TopN.lean:85 `keyOf s v = v.getD (missingValue s)`
  ("SortBy", "rv := &Sort{}"),
  ("SortBy", "rv.source = MissingTextValue(source, &sortFirstLast{desc: &rv.desc, first: &rv.missingFirst})"),
  ("SortBy", "return rv"),
  -- TopN.lean:30 `SortKey`: the two flags, set by Desc() / MissingFirst()
  ("Sort.Desc", "s.desc = true"),
  ("Sort.Desc", "return s"),
  ("Sort.MissingFirst", "s.missingFirst = true"),
  ("Sort.MissingFirst", "return s"),
  ("Sort.Value", "return s.source.Value(match)"),
  -- search/source.go  ==>  TopN.lean:85 `keyOf`: the primary value, or the replacement when it is nil
  ("MissingTextValue", "return &MissingTextValueSource{primary: primary, replacement: replacement}"),
  ("MissingTextValueSource.Value", "primaryValue := f.primary.Value(match)"),
  ("MissingTextValueSource.Value", "if primaryValue == nil {"),
  ("MissingTextValueSource.Value", "return f.replacement.Value(match)"),
  ("MissingTextValueSource.Value", "}"),
  ("MissingTextValueSource.Value", "return primaryValue"),
  -- search/sort.go Compute  ==>  TopN.lean:39 `Match.keys`: one byte string per sort key, in the order of the sort keys
  ("SortOrder.Compute", "for _, sort := range o {"),
  ("SortOrder.Compute", "sortVal := sort.Value(match)"),
  ("SortOrder.Compute", "sortValCopy := make([]byte, len(sortVal))"),
  ("SortOrder.Compute", "copy(sortValCopy, sortVal)"),
  ("SortOrder.Compute", "match.SortValue = append(match.SortValue, sortValCopy)"),
  ("SortOrder.Compute", "}")
]

def expectedDerived : List (String × String × String) := [
  -- TopN.lean:70 `reverseOrder so = so.map SortKey.reverse`, :335 `reverseInPlace`: every element is flipped
  ("SortOrder.Reverse", "loop", "for _, oi := range o (every element, no index, field assignments only)"),
  -- TopN.lean:150 `maxOf` / :158 `heapPop`: Less(i,j) ⇔ Compare(i,j) > 0, the heap's root is the LARGEST match
  ("heap.go Less", "so := c.compare(c.heap[i], c.heap[j])", "return -so < 0"),
  -- TopN.lean:141 `insRev`: `if cmpMatch so d x ≠ .lt then stop` — walking from the end, stop at the first element not above doc (>= 0)
  ("slice.go add", "cmp := c.compare(doc, c.slice[i-1])", "if cmp >= 0"),
  -- TopN.lean:179 both stores compare with the collector's sort order, arguments in the same order
  ("topn.go newTopNCollector", "(returned)", "return hc.sort.Compare(i, j)"),
  ("topn.go newTopNCollector", "(returned)", "return hc.sort.Compare(i, j)"),
  -- TopN.lean:231 `Coll.afterSkips`: `cmpMatch c.so d (Match.mk d.hitNumber a) != .gt` (<= 0, hit number copied first)
  ("topn.go collectSingle", "(in the condition; the statement before it: hc.searchAfter.HitNumber = d.HitNumber)", "if hc.sort.Compare(d, hc.searchAfter) <= 0"),
  -- TopN.lean:238 `Coll.shortcuts`: `cmpMatch c.so d l != .lt` (>= 0)
  ("topn.go collectSingle", "cmp := hc.sort.Compare(d, hc.lowestMatchOutsideResults)", "if cmp >= 0"),
  -- TopN.lean:254 `collectSingleB`: `if cmpMatch c.so removed l = .lt` (< 0) the removed match becomes the lowest outside
  ("topn.go collectSingle", "cmp := hc.sort.Compare(removed, hc.lowestMatchOutsideResults)", "if cmp < 0")
]

end Bluge.C09

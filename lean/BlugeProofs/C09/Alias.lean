import BlugeProofs.C09.Paging
/-! Missing-value placement and the `[]*Sort` aliasing model (helper lemmas for C09). -/
namespace Bluge.TopN
open List

theorem filter_passes_none (so : SortOrder) (ms : List Match) : ms.filter (passes so none) = ms :=
  filter_eq_self.mpr (fun _ _ => rfl)

/-- `lowTerm`/`highTerm` place a missing value first or last as requested, for every combination of
`desc` and `missingFirst`, among values strictly between them bytewise (the exact domain: an empty
term and `[0x00]` do not sort after `lowTerm`; a term starting with ten `0xFF` bytes does not sort
before `highTerm`). -/
theorem missing_first_last_aux (s : SortKey) (v : Bytes) (hlo : bytesCmp lowTerm v = .lt) (hhi : bytesCmp v highTerm = .lt) :
    cmpKeys [s] [missingValue s] [v] = (if s.missingFirst then .lt else .gt) := by
  have hlo' : bytesCmp v lowTerm = .gt := by rw [bytesCmp_swap, hlo]; rfl
  have hhi' : bytesCmp highTerm v = .gt := by rw [bytesCmp_swap, hhi]; rfl
  obtain ⟨desc, first⟩ := s
  cases desc <;> cases first <;>
    simp [cmpKeys, missingValue, hlo, hhi', Ordering.swap]

/-- the domain of `missing_first_last` contains every non-empty term other than `[0x00]` that does not
start with ten `0xFF` bytes (in particular every UTF-8 text and every prefix-coded number) -/
theorem missing_domain_aux (v : Bytes) (h1 : v ≠ []) (h2 : v ≠ [0x00#8]) (b : Byte) (pre post : Bytes)
    (h3 : v = pre ++ b :: post) (hpre : pre.length < 10) (hb : b ≠ 0xff#8) :
    bytesCmp lowTerm v = .lt ∧ bytesCmp v highTerm = .lt := by
  constructor
  · cases v with
    | nil => exact absurd rfl h1
    | cons a t =>
      unfold lowTerm bytesCmp
      by_cases ha : 0x00#8 < a
      · simp [ha]
      · have ha0 : a = 0x00#8 := by
          rw [BitVec.lt_def] at ha; apply BitVec.eq_of_toNat_eq; simp at ha ⊢; omega
        subst ha0
        cases t with
        | nil => exact absurd rfl h2
        | cons _ _ => simp [bytesCmp]
  · subst h3
    have key : ∀ (k : Nat) (pre : Bytes), pre.length < k → bytesCmp (pre ++ b :: post) (List.replicate k 0xff#8) = .lt := by
      intro k
      induction k with
      | zero => intro pre h; omega
      | succ k ih =>
        intro pre h
        have hlt : ∀ x : Byte, x ≠ 0xff#8 → x < 0xff#8 := by
          intro x hx
          rw [BitVec.lt_def]
          have : x.toNat ≠ 255 := fun e => hx (BitVec.eq_of_toNat_eq (by simpa using e))
          have := x.isLt
          simp; omega
        cases pre with
        | nil =>
          show bytesCmp (b :: post) (0xff#8 :: List.replicate k 0xff#8) = .lt
          unfold bytesCmp; simp [hlt b hb]
        | cons a pre =>
          show bytesCmp (a :: (pre ++ b :: post)) (0xff#8 :: List.replicate k 0xff#8) = .lt
          unfold bytesCmp
          by_cases ha : a = 0xff#8
          · subst ha; simp; exact ih pre (by simp at h; omega)
          · simp [hlt a ha]
    exact key 10 pre hpre

theorem reverseInPlace_take (m : Nat) : ∀ (ps : SortPtrs) (h : SortHeap), (∀ p ∈ ps, m ≤ p) →
    (reverseInPlace h ps).take m = h.take m
  | [], _, _ => rfl
  | p :: ps, h, hp => by
    unfold reverseInPlace
    rw [foldl_cons]
    have ih := reverseInPlace_take m ps (if p < h.length then h.set p (h.getD p ⟨false, false⟩).reverse else h)
      (fun q hq => hp q (mem_cons_of_mem _ hq))
    unfold reverseInPlace at ih
    rw [ih]
    by_cases hlt : p < h.length
    · rw [if_pos hlt, take_set_of_le (hp p mem_cons_self)]
    · rw [if_neg hlt]

/-- the replacement bytes realise the PROPERTY-level order of one key whenever every present value is in range -/
theorem cmpKeys_eq_cmpProp1_aux (s : SortKey) (a b : Option Bytes)
    (ha : ∀ v, a = some v → keyInRange v = true) (hb : ∀ v, b = some v → keyInRange v = true) :
    cmpKeys [s] [keyOf s a] [keyOf s b] = cmpProp1 s a b := by
  have single : ∀ x y : Bytes, cmpKeys [s] [x] [y] =
      if bytesCmp x y = .eq then .eq else if s.desc then (bytesCmp x y).swap else bytesCmp x y := by
    intro x y; rw [cmpKeys_cons]; rfl
  have rng : ∀ v, keyInRange v = true → bytesCmp lowTerm v = .lt ∧ bytesCmp v highTerm = .lt := by
    intro v h; unfold keyInRange at h; simpa using h
  cases a with
  | none =>
    cases b with
    | none => exact cmpKeys_refl _ _
    | some v =>
      have ⟨h1, h2⟩ := rng v (hb v rfl)
      exact missing_first_last_aux s v h1 h2
  | some u =>
    cases b with
    | none =>
      have ⟨h1, h2⟩ := rng u (ha u rfl)
      have := missing_first_last_aux s u h1 h2
      show cmpKeys [s] [u] [missingValue s] = _
      rw [cmpKeys_swap [s] [missingValue s] [u], this]
      show _ = if s.missingFirst then Ordering.gt else Ordering.lt
      cases s.missingFirst <;> rfl
    | some v =>
      show cmpKeys [s] [u] [v] = _
      rw [single]
      show _ = if s.desc then (bytesCmp u v).swap else bytesCmp u v
      by_cases h : bytesCmp u v = .eq
      · rw [if_pos h, h]; cases s.desc <;> rfl
      · rw [if_neg h]

/-- with a deep `Copy`, `Collector()` is pure -/
theorem collectorPure_deep : CollectorPure true := by
  intro h r _
  unfold buildCollector
  cases r.after with
  | none => simp
  | some a =>
    by_cases hr : r.reversed
    · simp only [hr, if_true, copyOrder]
      rw [reverseInPlace_take h.length _ _ (by
        intro p hp
        rcases mem_map.mp hp with ⟨i, _, rfl⟩
        omega)]
      exact take_left
    · simp [hr]

end Bluge.TopN

import BlugeProofs.C09.Sorting
/-! The two collector stores implement "keep the `size` smallest, return the evicted one"
(helper lemmas for C09). -/
namespace Bluge.TopN
open List

/-! ### insertion into a split list -/

theorem insert_cons_pos {so : SortOrder} {d x : Match} (xs : List Match) (h : lt so d x) :
    insert so d (x :: xs) = d :: x :: xs := by rw [insert, if_pos h]

theorem insert_cons_neg {so : SortOrder} {d x : Match} (xs : List Match) (h : ¬ lt so d x) :
    insert so d (x :: xs) = x :: insert so d xs := by rw [insert, if_neg h]

theorem insert_append_of_ge {so : SortOrder} {d : Match} : ∀ {A : List Match} (R : List Match),
    (∀ a ∈ A, ¬ lt so d a) → insert so d (A ++ R) = A ++ insert so d R
  | [], _, _ => rfl
  | a :: A, R, h => by
    show insert so d (a :: (A ++ R)) = a :: (A ++ insert so d R)
    rw [insert_cons_neg _ (h a mem_cons_self), insert_append_of_ge R (fun x hx => h x (mem_cons_of_mem _ hx))]

theorem insert_append_of_lt {so : SortOrder} {d l : Match} (B : List Match) (hl : lt so d l) :
    ∀ A : List Match, insert so d (A ++ l :: B) = insert so d A ++ l :: B
  | [] => by show insert so d (l :: B) = [d] ++ l :: B; rw [insert_cons_pos _ hl]; rfl
  | a :: A => by
    show insert so d (a :: (A ++ l :: B)) = insert so d (a :: A) ++ l :: B
    by_cases h : lt so d a
    · rw [insert_cons_pos _ h, insert_cons_pos _ h]; rfl
    · rw [insert_cons_neg _ h, insert_cons_neg _ h, insert_append_of_lt B hl A]; rfl

/-! ### the slice store -/

/-- descending -/
abbrev SortedRev (so : SortOrder) (l : List Match) : Prop := l.Pairwise (fun a b => lt so b a)

theorem insRev_perm (so : SortOrder) (d : Match) : ∀ r : List Match, insRev so d r ~ d :: r
  | [] => Perm.refl _
  | x :: r => by
    unfold insRev
    by_cases h : cmpMatch so d x ≠ .lt
    · rw [if_pos h]
    · rw [if_neg h]; exact ((insRev_perm so d r).cons x).trans (Perm.swap d x r)

theorem insRev_sorted {so : SortOrder} {d : Match} : ∀ {r : List Match}, SortedRev so r → Fresh d r →
    SortedRev so (insRev so d r)
  | [], _, _ => by simp [insRev]
  | x :: r, hs, hf => by
    have ⟨hx, hr⟩ := pairwise_cons.mp hs
    unfold insRev
    by_cases h : cmpMatch so d x ≠ .lt
    · rw [if_pos h]
      have hxd : lt so x d := (lt_total (hf x mem_cons_self)).resolve_right h
      refine pairwise_cons.mpr ⟨?_, hs⟩
      intro y hy
      rcases mem_cons.mp hy with rfl | hy
      · exact hxd
      · exact lt_trans (hx y hy) hxd
    · rw [if_neg h]
      have hdx : lt so d x := Classical.not_not.mp h
      refine pairwise_cons.mpr ⟨?_, insRev_sorted hr (fun y hy => hf y (mem_cons_of_mem _ hy))⟩
      intro y hy
      rcases mem_cons.mp ((insRev_perm so d r).mem_iff.mp hy) with rfl | hy'
      · exact hdx
      · exact hx y hy'

/-- on a sorted slice the back-scanning `add` is ordered insertion -/
theorem sliceAdd_eq_insert {so : SortOrder} {d : Match} {s : List Match} (hs : Sorted so s) (hf : Fresh d s) :
    sliceAdd so d s = insert so d s := by
  unfold sliceAdd
  have h1 : SortedRev so s.reverse := pairwise_reverse.mpr hs
  have h2 : Fresh d s.reverse := fun x hx => hf x (mem_reverse.mp hx)
  have h3 := insRev_sorted h1 h2
  have h4 : Sorted so (insRev so d s.reverse).reverse := pairwise_reverse.mpr h3
  refine sorted_perm_unique h4 (insert_sorted hs hf) ?_
  exact (reverse_perm _).trans ((insRev_perm so d _).trans
    (((reverse_perm s).cons d).trans (insert_perm so d s).symm))

/-! ### the heap store (a priority queue) -/

theorem maxOf_spec {so : SortOrder} : ∀ {h : List Match}, HitsDistinct h → h ≠ [] →
    ∃ m, maxOf so h = some m ∧ m ∈ h ∧ ∀ x ∈ h, x ≠ m → lt so x m
  | [], _, hne => absurd rfl hne
  | x :: xs, hd, _ => by
    have ⟨hf, hd'⟩ := hitsDistinct_cons.mp hd
    unfold maxOf
    by_cases hx : xs = []
    · subst hx
      refine ⟨x, by simp [maxOf], mem_cons_self, ?_⟩
      intro y hy hne
      rcases mem_cons.mp hy with rfl | hy
      · exact absurd rfl hne
      · cases hy
    · obtain ⟨m, hm, hmem, hmax⟩ := maxOf_spec hd' hx
      rw [hm]
      by_cases hg : cmpMatch so x m = .gt
      · refine ⟨x, by simp [hg], mem_cons_self, ?_⟩
        intro y hy hne
        rcases mem_cons.mp hy with rfl | hy
        · exact absurd rfl hne
        · by_cases e : y = m
          · subst e; exact gt_iff_lt.mp hg
          · exact lt_trans (hmax y hy e) (gt_iff_lt.mp hg)
      · refine ⟨m, by simp [hg], mem_cons_of_mem _ hmem, ?_⟩
        intro y hy hne
        rcases mem_cons.mp hy with rfl | hy
        · have hne' : y.hitNumber ≠ m.hitNumber := fun e => hf m hmem e.symm
          rcases lt_total (so := so) hne' with h | h
          · exact h
          · exact absurd (gt_iff_lt.mpr h) hg
        · exact hmax y hy hne

/-- popping the root removes the last element of the ranking of the heap's content -/
theorem heapPop_spec {so : SortOrder} {h : List Match} (hd : HitsDistinct h) (hne : h ≠ []) :
    ∃ m h', heapPop so h = some (m, h') ∧ h' = h.erase m ∧ m ∈ h ∧ sort so h = sort so h' ++ [m] := by
  obtain ⟨m, hm, hmem, hmax⟩ := maxOf_spec (so := so) hd hne
  refine ⟨m, h.erase m, by simp [heapPop, hm], rfl, hmem, ?_⟩
  have hp : h ~ m :: h.erase m := perm_cons_erase hmem
  have hd2 : HitsDistinct (m :: h.erase m) := hd.perm hp
  have ⟨hf, hd3⟩ := hitsDistinct_cons.mp hd2
  refine sorted_perm_unique (sort_sorted so hd) ?_ ?_
  · refine pairwise_append.mpr ⟨sort_sorted so hd3, by simp, ?_⟩
    intro a ha b hb
    rcases mem_cons.mp hb with rfl | hb
    · have ha' : a ∈ h.erase b := mem_sort.mp ha
      have hne : a ≠ b := fun e => hf a ha' (by rw [e])
      exact hmax a ((erase_sublist).subset ha') hne
    · cases hb
  · exact (sort_perm so h).trans (hp.trans ((perm_append_singleton m _).symm.trans
      ((sort_perm so _).symm.append_right [m])))

theorem popN_spec {so : SortOrder} : ∀ (j : Nat) {h : List Match}, HitsDistinct h → j ≤ h.length →
    popN so j h = (sort so h).reverse.take j
  | 0, _, _, _ => by simp [popN]
  | j + 1, h, hd, hj => by
    have hne : h ≠ [] := by intro e; subst e; simp at hj
    obtain ⟨m, h', hpop, he, hmem, hs⟩ := heapPop_spec (so := so) hd hne
    have hp : h ~ m :: h' := he ▸ perm_cons_erase hmem
    have hd' : HitsDistinct h' := (hitsDistinct_cons.mp (hd.perm hp)).2
    have hl : h.length = h'.length + 1 := hp.length_eq
    unfold popN
    rw [hpop, hs]
    simp only [reverse_append, reverse_cons, reverse_nil, nil_append, singleton_append, take_succ_cons]
    rw [popN_spec j hd' (by omega)]

/-! ### both stores against one specification -/

/-- what a store holds, in ranking order -/
def Store.view (so : SortOrder) (st : Store) : List Match := sort so st.items

/-- distinct hit numbers; the slice store is kept sorted -/
def Store.WF (so : SortOrder) (st : Store) : Prop :=
  HitsDistinct st.items ∧ (st.kind = .slice → Sorted so st.items)

theorem Store.view_slice {so : SortOrder} {st : Store} (h : st.WF so) (hk : st.kind = .slice) :
    st.view so = st.items := sort_eq_of_sorted (h.2 hk) h.1

theorem dropLast_sublist' (l : List Match) : l.dropLast <+ l := by
  rw [dropLast_eq_take]; exact take_sublist _ _

/-- `store_spec`: `AddNotExceedingSize(d, k)` on either store = insert `d` into the ranked content and,
when that makes more than `k`, cut off and return the last one -/
theorem Store.add_spec {so : SortOrder} {st : Store} {d : Match} (k : Nat) (hwf : st.WF so) (hf : Fresh d st.items) :
    (st.addNotExceedingSize so d k).1.WF so ∧ (st.addNotExceedingSize so d k).1.kind = st.kind ∧
    (∀ x ∈ (st.addNotExceedingSize so d k).1.items, x = d ∨ x ∈ st.items) ∧
    (if (insert so d (st.view so)).length > k
      then (st.addNotExceedingSize so d k).1.view so = (insert so d (st.view so)).dropLast ∧
           (st.addNotExceedingSize so d k).2 = (insert so d (st.view so)).getLast?
      else (st.addNotExceedingSize so d k).1.view so = insert so d (st.view so) ∧
           (st.addNotExceedingSize so d k).2 = none) := by
  obtain ⟨kind, items⟩ := st
  have hdd : HitsDistinct (d :: items) := hitsDistinct_cons.mpr ⟨hf, hwf.1⟩
  cases kind
  case slice =>
    have hv : Store.view so ⟨.slice, items⟩ = items := Store.view_slice hwf rfl
    have hsorted : Sorted so items := hwf.2 rfl
    have hadd := sliceAdd_eq_insert hsorted hf
    have hins_sorted : Sorted so (insert so d items) := insert_sorted hsorted hf
    have hins_dist : HitsDistinct (insert so d items) := hdd.perm (insert_perm so d items).symm
    unfold Store.addNotExceedingSize
    simp only [hadd, hv]
    by_cases hlen : (insert so d items).length > k
    · rw [if_pos hlen, if_pos hlen]
      have hsub := dropLast_sublist' (insert so d items)
      have hwf' : Store.WF so ⟨.slice, (insert so d items).dropLast⟩ :=
        ⟨hins_dist.sublist hsub, fun _ => hins_sorted.sublist hsub⟩
      refine ⟨hwf', rfl, ?_, ?_, rfl⟩
      · intro x hx; exact mem_insert.mp (hsub.subset hx)
      · exact Store.view_slice hwf' rfl
    · rw [if_neg hlen, if_neg hlen]
      have hwf' : Store.WF so ⟨.slice, insert so d items⟩ := ⟨hins_dist, fun _ => hins_sorted⟩
      refine ⟨hwf', rfl, ?_, ?_, rfl⟩
      · intro x hx; exact mem_insert.mp hx
      · exact Store.view_slice hwf' rfl
  case heap =>
    unfold Store.addNotExceedingSize
    have hlen_eq : (insert so d (Store.view so ⟨.heap, items⟩)).length = (d :: items).length := by
      rw [length_insert, Store.view, length_sort]; rfl
    have hview : sort so (d :: items) = insert so d (Store.view so ⟨.heap, items⟩) := rfl
    simp only
    by_cases hlen : (d :: items).length > k
    · rw [if_pos hlen, if_pos (by rw [hlen_eq]; exact hlen)]
      obtain ⟨m, h', hpop, he, hmem, hs⟩ := heapPop_spec (so := so) hdd (by simp)
      rw [hpop]
      have hsub : h' <+ d :: items := he ▸ erase_sublist
      have hwf' : Store.WF so ⟨.heap, h'⟩ := ⟨hdd.sublist hsub, fun e => by cases e⟩
      refine ⟨hwf', rfl, ?_, ?_, ?_⟩
      · intro x hx; exact mem_cons.mp (hsub.subset hx)
      · show sort so h' = _
        rw [← hview, hs, dropLast_concat]
      · show some m = _
        rw [← hview, hs, getLast?_concat]
    · rw [if_neg hlen, if_neg (by rw [hlen_eq]; exact hlen)]
      have hwf' : Store.WF so ⟨.heap, d :: items⟩ := ⟨hdd, fun e => by cases e⟩
      exact ⟨hwf', rfl, fun x hx => mem_cons.mp hx, rfl, rfl⟩

/-- `Final(skip)` on either store = the ranked content without its first `skip` -/
theorem Store.final_spec {so : SortOrder} {st : Store} (skip : Nat) (hwf : st.WF so) :
    st.final so skip = (st.view so).drop skip := by
  obtain ⟨kind, items⟩ := st
  unfold Store.final
  cases kind
  case slice => simp only; rw [Store.view_slice hwf rfl]
  case heap =>
    have hd : HitsDistinct items := hwf.1
    show (popN so (items.length - skip) items).reverse = (sort so items).drop skip
    rw [popN_spec _ hd (by omega), reverse_take, reverse_reverse, length_reverse, length_sort]
    by_cases h : skip ≤ items.length
    · congr 1; omega
    · rw [drop_eq_nil_of_le (by rw [length_sort]; omega), drop_eq_nil_of_le (by rw [length_sort]; omega)]

end Bluge.TopN

import BlugeProofs.C09.Stores
/-! The collector loop refines the slice specification (helper lemmas for C09).

Invariant after any prefix of the match sequence (`seen` = the matches that passed the search-after
filter so far):  `sort seen = (ranked store content) ++ rest`, the store holds at most `size+skip`
matches and exactly that many when `rest` is not empty, and `lowestMatchOutsideResults` is the head of
`rest`. -/
namespace Bluge.TopN
open List

/-- the search-after filter of `collectSingle` -/
def passes (so : SortOrder) (after : Option (List Bytes)) (d : Match) : Bool :=
  match after with
  | some a => decide (cmpKeys so d.keys a = .gt)
  | none => true

theorem cmpMatch_pseudo (so : SortOrder) (d : Match) (a : List Bytes) :
    cmpMatch so d (Match.mk d.hitNumber a) = cmpKeys so d.keys a := by
  unfold cmpMatch
  cases cmpKeys so d.keys a <;> simp

/-- the part of `collectSingle` after `AddNotExceedingSize` -/
def afterAdd (c : Coll) (r : Store × Option Match) : Coll :=
  match r.2 with
  | none => { c with store := r.1 }
  | some removed =>
    match c.lowest with
    | none => { c with store := r.1, lowest := some removed }
    | some l =>
      if cmpMatch c.so removed l = Ordering.lt then { c with store := r.1, lowest := some removed }
      else { c with store := r.1 }

theorem afterSkips_eq (c : Coll) (d : Match) : c.afterSkips d = !passes c.so c.searchAfter d := by
  unfold Coll.afterSkips passes
  cases c.searchAfter with
  | none => rfl
  | some a =>
    simp only [cmpMatch_pseudo]
    cases cmpKeys c.so d.keys a <;> rfl

theorem collectSingle_skip {c : Coll} {d : Match} (hp : passes c.so c.searchAfter d = false) :
    collectSingle c d = c := by
  unfold collectSingle collectSingleB
  rw [afterSkips_eq, hp]; rfl

theorem collectSingle_shortcut {c : Coll} {d l : Match} (hp : passes c.so c.searchAfter d = true)
    (hl : c.lowest = some l) (hc : cmpMatch c.so d l ≠ .lt) : collectSingle c d = c := by
  unfold collectSingle collectSingleB
  have h2 : c.shortcuts d = true := by
    unfold Coll.shortcuts; rw [hl]; simpa using hc
  rw [afterSkips_eq, hp, h2]; rfl

theorem collectSingle_add {c : Coll} {d : Match} (hp : passes c.so c.searchAfter d = true)
    (hl : ∀ l, c.lowest = some l → cmpMatch c.so d l = .lt) :
    collectSingle c d = afterAdd c (c.store.addNotExceedingSize c.so d (c.size + c.skip)) := by
  unfold collectSingle collectSingleB afterAdd
  have h2 : c.shortcuts d = false := by
    unfold Coll.shortcuts
    cases hlo : c.lowest with
    | none => rfl
    | some l => simp [hl l hlo]
  rw [afterSkips_eq, hp, h2]
  simp only [Bool.not_true, Bool.false_eq_true, if_false]
  cases (c.store.addNotExceedingSize c.so d (c.size + c.skip)).2 with
  | none => rfl
  | some m =>
    cases c.lowest with
    | none => rfl
    | some l => simp only []; split <;> rfl

/-- the collector's fixed parameters -/
def Frame (c c' : Coll) : Prop :=
  c'.so = c.so ∧ c'.size = c.size ∧ c'.skip = c.skip ∧ c'.searchAfter = c.searchAfter ∧
  c'.reverse = c.reverse

theorem Frame.refl (c : Coll) : Frame c c := ⟨rfl, rfl, rfl, rfl, rfl⟩

theorem Frame.trans {a b c : Coll} (h1 : Frame a b) (h2 : Frame b c) : Frame a c := by
  obtain ⟨a1, a2, a3, a4, a5⟩ := h1
  obtain ⟨b1, b2, b3, b4, b5⟩ := h2
  exact ⟨b1.trans a1, b2.trans a2, b3.trans a3, b4.trans a4, b5.trans a5⟩

theorem afterAdd_frame (c : Coll) (r : Store × Option Match) : Frame c (afterAdd c r) := by
  unfold afterAdd
  cases r.2 with
  | none => exact ⟨rfl, rfl, rfl, rfl, rfl⟩
  | some m =>
    cases c.lowest with
    | none => exact ⟨rfl, rfl, rfl, rfl, rfl⟩
    | some l => simp only []; split <;> exact ⟨rfl, rfl, rfl, rfl, rfl⟩

/-- the loop invariant -/
def Inv (c : Coll) (seen : List Match) : Prop :=
  HitsDistinct seen ∧ c.store.WF c.so ∧ (∀ x ∈ c.store.items, x ∈ seen) ∧
  ∃ rest, sort c.so seen = c.store.view c.so ++ rest ∧ c.lowest = rest.head? ∧
    (c.store.view c.so).length ≤ c.size + c.skip ∧
    (rest ≠ [] → (c.store.view c.so).length = c.size + c.skip)

theorem inv_new (kind : StoreKind) (size skip : Nat) (so : SortOrder) (rev : Bool) (after : Option (List Bytes)) :
    Inv (Coll.new kind size skip so rev after) [] := by
  unfold Inv
  refine ⟨Pairwise.nil, ⟨Pairwise.nil, fun _ => Pairwise.nil⟩, ?_, [], ?_, rfl, ?_, ?_⟩
  · intro x hx; simp [Coll.new] at hx
  · rfl
  · show (sort so []).length ≤ _; simp [sort]
  · intro h; exact absurd rfl h

/-- one match that passes the search-after filter -/
theorem collectSingle_pass {c : Coll} {d : Match} {seen : List Match} (hinv : Inv c seen) (hf : Fresh d seen)
    (hp : passes c.so c.searchAfter d = true) :
    Inv (collectSingle c d) (d :: seen) ∧ Frame c (collectSingle c d) := by
  obtain ⟨hd, hwf, hsub, rest, hsort, hlow, hlen, hfull⟩ := hinv
  have hfs : Fresh d c.store.items := fun x hx => hf x (hsub x hx)
  have hdd : HitsDistinct (d :: seen) := hitsDistinct_cons.mpr ⟨hf, hd⟩
  have hS : Sorted c.so (sort c.so seen) := sort_sorted _ hd
  have hfS : Fresh d (sort c.so seen) := fun x hx => hf x (mem_sort.mp hx)
  have hS' : Sorted c.so (insert c.so d (sort c.so seen)) := insert_sorted hS hfS
  have hsort' : sort c.so (d :: seen) = insert c.so d (sort c.so seen) := rfl
  -- shortcut?
  by_cases hsc : ∃ l, c.lowest = some l ∧ cmpMatch c.so d l ≠ .lt
  · obtain ⟨l, hl, hc⟩ := hsc
    rw [collectSingle_shortcut hp hl hc]
    refine ⟨⟨hdd, hwf, fun x hx => mem_cons_of_mem _ (hsub x hx), ?_⟩, Frame.refl c⟩
    -- rest = l :: B
    cases rest with
    | nil => rw [hl] at hlow; cases hlow
    | cons l' B =>
      have : l' = l := by rw [hl] at hlow; simp at hlow; exact hlow.symm
      subst this
      refine ⟨l' :: insert c.so d B, ?_, by rw [hl]; rfl, hlen, fun _ => hfull (by simp)⟩
      rw [hsort', hsort]
      have hge : ∀ a ∈ c.store.view c.so, ¬ lt c.so d a := by
        intro a ha hda
        rw [hsort] at hS
        have hal : lt c.so a l' := (pairwise_append.mp hS).2.2 a ha l' mem_cons_self
        exact hc (lt_trans hda hal)
      rw [insert_append_of_ge _ hge, insert_cons_neg _ hc]
  · -- the store is asked
    have hl : ∀ l, c.lowest = some l → cmpMatch c.so d l = .lt := by
      intro l h
      by_cases hc : cmpMatch c.so d l = .lt
      · exact hc
      · exact absurd ⟨l, h, hc⟩ hsc
    rw [collectSingle_add hp hl]
    refine ⟨?_, afterAdd_frame c _⟩
    obtain ⟨hwf', hkind, hmem, hspec⟩ := Store.add_spec (so := c.so) (c.size + c.skip) hwf hfs
    have hsub' : ∀ x ∈ (c.store.addNotExceedingSize c.so d (c.size + c.skip)).1.items, x ∈ d :: seen := by
      intro x hx
      rcases hmem x hx with rfl | h
      · exact mem_cons_self
      · exact mem_cons_of_mem _ (hsub x h)
    have hlenB := length_insert c.so d (c.store.view c.so)
    by_cases hbig : (insert c.so d (c.store.view c.so)).length > c.size + c.skip
    · -- one match is evicted
      rw [if_pos hbig] at hspec
      obtain ⟨hview, hrem⟩ := hspec
      have hVk : (c.store.view c.so).length = c.size + c.skip := by omega
      have hne := insert_ne_nil c.so d (c.store.view c.so)
      have hsplit : insert c.so d (c.store.view c.so) =
          (insert c.so d (c.store.view c.so)).dropLast ++ [(insert c.so d (c.store.view c.so)).getLast hne] :=
        (dropLast_concat_getLast hne).symm
      have hrem' : (c.store.addNotExceedingSize c.so d (c.size + c.skip)).2 =
          some ((insert c.so d (c.store.view c.so)).getLast hne) := by
        rw [hrem, getLast?_eq_some_getLast hne]
      have hlen' : ((insert c.so d (c.store.view c.so)).dropLast).length = c.size + c.skip := by
        rw [length_dropLast]; omega
      cases rest with
      | nil =>
        -- first eviction
        have hlo : c.lowest = none := hlow
        unfold afterAdd
        rw [hrem']; simp only [hlo]
        refine ⟨hdd, hwf', hsub', [(insert c.so d (c.store.view c.so)).getLast hne], ?_, rfl, ?_, fun _ => ?_⟩
        · show sort c.so (d :: seen) = _
          rw [hview, hsort', hsort, append_nil]; exact hsplit
        · show (Store.view c.so _).length ≤ _
          rw [hview, hlen']; exact Nat.le_refl _
        · show (Store.view c.so _).length = _
          rw [hview, hlen']
      | cons l B =>
        have hlo : c.lowest = some l := hlow
        have hdl : lt c.so d l := hl l hlo
        have hfullS : insert c.so d (sort c.so seen) =
            (insert c.so d (c.store.view c.so)).dropLast ++
              (insert c.so d (c.store.view c.so)).getLast hne :: l :: B := by
          rw [hsort, insert_append_of_lt B hdl]
          conv => lhs; rw [hsplit]
          simp
        have hml : lt c.so ((insert c.so d (c.store.view c.so)).getLast hne) l := by
          rw [hfullS] at hS'
          have := (pairwise_append.mp hS').2.1
          exact (pairwise_cons.mp this).1 l mem_cons_self
        unfold afterAdd
        rw [hrem']; simp only [hlo]
        rw [if_pos hml]
        refine ⟨hdd, hwf', hsub', (insert c.so d (c.store.view c.so)).getLast hne :: l :: B, ?_, rfl, ?_, fun _ => ?_⟩
        · show sort c.so (d :: seen) = _
          rw [hview, hsort']; exact hfullS
        · show (Store.view c.so _).length ≤ _
          rw [hview, hlen']; exact Nat.le_refl _
        · show (Store.view c.so _).length = _
          rw [hview, hlen']
    · -- it fits
      rw [if_neg hbig] at hspec
      obtain ⟨hview, hrem⟩ := hspec
      have hrest : rest = [] := by
        cases rest with
        | nil => rfl
        | cons l B => have := hfull (by simp); omega
      subst hrest
      unfold afterAdd
      rw [hrem]
      dsimp only
      refine ⟨hdd, hwf', hsub', [], ?_, hlow, ?_, fun h => absurd rfl h⟩
      · show sort c.so (d :: seen) = _
        rw [hview, hsort', hsort, append_nil, append_nil]
      · show (Store.view c.so _).length ≤ c.size + c.skip
        rw [hview]; omega

/-- the whole loop -/
theorem run_inv : ∀ (ms : List Match) (c : Coll) (seen : List Match), Inv c seen → HitsDistinct (ms ++ seen) →
    Inv (c.run ms) ((ms.filter (passes c.so c.searchAfter)).reverse ++ seen) ∧ Frame c (c.run ms)
  | [], c, seen, hinv, _ => ⟨by simpa [Coll.run] using hinv, Frame.refl c⟩
  | d :: ms, c, seen, hinv, hd => by
    have hd' : HitsDistinct (d :: (ms ++ seen)) := hd
    have ⟨hf, hrest⟩ := hitsDistinct_cons.mp hd'
    show Inv (Coll.run (collectSingle c d) ms) _ ∧ Frame c (Coll.run (collectSingle c d) ms)
    by_cases hp : passes c.so c.searchAfter d = true
    · have ⟨hinv1, hfr1⟩ := collectSingle_pass hinv (fun x hx => hf x (mem_append_right _ hx)) hp
      have hd1 : HitsDistinct (ms ++ d :: seen) := hd'.perm perm_middle.symm
      have ⟨hinv2, hfr2⟩ := run_inv ms (collectSingle c d) (d :: seen) hinv1 hd1
      refine ⟨?_, hfr1.trans hfr2⟩
      rw [hfr1.1, hfr1.2.2.2.1] at hinv2
      rw [filter_cons_of_pos hp, reverse_cons, append_assoc]
      exact hinv2
    · have hp' : passes c.so c.searchAfter d = false := by simpa using hp
      rw [collectSingle_skip hp']
      have ⟨hinv2, hfr2⟩ := run_inv ms c seen hinv hrest
      rw [filter_cons_of_neg hp]
      exact ⟨hinv2, hfr2⟩

theorem take_drop_swap (l : List Match) (n f : Nat) : (l.take (n + f)).drop f = (l.drop f).take n := by
  rw [drop_take]; congr 1; omega

/-- the collector — through the search-after filter, the shortcut, either store, `Final(skip)` and the
final reversal — returns the slice `[from, from+n)` of the ranking of the matches that pass the filter -/
theorem collect_refines (kind : StoreKind) (so : SortOrder) (n from_ : Nat) (rev : Bool)
    (after : Option (List Bytes)) (ms : List Match) (hd : HitsDistinct ms) :
    ((Coll.new kind n from_ so rev after).run ms).final =
      (if rev then (((sort so (ms.filter (passes so after))).drop from_).take n).reverse
       else ((sort so (ms.filter (passes so after))).drop from_).take n) := by
  have hd0 : HitsDistinct (ms ++ []) := by simpa using hd
  have ⟨hinv, hfr⟩ := run_inv ms (Coll.new kind n from_ so rev after) [] (inv_new kind n from_ so rev after) hd0
  obtain ⟨hso, hsize, hskip, _, hrev⟩ := hfr
  obtain ⟨hdist, hwf, _, rest, hsort, _, hlen, hfull⟩ := hinv
  have e1 : (Coll.new kind n from_ so rev after).so = so := rfl
  have e2 : (Coll.new kind n from_ so rev after).size = n := rfl
  have e3 : (Coll.new kind n from_ so rev after).skip = from_ := rfl
  have e4 : (Coll.new kind n from_ so rev after).searchAfter = after := rfl
  have e5 : (Coll.new kind n from_ so rev after).reverse = rev := rfl
  rw [e1] at hso; rw [e2] at hsize; rw [e3] at hskip; rw [e5] at hrev
  rw [e1, e4, append_nil] at hsort hdist
  rw [hso, hsize, hskip] at hlen hfull
  rw [hso] at hsort hwf
  -- the ranking of the filtered matches, whatever order they arrived in
  have hS : sort so (ms.filter (passes so after)).reverse = sort so (ms.filter (passes so after)) :=
    sort_congr hdist (reverse_perm _)
  rw [hS] at hsort
  have hview : ((Coll.new kind n from_ so rev after).run ms).store.view so =
      (sort so (ms.filter (passes so after))).take (n + from_) := by
    rw [hsort]
    cases rest with
    | nil => rw [append_nil, take_of_length_le hlen]
    | cons l B => rw [take_left' (hfull (by simp))]
  unfold Coll.final
  rw [hrev, hso, hskip, Store.final_spec _ hwf, hview, take_drop_swap]

end Bluge.TopN

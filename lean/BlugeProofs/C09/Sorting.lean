import BlugeProofs.C09.Order
/-! Insertion, sorting, uniqueness of the sorted permutation (helper lemmas for C09). -/
namespace Bluge.TopN
open List

/-- ascending under `cmpMatch` -/
abbrev Sorted (so : SortOrder) (l : List Match) : Prop := l.Pairwise (lt so)

/-- the hit number of `d` does not occur in `l` -/
abbrev Fresh (d : Match) (l : List Match) : Prop := ∀ x ∈ l, x.hitNumber ≠ d.hitNumber

theorem hitsDistinct_cons {d : Match} {l : List Match} :
    HitsDistinct (d :: l) ↔ Fresh d l ∧ HitsDistinct l := by
  unfold HitsDistinct; rw [pairwise_cons]
  constructor
  · intro ⟨h1, h2⟩; exact ⟨fun x hx e => h1 x hx e.symm, h2⟩
  · intro ⟨h1, h2⟩; exact ⟨fun x hx e => h1 x hx e.symm, h2⟩

theorem HitsDistinct.perm {l l' : List Match} (p : l ~ l') (h : HitsDistinct l) : HitsDistinct l' :=
  (p.pairwise_iff (fun {_ _} h e => h e.symm)).mp h

theorem KeysDistinct.perm {so : SortOrder} {l l' : List Match} (p : l ~ l') (h : KeysDistinct so l) :
    KeysDistinct so l' :=
  (p.pairwise_iff (fun {x y} h e => h (by rw [cmpKeys_swap so y.keys x.keys, e]; rfl))).mp h

theorem insert_perm (so : SortOrder) (d : Match) : ∀ l : List Match, insert so d l ~ d :: l
  | [] => Perm.refl _
  | x :: xs => by
    unfold insert
    by_cases h : cmpMatch so d x = .lt
    · rw [if_pos h]
    · rw [if_neg h]; exact ((insert_perm so d xs).cons x).trans (Perm.swap d x xs)

theorem mem_insert {so : SortOrder} {d a : Match} {l : List Match} : a ∈ insert so d l ↔ a = d ∨ a ∈ l := by
  rw [(insert_perm so d l).mem_iff]; simp

theorem length_insert (so : SortOrder) (d : Match) (l : List Match) : (insert so d l).length = l.length + 1 := by
  rw [(insert_perm so d l).length_eq]; rfl

theorem insert_ne_nil (so : SortOrder) (d : Match) (l : List Match) : insert so d l ≠ [] := by
  intro h; have := length_insert so d l; rw [h] at this; simp at this

theorem insert_sorted {so : SortOrder} {d : Match} : ∀ {l : List Match}, Sorted so l → Fresh d l → Sorted so (insert so d l)
  | [], _, _ => by simp [insert, Sorted]
  | x :: xs, hs, hf => by
    have ⟨hx, hxs⟩ := pairwise_cons.mp hs
    unfold insert
    by_cases h : cmpMatch so d x = .lt
    · rw [if_pos h]
      refine pairwise_cons.mpr ⟨?_, hs⟩
      intro y hy
      rcases mem_cons.mp hy with rfl | hy
      · exact h
      · exact lt_trans h (hx y hy)
    · rw [if_neg h]
      have hxd : lt so x d := (lt_total (hf x (mem_cons_self))).resolve_right h
      refine pairwise_cons.mpr ⟨?_, insert_sorted hxs (fun y hy => hf y (mem_cons_of_mem _ hy))⟩
      intro y hy
      rcases mem_insert.mp hy with rfl | hy
      · exact hxd
      · exact hx y hy

theorem sort_perm (so : SortOrder) : ∀ l : List Match, sort so l ~ l
  | [] => Perm.refl _
  | x :: xs => (insert_perm so x (sort so xs)).trans ((sort_perm so xs).cons x)

theorem length_sort (so : SortOrder) (l : List Match) : (sort so l).length = l.length :=
  (sort_perm so l).length_eq

theorem mem_sort {so : SortOrder} {a : Match} {l : List Match} : a ∈ sort so l ↔ a ∈ l :=
  (sort_perm so l).mem_iff

theorem sort_sorted (so : SortOrder) : ∀ {l : List Match}, HitsDistinct l → Sorted so (sort so l)
  | [], _ => Pairwise.nil
  | x :: xs, h => by
    have ⟨hf, hd⟩ := hitsDistinct_cons.mp h
    exact insert_sorted (sort_sorted so hd) (fun y hy => hf y (mem_sort.mp hy))

/-- a strict order has at most one sorted arrangement of a bag -/
theorem sorted_perm_unique {so : SortOrder} : ∀ {l₁ l₂ : List Match}, Sorted so l₁ → Sorted so l₂ → l₁ ~ l₂ → l₁ = l₂
  | [], _, _, _, p => p.nil_eq
  | a :: t₁, [], _, _, p => by have := p.length_eq; simp at this
  | a :: t₁, b :: t₂, h₁, h₂, p => by
    have ⟨ha, hs₁⟩ := pairwise_cons.mp h₁
    have ⟨hb, hs₂⟩ := pairwise_cons.mp h₂
    have hab : a = b := by
      by_cases e : a = b
      · exact e
      · have h1 : a ∈ b :: t₂ := p.mem_iff.mp mem_cons_self
        have h2 : b ∈ a :: t₁ := p.mem_iff.mpr mem_cons_self
        have h1' : a ∈ t₂ := by
          rcases mem_cons.mp h1 with h | h
          · exact absurd h e
          · exact h
        have h2' : b ∈ t₁ := by
          rcases mem_cons.mp h2 with h | h
          · exact absurd h.symm e
          · exact h
        exact absurd (ha b h2') (lt_asymm (hb a h1'))
    subst hab
    rw [sorted_perm_unique hs₁ hs₂ p.cons_inv]

/-- the ranking does not depend on the order in which the matches arrive -/
theorem sort_congr {so : SortOrder} {l l' : List Match} (hd : HitsDistinct l) (p : l ~ l') : sort so l = sort so l' :=
  sorted_perm_unique (sort_sorted so hd) (sort_sorted so (hd.perm p))
    ((sort_perm so l).trans (p.trans (sort_perm so l').symm))

theorem sort_eq_of_sorted {so : SortOrder} {l : List Match} (h : Sorted so l) (hd : HitsDistinct l) : sort so l = l :=
  sorted_perm_unique (sort_sorted so hd) h (sort_perm so l)

end Bluge.TopN

import Bluge.TopN
/-! Order-theoretic lemmas about `bytesCmp`, `cmpKeys`, `cmpMatch` (helper lemmas for C09). -/
namespace Bluge.TopN

theorem byte_lt_irrefl (a : Byte) : ¬ a < a := by
  intro h; rw [BitVec.lt_def] at h; omega

theorem byte_lt_asymm {a b : Byte} : a < b → ¬ b < a := by
  intro h h'; rw [BitVec.lt_def] at h h'; omega

theorem byte_lt_trans {a b c : Byte} : a < b → b < c → a < c := by
  intro h h'; rw [BitVec.lt_def] at *; omega

theorem byte_eq_of_not_lt {a b : Byte} : ¬ a < b → ¬ b < a → a = b := by
  intro h h'; rw [BitVec.lt_def] at h h'; apply BitVec.eq_of_toNat_eq; omega

theorem bytesCmp_refl : ∀ a : Bytes, bytesCmp a a = .eq
  | [] => rfl
  | a :: as => by simp [bytesCmp, bytesCmp_refl as]

theorem bytesCmp_eq : ∀ {a b : Bytes}, bytesCmp a b = .eq → a = b
  | [], [], _ => rfl
  | [], _ :: _, h => by simp [bytesCmp] at h
  | _ :: _, [], h => by simp [bytesCmp] at h
  | a :: as, b :: bs, h => by
    unfold bytesCmp at h
    by_cases h1 : a < b
    · simp [h1] at h
    · by_cases h2 : b < a
      · simp [h1, h2] at h
      · simp [h1, h2] at h
        rw [byte_eq_of_not_lt h1 h2, bytesCmp_eq h]

theorem bytesCmp_swap : ∀ a b : Bytes, bytesCmp b a = (bytesCmp a b).swap
  | [], [] => rfl
  | [], _ :: _ => rfl
  | _ :: _, [] => rfl
  | a :: as, b :: bs => by
    unfold bytesCmp
    by_cases h1 : a < b
    · have := byte_lt_asymm h1
      simp [h1, this]
    · by_cases h2 : b < a
      · simp [h1, h2]
      · simp [h1, h2, bytesCmp_swap as bs]

theorem bytesCmp_lt_trans : ∀ {a b c : Bytes}, bytesCmp a b = .lt → bytesCmp b c = .lt → bytesCmp a c = .lt
  | [], [], _, h, _ => by simp [bytesCmp] at h
  | [], _ :: _, [], _, h => by simp [bytesCmp] at h
  | [], _ :: _, _ :: _, _, _ => by simp [bytesCmp]
  | _ :: _, [], _, h, _ => by simp [bytesCmp] at h
  | _ :: _, _ :: _, [], _, h => by simp [bytesCmp] at h
  | a :: as, b :: bs, c :: cs, h, h' => by
    unfold bytesCmp at h h' ⊢
    by_cases h1 : a < b
    · by_cases h2 : b < c
      · simp [byte_lt_trans h1 h2]
      · by_cases h3 : c < b
        · simp [h2, h3] at h'
        · have : b = c := byte_eq_of_not_lt h2 h3
          subst this; simp [h1]
    · by_cases h1' : b < a
      · simp [h1, h1'] at h
      · have : a = b := byte_eq_of_not_lt h1 h1'
        subst this
        simp [h1] at h
        by_cases h2 : a < c
        · simp [h2]
        · by_cases h3 : c < a
          · simp [h2, h3] at h'
          · simp [h2, h3] at h' ⊢
            exact bytesCmp_lt_trans h h'

theorem swap_eq_eq {o : Ordering} : o.swap = .eq ↔ o = .eq := by cases o <;> simp [Ordering.swap]
theorem swap_eq_lt {o : Ordering} : o.swap = .lt ↔ o = .gt := by cases o <;> simp [Ordering.swap]
theorem swap_eq_gt {o : Ordering} : o.swap = .gt ↔ o = .lt := by cases o <;> simp [Ordering.swap]

/-- one step of `cmpKeys`, as an equation -/
theorem cmpKeys_cons (s : SortKey) (so : SortOrder) (ka kb : List Bytes) :
    cmpKeys (s :: so) ka kb =
      if bytesCmp (ka.headD []) (kb.headD []) = .eq then cmpKeys so ka.tail kb.tail
      else if s.desc then (bytesCmp (ka.headD []) (kb.headD [])).swap else bytesCmp (ka.headD []) (kb.headD []) := by
  rw [cmpKeys]
  cases h : bytesCmp (ka.headD []) (kb.headD []) <;> simp

theorem cmpKeys_refl : ∀ (so : SortOrder) (k : List Bytes), cmpKeys so k k = .eq
  | [], _ => rfl
  | s :: so, k => by rw [cmpKeys_cons]; simp [bytesCmp_refl, cmpKeys_refl so]

theorem cmpKeys_swap : ∀ (so : SortOrder) (ka kb : List Bytes), cmpKeys so kb ka = (cmpKeys so ka kb).swap
  | [], _, _ => rfl
  | s :: so, ka, kb => by
    rw [cmpKeys_cons, cmpKeys_cons, bytesCmp_swap (ka.headD []) (kb.headD [])]
    cases h : bytesCmp (ka.headD []) (kb.headD []) <;> cases hd : s.desc <;>
      simp [Ordering.swap, cmpKeys_swap so ka.tail kb.tail]

/-- keys that compare equal are interchangeable on the left -/
theorem cmpKeys_eq_left : ∀ {so : SortOrder} {ka kb : List Bytes} (kc : List Bytes),
    cmpKeys so ka kb = .eq → cmpKeys so ka kc = cmpKeys so kb kc
  | [], _, _, _, _ => rfl
  | s :: so, ka, kb, kc, h => by
    rw [cmpKeys_cons] at h
    by_cases h1 : bytesCmp (ka.headD []) (kb.headD []) = .eq
    · rw [if_pos h1] at h
      rw [cmpKeys_cons, cmpKeys_cons, bytesCmp_eq h1, cmpKeys_eq_left kc.tail h]
    · rw [if_neg h1] at h
      by_cases hd : s.desc
      · rw [if_pos hd] at h; exact absurd (swap_eq_eq.mp h) h1
      · rw [if_neg hd] at h; exact absurd h h1

theorem cmpKeys_eq_right {so : SortOrder} {kb kc : List Bytes} (ka : List Bytes)
    (h : cmpKeys so kb kc = .eq) : cmpKeys so ka kb = cmpKeys so ka kc := by
  have h' : cmpKeys so kc kb = .eq := by rw [cmpKeys_swap, h]; rfl
  have e1 := cmpKeys_eq_left ka h'
  rw [cmpKeys_swap so kb ka, cmpKeys_swap so kc ka, e1]

theorem cmpKeys_lt_trans : ∀ {so : SortOrder} {ka kb kc : List Bytes},
    cmpKeys so ka kb = .lt → cmpKeys so kb kc = .lt → cmpKeys so ka kc = .lt
  | [], _, _, _, h, _ => by simp [cmpKeys] at h
  | s :: so, ka, kb, kc, h, h' => by
    rw [cmpKeys_cons] at h h' ⊢
    by_cases h1 : bytesCmp (ka.headD []) (kb.headD []) = .eq
    · rw [if_pos h1] at h
      rw [bytesCmp_eq h1]
      by_cases h2 : bytesCmp (kb.headD []) (kc.headD []) = .eq
      · rw [if_pos h2] at h' ⊢
        exact cmpKeys_lt_trans h h'
      · rw [if_neg h2] at h' ⊢
        exact h'
    · rw [if_neg h1] at h
      by_cases h2 : bytesCmp (kb.headD []) (kc.headD []) = .eq
      · rw [← bytesCmp_eq h2, if_neg h1]; exact h
      · rw [if_neg h2] at h'
        by_cases hd : s.desc
        case neg =>
          rw [if_neg hd] at h h' ⊢
          have := bytesCmp_lt_trans h h'
          rw [this]; rfl
        case pos =>
          rw [if_pos hd] at h h' ⊢
          have h3 := swap_eq_lt.mp h
          have h4 := swap_eq_lt.mp h'
          have h3' : bytesCmp (kb.headD []) (ka.headD []) = .lt := by rw [bytesCmp_swap, h3]; rfl
          have h4' : bytesCmp (kc.headD []) (kb.headD []) = .lt := by rw [bytesCmp_swap, h4]; rfl
          have := bytesCmp_lt_trans h4' h3'
          have h5 : bytesCmp (ka.headD []) (kc.headD []) = .gt := by rw [bytesCmp_swap, this]; rfl
          rw [h5]; rfl

/-- reversing the sort order (`SortOrder.Reverse`) swaps the key comparison -/
theorem cmpKeys_reverse : ∀ (so : SortOrder) (ka kb : List Bytes),
    cmpKeys (reverseOrder so) ka kb = (cmpKeys so ka kb).swap
  | [], _, _ => rfl
  | s :: so, ka, kb => by
    show cmpKeys (s.reverse :: reverseOrder so) ka kb = _
    rw [cmpKeys_cons, cmpKeys_cons, cmpKeys_reverse so]
    cases h : bytesCmp (ka.headD []) (kb.headD []) <;> cases hd : s.desc <;>
      simp [SortKey.reverse, hd, Ordering.swap]

/-! ### `cmpMatch` -/

theorem compare_eq_of_keys_ne {so : SortOrder} {a b : Match} (h : cmpKeys so a.keys b.keys ≠ .eq) :
    cmpMatch so a b = cmpKeys so a.keys b.keys := by
  unfold cmpMatch; cases h' : cmpKeys so a.keys b.keys <;> simp_all

theorem compare_of_keys_eq {so : SortOrder} {a b : Match} (h : cmpKeys so a.keys b.keys = .eq) :
    cmpMatch so a b = if a.hitNumber = b.hitNumber then .eq else if a.hitNumber > b.hitNumber then .gt else .lt := by
  unfold cmpMatch; rw [h]

theorem compare_refl (so : SortOrder) (a : Match) : cmpMatch so a a = .eq := by
  rw [compare_of_keys_eq (cmpKeys_refl so a.keys)]; simp

theorem compare_swap (so : SortOrder) (a b : Match) : cmpMatch so b a = (cmpMatch so a b).swap := by
  by_cases h : cmpKeys so a.keys b.keys = .eq
  · have h' : cmpKeys so b.keys a.keys = .eq := by rw [cmpKeys_swap, h]; rfl
    rw [compare_of_keys_eq h, compare_of_keys_eq h']
    by_cases h1 : a.hitNumber = b.hitNumber
    · simp [h1]
    · have h2 : ¬ b.hitNumber = a.hitNumber := fun e => h1 e.symm
      by_cases h3 : a.hitNumber > b.hitNumber
      · have : ¬ b.hitNumber > a.hitNumber := by omega
        simp [h1, h2, h3, this, Ordering.swap]
      · have : b.hitNumber > a.hitNumber := by omega
        simp [h1, h2, h3, this, Ordering.swap]
  · have h' : cmpKeys so b.keys a.keys ≠ .eq := by
      rw [cmpKeys_swap]; intro e; exact h (swap_eq_eq.mp e)
    rw [compare_eq_of_keys_ne h, compare_eq_of_keys_ne h', cmpKeys_swap]

theorem compare_eq_hit {so : SortOrder} {a b : Match} (h : cmpMatch so a b = .eq) :
    a.hitNumber = b.hitNumber := by
  by_cases hk : cmpKeys so a.keys b.keys = .eq
  · rw [compare_of_keys_eq hk] at h
    by_cases h1 : a.hitNumber = b.hitNumber
    · exact h1
    · by_cases h3 : a.hitNumber > b.hitNumber <;> simp [h1, h3] at h
  · rw [compare_eq_of_keys_ne hk] at h; exact absurd h hk

theorem lt_irrefl (so : SortOrder) (a : Match) : ¬ lt so a a := by
  unfold lt; rw [compare_refl]; simp

theorem lt_asymm {so : SortOrder} {a b : Match} (h : lt so a b) : ¬ lt so b a := by
  unfold lt at *; rw [compare_swap, h]; simp [Ordering.swap]

theorem gt_iff_lt {so : SortOrder} {a b : Match} : cmpMatch so a b = .gt ↔ lt so b a := by
  unfold lt; rw [compare_swap so a b]; exact swap_eq_lt.symm

theorem lt_trans {so : SortOrder} {a b c : Match} (h : lt so a b) (h' : lt so b c) : lt so a c := by
  unfold lt at *
  by_cases k1 : cmpKeys so a.keys b.keys = .eq
  · by_cases k2 : cmpKeys so b.keys c.keys = .eq
    · have k3 : cmpKeys so a.keys c.keys = .eq := by rw [cmpKeys_eq_left c.keys k1, k2]
      rw [compare_of_keys_eq k1] at h
      rw [compare_of_keys_eq k2] at h'
      rw [compare_of_keys_eq k3]
      by_cases e1 : a.hitNumber = b.hitNumber
      · simp [e1] at h
      · by_cases e2 : b.hitNumber = c.hitNumber
        · simp [e2] at h'
        · by_cases g1 : a.hitNumber > b.hitNumber
          · simp [e1, g1] at h
          · by_cases g2 : b.hitNumber > c.hitNumber
            · simp [e2, g2] at h'
            · have : ¬ a.hitNumber = c.hitNumber := by omega
              have : ¬ a.hitNumber > c.hitNumber := by omega
              simp [*]
    · rw [compare_eq_of_keys_ne k2] at h'
      have k3 : cmpKeys so a.keys c.keys = .lt := by rw [cmpKeys_eq_left c.keys k1, h']
      rw [compare_eq_of_keys_ne (by rw [k3]; simp), k3]
  · rw [compare_eq_of_keys_ne k1] at h
    by_cases k2 : cmpKeys so b.keys c.keys = .eq
    · have k3 : cmpKeys so a.keys c.keys = .lt := by rw [← cmpKeys_eq_right a.keys k2, h]
      rw [compare_eq_of_keys_ne (by rw [k3]; simp), k3]
    · rw [compare_eq_of_keys_ne k2] at h'
      have k3 := cmpKeys_lt_trans h h'
      rw [compare_eq_of_keys_ne (by rw [k3]; simp), k3]

theorem lt_total {so : SortOrder} {a b : Match} (h : a.hitNumber ≠ b.hitNumber) : lt so a b ∨ lt so b a := by
  cases hc : cmpMatch so a b
  · exact .inl hc
  · exact absurd (compare_eq_hit hc) h
  · exact .inr (gt_iff_lt.mp hc)

theorem not_lt_iff {so : SortOrder} {a b : Match} (h : a.hitNumber ≠ b.hitNumber) : ¬ lt so a b ↔ lt so b a :=
  ⟨fun n => (lt_total h).resolve_left n, fun l => lt_asymm l⟩

end Bluge.TopN

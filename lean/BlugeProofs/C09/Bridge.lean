import BlugeGen.C09
/-! # C09 — bridge: the comparator TRANSLATED from /repo's `search/sort.go` is the model's comparator

`BlugeGen.C09` holds `SortOrder_Compare`, `sortFirstLast_Value`, `SortOrder_Reverse_elem`, `highTerm`, `lowTerm`
as `go/extract/c09tr.go` renders the Go source of the tree under check, token by token. The theorems here say, for ALL
inputs, that they are `Bluge.TopN.cmpMatch` / `missingValue` / `SortKey.reverse` — the definitions every theorem of
C09 is stated over. A change of an operator, an operand, a branch or the tie-break in the Go source changes the
translated definition, and these proofs stop checking. -/
namespace Bluge.C09
open Bluge.TopN

theorem toInt_swap (c : Ordering) : Ordering.toInt c.swap = - Ordering.toInt c := by
  cases c <;> rfl

theorem bytesCompare_eq_zero (a b : Bytes) : bytesCompare a b = 0 ↔ bytesCmp a b = .eq := by
  unfold bytesCompare
  cases bytesCmp a b <;> simp [Ordering.toInt]

/-- what the translated loop computes from index `x` on: `none` exactly when the Go code indexes `SortValue` out of
range (`cmpPanics`), otherwise the verdict of `cmpKeys` on the remaining keys -/
def loopSpec (o : SortOrder) (ka kb : List Bytes) : Option (Option Int) :=
  if cmpPanics o ka kb then none
  else some (match cmpKeys o ka kb with
    | .eq => none
    | c => some (Ordering.toInt c))

theorem loopSpec_nil (ka kb : List Bytes) : loopSpec [] ka kb = some none := by
  simp [loopSpec, cmpPanics, cmpKeys]

theorem loopSpec_cons (s : SortKey) (so : SortOrder) (a b : Bytes) (ka kb : List Bytes) :
    loopSpec (s :: so) (a :: ka) (b :: kb) =
      if bytesCmp a b = .eq then loopSpec so ka kb
      else some (some (if s.desc then - bytesCompare a b else bytesCompare a b)) := by
  unfold loopSpec bytesCompare
  cases h : bytesCmp a b <;> simp [cmpPanics, cmpKeys, h] <;> cases s.desc <;> simp [Ordering.toInt]

theorem loopSpec_missing_left (s : SortKey) (so : SortOrder) (kb : List Bytes) : loopSpec (s :: so) [] kb = none := by
  simp [loopSpec, cmpPanics]

theorem loopSpec_missing_right (s : SortKey) (so : SortOrder) (a : Bytes) (ka : List Bytes) :
    loopSpec (s :: so) (a :: ka) [] = none := by
  simp [loopSpec, cmpPanics]

/-- the translated loop of `SortOrder.Compare`, from any index, with enough fuel -/
theorem compare_loop_eq (o : SortOrder) (i j : Match) :
    ∀ (fuel x : Nat), o.length - x < fuel →
      BlugeGen.C09.SortOrder_Compare_loop o i j fuel x = loopSpec (o.drop x) (i.keys.drop x) (j.keys.drop x) := by
  intro fuel
  induction fuel with
  | zero => intro x h; omega
  | succ fuel ih =>
    intro x h
    unfold BlugeGen.C09.SortOrder_Compare_loop
    by_cases hx : x < o.length
    · have ho : o.drop x = o[x] :: o.drop (x + 1) := List.drop_eq_getElem_cons hx
      rw [if_pos hx, ho]
      cases hi : i.keys[x]? with
      | none =>
        have : i.keys.drop x = [] := List.drop_eq_nil_of_le (by simpa using hi)
        rw [this, loopSpec_missing_left]; rfl
      | some a =>
        have hia : i.keys.drop x = a :: i.keys.drop (x + 1) := by
          obtain ⟨hlt, rfl⟩ := List.getElem?_eq_some_iff.mp hi
          exact List.drop_eq_getElem_cons hlt
        cases hj : j.keys[x]? with
        | none =>
          have : j.keys.drop x = [] := List.drop_eq_nil_of_le (by simpa using hj)
          rw [hia, this, loopSpec_missing_right]; rfl
        | some b =>
          have hjb : j.keys.drop x = b :: j.keys.drop (x + 1) := by
            obtain ⟨hlt, rfl⟩ := List.getElem?_eq_some_iff.mp hj
            exact List.drop_eq_getElem_cons hlt
          rw [hia, hjb, loopSpec_cons]
          simp only [Option.bind_some]
          by_cases hc : bytesCmp a b = .eq
          · have h0 : bytesCompare a b = 0 := (bytesCompare_eq_zero a b).mpr hc
            simp only [h0, decide_true, if_true, hc]
            exact ih (x + 1) (by omega)
          · have h0 : ¬ bytesCompare a b = 0 := fun h => hc ((bytesCompare_eq_zero a b).mp h)
            simp only [h0, decide_false, Bool.false_eq_true, if_false, hc, List.getElem?_eq_getElem hx, Option.bind_some]
            cases o[x].desc <;> rfl
    · have : o.drop x = [] := List.drop_eq_nil_of_le (by omega)
      rw [if_neg hx, this, loopSpec_nil]

/-- **the translated `SortOrder.Compare` is `cmpMatch`**, for every sort order and every pair of matches: it panics
(`none`) exactly when `cmpPanics` says the Go code indexes `SortValue` out of range, and otherwise returns the `int`
of the model's verdict — keys first, `desc` flips, hit number as the final tie-break -/
theorem compare_eq (o : SortOrder) (i j : Match) :
    BlugeGen.C09.SortOrder_Compare o i j =
      if cmpPanics o i.keys j.keys then none else some (Ordering.toInt (cmpMatch o i j)) := by
  unfold BlugeGen.C09.SortOrder_Compare
  rw [compare_loop_eq o i j (o.length + 1) 0 (by omega)]
  simp only [List.drop_zero, loopSpec]
  by_cases hp : cmpPanics o i.keys j.keys = true
  · simp [hp]
  · simp only [hp, Bool.false_eq_true, if_false, Option.bind_some]
    unfold cmpMatch
    cases cmpKeys o i.keys j.keys <;> simp [Ordering.toInt]
    · -- the hit-number tie-break; `omega` closes what a harmless respelling of the comparisons (`>` / `>=` after `==`) leaves
      by_cases h1 : i.hitNumber = j.hitNumber
      · simp [h1]
      · by_cases h2 : i.hitNumber > j.hitNumber
        · have h3 : i.hitNumber ≥ j.hitNumber := by omega
          simp [h1, h2, h3]
        · have h3 : ¬ i.hitNumber ≥ j.hitNumber := by omega
          simp [h1, h2, h3]

theorem highTerm_eq : BlugeGen.C09.highTerm = highTerm := by decide
theorem lowTerm_eq : BlugeGen.C09.lowTerm = lowTerm := by decide

/-- **the translated `sortFirstLast.Value` is `missingValue`** on what `SortBy` / `SortOrder.Copy` bind (both pointers
set, to the `desc` / `missingFirst` of the `Sort` itself) -/
theorem firstLast_value_eq (s : SortKey) :
    BlugeGen.C09.sortFirstLast_Value (FirstLast.of s) = some (missingValue s) := by
  rcases s with ⟨d, f⟩
  cases d <;> cases f <;> simp [BlugeGen.C09.sortFirstLast_Value, FirstLast.of, missingValue, highTerm_eq, lowTerm_eq]

/-- …and it never dereferences a nil pointer, whatever the two pointers are -/
theorem firstLast_value_total (c : FirstLast) : (BlugeGen.C09.sortFirstLast_Value c).isSome = true := by
  rcases c with ⟨d, f⟩
  rcases d with _ | d <;> rcases f with _ | f
  · simp [BlugeGen.C09.sortFirstLast_Value]
  · cases f <;> simp [BlugeGen.C09.sortFirstLast_Value]
  · cases d <;> simp [BlugeGen.C09.sortFirstLast_Value]
  · cases d <;> cases f <;> simp [BlugeGen.C09.sortFirstLast_Value]

/-- **the translated element update of `SortOrder.Reverse` is `SortKey.reverse`** -/
theorem reverse_elem_eq : BlugeGen.C09.SortOrder_Reverse_elem = SortKey.reverse := by
  funext s; rfl

end Bluge.C09

import BlugeProofs.C09.Collector
/-! Search-after / search-before pages are consecutive blocks of the ranking (helper lemmas for C09). -/
namespace Bluge.TopN
open List

theorem hitsDistinct_filter {ms : List Match} (p : Match → Bool) (h : HitsDistinct ms) : HitsDistinct (ms.filter p) :=
  Pairwise.sublist filter_sublist h

theorem keysDistinct_filter {so : SortOrder} {ms : List Match} (p : Match → Bool) (h : KeysDistinct so ms) :
    KeysDistinct so (ms.filter p) :=
  Pairwise.sublist filter_sublist h

/-- ranking commutes with filtering -/
theorem sort_filter {so : SortOrder} {ms : List Match} (p : Match → Bool) (hd : HitsDistinct ms) :
    sort so (ms.filter p) = (sort so ms).filter p :=
  sorted_perm_unique (sort_sorted so (hitsDistinct_filter p hd)) (Pairwise.filter p (sort_sorted so hd))
    ((sort_perm so _).trans ((sort_perm so ms).symm.filter p))

theorem cmpKeys_ne_gt_of_lt {so : SortOrder} {a b : Match} (h : lt so a b) : cmpKeys so a.keys b.keys ≠ .gt := by
  intro hg
  have : cmpMatch so a b = .gt := by rw [compare_eq_of_keys_ne (by rw [hg]; simp), hg]
  rw [h] at this; cases this

theorem cmpKeys_lt_of_lt {so : SortOrder} {a b : Match} (h : lt so a b) (hk : cmpKeys so a.keys b.keys ≠ .eq) :
    cmpKeys so a.keys b.keys = .lt := by
  rw [← compare_eq_of_keys_ne hk]; exact h

theorem cmpKeys_gt_of_lt' {so : SortOrder} {a b : Match} (h : cmpKeys so a.keys b.keys = .lt) :
    cmpKeys so b.keys a.keys = .gt := by
  rw [cmpKeys_swap so a.keys b.keys, h]; rfl

/-- collector with a search-after key = specification, for every input -/
theorem collectAfterWith_eq_spec (kind : StoreKind) (so : SortOrder) (n : Nat) (key : List Bytes) (ms : List Match)
    (hd : HitsDistinct ms) : collectAfterWith kind so n key ms = afterSpec so n key ms := by
  unfold collectAfterWith afterSpec
  rw [collect_refines kind so n 0 false (some key) ms hd]
  simp only [Bool.false_eq_true, if_false, drop_zero]
  rw [sort_filter _ hd]
  rfl

/-- in the ranking `P ++ l :: R`, the matches strictly after `l`'s sort value are exactly `R` -/
theorem filter_after_split {so : SortOrder} {P R : List Match} {l : Match}
    (hs : Sorted so (P ++ l :: R)) (hk : KeysDistinct so (P ++ l :: R)) :
    (P ++ l :: R).filter (fun d => decide (cmpKeys so d.keys l.keys = .gt)) = R := by
  have ⟨_, hlR, hPl⟩ := pairwise_append.mp hs
  have ⟨_, hklR, _⟩ := pairwise_append.mp hk
  rw [filter_append]
  have h1 : P.filter (fun d => decide (cmpKeys so d.keys l.keys = .gt)) = [] := by
    rw [filter_eq_nil_iff]
    intro a ha
    have := cmpKeys_ne_gt_of_lt (hPl a ha l mem_cons_self)
    simpa using this
  have h2 : (l :: R).filter (fun d => decide (cmpKeys so d.keys l.keys = .gt)) = R := by
    rw [filter_cons_of_neg (by simp [cmpKeys_refl])]
    rw [filter_eq_self]
    intro b hb
    have hlt : lt so l b := (pairwise_cons.mp hlR).1 b hb
    have hne : cmpKeys so l.keys b.keys ≠ .eq := (pairwise_cons.mp hklR).1 b hb
    have := cmpKeys_gt_of_lt' (cmpKeys_lt_of_lt hlt hne)
    simpa using this
  rw [h1, h2, nil_append]

/-- `after_page`: the page after the match `l` is the next block of the ranking -/
theorem afterSpec_split {so : SortOrder} {ms P R : List Match} {l : Match} (n : Nat)
    (hd : HitsDistinct ms) (hk : KeysDistinct so ms) (hS : sort so ms = P ++ l :: R) :
    afterSpec so n l.keys ms = R.take n := by
  unfold afterSpec
  have hs : Sorted so (P ++ l :: R) := hS ▸ sort_sorted so hd
  have hk' : KeysDistinct so (P ++ l :: R) := hS ▸ hk.perm (sort_perm so ms).symm
  rw [hS, filter_after_split hs hk']

theorem take_eq_nil_of_pos {l : List Match} {n : Nat} (hn : 1 ≤ n) (h : l.take n = []) : l = [] := by
  cases l with
  | nil => rfl
  | cons a t => cases n with
    | zero => omega
    | succ k => simp at h

/-- the search-after chain walks the ranking in blocks of `n` -/
theorem afterChain_blocks {so : SortOrder} {ms : List Match} {n : Nat} (hn : 1 ≤ n)
    (hd : HitsDistinct ms) (hk : KeysDistinct so ms) :
    ∀ (fuel : Nat) (P T : List Match), sort so ms = P ++ T →
      afterChain so n ms fuel (T.take n) = blocks n fuel T
  | 0, _, _, _ => rfl
  | f + 1, P, T, hS => by
    unfold afterChain blocks
    by_cases hT : T = []
    · subst hT; simp
    · have hpage : T.take n ≠ [] := fun e => hT (take_eq_nil_of_pos hn e)
      have hsplit := (dropLast_concat_getLast hpage).symm
      rw [getLast?_eq_some_getLast hpage]
      have hTe : T.isEmpty = false := by cases T with
        | nil => exact absurd rfl hT
        | cons _ _ => rfl
      simp only [hTe, Bool.false_eq_true, if_false]
      have hS' : sort so ms = (P ++ (T.take n).dropLast) ++ (T.take n).getLast hpage :: T.drop n := by
        rw [hS]
        conv => lhs; rw [← take_append_drop n T, hsplit]
        simp
      have hnext : collectAfter so n ((T.take n).getLast hpage).keys ms = (T.drop n).take n := by
        unfold collectAfter
        rw [collectAfterWith_eq_spec _ so n _ ms hd, afterSpec_split n hd hk hS']
      rw [hnext]
      have hS'' : sort so ms = (P ++ T.take n) ++ T.drop n := by
        rw [hS, append_assoc, take_append_drop]
      rw [afterChain_blocks hn hd hk f (P ++ T.take n) (T.drop n) hS'']

theorem blocks_flatten {n : Nat} (hn : 1 ≤ n) : ∀ (fuel : Nat) (l : List Match), l.length ≤ fuel →
    (blocks n fuel l).flatten = l
  | 0, l, h => by
    have : l = [] := by cases l with
      | nil => rfl
      | cons _ _ => simp at h
    subst this; rfl
  | f + 1, l, h => by
    unfold blocks
    cases l with
    | nil => rfl
    | cons a t =>
      simp only [isEmpty_cons, Bool.false_eq_true, if_false, flatten_cons]
      rw [blocks_flatten hn f _ (by simp only [length_drop, length_cons] at h ⊢; omega), take_append_drop]

/-! ### search-before -/

theorem lt_reverse {so : SortOrder} {a b : Match} (h : lt so a b) (hk : cmpKeys so a.keys b.keys ≠ .eq) :
    lt (reverseOrder so) b a := by
  have h1 := cmpKeys_lt_of_lt h hk
  have h2 : cmpKeys (reverseOrder so) b.keys a.keys = .lt := by
    rw [cmpKeys_reverse, cmpKeys_gt_of_lt' h1]; rfl
  unfold lt
  rw [compare_eq_of_keys_ne (by rw [h2]; simp), h2]

/-- with a sort order that distinguishes all matches, the reversed order ranks them exactly backwards -/
theorem sort_reverseOrder {so : SortOrder} {F : List Match} (hd : HitsDistinct F) (hk : KeysDistinct so F) :
    sort (reverseOrder so) F = (sort so F).reverse := by
  refine sorted_perm_unique (sort_sorted _ hd) ?_ ((sort_perm _ F).trans ((sort_perm so F).symm.trans (reverse_perm _).symm))
  apply pairwise_reverse.mpr
  have h1 : Sorted so (sort so F) := sort_sorted so hd
  have h2 : KeysDistinct so (sort so F) := hk.perm (sort_perm so F).symm
  exact Pairwise.imp₂ (fun a b hab hkab => lt_reverse hab hkab) h1 h2

theorem passes_reverse (so : SortOrder) (key : List Bytes) :
    passes (reverseOrder so) (some key) = fun d => decide (cmpKeys so d.keys key = .lt) := by
  funext d
  unfold passes
  simp only [cmpKeys_reverse]
  cases cmpKeys so d.keys key <;> rfl

/-- collector with a search-before key = specification, under a sort order that distinguishes all matches -/
theorem collectBeforeWith_eq_spec (kind : StoreKind) (so : SortOrder) (n : Nat) (key : List Bytes) (ms : List Match)
    (hd : HitsDistinct ms) (hk : KeysDistinct so ms) :
    collectBeforeWith kind so n key ms = beforeSpec so n key ms := by
  unfold collectBeforeWith beforeSpec lastN
  rw [collect_refines kind (reverseOrder so) n 0 true (some key) ms hd]
  simp only [if_true, drop_zero]
  rw [passes_reverse, sort_reverseOrder (hitsDistinct_filter _ hd) (keysDistinct_filter _ hk),
    reverse_take, reverse_reverse, length_reverse, sort_filter _ hd]

/-- in the ranking `P ++ h :: R`, the matches strictly before `h`'s sort value are exactly `P` -/
theorem filter_before_split {so : SortOrder} {P R : List Match} {h : Match}
    (hs : Sorted so (P ++ h :: R)) (hk : KeysDistinct so (P ++ h :: R)) :
    (P ++ h :: R).filter (fun d => decide (cmpKeys so d.keys h.keys = .lt)) = P := by
  have ⟨_, hhR, hPh⟩ := pairwise_append.mp hs
  have ⟨_, _, hkPh⟩ := pairwise_append.mp hk
  rw [filter_append]
  have h1 : P.filter (fun d => decide (cmpKeys so d.keys h.keys = .lt)) = P := by
    rw [filter_eq_self]
    intro a ha
    have := cmpKeys_lt_of_lt (hPh a ha h mem_cons_self) (hkPh a ha h mem_cons_self)
    simpa using this
  have h2 : (h :: R).filter (fun d => decide (cmpKeys so d.keys h.keys = .lt)) = [] := by
    rw [filter_eq_nil_iff]
    intro b hb
    rcases mem_cons.mp hb with rfl | hb
    · simp [cmpKeys_refl]
    · have hlt : lt so h b := (pairwise_cons.mp hhR).1 b hb
      have hne := cmpKeys_ne_gt_of_lt hlt
      have : cmpKeys so b.keys h.keys ≠ .lt := by
        intro e; exact hne (cmpKeys_gt_of_lt' (a := b) (b := h) e)
      simpa using this
  rw [h1, h2, append_nil]

/-- `before_page`: the page before the match `h` is the block of the ranking that ends just before it -/
theorem beforeSpec_split {so : SortOrder} {ms P R : List Match} {h : Match} (n : Nat)
    (hd : HitsDistinct ms) (hk : KeysDistinct so ms) (hS : sort so ms = P ++ h :: R) :
    beforeSpec so n h.keys ms = lastN n P := by
  unfold beforeSpec
  have hs : Sorted so (P ++ h :: R) := hS ▸ sort_sorted so hd
  have hk' : KeysDistinct so (P ++ h :: R) := hS ▸ hk.perm (sort_perm so ms).symm
  rw [hS, filter_before_split hs hk']

theorem lastN_eq_nil_of_pos {l : List Match} {n : Nat} (hn : 1 ≤ n) (h : lastN n l = []) : l = [] := by
  unfold lastN at h
  have := congrArg length h
  rw [length_drop] at this
  cases l with
  | nil => rfl
  | cons a t => simp at this; omega

theorem take_append_lastN (n : Nat) (l : List Match) : l.take (l.length - n) ++ lastN n l = l :=
  take_append_drop _ _

/-- the search-before chain walks the ranking backwards in blocks of `n` -/
theorem beforeChain_blocks {so : SortOrder} {ms : List Match} {n : Nat} (hn : 1 ≤ n)
    (hd : HitsDistinct ms) (hk : KeysDistinct so ms) :
    ∀ (fuel : Nat) (P R : List Match), sort so ms = P ++ R →
      beforeChain so n ms fuel (lastN n P) = blocksBack n fuel P
  | 0, _, _, _ => rfl
  | f + 1, P, R, hS => by
    unfold beforeChain blocksBack
    by_cases hP : P = []
    · subst hP; simp [lastN]
    · have hpage : lastN n P ≠ [] := fun e => hP (lastN_eq_nil_of_pos hn e)
      have hPe : P.isEmpty = false := by cases P with
        | nil => exact absurd rfl hP
        | cons _ _ => rfl
      simp only [hPe, Bool.false_eq_true, if_false]
      obtain ⟨h, Q, hQ⟩ : ∃ h Q, lastN n P = h :: Q := by
        cases hl : lastN n P with
        | nil => exact absurd hl hpage
        | cons h Q => exact ⟨h, Q, rfl⟩
      rw [hQ]
      simp only [head?_cons]
      have hS' : sort so ms = P.take (P.length - n) ++ h :: (Q ++ R) := by
        rw [hS]
        conv => lhs; rw [← take_append_lastN n P, hQ]
        simp
      have hnext : collectBefore so n h.keys ms = lastN n (P.take (P.length - n)) := by
        unfold collectBefore
        rw [collectBeforeWith_eq_spec _ so n _ ms hd hk, beforeSpec_split n hd hk hS']
      rw [hnext, beforeChain_blocks hn hd hk f (P.take (P.length - n)) (h :: (Q ++ R)) hS']

theorem blocksBack_flatten {n : Nat} (hn : 1 ≤ n) : ∀ (fuel : Nat) (l : List Match), l.length ≤ fuel →
    (blocksBack n fuel l).reverse.flatten = l
  | 0, l, h => by
    have : l = [] := by cases l with
      | nil => rfl
      | cons _ _ => simp at h
    subst this; rfl
  | f + 1, l, h => by
    unfold blocksBack
    cases hl : l with
    | nil => rfl
    | cons a t =>
      simp only [isEmpty_cons, Bool.false_eq_true, if_false, reverse_cons, flatten_append, flatten_cons,
        flatten_nil, append_nil]
      rw [blocksBack_flatten hn f _ (by subst hl; simp only [length_take, length_cons] at h ⊢; omega)]
      exact take_append_lastN n (a :: t)

end Bluge.TopN

import BlugeProofs.C11.PolN
import BlugeGen.C02
import BlugeGen.C11
/-! # C11 — no needed file is ever removed; handles and the lock are released

Property theorems about the model `Bluge.Persist` (KeepNLatestDeletionPolicy transcribed wholesale,
`remove` with its exclusive flock, OpenWriter's Setup→Lock→loadSnapshots→List→Cleanup, close).
Shared invariant and helper lemmas: `BlugeProofs/C02/*.lean`. `Reachable n s` as in C02: every event
sequence of the protocol from the empty directory, retention `n` (arbitrary `≥ 1`). -/
namespace Bluge.C11
open Bluge.Persist

/-- **keepN**: in every reachable state `liveEpochs` is exactly the `N` newest committed epochs (all of them while
fewer than `N` were committed; non-empty after the first Commit), the snapshot file of each is on disk and
complete, and every segment file it names is on disk and complete. `N ≥ 1` arbitrary. -/
theorem keepN {n : Nat} (hn : 1 ≤ n) {s : State} (h : Reachable n s) :
    s.pol.live = s.commits.drop (s.commits.length - n) ∧
    (s.commits ≠ [] → s.pol.live ≠ []) ∧
    ∀ e ∈ s.pol.live, ∃ f ∈ completeSnapshots s.disk, f.epoch = e ∧ segmentsComplete s.disk f := by
  have hI := inv_reachable hn h
  have hkn := hI.kn
  rw [reachable_pol_n h] at hkn
  refine ⟨hkn, ?_, ?_⟩
  · intro hne hl
    rw [hkn] at hl
    have : (s.commits.drop (s.commits.length - n)).length = 0 := by rw [hl]; rfl
    rw [List.length_drop] at this
    have : 0 < s.commits.length := List.length_pos_iff.mpr hne
    omega
  · intro e he
    obtain ⟨f, hf, hfe, hfc⟩ := hI.lf e he
    exact ⟨f, List.mem_filter.mpr ⟨hf, hfc⟩, hfe, hI.sc f hf hfc⟩

/-- **no_needed_removed**: a segment removal by the policy's clean-up is enabled only for a segment that
no entry of `liveSegments` names; in every reachable state such a segment is named neither by the current
root, nor by ANY complete snapshot file on disk (retained or awaiting removal) -/
theorem no_needed_removed {n : Nat} (hn : 1 ≤ n) {s s' : State} (h : Reachable n s) {sid : Nat} {ok : Bool}
    (hs : step s (.cleanupRemoveSeg sid ok) = some s') :
    (∀ y ∈ s.pol.liveSegs, sid ∉ y.2) ∧ sid ∉ s.rootSegs ∧
    (∀ f ∈ completeSnapshots s.disk, sid ∉ f.segs) ∧ s.job = none := by
  have hI := inv_reachable hn h
  simp only [step, stepCleanupSeg] at hs
  split at hs
  · rename_i hg
    obtain ⟨ho, hj, hk, hnm⟩ := hg
    have hno := Policy.named_false hnm
    refine ⟨hno, ?_, ?_, hj⟩
    · intro hr
      obtain ⟨y, hy, _, hxy⟩ := hI.a ho sid hr hk
      exact hno y hy hxy
    · intro f hf hx
      obtain ⟨hf1, hf2⟩ := List.mem_filter.mp hf
      rcases hI.tr ho f hf1 hf2 with h1 | ⟨j, hj', _⟩
      · exact hno _ h1 hx
      · rw [hj] at hj'; cases hj'
  · cases hs

/-- every file segment of the current root is on disk and complete, in every reachable state -/
theorem root_files_present {n : Nat} (hn : 1 ≤ n) {s : State} (h : Reachable n s) :
    ∀ x ∈ rootFiles s, s.disk.segOK x = true := by
  intro x hx
  have hI := inv_reachable hn h
  simp only [rootFiles, List.mem_filter, Bool.not_eq_true', List.contains_eq_mem, decide_eq_false_iff_not] at hx
  exact hI.rf x hx.1 hx.2

/-- every complete snapshot file on disk can be loaded: all its segment files are there and complete -/
theorem snapshots_closed {n : Nat} (hn : 1 ≤ n) {s : State} (h : Reachable n s) :
    ∀ f ∈ completeSnapshots s.disk, segmentsComplete s.disk f := by
  intro f hf
  obtain ⟨hf1, hf2⟩ := List.mem_filter.mp hf
  exact (inv_reachable hn h).sc f hf1 hf2

/-- `remove` takes an exclusive non-blocking flock first: a removal that succeeds is of a file no open reader holds -/
theorem remove_blocked_by_shared_lock {s s' : State} {sid : Nat}
    (hs : step s (.cleanupRemoveSeg sid true) = some s') : ∀ r ∈ s.readers, sid ∉ r.segs := by
  simp only [step, stepCleanupSeg] at hs
  split at hs
  · simp only [if_true] at hs
    split at hs
    · assumption
    · cases hs
  · cases hs

/-- a failed removal changes nothing: the policy keeps the entry and retries later -/
theorem failed_remove_retried {s s' : State} {sid : Nat} (hs : step s (.cleanupRemoveSeg sid false) = some s') : s' = s := by
  simp only [step, stepCleanupSeg] at hs
  split at hs
  · simp at hs; exact hs.symm
  · cases hs

/-- **lock_released**: `close` ends with `Unlock` -/
theorem lock_released {s s' : State} (hs : step s .closeWriter = some s') : s'.lock = false ∧ s'.isOpen = false := by
  simp only [step, stepClose] at hs
  split at hs
  · cases hs; exact ⟨rfl, rfl⟩
  · cases hs

/-- **close_returns_after_close_event**: in every reachable state, a Close call that has returned (enabled only after the
one `closeWriter` event of the writer) finds the lock released, the loops stopped (no job, no merge write in flight) and
the root dropped — whichever of several concurrent callers it is -/
theorem close_returns_after_close_event {n : Nat} (hn : 1 ≤ n) {s s' : State} (h : Reachable n s)
    (hc : closeReturned s = some s') :
    s' = s ∧ s.isOpen = false ∧ s.lock = false ∧ s.job = none ∧ s.mergeW = [] ∧ s.rootSegs = [] := by
  have hI := inv_reachable hn h
  unfold closeReturned at hc
  split at hc
  · cases hc
  · rename_i ho
    have ho' : s.isOpen = false := by cases hb : s.isOpen <;> simp_all
    cases hc
    have hci := hI.closed_idle ho'
    exact ⟨rfl, ho', by rw [hI.lock_iff, ho'], hci.1, hci.2.1, hci.2.2.2.1⟩

/-- a Close return is not enabled while the writer is open (the second of two concurrent callers must wait) -/
theorem close_return_not_enabled_while_open {s : State} (ho : s.isOpen = true) : closeReturned s = none := by
  simp [closeReturned, ho]

/-- **close_keeps_reader_handles**: `closeWriter` releases nothing a reader holds — the readers, with the segment files they
hold open, and the disk are unchanged across the close; only `readerClose` (or the death of the process) lets go of them -/
theorem close_keeps_reader_handles {s s' : State} (hs : step s .closeWriter = some s') :
    s'.readers = s.readers ∧ s'.disk = s.disk := by
  simp only [step, stepClose] at hs
  split at hs
  · cases hs; exact ⟨rfl, rfl⟩
  · cases hs

/-- a reader stays open (same held segment files) through every event except its own `readerClose` and a crash -/
theorem reader_held_until_closed {s s' : State} {ev : Event} (hs : step s ev = some s') {r : Reader} (hr : r ∈ s.readers)
    (hne : ev ≠ .readerClose r.rid) (hnc : ev ≠ .crash) : r ∈ s'.readers := by
  cases ev <;> simp only [step, stepIntro, stepIntroMerge, stepIntroPersist, stepIntroFail, stepGrab, stepSegBegin, stepSegEnd,
    stepMergeSegBegin, stepMergeSegEnd, stepEquiv, stepSnapBegin, stepSnapEnd, stepCommit, stepAck, stepPersistFail,
    stepCleanupSnap, stepCleanupSeg, stepReaderOpen, stepReaderClose, stepFault, stepOpen, stepClose, reopen] at hs
  case crash => exact absurd rfl hnc
  case readerClose rid =>
    split at hs
    · cases hs
      simp only [List.mem_filter, bne_iff_ne, ne_eq]
      exact ⟨hr, fun h => hne (by rw [h])⟩
    · cases hs
  all_goals (repeat' split at hs)
  all_goals first | (cases hs; done) | (cases hs; first | exact hr | (simp [hr]; done))

/-- **second_writer_refused**: while the lock is held, OpenWriter fails at `Lock()` and changes nothing
(no truncation, no removal, no clean-up) -/
theorem second_writer_refused {s : State} (hl : s.lock = true) : step s .openWriter = some s := by
  simp [step, stepOpen, hl]

/-- an open writer holds the lock, so a second OpenWriter is refused without harming the first -/
theorem second_writer_refused_while_open {n : Nat} (hn : 1 ≤ n) {s : State} (h : Reachable n s)
    (ho : s.isOpen = true) : step s .openWriter = some s := by
  have := (inv_reachable hn h).lock_iff
  exact second_writer_refused (by rw [this, ho])

/-- **reopen_at_once**: after `close` the directory can be opened again immediately (on a directory without
snapshot files, or once a snapshot was committed) -/
theorem reopen_at_once {n : Nat} (hn : 1 ≤ n) {s s' : State} (h : Reachable n s) (hs : step s .closeWriter = some s')
    (hc : s.disk.snaps = [] ∨ s.commits ≠ []) : ∃ s'', step s' .openWriter = some s'' ∧ s''.isOpen = true ∧ s''.lock = true := by
  have hI := inv_reachable hn h
  have hk := keepN hn h
  simp only [step, stepClose] at hs
  split at hs
  · cases hs
    simp only [step, stepOpen, Bool.false_eq_true, if_false, reopen]
    cases hlast : (loadOrder s.disk).getLast? with
    | none =>
      rcases hc with h1 | h1
      · simp [h1]
      · exfalso
        have hne := hk.2.1 h1
        cases hl : s.pol.live with
        | nil => exact hne hl
        | cons e r =>
          obtain ⟨f, hf, hfe, hfc⟩ := hI.lf e (by simp [hl])
          have hm : f ∈ loadOrder s.disk := mem_loadOrder.mpr ⟨hf, loadable_of_complete hI hf hfc⟩
          have : loadOrder s.disk = [] := List.getLast?_eq_none_iff.mp hlast
          rw [this] at hm; cases hm
    | some f => exact ⟨_, rfl, rfl, rfl⟩
  · cases hs

/-! ## Gen obligations (regenerated into `BlugeGen.C11` / `BlugeGen.C02` from /repo's current source on every run) -/

/-- `stepOpen`/`reopen`: OpenWriter does Setup → Lock → loadSnapshots → List → Cleanup before any loop starts, returns at
once when Lock() fails, and performs no Persist/Remove of its own -/
theorem gen_open_order :
    BlugeGen.C11.openOrder = ["setup", "lock", "load-snapshots", "list", "cleanup", "loop", "loop", "loop"] ∧
    BlugeGen.C11.lockErrReturns = true := by decide

/-- `stepClose`: stop the loops, wait for them, drop the root, Unlock -/
theorem gen_close_order : BlugeGen.C11.closeOrder = ["close-closeCh", "wait", "replace-root", "unlock"] := by decide

/-- `stepClose` always releases the lock: in `close()` no `return` lies between `asyncTasks.Wait()` and `directory.Unlock()`
(an error of the dropped root's closers must not keep the pid file locked — closeOnce makes every later Close a no-op) -/
theorem close_always_unlocks : BlugeGen.C11.closeReturnsBeforeUnlock = 0 := by decide

/-- the in-memory merge gives back the reference it took with `loadSegment(newSegmentID)` both when the writer is closed
before the introduction and when the introduction was skipped (checked on every real run by the handle balance) -/
theorem mem_merge_releases_loaded_segment :
    BlugeGen.C11.memMergeReleases = ["closed-writer", "after-introduction"] := by decide

/-- `closeWriter` is one event and `closeReturned` comes after it for every caller: `Writer.Close` runs `close()` through
`s.closeOnce.Do` (a `sync.Once` field) and returns after it — concurrent callers wait for the first to finish -/
theorem close_goes_through_once : BlugeGen.C11.closeViaOnce = true := by decide

/-- the persister gives back the ONE reference it took at the grab exactly once, on the ErrClosed path and on the retry path of
its error branch (a second `ourSnapshot.Close()` would release segment handles under a reader of that root) -/
theorem persister_error_branch_closes_snapshot_once :
    BlugeGen.C11.errBranchClosesClosedPath = 1 ∧ BlugeGen.C11.errBranchClosesRetryPath = 1 := by decide

/-- `loadOrder`/`commitAll`: loadSnapshots walks oldest → newest, commits each loaded snapshot, skips the unloadable -/
theorem gen_load_snapshots :
    BlugeGen.C11.loadOldestFirst = true ∧ BlugeGen.C11.loadCommits = true ∧ BlugeGen.C11.loadContinuesOnErr = true := by decide

/-- … and commits ONLY those: one `deletionPolicy.Commit` call in loadSnapshots, not in an error branch (a torn newest
snapshot committed last would push the last good one out of `liveEpochs`) -/
theorem gen_load_commits_only_loaded :
    BlugeGen.C11.loadCommitCalls = 1 ∧ BlugeGen.C11.loadCommitOnErr = false := by decide

/-- `Policy.commit` is `KeepNLatestDeletionPolicy.Commit` -/
theorem gen_policy_commit :
    BlugeGen.C11.commitExprs =
      ["p.knownSegmentFiles[segment.id] = struct{}{}", "p.liveEpochs = append(p.liveEpochs, snapshot.epoch)",
       "p.liveSegments[snapshot.epoch] = snapshotSegments", "if len(p.liveEpochs) > p.n",
       "newlyDeletable := p.liveEpochs[:len(p.liveEpochs)-p.n]", "p.liveEpochs = p.liveEpochs[len(p.liveEpochs)-p.n:]",
       "p.deletableEpochs = append(p.deletableEpochs, newlyDeletable...)"] := by rfl

/-- `stepCleanupSnap` is one iteration of cleanupSnapshots, `stepCleanupSeg` one of cleanupSegments (skip when ANY
liveSegments entry names the segment; forget the file only when Remove succeeded); snapshots first -/
theorem gen_policy_cleanup :
    BlugeGen.C11.cleanupSnapshotsExprs =
      ["range p.deletableEpochs",
       "if err != nil { remainingEpochs = append(remainingEpochs, deletableEpoch); } else { delete(p.liveSegments, deletableEpoch); }",
       "p.deletableEpochs = remainingEpochs"] ∧
    BlugeGen.C11.cleanupSegmentsSkeleton =
      ["range p.knownSegmentFiles", "range p.liveSegments", "if _, ok := segmentInSnapshot[segmentID]; ok", "continue-outer",
       "remove", "if err != nil", "continue", "delete p.knownSegmentFiles"] ∧
    BlugeGen.C11.cleanupOrder = ["cleanupSnapshots", "cleanupSegments"] := ⟨by rfl, by rfl, by rfl⟩

/-- `remove` opens exclusively before `os.Remove` (shared with C02) -/
theorem gen_remove_exclusive_first : BlugeGen.C02.removeExclFirst = true := by decide

/-! Non-vacuity: concrete traces (tests beside the theorems). -/

def twoCommits : List Event :=
  [.openWriter, .intro 1 (some 2) [] true false, .persistGrab, .segBegin 2, .segEnd 2 true true, .introPersist 2,
   .snapBegin, .snapEnd true true, .commit, .ack, .persistGrab, .snapBegin, .snapEnd true true, .commit, .ack]

/-- N = 1: after two commits epoch 1 is deletable, clean-up removes its snapshot; segment 2 is still named by epoch 2 -/
example : (run (init 1) (twoCommits ++ [.cleanupRemoveSnap 1 true])).map
    (fun s => (s.pol.live, s.pol.deletable, s.disk.snaps.map (·.epoch))) = some ([2], [], [2]) := by decide
example : run (init 1) (twoCommits ++ [.cleanupRemoveSnap 1 true, .cleanupRemoveSeg 2 true]) = none := by decide
/-- N = 2 keeps both -/
example : (run (init 2) twoCommits).map (fun s => (s.pol.live, s.pol.deletable)) = some ([1, 2], []) := by decide
/-- second writer refused, close, reopen -/
example : (run (init 1) (twoCommits ++ [.openWriter, .closeWriter, .openWriter])).map
    (fun s => (s.isOpen, s.lock, s.rootEpoch, s.commits)) = some (true, true, 2, [1, 2]) := by decide

end Bluge.C11

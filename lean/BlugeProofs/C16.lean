import Mathlib.Algebra.BigOperators.Group.List.Basic
import Mathlib.Algebra.Field.Basic
import Mathlib.Data.Nat.Cast.Defs
import BlugeProofs.C16.Algebra
import BlugeProofs.C16.Decode
import Bluge.C16.Code
/-! # C16 — aggregations are exact over the whole match set

Property theorems only (helper lemmas: `BlugeProofs/C16/Lemmas.lean`). The model is `Bluge/Agg.lean`.

* `agg_sees_all` … : the bucket handed back by the collectors is the fold of `Consume` over ALL matches,
  whatever `size`, `skip`, sort key, compare function and search-after key.
* per calculator: the fold equals the mathematical definition over the matched values (unbounded match lists,
  arbitrary carrier with the stated algebraic structure, arbitrary sketch type, arbitrary nested calculator).
* loading: the values a calculator sees are the document's own values **iff every field is listed exactly once**
  in `neededFields`. Two facts about the code decide that (`CodeFacts`: is the field list de-duplicated; do the
  range aggregations report their nested fields); they are REGENERATED from /repo on every run
  (`go/extract/c16.go` → `BlugeGen.C16` → `Bluge.Agg.codeFacts`). `agg_exact_iff`: the end-to-end statement
  `AggExact` holds exactly when both are true (concrete failing witnesses otherwise:
  `agg_exact_fails_without_dedup`, `agg_exact_fails_without_range_fields` — the tree as first pinned, before the
  repairs 3f12f0c and 527db82); `agg_exact`: it holds for the tree under check. -/
namespace Bluge.C16
open Bluge.Agg

/-! ## 1. The collectors feed every match to the bucket -/
section Collectors
variable {δ μ κ κ' σ ρ : Type}

/-- `TopNCollector.Collect`: for every size, skip, search-after key, compare function, sort key and every match
sequence, the bucket handed back is `Finish` of the fold of `Consume` over ALL (loaded) matches. -/
theorem agg_sees_all (cfg : TopNCfg κ) (load : δ → μ) (key : μ → κ) (c : Calc μ σ ρ) (ds : List δ) :
    (collectTopN cfg load key c ds).bucket = c.finish (c.feed (ds.map load)) := by
  simp [collectTopN, foldl_collectSingle_bucket, Calc.feed]

/-- what the caller reads from `Aggregations()` -/
theorem agg_sees_all_value (cfg : TopNCfg κ) (load : δ → μ) (key : μ → κ) (c : Calc μ σ ρ) (ds : List δ) :
    c.value (collectTopN cfg load key c ds).bucket = c.run (ds.map load) := by
  rw [agg_sees_all]; rfl

/-- hence independent of n, from, sort and paging key (even of the type of the sort key) -/
theorem agg_independent_of_paging (cfg : TopNCfg κ) (cfg' : TopNCfg κ') (load : δ → μ) (key : μ → κ)
    (key' : μ → κ') (c : Calc μ σ ρ) (ds : List δ) :
    (collectTopN cfg load key c ds).bucket = (collectTopN cfg' load key' c ds).bucket := by
  rw [agg_sees_all, agg_sees_all]

/-- `AllIterator`: after the iterator is drained (`|ds|` matches and the final `nil`) the bucket is the same
fold, finished once, and the iterator returned exactly the matches. -/
theorem all_iterator_sees_all (load : δ → μ) (c : Calc μ σ ρ) (ds : List δ) :
    (AllIt.nexts load c (ds.length + 1) (AllIt.start c ds)).1.bucket = c.finish (c.feed (ds.map load)) ∧
    (AllIt.nexts load c (ds.length + 1) (AllIt.start c ds)).2 = ds.map load ∧
    (AllIt.nexts load c (ds.length + 1) (AllIt.start c ds)).1.done = true := by
  unfold AllIt.start
  rw [nexts_drain]
  exact ⟨rfl, rfl, rfl⟩

/-- before it is drained the bucket holds exactly the matches returned so far (and is not finished) -/
theorem all_iterator_prefix (load : δ → μ) (c : Calc μ σ ρ) (ds : List δ) (k : Nat) (hk : k ≤ ds.length) :
    (AllIt.nexts load c k (AllIt.start c ds)).1.bucket = c.feed ((ds.take k).map load) := by
  unfold AllIt.start
  rw [nexts_prefix _ _ _ _ _ _ hk]
  rfl

/-- a drained iterator ignores further `Next` calls: `Finish` runs once -/
theorem all_iterator_done (load : δ → μ) (c : Calc μ σ ρ) (it : AllIt δ σ) (h : it.done = true) :
    AllIt.next load c it = (it, none) := next_done load c it h

/-- TopN and AllMatches hand back the same bucket -/
theorem topn_eq_allmatches (cfg : TopNCfg κ) (load : δ → μ) (key : μ → κ) (c : Calc μ σ ρ) (ds : List δ) :
    (collectTopN cfg load key c ds).bucket = (AllIt.nexts load c (ds.length + 1) (AllIt.start c ds)).1.bucket := by
  rw [agg_sees_all, (all_iterator_sees_all load c ds).1]
end Collectors

/-! ## 2. Buckets of calculators -/
section Buckets
variable {μ σ ρ τ : Type}

/-- `search.Bucket`: every member sees every match; members do not interfere -/
theorem all_run (cs : List (Calc μ σ ρ)) (ms : List μ) : (Calc.all cs).run ms = cs.map (fun c => c.run ms) := by
  simp only [Calc.run, all_feed]
  simp only [Calc.all, zipWith_self_map]

theorem embed_run (inj : σ → τ) (prj : τ → Option σ) (d : ρ) (c : Calc μ σ ρ) (h : ∀ s, prj (inj s) = some s)
    (ms : List μ) : (c.embed inj prj d).run ms = c.run ms := by
  have hf : (c.embed inj prj d).feed ms = inj (c.feed ms) := embed_foldl inj prj d c h c.init ms
  have e1 : ∀ s, (c.embed inj prj d).finish (inj s) = inj (c.finish s) := by
    intro s
    show (match prj (inj s) with | some s => inj (c.finish s) | none => inj s) = _
    rw [h]
  have e2 : ∀ s, (c.embed inj prj d).value (inj s) = c.value s := by
    intro s
    show (match prj (inj s) with | some s => c.value s | none => d) = _
    rw [h]
  show (c.embed inj prj d).value ((c.embed inj prj d).finish ((c.embed inj prj d).feed ms)) = _
  rw [hf, e1, e2]; rfl

theorem mapVal_run {ρ' : Type} (g : ρ → ρ') (c : Calc μ σ ρ) (ms : List μ) : (c.mapVal g).run ms = g (c.run ms) := rfl
end Buckets

/-! ## 3. Metrics -/
section Metrics
variable {μ α : Type}

/-- `count` = number of matches -/
theorem count_eq_length [AddMonoidWithOne α] (ms : List μ) : (countCalc : Calc μ α α).run ms = (ms.length : α) := by
  show (svm (0 : α) sumStep (countSrc : μ → List α)).run ms = _
  rw [svm_run]
  have h1 : allVals (countSrc : μ → List α) ms = List.replicate ms.length 1 := by
    induction ms with
    | nil => rfl
    | cons m ms ih => simp only [allVals, List.flatMap_cons] at *; rw [ih]; rfl
  rw [h1]
  generalize ms.length = n
  induction n with
  | zero => simp
  | succ n ih =>
    rw [List.replicate_succ', List.foldl_append, ih]
    show (n : α) + 1 = _
    rw [Nat.cast_succ]

/-- `sum` = Σ of all matched values (a left fold of `+`, in match order: `specSum`) -/
theorem sum_eq_spec [Add α] [OfNat α 0] (src : μ → List α) (ms : List μ) :
    (sumCalc src).run ms = specSum src ms := by
  show (svm 0 sumStep src).run ms = _
  rw [svm_run]; rfl

theorem sum_eq [AddMonoid α] (src : μ → List α) (ms : List μ) :
    (sumCalc src).run ms = (allVals src ms).sum := by
  show (svm 0 sumStep src).run ms = _
  rw [svm_run, List.sum_eq_foldl]; rfl

/-- `min`: the result is a lower bound of every matched value and of the initial value (`+Inf` in Go), and it is
attained — it is the initial value itself on the empty set. -/
theorem min_eq [LinearOrder α] (inf : α) (src : μ → List α) (ms : List μ) :
    (minCalc inf src).run ms = (allVals src ms).foldl min inf ∧
    (∀ v ∈ allVals src ms, (minCalc inf src).run ms ≤ v) ∧ (minCalc inf src).run ms ≤ inf ∧
    ((minCalc inf src).run ms = inf ∨ (minCalc inf src).run ms ∈ allVals src ms) := by
  have h : (minCalc inf src).run ms = (allVals src ms).foldl min inf := by
    unfold minCalc; rw [svm_run]; congr 1; funext s v; exact minStep_eq_min s v
  obtain ⟨h1, h2, h3⟩ := foldl_min_props (allVals src ms) inf
  rw [h]; exact ⟨rfl, h2, h1, h3⟩

theorem min_empty [LT α] [DecidableLT α] (inf : α) (src : μ → List α) (ms : List μ) (h : allVals src ms = []) :
    (minCalc inf src).run ms = inf := by
  unfold minCalc; rw [svm_run, h]; rfl

/-- with an initial value above every matched value (Go: `+Inf`) and at least one value, `min` is the least value -/
theorem min_is_least [LinearOrder α] (inf : α) (src : μ → List α) (ms : List μ)
    (hne : allVals src ms ≠ []) (htop : ∀ v ∈ allVals src ms, v ≤ inf) :
    (minCalc inf src).run ms ∈ allVals src ms ∧ ∀ v ∈ allVals src ms, (minCalc inf src).run ms ≤ v := by
  obtain ⟨_, h2, h3, h4⟩ := min_eq inf src ms
  refine ⟨?_, h2⟩
  rcases h4 with h4 | h4
  · obtain ⟨w, hw⟩ := List.exists_mem_of_ne_nil _ hne
    have hle : (minCalc inf src).run ms ≤ w := h2 w hw
    have hge : w ≤ (minCalc inf src).run ms := by rw [h4]; exact htop w hw
    have : (minCalc inf src).run ms = w := le_antisymm hle hge
    rw [this]; exact hw
  · exact h4

/-- `max` / `MaxStartingAt` -/
theorem max_eq [LinearOrder α] (initial : α) (src : μ → List α) (ms : List μ) :
    (maxCalc initial src).run ms = (allVals src ms).foldl max initial ∧
    (∀ v ∈ allVals src ms, v ≤ (maxCalc initial src).run ms) ∧ initial ≤ (maxCalc initial src).run ms ∧
    ((maxCalc initial src).run ms = initial ∨ (maxCalc initial src).run ms ∈ allVals src ms) := by
  have h : (maxCalc initial src).run ms = (allVals src ms).foldl max initial := by
    unfold maxCalc; rw [svm_run]; congr 1; funext s v; exact maxStep_eq_max s v
  obtain ⟨h1, h2, h3⟩ := foldl_max_props (allVals src ms) initial
  rw [h]; exact ⟨rfl, h2, h1, h3⟩

theorem max_empty [LT α] [DecidableLT α] (initial : α) (src : μ → List α) (ms : List μ) (h : allVals src ms = []) :
    (maxCalc initial src).run ms = initial := by
  unfold maxCalc; rw [svm_run, h]; rfl

theorem max_is_greatest [LinearOrder α] (initial : α) (src : μ → List α) (ms : List μ)
    (hne : allVals src ms ≠ []) (hbot : ∀ v ∈ allVals src ms, initial ≤ v) :
    (maxCalc initial src).run ms ∈ allVals src ms ∧ ∀ v ∈ allVals src ms, v ≤ (maxCalc initial src).run ms := by
  obtain ⟨_, h2, h3, h4⟩ := max_eq initial src ms
  refine ⟨?_, h2⟩
  rcases h4 with h4 | h4
  · obtain ⟨w, hw⟩ := List.exists_mem_of_ne_nil _ hne
    have hle : w ≤ (maxCalc initial src).run ms := h2 w hw
    have hge : (maxCalc initial src).run ms ≤ w := by rw [h4]; exact hbot w hw
    have : (maxCalc initial src).run ms = w := le_antisymm hge hle
    rw [this]; exact hw
  · exact h4

/-- weighted average = (Σ v·w) / (Σ w) over the (value, weight of its document) pairs, as left folds in match
order — for ANY carrier (no algebraic law is used: this is the very expression Go evaluates in float64). -/
theorem weighted_avg_eq_spec [Add α] [Mul α] [Div α] [OfNat α 0] [OfNat α 1]
    (src : μ → List α) (w : Option (μ → List α)) (ms : List μ) :
    (wavgCalc src w).run ms = specWAvg src w ms := by
  have hf : (wavgCalc src w).feed ms = _ := wavg_consume_foldl src w ms ⟨0, 0⟩
  simp only [Calc.run, hf, wavg_foldl]
  rfl

/-- … which over a division ring is Σ v·w / Σ w -/
theorem weighted_avg_eq [DivisionRing α] (src : μ → List α) (w : Option (μ → List α)) (ms : List μ) :
    (wavgCalc src w).run ms =
      ((ms.flatMap fun m => (src m).map fun v => v * weightOf w m).sum) /
      ((ms.flatMap fun m => (src m).map fun _ => weightOf w m).sum) := by
  rw [weighted_avg_eq_spec]
  show List.foldl (· + ·) 0 ((ms.flatMap fun m => (src m).map fun v => (v, weightOf w m)).map fun p => p.1 * p.2) /
      List.foldl (· + ·) 0 ((ms.flatMap fun m => (src m).map fun v => (v, weightOf w m)).map fun p => p.2) = _
  simp only [← List.sum_eq_foldl, List.map_flatMap, List.map_map]
  rfl

/-- `avg` = Σ values / number of values -/
theorem avg_eq [DivisionRing α] (src : μ → List α) (ms : List μ) :
    (avgCalc src).run ms = (allVals src ms).sum / ((allVals src ms).length : α) := by
  unfold avgCalc
  rw [weighted_avg_eq]
  have h1 : (ms.flatMap fun m => (src m).map fun v => v * weightOf (none : Option (μ → List α)) m) = allVals src ms := by
    simp [weightOf, allVals]
  have h2 : ∀ l : List α, (l.map fun _ => (1 : α)).sum = (l.length : α) := by
    intro l; induction l with
    | nil => simp
    | cons x xs ih => simp [add_comm]
  have h3 : (ms.flatMap fun m => (src m).map fun _ => weightOf (none : Option (μ → List α)) m) =
      (allVals src ms).map fun _ => (1 : α) := by
    simp [weightOf, allVals, List.map_flatMap]
  rw [h1, h3, h2]
end Metrics

/-! ## 4. Sketches -/

/-- cardinality (`sketch.Insert`) and quantiles (`tdigest.Add`): the calculator is the fold of the sketch's insert
over exactly the matched values in match order, for an arbitrary sketch type — so the result is the sketch fed the
same values directly. (What the sketch then estimates is a property of hyperloglog / go-tdigest: assumed, checked
per request by the correspondence run.) -/
theorem sketch_fed_exactly {μ β S : Type} (empty : S) (insert : S → β → S) (src : μ → List β) (ms : List μ) :
    (sketchCalc empty insert src).run ms = (allVals src ms).foldl insert empty := by
  simp only [Calc.run, Calc.feed, sketchCalc, allVals, foldl_flatMap', id]

/-! ## 5. Terms -/
section Terms
variable {μ σ ρ : Type} (src : μ → List Term) (size : Nat) (sub : Calc μ σ ρ) (cnt : σ → Nat)
  (sort : List (Term × σ) → List (Term × σ))

/-- the bucket named `t` exists iff some match has the value `t`, and it has consumed exactly the matches having
`t` (once per occurrence), in match order -/
theorem terms_bucket_state (ms : List μ) (t : Term) :
    getB t ((termsCalc src size sub cnt sort).feed ms).buckets =
      if occ src t ms = [] then none else some (sub.feed (occ src t ms)) := by
  have := terms_foldl src size sub cnt sort { total := 0, buckets := [] } ms t
  simp only [Calc.feed, termsCalc] at *
  rw [this]
  simp [feedOpt, getB]

theorem terms_total (ms : List μ) : ((termsCalc src size sub cnt sort).feed ms).total = ms.length := by
  have := terms_foldl_total src size sub cnt sort { total := 0, buckets := [] } ms
  simp only [Calc.feed, termsCalc] at *
  rw [this]; simp

theorem terms_names_nodup (ms : List μ) :
    (((termsCalc src size sub cnt sort).feed ms).buckets.map (·.1)).Nodup := by
  have := terms_foldl_nodup src size sub cnt sort { total := 0, buckets := [] } ms (by simp)
  simpa only [Calc.feed, termsCalc] using this

theorem terms_bucket_of_mem (ms : List μ) (t : Term) (s : σ)
    (h : (t, s) ∈ ((termsCalc src size sub cnt sort).feed ms).buckets) :
    occ src t ms ≠ [] ∧ s = sub.feed (occ src t ms) := by
  have h1 := getB_eq_some_of_mem t s _ (terms_names_nodup src size sub cnt sort ms) h
  rw [terms_bucket_state] at h1
  by_cases he : occ src t ms = []
  · rw [if_pos he] at h1; cases h1
  · rw [if_neg he] at h1; exact ⟨he, (Option.some.inj h1).symm⟩

theorem terms_bucket_exists (ms : List μ) (t : Term) (h : occ src t ms ≠ []) :
    (t, sub.feed (occ src t ms)) ∈ ((termsCalc src size sub cnt sort).feed ms).buckets := by
  apply mem_keys_of_getB
  rw [terms_bucket_state, if_neg h]

/-- count of bucket `t` = number of (match, value) pairs with value `t`; `hcnt`: the nested bucket contains "count" -/
theorem terms_bucket_count (hcnt : ∀ xs, cnt (sub.feed xs) = xs.length) (ms : List μ) (t : Term) (s : σ)
    (h : (t, s) ∈ ((termsCalc src size sub cnt sort).feed ms).buckets) :
    cnt s = (occ src t ms).length := by
  rw [(terms_bucket_of_mem src size sub cnt sort ms t s h).2, hcnt]

/-- doc values of a document are distinct terms: then "once per occurrence" is "the matches having value t" -/
theorem occ_eq_having (hnd : ∀ m, (src m).Nodup) (t : Term) (ms : List μ) : occ src t ms = having src t ms := by
  induction ms with
  | nil => rfl
  | cons m ms ih =>
    rw [occ_cons, ih]
    simp only [having, List.filter_cons]
    by_cases h : t ∈ src m
    · have : (src m).count t = 1 := by rw [(hnd m).count, if_pos h]
      simp [this, h]
    · have : (src m).count t = 0 := List.count_eq_zero_of_not_mem h
      simp [this, h]

/-- what `Finish` + the accessors return, spelled out -/
theorem terms_run (ms : List μ) :
    (termsCalc src size sub cnt sort).run ms =
      { buckets := ((sort ((termsCalc src size sub cnt sort).feed ms).buckets).take size).map
          (fun b => (b.1, cnt b.2, sub.value b.2)),
        other := (ms.length : Int) -
          (sumCounts cnt ((sort ((termsCalc src size sub cnt sort).feed ms).buckets).take size) : Int) } := by
  have ht := terms_total src size sub cnt sort ms
  simp only [Calc.run]
  simp only [termsCalc] at *
  simp [ht]

/-- the returned buckets are the `size` largest by count: as many as asked for (or all), each a real bucket,
in non-increasing count order, and no bucket left out has a larger count than one returned -/
theorem terms_returned (hs : SortSpec cnt sort) (ms : List μ) :
    let B := ((termsCalc src size sub cnt sort).feed ms).buckets
    let kept := (sort B).take size
    kept.length = min size B.length ∧ (∀ b ∈ kept, b ∈ B) ∧
    kept.Pairwise (fun a b => cnt b.2 ≤ cnt a.2) ∧
    (∀ b ∈ kept, ∀ b' ∈ B, b' ∉ kept → cnt b'.2 ≤ cnt b.2) := by
  intro B kept
  have hp := hs.perm B
  have hsorted := hs.sorted B
  refine ⟨?_, ?_, ?_, ?_⟩
  · simp [kept, List.length_take, hp.length_eq]
  · intro b hb; exact hp.mem_iff.mp (List.mem_of_mem_take hb)
  · exact hsorted.sublist (List.take_sublist _ _)
  · intro b hb b' hb' hnot
    have hb'' : b' ∈ sort B := hp.mem_iff.mpr hb'
    rw [← List.take_append_drop size (sort B)] at hb'' hsorted
    rcases List.mem_append.mp hb'' with h | h
    · exact absurd h hnot
    · exact (List.pairwise_append.mp hsorted).2.2 b hb b' h

/-- `other` = number of matches − Σ counts of the returned buckets -/
theorem terms_other (ms : List μ) :
    ((termsCalc src size sub cnt sort).run ms).other =
      (ms.length : Int) - ((((termsCalc src size sub cnt sort).run ms).buckets.map (fun b => b.2.1)).sum : Nat) := by
  rw [terms_run]
  simp only [List.map_map]
  rfl

end Terms

/-- `isortDesc` (Go's insertion sort, what `sort.Sort` runs for ≤ 12 buckets) is a sort by descending count -/
theorem isortDesc_spec {σ : Type} (cnt : σ → Nat) : SortSpec cnt (isortDesc cnt) where
  perm l := by simpa [isortDesc] using foldl_insDesc_perm cnt l []
  sorted l := foldl_insDesc_sorted cnt l [] List.Pairwise.nil

/-! ## 6. Ranges -/
section Ranges
variable {μ β R σ ρ : Type} (src : μ → List β) (ranges : List R) (mem : R → β → Bool) (sub : Calc μ σ ρ)

/-- bucket `r` has consumed the matches once per value inside `r`, in match order -/
theorem range_bucket_state (ms : List μ) :
    (rangeCalc src ranges mem sub).feed ms = ranges.map (fun r => sub.feed (occR src mem r ms)) := by
  have := range_foldl src ranges mem sub (fun _ => sub.init) ms
  simpa only [Calc.feed, rangeCalc] using this

theorem range_run (ms : List μ) :
    (rangeCalc src ranges mem sub).run ms = ranges.map (fun r => sub.run (occR src mem r ms)) := by
  simp only [Calc.run, range_bucket_state]
  simp [rangeCalc]

/-- count of bucket `r` = number of matched values inside `r` -/
theorem range_bucket_count (cnt : σ → Nat) (hcnt : ∀ xs, cnt (sub.feed xs) = xs.length) (ms : List μ) :
    ((rangeCalc src ranges mem sub).feed ms).map cnt = ranges.map (fun r => valuesIn src mem r ms) := by
  rw [range_bucket_state]
  simp [hcnt, occR_length]
end Ranges

/-- numeric ranges are `[low, high)` -/
theorem inNumRange_iff {α : Type} [LinearOrder α] (lo hi v : α) : inNumRange (lo, hi) v = true ↔ lo ≤ v ∧ v < hi := by
  simp [inNumRange]

/-- date ranges are `[start, end)`, a zero bound is no bound -/
theorem inDateRange_iff (s e : Option Int) (v : Int) :
    inDateRange (s, e) v = true ↔ (∀ x, s = some x → x ≤ v) ∧ (∀ x, e = some x → v < x) := by
  cases s <;> cases e <;> simp [inDateRange] <;> omega

/-! ## 7. The terms remainder for single-valued fields -/
section TermsOther
variable {μ σ ρ : Type} (src : μ → List Term) (size : Nat) (sub : Calc μ σ ρ) (cnt : σ → Nat)
  (sort : List (Term × σ) → List (Term × σ))

/-- for a field with at most one value per document, `other` is exactly the number of matches that are in no
returned bucket (matches without a value included) -/
theorem terms_other_single_valued (hs : SortSpec cnt sort) (hcnt : ∀ xs, cnt (sub.feed xs) = xs.length)
    (h1 : ∀ m, (src m).length ≤ 1) (ms : List μ) :
    ((termsCalc src size sub cnt sort).run ms).other =
      ((ms.filter (fun m => !(src m).any (fun t =>
          (((termsCalc src size sub cnt sort).run ms).buckets.map (·.1)).contains t))).length : Int) := by
  rw [terms_run]
  simp only [List.map_map]
  set B := ((termsCalc src size sub cnt sort).feed ms).buckets with hB
  set kept := (sort B).take size with hkept
  have hnames : (kept.map ((fun b : Term × Nat × ρ => b.1) ∘ fun b => (b.1, cnt b.2, sub.value b.2))) = kept.map (·.1) := by
    apply List.map_congr_left; intro b _; rfl
  rw [hnames]
  have hsub : ∀ b ∈ kept, b ∈ B := fun b hb => (hs.perm B).mem_iff.mp (List.mem_of_mem_take hb)
  have hnd : (kept.map (·.1)).Nodup := by
    have h0 : ((sort B).map (·.1)).Nodup :=
      ((hs.perm B).map _).nodup_iff.mpr (terms_names_nodup src size sub cnt sort ms)
    exact h0.sublist ((List.take_sublist _ _).map _)
  have hc : sumCounts cnt kept = ((kept.map (·.1)).map (fun t => (occ src t ms).length)).sum := by
    show (kept.map fun b => cnt b.2).sum = _
    rw [List.map_map]
    congr 1
    apply List.map_congr_left
    intro b hb
    exact terms_bucket_count src size sub cnt sort hcnt ms b.1 b.2 (hsub b hb)
  rw [hc, sum_occ_single src _ hnd h1 ms]
  have := length_filter_not (fun m => (src m).any (fun t => (kept.map (·.1)).contains t)) ms
  omega
end TermsOther

/-! ## 8. The calculators a request builds, and direct counting -/
section Request
variable {α S Q : Type}

theorem comap_run {μ μ' σ ρ : Type} (g : μ' → μ) (c : Calc μ σ ρ) (ms : List μ') :
    (c.comap g).run ms = c.run (ms.map g) := by
  simp only [Calc.run, Calc.feed]
  rw [comap_foldl]; rfl

/-- every metric calculator equals its direct definition (`specMetric`, what the driver's oracle evaluates) -/
theorem metricCalc_run_eq_spec [DivisionRing α] [LinearOrder α] (env : Env α S Q)
    (hof : ∀ n : Nat, env.ofNat n = (n : α)) (m : Metric α) (ms : List (DocVals α)) :
    (metricCalc env m).run ms = specMetric env m ms := by
  cases m with
  | count =>
    show ((countCalc : Calc (DocVals α) α α).embed MSt.one MSt.one? 0).run ms = env.ofNat ms.length
    rw [embed_run MSt.one MSt.one? 0 _ (fun _ => rfl), count_eq_length, hof]
  | sum f =>
    show ((sumCalc (numSrc f)).embed MSt.one MSt.one? 0).run ms = specSum (numSrc f) ms
    rw [embed_run MSt.one MSt.one? 0 _ (fun _ => rfl), sum_eq_spec]
  | min f =>
    show ((svm env.posInf minStep (numSrc f)).embed MSt.one MSt.one? 0).run ms = specMin env.posInf (numSrc f) ms
    rw [embed_run MSt.one MSt.one? 0 _ (fun _ => rfl), svm_run]; rfl
  | max f =>
    show ((svm env.negInf maxStep (numSrc f)).embed MSt.one MSt.one? 0).run ms = specMax env.negInf (numSrc f) ms
    rw [embed_run MSt.one MSt.one? 0 _ (fun _ => rfl), svm_run]; rfl
  | maxFrom f i =>
    show ((svm i maxStep (numSrc f)).embed MSt.one MSt.one? 0).run ms = specMax i (numSrc f) ms
    rw [embed_run MSt.one MSt.one? 0 _ (fun _ => rfl), svm_run]; rfl
  | avg f =>
    show ((wavgCalc (numSrc f) none).embed MSt.two MSt.two? 0).run ms = specWAvg (numSrc f) none ms
    rw [embed_run MSt.two MSt.two? 0 _ (fun _ => rfl), weighted_avg_eq_spec]
  | wavg f w =>
    show ((wavgCalc (numSrc f) (some (numSrc w))).embed MSt.two MSt.two? 0).run ms = specWAvg (numSrc f) (some (numSrc w)) ms
    rw [embed_run MSt.two MSt.two? 0 _ (fun _ => rfl), weighted_avg_eq_spec]

/-- one nested aggregation of a bucket = its direct definition (a nested sketch is the sketch fed the bucket's
values directly) -/
theorem subCalc1_run_eq_spec [DivisionRing α] [LinearOrder α] (env : Env α S Q)
    (hof : ∀ n : Nat, env.ofNat n = (n : α)) (x : SubAgg α) (ms : List (DocVals α)) :
    (subCalc1 env x).run ms = specSub env x ms := by
  cases x with
  | metric m =>
    show (((metricCalc env m).mapVal SRes.m).embed SSt.m SSt.m? (.m 0)).run ms = SRes.m (specMetric env m ms)
    rw [embed_run SSt.m SSt.m? _ _ (fun _ => rfl), mapVal_run, metricCalc_run_eq_spec env hof]
  | card f =>
    show (((sketchCalc env.hll env.hllInsert (txtSrc f)).mapVal SRes.card).embed SSt.card SSt.card? (.m 0)).run ms = _
    rw [embed_run SSt.card SSt.card? _ _ (fun _ => rfl), mapVal_run, sketch_fed_exactly]; rfl
  | quant f =>
    show (((sketchCalc env.td env.tdAdd (numSrc f)).mapVal SRes.quant).embed SSt.quant SSt.quant? (.m 0)).run ms = _
    rw [embed_run SSt.quant SSt.quant? _ _ (fun _ => rfl), mapVal_run, sketch_fed_exactly]; rfl

/-- the nested bucket of a terms / range bucket: count first, then every nested aggregation, each by direct definition -/
theorem subCalc_run_eq_spec [DivisionRing α] [LinearOrder α] (env : Env α S Q)
    (hof : ∀ n : Nat, env.ofNat n = (n : α)) (subs : List (SubAgg α)) (ms : List (DocVals α)) :
    (subCalc env subs).run ms = specSubs env subs ms := by
  show (Calc.all ((SubAgg.metric .count :: subs).map (subCalc1 env))).run ms = _
  rw [all_run, List.map_map]
  apply List.map_congr_left
  intro m _
  exact subCalc1_run_eq_spec env hof m ms

/-- the nested bucket contains "count": `uint64(count.Value())` is the number of matches it consumed -/
theorem cntOf_subCalc [DivisionRing α] [LinearOrder α] (env : Env α S Q)
    (hto : ∀ n : Nat, env.toNat (n : α) = n) (subs : List (SubAgg α)) (xs : List (DocVals α)) :
    cntOf env ((subCalc env subs).feed xs) = xs.length := by
  have h0 : (subCalc env subs).feed xs = ((SubAgg.metric .count :: subs).map (subCalc1 env)).map (fun c => c.feed xs) :=
    all_feed _ xs
  have h1 : ((countCalc : Calc (DocVals α) α α).embed MSt.one MSt.one? 0).feed xs = MSt.one (countCalc.feed xs) :=
    embed_foldl MSt.one MSt.one? 0 countCalc (fun _ => rfl) countCalc.init xs
  have h1' : (subCalc1 env (SubAgg.metric .count)).feed xs = SSt.m (MSt.one ((countCalc : Calc (DocVals α) α α).feed xs)) := by
    let inner : Calc (DocVals α) (MSt α) (SRes α S Q) := (metricCalc env Metric.count).mapVal SRes.m
    have := embed_foldl (τ := SSt α S Q) SSt.m SSt.m? (SRes.m 0) inner (fun _ => rfl) inner.init xs
    show List.foldl (subCalc1 env (SubAgg.metric .count)).consume _ xs = _
    rw [← h1]
    exact this
  have h2 : (countCalc : Calc (DocVals α) α α).feed xs = (xs.length : α) := count_eq_length (α := α) xs
  rw [h0]
  show cntOf env ((subCalc1 env (SubAgg.metric .count)).feed xs :: _) = _
  rw [h1']
  show env.toNat (countCalc.feed xs) = _
  rw [h2, hto]

/-- numeric / date range aggregation of a request = per range, direct definition over the matches fed once per
value inside the range; the count is the number of values inside -/
theorem ranges_run_eq_spec [DivisionRing α] [LinearOrder α] (env : Env α S Q)
    (hof : ∀ n : Nat, env.ofNat n = (n : α)) {β R : Type} (src : DocVals α → List β) (rs : List R)
    (mem : R → β → Bool) (subs : List (SubAgg α)) (ms : List (DocVals α)) :
    (rangeCalc src rs mem (subCalc env subs)).run ms = rs.map (fun r => specSubs env subs (occR src mem r ms)) := by
  rw [range_run]
  apply List.map_congr_left
  intro r _
  exact subCalc_run_eq_spec env hof subs _
end Request

/-! ## 9. Loading: the values the calculators see are the documents' own values iff every field is listed once -/
section Loading
variable {α S Q κ σ ρ : Type}

/-- a field listed exactly once is loaded as is; a field not listed is not loaded; a field listed k times is
loaded k times -/
theorem load_field (needed : List Field) (d : DocVals α) (f : Field) :
    (load needed d).num f = rep (needed.count f) (d.num f) ∧
    (needed.count f = 1 → (load needed d).num f = d.num f ∧ (load needed d).txt f = d.txt f ∧ (load needed d).date f = d.date f) ∧
    (needed.count f = 0 → (load needed d).num f = [] ∧ (load needed d).txt f = [] ∧ (load needed d).date f = []) := by
  refine ⟨rfl, ?_, ?_⟩
  · intro h; simp [load, h, rep_one]
  · intro h; simp [load, h, rep_zero]

/-- loading is invisible to a calculator whose fields are each listed exactly once -/
theorem load_invisible (c : Calc (DocVals α) σ ρ) (F needed : List Field) (hr : ReadsOnly c F)
    (h : ∀ f ∈ F, needed.count f = 1) (ds : List (DocVals α)) :
    c.run (ds.map (load needed)) = c.run ds := by
  simp only [Calc.run, Calc.feed]
  rw [foldl_load c F needed hr h]

/-- with both repairs every request loads every field it reads exactly once -/
theorem loadedOnce_fixed (sf : List Field) (aggs : List (Agg α)) : LoadedOnce fixedFacts sf aggs := by
  intro f hf
  have hmem : f ∈ sf ++ aggs.flatMap (Agg.fields fixedFacts) := by
    apply List.mem_append_right
    obtain ⟨a, ha, hfa⟩ := List.mem_flatMap.mp hf
    exact List.mem_flatMap.mpr ⟨a, ha, by rw [fields_fixed_eq_reads]; exact hfa⟩
  have hn : neededFields fixedFacts sf aggs = dedup (sf ++ aggs.flatMap (Agg.fields fixedFacts)) := rfl
  rw [hn, count_dedup, if_pos hmem]

variable [Add α] [Mul α] [Div α] [OfNat α 0] [OfNat α 1] [LT α] [LE α] [DecidableLT α] [DecidableLE α]

/-- **C16 for one request, under the decidable hypothesis `LoadedOnce`** (which the correspondence run evaluates
on every request): whatever n, from, sort key, compare function and paging key, the aggregates handed back by
`TopNCollector.Collect` are, per aggregation, the calculator run over ALL matched documents' own values. -/
theorem agg_exact_partial (cf : CodeFacts) (env : Env α S Q) (cfg : TopNCfg κ) (key : DocVals α → κ)
    (sf : List Field) (aggs : List (Agg α)) (h : LoadedOnce cf sf aggs) (docs : List (DocVals α)) :
    (bucketCalc env aggs).value
        (collectTopN cfg (load (neededFields cf sf aggs)) key (bucketCalc env aggs) docs).bucket =
      aggs.map (fun a => (aggCalc env a).run docs) := by
  rw [agg_sees_all_value, load_invisible _ _ _ (bucketCalc_readsOnly env aggs) h]
  unfold bucketCalc
  rw [all_run, List.map_map]; rfl

/-- the same for `AllMatches` (no sort fields) -/
theorem agg_exact_partial_all (cf : CodeFacts) (env : Env α S Q) (aggs : List (Agg α)) (h : LoadedOnce cf [] aggs)
    (docs : List (DocVals α)) :
    (bucketCalc env aggs).value
        (AllIt.nexts (load (neededFields cf [] aggs)) (bucketCalc env aggs) (docs.length + 1)
          (AllIt.start (bucketCalc env aggs) docs)).1.bucket =
      aggs.map (fun a => (aggCalc env a).run docs) := by
  rw [(all_iterator_sees_all _ _ _).1]
  have := load_invisible _ _ _ (bucketCalc_readsOnly env aggs) h docs
  simp only [Calc.run] at this
  rw [this]
  have h2 := all_run (aggs.map (aggCalc env)) docs
  simp only [Calc.run, List.map_map] at h2
  exact h2

/-- **C16 as stated** for a given description of the code: for EVERY request -/
def AggExact (α : Type) [Add α] [Mul α] [Div α] [OfNat α 0] [OfNat α 1] [LT α] [LE α] [DecidableLT α] [DecidableLE α]
    (cf : CodeFacts) : Prop :=
  ∀ (S Q κ : Type) (env : Env α S Q) (cfg : TopNCfg κ) (key : DocVals α → κ) (sf : List Field)
    (aggs : List (Agg α)) (docs : List (DocVals α)),
    (bucketCalc env aggs).value
        (collectTopN cfg (load (neededFields cf sf aggs)) key (bucketCalc env aggs) docs).bucket =
      aggs.map (fun a => (aggCalc env a).run docs)

/-- it holds for the code with both repairs … -/
theorem agg_exact_fixed : AggExact α fixedFacts :=
  fun _ _ _ env cfg key sf aggs docs => agg_exact_partial fixedFacts env cfg key sf aggs (loadedOnce_fixed sf aggs) docs
end Loading

/-! ### … and fails for the pinned tree, in two ways (concrete witnesses, reproduced on the real code by the
correspondence run: signatures `agg-field-listed-twice-in-needed-fields`, `range-agg-fields-omit-nested-aggregations`) -/

def wEnv : Env Int Unit Unit :=
  { posInf := 1000000, negInf := -1000000, toNat := Int.toNat, ofNat := Int.ofNat, sort := id,
    hll := (), hllInsert := fun _ _ => (), td := (), tdAdd := fun _ _ => () }
def wCfg : TopNCfg Unit := { size := 10, skip := 0, after := none, reverse := false, cmpKey := fun _ _ => .eq }
/-- sum of `p` and max of `p` in one request -/
def wTwo : List (Agg Int) := [.metric (.sum "p"), .metric (.max "p")]
/-- one document: p = 3, q = 5 -/
def wDoc : DocVals Int := ⟨fun f => if f = "p" then [3] else if f = "q" then [5] else [], fun _ => [], fun _ => []⟩

/-- sort by `p` and sum `p`: the field is listed twice, its value is loaded twice, the sum is 6 instead of 3 -/
theorem agg_exact_fails_without_dedup (b : Bool) : ¬ AggExact Int { dedupNeeded := false, rangeFieldsNested := b } := by
  intro h
  have h1 := h Unit Unit Unit wEnv wCfg (fun _ => ()) ["p"] [.metric (.sum "p")] [wDoc]
  have h2 := congrArg (fun l => match l with | [ARes.m v] => v | _ => 0) h1
  revert h2; cases b <;> decide

/-- two aggregations over the same field, no sort field involved: min and max are right, the sum is doubled -/
theorem two_aggregations_same_field_fails :
    (bucketCalc wEnv wTwo).value
        (collectTopN wCfg (load (neededFields pinnedFacts [] wTwo)) (fun _ => ()) (bucketCalc wEnv wTwo) [wDoc]).bucket
      ≠ wTwo.map (fun a => (aggCalc wEnv a).run [wDoc]) := by
  intro h1
  have h2 := congrArg (fun l => match l with | [ARes.m v, _] => v | _ => 0) h1
  revert h2; decide

/-- a range aggregation over `p` with a nested sum of `q`: `q` is never loaded, the nested sum is 0 instead of 5 -/
theorem agg_exact_fails_without_range_fields (b : Bool) :
    ¬ AggExact Int { dedupNeeded := b, rangeFieldsNested := false } := by
  intro h
  have h1 := h Unit Unit Unit wEnv wCfg (fun _ => ()) [] [.ranges "p" [(0, 10)] [.metric (.sum "q")]] [wDoc]
  have h2 := congrArg (fun l => match l with | [ARes.r [[_, SRes.m v]]] => v | _ => 0) h1
  revert h2; cases b <;> decide

/-- **the property holds for a description of the code iff both repairs are in it** -/
theorem agg_exact_iff (cf : CodeFacts) : AggExact Int cf ↔ cf = fixedFacts := by
  constructor
  · intro h
    obtain ⟨d, r⟩ := cf
    cases d with
    | false => exact absurd h (agg_exact_fails_without_dedup r)
    | true =>
      cases r with
      | false => exact absurd h (agg_exact_fails_without_range_fields true)
      | true => rfl
  · rintro rfl; exact agg_exact_fixed

/-- **C16 for the code as it is** (`Bluge.Agg.codeFacts`) -/
theorem c16_status : AggExact Int codeFacts ↔ codeFacts = fixedFacts := agg_exact_iff codeFacts

/-- **C16 holds for the tree under check**: its two facts, regenerated from the source by `go/extract/c16.go`, are
both true. (Reverting either repair makes the extractor emit `false`, and this `decide` — hence the build — fails,
while the correspondence run reproduces the failing requests on the real code.) -/
theorem agg_exact : AggExact Int codeFacts := c16_status.mpr (by decide)

/-- … over every carrier, not only `Int` -/
theorem agg_exact_any {α : Type} [Add α] [Mul α] [Div α] [OfNat α 0] [OfNat α 1] [LT α] [LE α] [DecidableLT α]
    [DecidableLE α] : AggExact α codeFacts := by
  have h : codeFacts = fixedFacts := by decide
  rw [h]; exact agg_exact_fixed

/-- so `LoadedOnce` holds for every request of the tree under check -/
theorem loadedOnce_code {α : Type} (sf : List Field) (aggs : List (Agg α)) : LoadedOnce codeFacts sf aggs := by
  have h : codeFacts = fixedFacts := by decide
  rw [h]; exact loadedOnce_fixed sf aggs

/-! ### non-vacuity of the hypotheses -/

/-- `LoadedOnce` is decidable; before the repairs it held for ordinary requests … -/
example : LoadedOnce pinnedFacts ["k"] [(Agg.terms "c" 3 [.metric (.sum "q"), .quant "r"] : Agg Int), .metric (.min "p")] := by decide
/-- … and fails exactly in the reported situations -/
example : ¬ LoadedOnce pinnedFacts ["p"] [(Agg.metric (.sum "p") : Agg Int)] := by decide
example : ¬ LoadedOnce pinnedFacts [] [(Agg.ranges "p" [(0, 10)] [.metric (.sum "q")] : Agg Int)] := by decide
/-- the nested bucket's count is the number of matches it consumed (hypothesis `hcnt` of the terms / range theorems) -/
example {α : Type} [DivisionRing α] [LinearOrder α] (subs : List (SubAgg α)) (xs : List (DocVals α))
    (env : Env α Unit Unit) (hto : ∀ n : Nat, env.toNat (n : α) = n) :
    cntOf env ((subCalc env subs).feed xs) = xs.length :=
  cntOf_subCalc env hto subs xs
/-- `SortSpec` is satisfiable: Go's insertion sort -/
example : SortSpec (cntOf wEnv) (isortDesc (cntOf wEnv)) := isortDesc_spec _
/-- a single-valued source -/
example : ∀ d : DocVals Int, ((fun d : DocVals Int => (d.txt "c").take 1) d).length ≤ 1 := by
  intro d; simp

/-! ## 10. `FieldSource.Numbers` / `Dates` (search/source.go) return exactly the shift-0 terms' values -/
section Decode
open Bluge.Numeric

/-- a float field value `x` (bit pattern) is indexed under `encode (Float64ToInt64 x) s`, s = 0, 4, …, 60.
Whatever list of such terms the segment hands back as the document's values, in whatever order, `Numbers`
returns exactly the values of the shift-0 terms, in that order (C10: `decode ∘ encode = id`, `Int64ToFloat64 ∘ Float64ToInt64 = id`). -/
theorem numbers_decode (ps : List (I64 × Nat)) (h : ∀ p ∈ ps, p.2 ≤ 62) :
    numbersOf (ps.map fun p => encode (f2i p.1) p.2) = (ps.filter fun p => p.2 == 0).map (·.1) := by
  rw [numbersOf_encoded f2i ps h]
  apply List.map_congr_left
  intro p _
  exact i2f_f2i_bits p.1

theorem dates_decode (ps : List (I64 × Nat)) (h : ∀ p ∈ ps, p.2 ≤ 62) :
    datesOf (ps.map fun p => encode p.1 p.2) = (ps.filter fun p => p.2 == 0).map (·.1) :=
  datesOf_encoded ps h

/-- in particular the 16 terms of one value give back that value, once -/
theorem numbers_decode_value (x : I64) : numbersOf (shiftTerms (f2i x)) = [x] := by
  have := numbers_decode ((List.range 16).map fun k => (x, 4 * k))
    (by intro p hp; obtain ⟨k, hk, rfl⟩ := List.mem_map.mp hp; have := List.mem_range.mp hk; simp; omega)
  simp only [List.map_map, Function.comp_def] at this
  unfold shiftTerms
  rw [this]
  rfl
end Decode

/-! ## 12. Filtering sources (search/aggregations/filter.go)

In the model a source is a function of the match; `filterSrc p src` is the inner source's values through the filter,
and nothing a source does can change what another reader of the same match sees (that the Go sources do not write
through a slice they got from the match or from another source is the regenerated fact `sources_do_not_write_through`). -/
section Filter
variable {μ β σ ρ S : Type}

/-- the values a filtering source yields over all matches = the inner source's values that pass the filter, in order -/
theorem filter_source_values (p : β → Bool) (src : μ → List β) (ms : List μ) :
    allVals (filterSrc p src) ms = (allVals src ms).filter p := by
  induction ms with
  | nil => rfl
  | cons m ms ih =>
    simp only [allVals, List.flatMap_cons, List.filter_append] at *
    rw [ih]; rfl

/-- **every single-value metric over a filtering source is exact over the values that pass the filter**
(count, sum, min, max: `svm` with the metric's step) -/
theorem filter_source_exact {α : Type} (init : α) (comp : α → α → α) (p : α → Bool) (src : μ → List α) (ms : List μ) :
    (svm init comp (filterSrc p src)).run ms = ((allVals src ms).filter p).foldl comp init := by
  rw [svm_run, filter_source_values]

theorem sum_filter_eq {α : Type} [AddMonoid α] (p : α → Bool) (src : μ → List α) (ms : List μ) :
    (sumCalc (filterSrc p src)).run ms = ((allVals src ms).filter p).sum := by
  rw [sum_eq, filter_source_values]

theorem avg_filter_eq {α : Type} [DivisionRing α] (p : α → Bool) (src : μ → List α) (ms : List μ) :
    (avgCalc (filterSrc p src)).run ms =
      ((allVals src ms).filter p).sum / (((allVals src ms).filter p).length : α) := by
  rw [avg_eq, filter_source_values]

/-- a sketch over a filtering source is fed exactly the values that pass the filter -/
theorem sketch_filter_fed_exactly (empty : S) (insert : S → β → S) (p : β → Bool) (src : μ → List β) (ms : List μ) :
    (sketchCalc empty insert (filterSrc p src)).run ms = ((allVals src ms).filter p).foldl insert empty := by
  rw [sketch_fed_exactly, filter_source_values]

/-- a terms aggregation over a filtering source: bucket `t` exists only for values passing the filter, and then it
has consumed exactly the matches having `t` (as without the filter) -/
theorem occ_filterSrc (p : Term → Bool) (src : μ → List Term) (t : Term) (ms : List μ) :
    occ (filterSrc p src) t ms = if p t = true then occ src t ms else [] := by
  induction ms with
  | nil => simp [occ]
  | cons m ms ih =>
    rw [occ_cons, occ_cons, ih]
    by_cases h : p t = true
    · simp only [h, if_true, filterSrc]
      rw [List.count_filter h]
    · have hc : List.count t (filterSrc p src m) = 0 := by
        apply List.count_eq_zero.mpr
        intro hm
        exact h (List.mem_filter.mp hm).2
      simp [h, hc]

/-- a range aggregation over a filtering source counts the values in range that pass the filter -/
theorem valuesIn_filterSrc {R : Type} (p : β → Bool) (src : μ → List β) (mem : R → β → Bool) (r : R) (ms : List μ) :
    valuesIn (filterSrc p src) mem r ms = ((allVals src ms).filter p).countP (mem r) := by
  unfold valuesIn; rw [filter_source_values]

/-- **a second reader of the same field is not disturbed by the filter**: under a terms aggregation over
`FilterText(Field(f), p)`, a nested sketch over the plain `Field(f)` is fed ALL values of `f` of the matches in the
bucket (filtered-out ones included), each match's values once per … match, in match order -/
theorem nested_reader_sees_unfiltered (p : Term → Bool) (src : μ → List Term) (size : Nat) (empty : S)
    (insert : S → Term → S) (cnt : S → Nat) (sort : List (Term × S) → List (Term × S)) (ms : List μ) (t : Term) (s : S)
    (h : (t, s) ∈ ((termsCalc (filterSrc p src) size (sketchCalc empty insert src) cnt sort).feed ms).buckets) :
    p t = true ∧ s = (allVals src (occ src t ms)).foldl insert empty := by
  obtain ⟨hne, hs⟩ := terms_bucket_of_mem _ _ _ _ _ ms t s h
  rw [occ_filterSrc] at hne hs
  by_cases hp : p t = true
  · refine ⟨hp, ?_⟩
    rw [if_pos hp] at hs
    rw [hs]
    simp only [Calc.feed, sketchCalc, allVals, foldl_flatMap']
  · rw [if_neg hp] at hne; exact absurd rfl hne
end Filter

/-- what the source of a request yields: the field's values, through the predicate when the source is a filtering one -/
theorem source_spec_values {α : Type} [LT α] [LE α] [DecidableLT α] [DecidableLE α] (s : NSrc α) (t : TSrc) (d : DSrc)
    (ms : List (DocVals α)) :
    allVals (numSrc s) ms = (match s.pred with
        | none => allVals (fun x => x.num s.field) ms
        | some q => (allVals (fun x => x.num s.field) ms).filter q.keep) ∧
    allVals (txtSrc (α := α) t) ms = (match t.pred with
        | none => allVals (fun x => x.txt t.field) ms
        | some q => (allVals (fun x => x.txt t.field) ms).filter q.keep) ∧
    allVals (dateSrc (α := α) d) ms = (match d.pred with
        | none => allVals (fun x => x.date d.field) ms
        | some q => (allVals (fun x => x.date d.field) ms).filter q.keep) := by
  refine ⟨?_, ?_, ?_⟩
  · unfold numSrc; cases s.pred with
    | none => rfl
    | some q => exact filter_source_values _ _ _
  · unfold txtSrc; cases t.pred with
    | none => rfl
    | some q => exact filter_source_values _ _ _
  · unfold dateSrc; cases d.pred with
    | none => rfl
    | some q => exact filter_source_values _ _ _

/-! ## 11. Facts about the code that no run can observe, regenerated from the source (`go/extract/c16.go`) -/

/-- every `Calculator()` of search/aggregations builds the calculator's mutable state itself: no field of the
aggregation DEFINITION that can hold mutable state (a sketch, a map, a bucket list, …) is handed to the calculator.
`sketch_fed_exactly`, `terms_bucket_state` and `range_bucket_state` are about one calculator's own state; this is what
makes two buckets of one request, and two requests built from one definition, independent. -/
theorem calculators_are_fresh : BlugeGen.C16.sharedMutable = [] := by decide

/-- … and the extractor saw every aggregation type the model interprets -/
theorem calculator_types_known :
    ∀ t ∈ ["CardinalityMetric", "DateRangeAggregation", "QuantilesMetric", "RangeAggregation", "SingleValueMetric",
           "TermsAggregation", "WeightedAvgMetric"], t ∈ BlugeGen.C16.calculatorTypes := by decide

/-- no value source of search/aggregations or search/source.go re-slices, assigns into, appends to, copies into or sorts a
slice it did not create (a parameter, `f.source.Values(match)`, `match.DocValues(f)` …): the model's sources are
functions of the match, and `nested_reader_sees_unfiltered` / `all_run` rely on a reader not changing what the next
reader of the same hit sees -/
theorem sources_do_not_write_through : BlugeGen.C16.sourceWritesThrough = [] := by decide

/-- `collectSingle` is: load doc values → compute sort → `bucket.Consume` → search-after filter →
lowest-outside-results shortcut → store add — the order `Bluge.Agg.collectSingle` transcribes and `agg_sees_all` is about -/
theorem collect_single_order : BlugeGen.C16.collectSingleOrder = collectSingleSteps := by decide

/-- `AllIterator.Next`: done guard first; `Consume` before the match is handed out; `Finish` exactly once, in the
end-of-matches branch, which marks the iterator done -/
theorem all_next_order :
    BlugeGen.C16.allNextOrder = allNextSteps ∧ BlugeGen.C16.allNextFinishCalls = 1 ∧
    BlugeGen.C16.allNextFinishInEndBranch = true ∧ BlugeGen.C16.allNextEndMarksDone = true := by decide

end Bluge.C16

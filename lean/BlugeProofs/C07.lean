import BlugeProofs.C07.Witness
import BlugeProofs.C07.PlanSeg
import BlugeProofs.C07.PhrasePaths
import BlugeProofs.C07.Norm
import BlugeGen.C07
/-! # C07 — every query returns exactly the documents its meaning selects

Property theorems (helper lemmas live in `BlugeProofs/C07/*.lean`). The model is `Bluge.Search`
(searcher state machines transcribed from /repo/search/searcher and /repo/index/postings*.go) and
`Bluge.C07.Query` (queries, `denote`, `compile` = which searchers query.go constructs).

The iterator contract `IsIter step Rel L` (BlugeProofs/C07/Iter.lean): in phase `fresh`/`at lb` a
`Next` answers the least element of `L` not yet passed, `Advance n` (n beyond the last answer) the least
element `≥ n`; after the first `nil` every answer is still an element of `L`, `≥ n` for `Advance n`,
beyond the previous answer for `Next` (Go searchers may "resurrect" after exhaustion). -/
namespace Bluge.C07
open Bluge.Search

/-- the leaf searchers (`TermSearcher` over a postings iterator incl. its restart on a backward
`Advance`, the unadorned iterator, `MatchAllSearcher`, `MatchNoneSearcher`) are sorted-list iterators -/
theorem leaf_is_iter (L : List Nat) : IsIter Leaf.step (LeafRel L) L := leaf_is_iter_aux L

/-- **postings_is_iter**: the multi-segment iterators of /repo/index — `postingsIterator.Next/Advance`
(the fall-through of `Next` over exhausted segments, the jump of `Advance` to the segment found by
`segmentIndexAndLocalDocNumFromGlobal` = `sort.Search` over the offsets, the fall-through to `Next()` when
that segment has nothing left, the RESTART on a backward seek as the code does it now: the iterator's
contents are replaced by those of a fresh `Snapshot.PostingsIterator(term, field)`), `postingsIteratorAll`
(no restart, `AdvanceIfNeeded` + `Next`) and, inside them, the unadorned bitmap / 1-hit per-segment
iterators — satisfy the SAME contract `IsIter` as the abstract leaf of `leaf_is_iter`, for every list `L`
they are related to by `PRel` (`PRel L s .fresh`: `L` = the global numbers `n + off_i` of the per-segment
lists, offsets non-decreasing, every number of a segment below the next offset). -/
theorem postings_is_iter (L : List Nat) : IsIter PIter.step (PRel L) L := postings_is_iter_aux L

/-- **postings_exact**: `Snapshot.PostingsIterator(term, field)` over segments given by their offset,
size, sorted local postings and deleted set (`termOK`: offsets are the running sums of the sizes from 0,
postings strictly increasing and below the size — the decidable predicate the driver evaluates on the
real offsets / sizes of every reader, `bad:assumption-offsets`) starts `fresh` for exactly
`{offset_i + n | n ∈ postings_i, n ∉ deleted_i}`, which is strictly increasing; a collector draining it
obtains exactly that list. -/
theorem postings_exact (sd : List SegData) (h : termOK 0 sd = true) :
    PRel (liveGlobals sd) (PIter.ofTerm sd) .fresh ∧
    (liveGlobals sd).Pairwise (· < ·) ∧
    (∀ x, x ∈ liveGlobals sd ↔ ∃ e ∈ sd, ∃ n ∈ e.raw, ¬ n ∈ e.deleted ∧ x = e.off + n) ∧
    (∀ k, (liveGlobals sd).length < k → drain PIter.step k (PIter.ofTerm sd) = liveGlobals sd) :=
  ⟨(ofTerm_fresh h).1, (ofTerm_fresh h).2, fun _ => mem_liveGlobals,
   fun k hk => drain_fresh (postings_is_iter_aux _) (ofTerm_fresh h).2 k _ (ofTerm_fresh h).1 hk⟩

/-- `sort.Search` as transcribed (`goSearch`) returns, for a predicate that is monotone below `n`, the
first index at which it holds (or `n`) -/
theorem sortSearch_spec (f : Nat → Bool) (n : Nat) (hmono : ∀ a b, a ≤ b → b < n → f a = true → f b = true) :
    goSearch n f ≤ n ∧ (∀ x, x < goSearch n f → f x = false) ∧ (goSearch n f < n → f (goSearch n f) = true) :=
  goSearch_spec f n hmono

/-- `segmentIndexAndLocalDocNumFromGlobal` never indexes `offsets[-1]` (a Go panic) on a snapshot that has
a segment and whose first offset is 0; on a snapshot WITHOUT segments `Advance` does (`decide` witness:
unreachable through `Reader.Search`, no doc number exists that a parent could advance to). -/
theorem segIndex_isSome {segs : List PSeg} {g : PSeg} {t : List PSeg} (hs : segs = g :: t) (h0 : g.off = 0) (n : Nat) :
    (segIndexOf (segs.map (·.off)) n).isSome = true := segIndexOf_isSome hs h0 n

/-- three segments (sizes 3, 2, 4), postings 1 | — | 6, 8: `Next` falls through the exhausted second
segment; `Advance 7` jumps to the third segment; the backward `Advance 2` restarts and finds 6 again -/
example : drain PIter.step 5 (PIter.mk' [(0, 3), (3, 2), (5, 4)] .postings [1, 6, 8]) = [1, 6, 8] := by decide
example :
    let s0 := PIter.mk' [(0, 3), (3, 2), (5, 4)] .postings [1, 6, 8]
    let r1 := s0.step .next
    let r2 := r1.2.step (.adv 7)
    let r3 := r2.2.step (.adv 2)
    (r1.1, r2.1, r3.1, r3.2.segOff) = (some 1, some 8, some 6, 2) := by decide
example : (PIter.mk' [] .postings []).advPanics 0 = true := by decide
example : (PIter.mk' [(0, 3), (3, 2)] .postings [1, 4]).advPanics 4 = false := by decide

/-- `ConjunctionSearcher` (leap-frog) over children that are iterators for the lists `Ls` is an
iterator for their intersection `L`, for every fuel ≥ `B·(2·|Ls|+2)+|Ls|+2` (B bounds the doc numbers) -/
theorem conj_is_iter {ι : Type} {cs : Step ι} {RelK : List Nat → ι → Phase → Prop} {L : List Nat} {B : Nat}
    (hK : ∀ Li, IsIter cs (RelK Li) Li) {Ls : List (List Nat)} (hL : ∀ x, x ∈ L ↔ ∀ Li ∈ Ls, x ∈ Li)
    (fuel : Nat) (hfuel : B * (2 * Ls.length + 2) + Ls.length + 2 ≤ fuel) :
    IsIter (Conj.step cs fuel) (ConjRel RelK L B Ls) L :=
  conj_is_iter_aux hK hL fuel hfuel

/-- `DisjunctionSliceSearcher` with `min`: iterator for the documents in at least `max min 1` children -/
theorem disjSlice_is_iter {ι : Type} {cs : Step ι} {RelK : List Nat → ι → Phase → Prop} {L : List Nat} {B min : Nat}
    (hK : ∀ Li, IsIter cs (RelK Li) Li) {Ls : List (List Nat)} (hL : ∀ x, x ∈ L ↔ max min 1 ≤ cnt Ls x)
    (fuel : Nat) (hfuel : B + 1 ≤ fuel) :
    IsIter (DisjS.step cs fuel) (DisjRel RelK B min Ls) L :=
  disjS_is_iter_aux hK hL fuel hfuel

/-- `DisjunctionHeapSearcher` (more than `DisjunctionHeapTakeover` = 10 clauses; `container/heap` as an
abstract priority queue): the same denotation as the slice implementation -/
theorem disjHeap_is_iter {ι : Type} {cs : Step ι} {RelK : List Nat → ι → Phase → Prop} {L : List Nat} {B min : Nat}
    (hK : ∀ Li, IsIter cs (RelK Li) Li) {Ls : List (List Nat)} (hL : ∀ x, x ∈ L ↔ max min 1 ≤ cnt Ls x)
    (hB : ∀ Li ∈ Ls, ∀ y ∈ Li, y < B) (fuel : Nat) (hfuel : B + 1 ≤ fuel) :
    IsIter (DisjH.step cs fuel) (HeapRel RelK B min Ls) L :=
  disjH_is_iter_aux hK hL hB fuel hfuel

/-- `BooleanSearcher`: iterator for `BMem` — candidate from must (else should), not in must-not, and
(with both must and should) in should unless `shouldSearcher.Min() == 0` -/
theorem bool_is_iter {ι : Type} {cs : Step ι} {RelK : List Nat → ι → Phase → Prop} {B : Nat}
    {Lm Ls Ln : Option (List Nat)} {smin : Nat} {L : List Nat}
    (hK : ∀ Li, IsIter cs (RelK Li) Li) (hL : ∀ x, x ∈ L ↔ BMem Lm Ls Ln smin x)
    (fuel : Nat) (hfuel : B + 1 ≤ fuel) :
    IsIter (BoolS.step cs fuel) (BoolRel RelK B Lm Ls smin Ln) L :=
  bool_is_iter_aux hK hL fuel hfuel

/-- `FilteringSearcher`: iterator for the accepted documents of its child -/
theorem filter_is_iter {ι : Type} {cs : Step ι} {RelK : List Nat → ι → Phase → Prop} {B : Nat} {Lk L acc : List Nat}
    (hK : ∀ Li, IsIter cs (RelK Li) Li) (hL : ∀ x, x ∈ L ↔ x ∈ Lk ∧ acc.contains x = true)
    (fuel : Nat) (hfuel : B + 1 ≤ fuel) :
    IsIter (Filt.step cs fuel) (FiltRel RelK B Lk acc) L :=
  filt_is_iter_aux hK hL fuel hfuel

/-- `PhraseSearcher` as a cursor over its must-conjunction with a per-document phrase test `ok` -/
theorem phrase_is_iter {ι : Type} {cs : Step ι} {RelK : List Nat → ι → Phase → Prop} {B : Nat} {Lk L ok : List Nat}
    (hK : ∀ Li, IsIter cs (RelK Li) Li) (hL : ∀ x, x ∈ L ↔ x ∈ Lk ∧ ok.contains x = true)
    (fuel : Nat) (hfuel : B + 1 ≤ fuel) :
    IsIter (PhraseS.step cs fuel) (PhraseRel RelK B Lk ok) L :=
  phrase_is_iter_aux hK hL fuel hfuel

/-- **findPhrasePaths_sound_complete**: the path search of search_phrase.go, as transcribed in `findPaths`
(recursion over the phrase slots, `[]` / `[""]` placeholders that shift the expected position only after a
first real slot, every alternative term × every location, `editDistance(prevPos+1, loc.Pos)` paid from the
remaining slop with the test `remainingSlop-dist >= 0`, an occurrence never used twice), finds a path IFF
the declarative `PhraseMatch` holds: there is a choice of one occurrence (term of the slot, a position of
that term) per non-placeholder slot, no occurrence chosen twice, with total displacement
`Σ |p_prev + (j - i) - p| ≤ slop` over consecutive non-placeholder slots `i < j`. For every term-location
map with 1-based positions, every phrase (any number of slots, alternatives and placeholders), every slop. -/
theorem findPhrasePaths_sound_complete (tlm : String → List Nat) (hpos : ∀ t p, p ∈ tlm t → 0 < p)
    (slots : List (List String)) (slop : Nat) :
    findPaths tlm slots 0 [] slop = true ↔ PhraseMatch tlm slots slop :=
  findPaths_sound_complete tlm hpos slots slop

/-- the meaning `sat` of a (multi-)phrase query on a document IS the declarative phrase match on the
positions of the document's field (the document does not hold the empty string as a term) -/
theorem phrase_sat_iff_match (d : Doc) (f : String) (slop : Nat) (pos : List (List String))
    (hempty : d.hasTerm f "" = false) :
    sat d (.phrase f slop pos) = true ↔ (realSlots pos 0 ≠ [] ∧ PhraseMatch (d.positions f) pos slop) := by
  simp only [sat]
  exact phraseSat_iff_aux d f slop pos hempty

/-- non-vacuity / a test of the specification: "a b" matches at positions 1,2; "b a" needs slop 2;
with a placeholder between, "a _ c" matches a at 1 and c at 3 -/
example : findPaths (fun t => if t = "a" then [1] else if t = "b" then [2] else if t = "c" then [3] else [])
    [["a"], ["b"]] 0 [] 0 = true := by decide
example : findPaths (fun t => if t = "a" then [1] else if t = "b" then [2] else [])
    [["b"], ["a"]] 0 [] 1 = false := by decide
example : findPaths (fun t => if t = "a" then [1] else if t = "b" then [2] else [])
    [["b"], ["a"]] 0 [] 2 = true := by decide
example : findPaths (fun t => if t = "a" then [1] else if t = "c" then [3] else [])
    [["a"], [], ["c"]] 0 [] 0 = true := by decide

/-- searcher trees of ANY depth (`NodeD Λ d`, any `d`) over ANY leaf searchers that are iterators
(`leaf_is_iter`: the abstract leaf; `postings_is_iter`: the per-segment postings iterators): every node
related to a list `L` by `RelD` is an iterator for `L` (induction on the depth over the six composites above) -/
theorem tree_is_iter {Λ : Type} {ls : Step Λ} {LRel : List Nat → Λ → Phase → Prop}
    (hleaf : ∀ L, IsIter ls (LRel L) L) (fuel d : Nat) (L : List Nat) :
    IsIter (stepD ls fuel d) (RelD LRel fuel d L) L :=
  relD_is_iter hleaf fuel d L

/-- a collector draining an iterator from its fresh state obtains exactly `L`, in order -/
theorem drain_exact {σ : Type} {step : Step σ} {Rel : σ → Phase → Prop} {L : List Nat} (h : IsIter step Rel L)
    (hs : L.Pairwise (· < ·)) (k : Nat) (s : σ) (hr : Rel s .fresh) (hk : L.length < k) : drain step k s = L :=
  drain_fresh h hs k s hr hk

/-- **plan_exact**: for every plan (tree of `NewConjunctionSearcher` / `newDisjunctionSearcher` /
`NewBooleanSearcher` / filter / phrase / leaf constructions, any depth) that passes the decidable check
`okB` (sorted leaves below `B`, conjunctions non-empty and at most `W` wide — `W` only sizes the fuel —,
a boolean has a must or a should; disjunctions of ANY width: slice or heap by the takeover constant),
the sequence of `Next` answers of the built searcher tree is strictly increasing
and is exactly the plan's set expression. -/
theorem plan_exact {B W : Nat} (p : Plan) (h : p.okB B W = true) :
    p.run B W = p.den B ∧ (p.run B W).Pairwise (· < ·) :=
  plan_exact_aux p h

/-- **plan_exact_seg**: `plan_exact` with every leaf instantiated by the MULTI-SEGMENT machine
(`Plan.runSeg sn`: leaves are `PIter.mk' sn`, i.e. `postingsIterator` / `postingsIteratorAll` over the
snapshot layout `sn` = the list of (offset, size) of the segments) instead of the abstract sorted list:
for every layout whose offsets are the running sums of the sizes (`offsetsOK`, evaluated by the driver on
the real offsets of every reader) and every plan that passes `okB` for the snapshot's total, the
`Next` answers of the built searcher tree are strictly increasing and exactly the plan's set expression. -/
theorem plan_exact_seg {sn : SnapLayout} (hsn : offsetsOK 0 sn = true) {W : Nat} (p : Plan)
    (h : p.okB sn.total W = true) :
    p.runSeg sn W = p.den sn.total ∧ (p.runSeg sn W).Pairwise (· < ·) :=
  plan_exact_seg_aux hsn p h

/-- the plan `Query.Searcher()` builds denotes the documented meaning of the query (term, match-all/none,
multi-term expansions over the dictionary, numeric/date ranges, (multi-)phrases with slop, geo as a filter,
booleans of any depth and width) -/
theorem compile_denotes {idx : Index} {B : Nat} (hwf : idx.WF B) (q : Query) (hq : q.WF = true) :
    (compile idx q).den B = denote idx q :=
  compile_den hwf q hq

/-- The full statement of the property in the model. -/
def C07_exact_statement : Prop :=
  ∀ (idx : Index) (B W : Nat) (q : Query), idx.WF B →
    (compile idx q).run B W = denote idx q ∧ ((compile idx q).run B W).Pairwise (· < ·)

/-- **C07_exact_partial**: for every index, every well-formed query tree of ANY depth and width (all the
query kinds of the property) whose compiled plan passes the decidable check `okB` (evaluated by the
driver on every query of the correspondence run), the modelled searchers return exactly `denote idx q`:
strictly increasing (no duplicates), nothing missed, nothing extra. Not covered (see
`C07_exact_statement`): the shapes excluded by `Query.WF` because the implementation deviates from the
documented meaning there (witnesses below: minShould without should clauses, inverted term ranges) and,
outside this theorem's scored mode, the unadorned rewrite under score "none" and fuzziness 0; the
numeric term expansion (C10) and the geo cell descent are abstracted in `compile`. -/
theorem C07_exact_partial {idx : Index} {B W : Nat} (hwf : idx.WF B) (q : Query) (hq : q.WF = true)
    (hok : (compile idx q).okB B W = true) :
    (compile idx q).run B W = denote idx q ∧ ((compile idx q).run B W).Pairwise (· < ·) ∧
    (∀ x, x ∈ (compile idx q).run B W ↔ ∃ d, (x, d) ∈ idx ∧ sat d q = true) := by
  have h1 := plan_exact_aux (compile idx q) hok
  have h2 := compile_den hwf q hq
  refine ⟨h1.1.trans h2, h1.2, ?_⟩
  intro x
  rw [h1.1, h2]
  exact mem_denote

/-- **C07_exact_seg_partial**: `C07_exact_partial` for searcher trees whose leaves are the multi-segment
postings iterators of the snapshot the index lives in: for every snapshot layout with well-formed
offsets, every index whose doc numbers are below the snapshot's total, every well-formed query of any
depth and width whose plan passes `okB`, the modelled searchers — composites over `postingsIterator` /
`postingsIteratorAll` machines — return exactly `denote idx q`. -/
theorem C07_exact_seg_partial {sn : SnapLayout} (hsn : offsetsOK 0 sn = true) {idx : Index} {W : Nat}
    (hwf : idx.WF sn.total) (q : Query) (hq : q.WF = true) (hok : (compile idx q).okB sn.total W = true) :
    (compile idx q).runSeg sn W = denote idx q ∧ ((compile idx q).runSeg sn W).Pairwise (· < ·) ∧
    (∀ x, x ∈ (compile idx q).runSeg sn W ↔ ∃ d, (x, d) ∈ idx ∧ sat d q = true) := by
  have h1 := plan_exact_seg_aux hsn (compile idx q) hok
  have h2 := compile_den hwf q hq
  refine ⟨h1.1.trans h2, h1.2, ?_⟩
  intro x
  rw [h1.1, h2]
  exact mem_denote

/-- **C07_exact_repaired_partial**: the searcher tree the CURRENT code builds (`compile idx q.norm`: after the
repairs fd50aeb / a584889 an inverted term range and a boolean that demands should clauses it does not have
are `MatchNoneSearcher`s) returns exactly `denote idx q` for EVERY query in which each boolean has a clause
(`BooleanQuery.Validate`) — the shapes that `Query.WF` had to exclude from `C07_exact_partial` are covered.
Leaves are the multi-segment postings iterator machines over the snapshot layout. -/
theorem C07_exact_repaired_partial {sn : SnapLayout} (hsn : offsetsOK 0 sn = true) {idx : Index} {W : Nat}
    (hwf : idx.WF sn.total) (q : Query) (hq : q.hasClauses = true)
    (hok : (compile idx q.norm).okB sn.total W = true) :
    (compile idx q.norm).runSeg sn W = denote idx q ∧ ((compile idx q.norm).runSeg sn W).Pairwise (· < ·) ∧
    (∀ x, x ∈ (compile idx q.norm).runSeg sn W ↔ ∃ d, (x, d) ∈ idx ∧ sat d q = true) := by
  have h := C07_exact_seg_partial hsn hwf q.norm (wf_norm q hq) hok
  rw [denote_norm] at h
  refine ⟨h.1, h.2.1, ?_⟩
  intro x
  rw [h.1]
  exact mem_denote

example : (Query.bool [.term "t" "x"] [] [] 1).hasClauses = true ∧
    (Query.bool [.term "t" "x"] [] [] 1).norm = .none ∧
    (Query.multi "t" (.range (some "d") (some "abd") false false)).norm = .none := by
  refine ⟨by simp [Query.hasClauses], by simp [Query.norm], ?_⟩
  have : decide ("d" < "abd") = false := by decide
  simp [Query.norm, Matcher.regular, this]

/-! ## Gen: the constants and guards of /repo's CURRENT source (lean/BlugeGen/C07.lean, regenerated by
go/extract/c07.go on every run) against the values the model uses -/

/-- the slice/heap switch of `newDisjunctionSearcher`: `len(qsearchers) > DisjunctionHeapTakeover` selects
`newDisjunctionHeapSearcher`, else `newDisjunctionSliceSearcher`, and the constant is the model's
`heapTakeover` (`Plan.build`: `if heapTakeover < ps.length then disjH else disjS`) -/
theorem gen_heap_switch :
    BlugeGen.C07.disjunctionHeapTakeover = heapTakeover ∧
    BlugeGen.C07.heapSwitch = ("len(qsearchers)", ">", "DisjunctionHeapTakeover") ∧
    BlugeGen.C07.heapSwitchThen = "newDisjunctionHeapSearcher" ∧
    BlugeGen.C07.heapSwitchElse = "newDisjunctionSliceSearcher" := by decide

/-- no clause limit: `DisjunctionMaxClauseCount = 0` and `tooManyClauses` is
`DisjunctionMaxClauseCount != 0 && count > DisjunctionMaxClauseCount` (the model constructs disjunctions of
any width; a non-zero limit would turn wide multi-term expansions into errors) -/
theorem gen_no_clause_limit :
    BlugeGen.C07.disjunctionMaxClauseCount = 0 ∧
    BlugeGen.C07.tooManyClausesGuard = ["DisjunctionMaxClauseCount != 0", "count > DisjunctionMaxClauseCount"] := by decide

/-- the guards of the two unadorned rewrites (`Plan.rewriteNone`: more than one child, `min ≤ 1` for the
disjunction, score "none" and no term vectors) and the `minSearcher` wrap that keeps `Min()` when `min > 0`
(`ScoreNone.keepMin = true`) -/
theorem gen_unadorned_guards :
    BlugeGen.C07.disjUnadornedGuard = ["len(qsearchers) > 1", "min <= 1", "optionsDisjunctionOptimizable(options)"] ∧
    BlugeGen.C07.optionsOptimizable = ["options.Score == optionScoringNone", "!options.IncludeTermVectors"] ∧
    BlugeGen.C07.conjUnadornedGuard =
      ["len(searchers) > 1", "options.Score == optionScoringNone", "!options.IncludeTermVectors"] ∧
    BlugeGen.C07.disjUnadornedKeepsMin = true ∧
    BlugeGen.C07.disjUnadornedKeepsMinGuard = ["rv != nil", "min > 0"] := by decide

/-- the slop test of `findPhrasePaths` (`findPaths`: `prevPos == 0 || slop - dist ≥ 0`) -/
theorem gen_phrase_slop_test :
    BlugeGen.C07.phraseSlopTest = ["prevPos == 0", "(remainingSlop - dist) >= 0"] := by decide

/-- `FilteringSearcher.Advance` re-enters the FILTERED `Next` after a rejected target (`Filt.step`) -/
theorem gen_filter_fallback : BlugeGen.C07.filterAdvanceFallback = "f.Next(ctx)" := by decide

/-- `literalPrefix` (search_regexp.go) hands a literal to the dictionary walk as its prefix only when the literal
is not case-folded (`Matcher.oneOf`: the meaning of a regexp leaf is the match of the WHOLE dictionary; a prefix
taken from a folded literal — stored in its upper-case spelling — would confine the walk to one case variant) -/
theorem gen_regexp_literal_prefix : BlugeGen.C07.literalPrefixOnlyWithoutFoldCase = true := by decide

/-- the unadorned conjunction rewrite (`Plan.rewriteNone`: the intersection of the children's lists; a 1-hit iterator
is a singleton) gives a segment the EMPTY result when two 1-hit constituents stand for different documents -/
theorem gen_conj_1hit_disagreement : BlugeGen.C07.conjUnadorned1HitDisagreementGuard = true := by decide

/-- `postingsIterator.Advance`: the restart test is `currPosting != nil && currID >= number`
(`PIter.advStart`), the restart does not close the iterator that stays in use, and
`segmentIndexAndLocalDocNumFromGlobal` is `sort.Search(len(offsets), offsets[x] > docNum) - 1` (`segIndexOf`) -/
theorem gen_postings_guards :
    BlugeGen.C07.postingsRestartGuard = ["i.currPosting != nil", "i.currID >= number"] ∧
    BlugeGen.C07.postingsRestartClosesReceiver = false ∧
    BlugeGen.C07.segmentSearchPred = "i.offsets[x] > docNum" ∧
    BlugeGen.C07.segmentSearchMinusOne = true := by decide

/-! ## Witnesses: where the implementation (as modelled) deviates from the documented meaning
(definitions and evaluation in BlugeProofs/C07/Witness.lean) -/

open Witness in
/-- **minshould_lost_witness** (the defect behind `minshould-lost-under-score-none`): docs 0:"x" 1:"x y"
2:"x z" 3:"y"; BooleanQuery must x, should y z, SetMinShould(1). Under `SetScore("none")` the unadorned
rewrite replaces the should disjunction by ONE TermSearcher (`Min() = 0`); the rewritten searcher tree
returns the must-only document 0, which the meaning (and the scored searcher tree) excludes. -/
theorem minshould_lost_witness :
    (q.rewriteNone ⟨false⟩ 4).1 = qNone ∧
    drain (stepD Leaf.step (fuelFor 4 2) 2) 5 (qNone.build Leaf.mk' 2) = [0, 1, 2] ∧
    drain (stepD Leaf.step (fuelFor 4 2) 2) 5 (q.build Leaf.mk' 2) = [1, 2] ∧
    q.den 4 = [1, 2] := minshould_lost_aux

open Witness in
/-- the same rewrite with `Min()` preserved (`ScoreNone.keepMin`, the proposed repair) is exact here -/
theorem minshould_kept_witness :
    (q.rewriteNone ⟨true⟩ 4).1 = qNoneKept ∧ (q.rewriteNone ⟨true⟩ 4).2 = 0 ∧
    drain (stepD Leaf.step (fuelFor 4 2) 2) 5 (qNoneKept.build Leaf.mk' 2) = [1, 2] := minshould_kept_aux

/-- **fuzziness_0_panics_witness**: BEFORE the repair 2b928d2 `NewFuzzySearcher` with fuzziness 0 indexed
`automatons[0]` of an empty slice (`fuzzyOutcomePre`; fuzziness 1, 2 construct a searcher; 3 and negative
values are errors); the current code (`fuzzyOutcome`) treats fuzziness 0 as an exact term search -/
theorem fuzziness_0_panics_witness :
    fuzzyOutcomePre 0 = .panic ∧ fuzzyOutcomePre 1 = .ok ∧ fuzzyOutcomePre 2 = .ok ∧ fuzzyOutcomePre 3 = .err ∧
    fuzzyOutcomePre (-1) = .err ∧
    fuzzyOutcome 0 = .ok ∧ fuzzyOutcome 1 = .ok ∧ fuzzyOutcome 2 = .ok ∧ fuzzyOutcome 3 = .err ∧ fuzzyOutcome (-1) = .err :=
  fuzziness_0_panics_aux

/-- **termrange_inverted_witness**: an inverted (or degenerate half-open) term range with exclusive max —
meaning: no term — enumerates the term equal to `max` (vellum's FST range search when start ≥ end) -/
theorem termrange_inverted_witness :
    (Matcher.range (some "d") (some "abd") false false).accepts "abd" = false ∧
    (Matcher.range (some "d") (some "abd") false false).acceptsImpl "abd" = true ∧
    (Matcher.range (some "b") (some "b") true false).accepts "b" = false ∧
    (Matcher.range (some "b") (some "b") true false).acceptsImpl "b" = true := termrange_inverted_aux

open Witness in
/-- **minshould_without_should_witness**: `SetMinShould(1)` on a boolean WITHOUT should clauses — meaning:
no document can satisfy one of zero should queries — is ignored: the searcher returns the must documents -/
theorem minshould_without_should_witness :
    denote idx1 q2 = [] ∧
    compile idx1 q2 = .bool (some (.conj [.leaf .postings [0]])) none none 0 ∧
    drain (stepD Leaf.step (fuelFor 1 1) 2) 2 ((Plan.bool (some (.conj [.leaf .postings [0]])) none none 0).build Leaf.mk' 2) = [0] :=
  minshould_without_should_aux

/-! ## Non-vacuity: the hypotheses of the theorems are satisfiable -/

open Witness in
example : q.okB 4 2 = true := witness_q_ok
open Witness in
example : Index.WF idx1 1 := witness_idx_wf
example : offsetsOK 0 [(0, 3), (3, 2), (5, 4)] = true := by decide
example : termOK 0 [⟨0, 3, [0, 2], [2]⟩, ⟨3, 2, [1], []⟩] = true := by decide
example : (Query.bool [.term "t" "x"] [.phrase "t" 1 [["y"], ["z", "w"]], .term "t" "z"] [.term "t" "w"] 1).WF = true :=
  witness_query_wf

end Bluge.C07

import BlugeProofs.C05.Phase
/-! What one event does to the state, as nine cases (one per event that fires, one for "nothing happened"). -/
namespace Bluge.Lin
open Bluge.Index List

/-- the effect of one event -/
inductive Effect (s : State) (e : Ev) : Prop
  /-- the event was not enabled: the state stays (the clock still ticks) -/
  | idle : stepCore s e = s → Effect s e
  | invoke (c : Nat) (b : Batch) : e = .invoke c b → s.phase c = none →
      stepCore s e = { s with phase := upd s.phase c (.invoked b s.clock), ids := s.ids ++ [c] } → Effect s e
  | prepare (c sid k : Nat) (b : Batch) (t0 n : Nat) : e = .prepare c sid k → s.phase c = some (.invoked b t0) →
      stepCore s e = { s with phase := upd s.phase c (.prepared b t0 sid n s.clock) } → Effect s e
  | intro (c : Nat) (b : Batch) (t0 sid n tp : Nat) : e = .intro c → s.phase c = some (.prepared b t0 sid n tp) →
      stepCore s e = { s with core := Index.step s.core (.batch b (s.seenIdx n) sid),
                              phase := upd s.phase c (.introduced b t0 tp s.lin.length s.clock false),
                              lin := s.lin ++ [c],
                              pubs := ⟨s.core.applied.length + 1, s.clock⟩ :: s.pubs,
                              slots := s.slots ++ [⟨s.core.nextEpoch, s.clock, some c,
                                (Index.step s.core (.batch b (s.seenIdx n) sid)).root.abs⟩] } → Effect s e
  | ack (cs : List Nat) : e = .ack cs →
      stepCore s e = { s with phase := fun x => (s.phase x).map (fun p => p.ack (cs.contains x)) } → Effect s e
  | ret (c : Nat) (b : Batch) (t0 tp i ti : Nat) (a : Bool) : e = .ret c → s.phase c = some (.introduced b t0 tp i ti a) →
      stepCore s e = { s with phase := upd s.phase c (.returned b t0 tp i ti s.clock) } → Effect s e
  | reader (r : Nat) : e = .reader r →
      stepCore s e = { s with reads := ⟨r, s.clock, s.core.root.epoch, s.core.root.abs, s.core.applied.length⟩ :: s.reads } → Effect s e
  | persist (p : Persisted) : e = .persist p →
      stepCore s e = { s with core := Index.step s.core (.persist p), pubs := ⟨s.core.applied.length, s.clock⟩ :: s.pubs } → Effect s e
  | merge (k : Nat) (pick : List Nat) (fm : Bool) (id : Nat) : e = .merge k pick fm id →
      stepCore s e = { s with core := Index.step s.core (.merge k pick fm id), pubs := ⟨s.core.applied.length, s.clock⟩ :: s.pubs } → Effect s e

theorem effect (s : State) (e : Ev) : Effect s e := by
  cases e with
  | invoke c b =>
    cases hc : s.phase c with
    | none => exact .invoke c b rfl hc (by simp [stepCore, hc])
    | some p => exact .idle (by simp [stepCore, hc])
  | prepare c sid k =>
    cases hc : s.phase c with
    | none => exact .idle (by simp [stepCore, hc])
    | some p =>
      cases p with
      | invoked b t0 => exact .prepare c sid k b t0 _ rfl hc (by simp only [stepCore, hc]; rfl)
      | prepared b t0 sid' n tp => exact .idle (by simp [stepCore, hc])
      | introduced b t0 tp i ti a => exact .idle (by simp [stepCore, hc])
      | returned b t0 tp i ti tr => exact .idle (by simp [stepCore, hc])
  | intro c =>
    cases hc : s.phase c with
    | none => exact .idle (by simp [stepCore, hc])
    | some p =>
      cases p with
      | invoked b t0 => exact .idle (by simp [stepCore, hc])
      | prepared b t0 sid n tp => exact .intro c b t0 sid n tp rfl hc (by simp only [stepCore, hc])
      | introduced b t0 tp i ti a => exact .idle (by simp [stepCore, hc])
      | returned b t0 tp i ti tr => exact .idle (by simp [stepCore, hc])
  | ack cs => exact .ack cs rfl rfl
  | ret c =>
    cases hc : s.phase c with
    | none => exact .idle (by simp [stepCore, hc])
    | some p =>
      cases p with
      | invoked b t0 => exact .idle (by simp [stepCore, hc])
      | prepared b t0 sid n tp => exact .idle (by simp [stepCore, hc])
      | introduced b t0 tp i ti a => exact .ret c b t0 tp i ti a rfl hc (by simp only [stepCore, hc])
      | returned b t0 tp i ti tr => exact .idle (by simp [stepCore, hc])
  | reader r => exact .reader r rfl rfl
  | persist p => exact .persist p rfl rfl
  | merge k pick fm id => exact .merge k pick fm id rfl rfl

/-- a client that has a phase keeps its batch -/
theorem phase_batch_stable (s : State) (e : Ev) {x : Nat} {ph : Phase} (hx : s.phase x = some ph) :
    ∃ ph', (step s e).phase x = some ph' ∧ ph'.batch = ph.batch := by
  rw [step_phase]
  have key : ∀ (c : Nat) (p q : Phase), s.phase c = some p → q.batch = p.batch →
      ∃ ph', upd s.phase c q x = some ph' ∧ ph'.batch = ph.batch := by
    intro c p q hc hb
    by_cases hxc : x = c
    · subst hxc; rw [hc] at hx; cases hx; exact ⟨q, upd_same _ _ _, hb⟩
    · exact ⟨ph, by rw [upd_other _ _ hxc]; exact hx, rfl⟩
  cases effect s e with
  | idle h => rw [h]; exact ⟨ph, hx, rfl⟩
  | invoke c b he hc h =>
    rw [h]; refine ⟨ph, ?_, rfl⟩
    show upd s.phase c _ x = some ph
    rw [upd_other]; exact hx
    intro hxc; subst hxc; rw [hc] at hx; cases hx
  | prepare c sid k b t0 n he hc h => rw [h]; exact key c _ _ hc rfl
  | intro c b t0 sid n tp he hc h => rw [h]; exact key c _ _ hc rfl
  | ack cs he h => rw [h]; exact ⟨ph.ack (cs.contains x), by simp [hx], by simp⟩
  | ret c b t0 tp i ti a he hc h => rw [h]; exact key c _ _ hc rfl
  | reader r he h => rw [h]; exact ⟨ph, hx, rfl⟩
  | persist p he h => rw [h]; exact ⟨ph, hx, rfl⟩
  | merge k pick fm id he h => rw [h]; exact ⟨ph, hx, rfl⟩

theorem batchOf_stable (s : State) (e : Ev) {x : Nat} (hx : (s.phase x).isSome = true) :
    (step s e).batchOf x = s.batchOf x := by
  obtain ⟨ph, hph⟩ := Option.isSome_iff_exists.mp hx
  obtain ⟨ph', h1, h2⟩ := phase_batch_stable s e hph
  simp [State.batchOf, h1, hph, h2]

end Bluge.Lin

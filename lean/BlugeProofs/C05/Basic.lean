import Bluge.Lin
import BlugeProofs.C01
/-! Basic facts for C05: what `Index.step` does to epochs and history, reachability by snoc. -/
namespace Bluge.Lin
open Bluge.Index List

theorem idx_history (s : Index.State) (e : Index.Event) :
    (Index.step s e).history = (Index.step s e).root :: s.history := by
  cases e <;> rfl

theorem idx_epoch (s : Index.State) (e : Index.Event) : (Index.step s e).root.epoch = s.nextEpoch := by
  cases e with
  | batch b k sid => rfl
  | persist p => rfl
  | merge k pick f id =>
    show (introduceMerge s.root s.nextEpoch _).epoch = s.nextEpoch
    unfold introduceMerge
    split; rfl

theorem idx_nextEpoch (s : Index.State) (e : Index.Event) : (Index.step s e).nextEpoch = s.nextEpoch + 1 := by
  cases e <;> rfl

theorem idx_applied_batch (s : Index.State) (b : Batch) (k sid : Nat) :
    (Index.step s (.batch b k sid)).applied = s.applied ++ [b] := rfl
theorem idx_applied_persist (s : Index.State) (p : Persisted) : (Index.step s (.persist p)).applied = s.applied := rfl
theorem idx_applied_merge (s : Index.State) (k : Nat) (pick : List Nat) (f : Bool) (id : Nat) :
    (Index.step s (.merge k pick f id)).applied = s.applied := rfl

/-- the C01 invariant survives any enabled introduction -/
theorem idx_inv_step {s : Index.State} (hs : Index.Inv s) (e : Index.Event) (he : EventWF s e) : Index.Inv (Index.step s e) := by
  cases e with
  | batch b k sid => exact hs.step_batch b k he
  | persist p => exact hs.step_persist he
  | merge k pick f id => exact hs.step_merge k pick f he

/-! ## reachability, by appending events -/

inductive Reach (safe : Bool) : List Ev → State → Prop
  | init : Reach safe [] (State.init safe)
  | snoc {evs : List Ev} {s : State} (e : Ev) : Reach safe evs s → Enabled s e → Reach safe (evs ++ [e]) (step s e)

theorem reach_foldl (safe : Bool) (evs : List Ev) : ∀ (pre : List Ev) (s : State), Reach safe pre s → WF s evs →
    Reach safe (pre ++ evs) (evs.foldl step s) := by
  induction evs with
  | nil => intro pre s h _; simpa using h
  | cons e t ih =>
    intro pre s h hwf
    unfold WF at hwf
    have := ih (pre ++ [e]) (step s e) (Reach.snoc e h hwf.1) hwf.2
    simpa [List.append_assoc] using this

/-- every well-formed execution is reachable -/
theorem reach_of_wf (safe : Bool) (evs : List Ev) (hwf : WF (State.init safe) evs) : Reach safe evs (run safe evs) := by
  have := reach_foldl safe evs [] _ Reach.init hwf
  simpa [run] using this

end Bluge.Lin

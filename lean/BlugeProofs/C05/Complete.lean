import BlugeProofs.C05.Accept
/-! The checker's search is complete: every order that explains a history is among the candidates it tries. So
`explains h = false` means NO total order explains the history. -/
namespace Bluge.Lin
open Bluge.Index List

theorem fills_complete : ∀ (slots : List Slot) (pool : List Call) (o : List Nat),
    o.length = slots.length → o.Nodup →
    (∀ p ∈ o.zip slots, ∀ w, p.2.who = some w → w = p.1) →
    (∀ p ∈ o.zip slots, p.2.who = none → ∃ a ∈ pool, a.c = p.1 ∧ fits a p.2 = true) →
    o ∈ fills slots pool := by
  intro slots
  induction slots with
  | nil =>
    intro pool o hlen _ _ _
    have : o = [] := List.length_eq_zero_iff.mp hlen
    subst this; simp [fills]
  | cons s rest ih =>
    intro pool o hlen hnd hwho hfit
    cases o with
    | nil => simp at hlen
    | cons c o' =>
      have hlen' : o'.length = rest.length := by simpa using hlen
      have hnd' := (List.nodup_cons.mp hnd).2
      have hc : c ∉ o' := (List.nodup_cons.mp hnd).1
      have hzip : (c :: o').zip (s :: rest) = (c, s) :: o'.zip rest := rfl
      have hwho' : ∀ p ∈ o'.zip rest, ∀ w, p.2.who = some w → w = p.1 :=
        fun p hp => hwho p (by rw [hzip]; exact List.mem_cons_of_mem _ hp)
      unfold fills
      cases hw : s.who with
      | some w =>
        have : w = c := hwho (c, s) (by rw [hzip]; exact List.mem_cons_self) w hw
        subst this
        simp only [List.mem_map]
        refine ⟨o', ih pool o' hlen' hnd' hwho' ?_, rfl⟩
        intro p hp hn
        exact hfit p (by rw [hzip]; exact List.mem_cons_of_mem _ hp) hn
      | none =>
        obtain ⟨a, ha, hac, hfa⟩ := hfit (c, s) (by rw [hzip]; exact List.mem_cons_self) hw
        simp only [List.mem_flatMap, List.mem_map, List.mem_filter]
        refine ⟨a, ⟨ha, hfa⟩, o', ?_, by rw [hac]⟩
        apply ih _ o' hlen' hnd' hwho'
        intro p hp hn
        obtain ⟨a', ha', hac', hfa'⟩ := hfit p (by rw [hzip]; exact List.mem_cons_of_mem _ hp) hn
        refine ⟨a', List.mem_filter.mpr ⟨ha', ?_⟩, hac', hfa'⟩
        have hp1 : p.1 ∈ o' := (List.of_mem_zip hp).1
        simp only [bne_iff_ne, ne_eq]
        intro heq
        apply hc
        have : p.1 = c := by rw [← hac', heq, hac]
        rw [← this]; exact hp1

/-- every explaining order is among the candidates of the search -/
theorem accepts_mem_candidates {h : History} {o : List Nat} (ha : Accepts h o) : o ∈ h.candidates := by
  obtain ⟨⟨_, hnd, _⟩, ⟨hlen, hond, _, _, hwho⟩, hrt, _⟩ := ha
  unfold History.candidates
  apply fills_complete h.slots h.unobserved o hlen hond hwho
  intro p hp hn
  obtain ⟨a, ham, hac, h1, h2, h3⟩ := hrt p hp
  refine ⟨a, ?_, hac, ?_⟩
  · -- `a` is named by no slot: otherwise its client would stand twice in `o`
    unfold History.unobserved
    rw [List.mem_filter]
    refine ⟨ham, ?_⟩
    simp only [Bool.not_eq_eq_eq_not, Bool.not_true, List.any_eq_false, beq_iff_eq]
    intro s' hs' hw'
    obtain ⟨j, hj⟩ := List.getElem?_of_mem hs'
    have hjl := lt_length_of_getElem? hj
    have hjo : j < o.length := by omega
    have zj : (o[j], s') ∈ o.zip h.slots := by
      have : (o.zip h.slots)[j]? = some (o[j], s') := by
        rw [List.getElem?_zip_eq_some]; exact ⟨List.getElem?_eq_getElem hjo, hj⟩
      exact List.mem_of_getElem? this
    have e1 : a.c = o[j] := hwho _ zj a.c hw'
    obtain ⟨i, hi1, hi2⟩ := mem_zip_getElem? hp
    have hio := lt_length_of_getElem? hi1
    rw [List.getElem?_eq_getElem hio] at hi1
    simp only [Option.some.injEq] at hi1
    have hij : i = j := by
      rcases Nat.lt_trichotomy i j with hlt | heq | hgt
      · exact absurd (by rw [hi1, ← hac, e1]) ((List.pairwise_iff_getElem.mp hond) i j hio hjo hlt)
      · exact heq
      · exact absurd (by rw [hi1, ← hac, e1]) ((List.pairwise_iff_getElem.mp hond) j i hjo hio hgt)
    subst hij
    rw [hj] at hi2
    simp only [Option.some.injEq] at hi2
    rw [← hi2, hw'] at hn; cases hn
  · unfold fits
    simp only [Bool.and_eq_true, decide_eq_true_eq]
    refine ⟨⟨h1, ?_⟩, ?_⟩
    · cases hr : a.tRet with
      | none => rfl
      | some tr => simpa using h2 tr hr
    · cases hpq : a.tPrep with
      | none => rfl
      | some tp => simpa using (h3 tp hpq).2

/-- **the checker decides the specification**: it says yes exactly when some total order explains the history -/
theorem explains_iff_explained (h : History) : explains h = true ↔ Explained h := by
  constructor
  · exact explains_sound h
  · rintro ⟨o, ha⟩
    unfold explains
    rw [List.any_eq_true]
    exact ⟨o, accepts_mem_candidates ha, decide_eq_true ha⟩

end Bluge.Lin

/-! # C05 — what `go/extract/c05.go` must find in /repo for the event alphabet of `Bluge/Lin.lean` to be the code's

`BlugeGen.C05` is regenerated from /repo's working tree on every run of `./check C05`; `BlugeProofs.C05` obliges its two
tables to be the ones below (`gen_protocol_matches_model`, `gen_statements_match_model`).

The linearizability theorems quantify over every interleaving of the EVENTS of `Bluge.Lin`. That an event of the model is
atomic in the code, that the program order of one `Batch` call is the order of `Phase`, and that nobody but the
introducer goroutine swaps the root, cannot be seen by running the code; it is pinned here. Each classified fact is
annotated with the line of `Bluge/Lin.lean` it justifies. -/
namespace Bluge.C05

def expectedDerived : List (String × String × String) := [
  -- Lin.lean:33 `prepare c sid seen`: the id comes from the atomic counter at preparation (:187 enabled: fresh)
  ("prepareSegment", "introduction-literal", "&segmentIntroduction{id: atomic.AddUint64(&s.nextSegmentID, 1), data: newSegment, idTerms: idTerms, obsoletes: make(map[uint64]*roaring.Bitmap), internal: internalOps, applied: make(chan error), persistedCallback: persistedCallback}"),
  -- Lin.lean:193 `!s.safe || acked`: only a safe batch has a `persisted` channel to wait on
  ("prepareSegment", "persisted-channel", "if !s.config.UnsafeBatch (no else: true) { introduction.persisted = make(chan error, 1) }"),
  -- Lin.lean:147 `root := s.currentSnapshot()`: whichever published root — read BEFORE the send, so possibly stale
  ("prepareSegment", "root-is", "s.currentSnapshot()"),
  -- Lin.lean:155 `Index.step s.core (.batch b (s.seenIdx seenNo) sid)` → Index.lean:153 `prepareObs`
  ("prepareSegment", "obsoletes-loop", "for … range root.segment { delta, err := seg.segment.DocsMatchingTerms(idTerms) ; if err != nil { ; return err ; } ; introduction.obsoletes[seg.id] = delta }"),
  -- Lin.lean:151 `.intro c` needs phase `prepared`: the introducer can only run what was sent after the preparation
  ("prepareSegment", "send", "s.introductions <- introduction (unconditional, top level)"),
  -- Lin.lean:190-194 `.ret c` needs phase `introduced`: Batch returns only after the introducer closed `applied`
  ("prepareSegment", "receive", "err := <-introduction.applied (unconditional, top level)"),
  -- Lin.lean:193 safe mode: also after the persister's ack
  ("prepareSegment", "conditional-receive", "if introduction.persisted != nil (no else: true) { err = <-introduction.persisted }"),
  -- Lin.lean:49-53 the constructor order of `Phase` IS this program order
  ("prepareSegment", "order", "introduction literal < persisted channel made iff !UnsafeBatch < root := currentSnapshot() < obsoletes loop < send on s.introductions < receive from introduction.applied < conditional receive from introduction.persisted: true"),
  ("prepareSegment", "channel-operations", "send s.introductions, recv introduction.applied, recv introduction.persisted"),
  ("introducerLoop", "case <-s.closeCh", "break OUTER"),
  ("introducerLoop", "case epochWatcher := <-introducerNotifier", "introduceWatchers.Add(epochWatcher)"),
  ("introducerLoop", "case nextMerge := <-merges", "introduceSnapshotEpoch := nextSnapshotEpoch ; nextSnapshotEpoch++ ; s.introduceMerge(nextMerge, introduceSnapshotEpoch)"),
  -- Lin.lean:151-161 `.intro c`: epoch := nextEpoch, nextEpoch+1, introduceSegment — nothing else in between
  ("introducerLoop", "case next := <-introductions", "introduceSnapshotEpoch := nextSnapshotEpoch ; nextSnapshotEpoch++ ; err := s.introduceSegment(next, introduceSnapshotEpoch) ; if err != nil { ; continue OUTER ; }"),
  ("introducerLoop", "case persist := <-persists", "introduceSnapshotEpoch := nextSnapshotEpoch ; nextSnapshotEpoch++ ; s.introducePersist(persist, introduceSnapshotEpoch)"),
  -- Lin.lean:139 `stepCore`: one goroutine, one event at a time: the three kinds of introduction are serialised by ONE select
  ("introducerLoop", "select-table", "<-s.closeCh | epochWatcher := <-introducerNotifier | nextMerge := <-merges | next := <-introductions | persist := <-persists"),
  -- Lin.lean:176 `step`: exactly one introduction per iteration
  ("introducerLoop", "introductions-per-case", "<-s.closeCh: 0 | epochWatcher := <-introducerNotifier: 0 | nextMerge := <-merges: 1 | next := <-introductions: 1 | persist := <-persists: 1"),
  ("introducerLoop", "introductions-outside-the-select", "0"),
  -- Lin.lean:155-161 + :190-194: `next.persisted` joins rootPersisted IN the swap; the ack of `applied` comes after the swap,
  --   so `.ret c` (enabled only in phase `introduced`) cannot precede `.intro c`
  ("introduceSegment", "replaceRoot-call", "s.replaceRoot(newSnapshot, next.persisted, next.persistedCallback)"),
  ("introduceSegment", "order", "replaceRoot < close(next.applied): true"),
  ("introduceSegment", "sends on / closes of next.applied", "3 (error path: send + close, then return err; success path: close after replaceRoot)"),
  -- Lin.lean header: the introducer loop is the only caller of introduce* …
  ("package index", "callers of introduceSegment", "[introducerLoop]"),
  ("package index", "callers of introducePersist", "[introducerLoop]"),
  ("package index", "callers of introduceMerge", "[introducerLoop]"),
  -- … and, while the loops run, the only goroutine that swaps the root (loadSnapshots runs before `go introducerLoop`, close after asyncTasks.Wait())
  ("package index", "callers of replaceRoot", "[close, introduceMerge, introducePersist, introduceSegment, loadSnapshots]"),
  ("package index", "callers of introducerLoop", "[OpenWriter]"),
  ("package index", "callers of prepareSegment", "[Batch]"),
  -- … of which there is exactly one per writer
  ("package index", "go statements starting introducerLoop", "[OpenWriter]"),
  ("package index", "watched functions used as method values", "0"),
  -- Lin.lean:155 the root changes ONLY in an introduction event (OpenWriter initialises the field before any goroutine exists)
  ("package index", "writes to a .root field", "[OpenWriter: rv.root = … ; replaceRoot: s.root = …]"),
  -- Lin.lean:155-161 `.intro`: core.root, pubs, slots change together; :164 `.ack` can only hit calls already introduced
  ("replaceRoot", "rootLock.Lock region", "if persistedCh != nil { ; s.rootPersisted = append(s.rootPersisted, persistedCh) ; } ; if persistedCallback != nil { ; s.persistedCallbacks = append(s.persistedCallbacks, persistedCallback) ; } ; rootPrev := s.root ; s.root = newSnapshot"),
  ("replaceRoot", "root swap and rootPersisted append in one critical section", "true"),
  -- Lin.lean:147 / :169: a reader or a preparing batch gets a whole published root (read and addRef under the read lock)
  ("currentSnapshot", "rootLock.RLock region", "var rv *Snapshot ; if s.root != nil { ; rv = s.root ; if rv != nil { ; rv.addRef() ; } ; }"),
  -- outside the alphabet: no event of Bluge.Lin happens after close(s.closeCh) + Wait
  ("close", "order", "close(s.closeCh) < s.asyncTasks.Wait() < s.replaceRoot(nil, nil, nil): true"),
  -- Lin.lean `State.init`: the history starts with the root the loaded snapshots left
  ("OpenWriter", "order", "loadSnapshots() < go introducerLoop(…): true"),
  -- Lin.lean:37 `Ev.ack cs` / :189 enabled: `cs` were all introduced — the channels are taken together with the root, under the lock replaceRoot appends under
  ("persisterLoop", "rootLock.Lock region (the grab)", "if s.root != nil && s.root.epoch > lastPersistedEpoch { ; ourSnapshot = s.root ; ourSnapshot.addRef() ; ourPersisted = s.rootPersisted ; s.rootPersisted = nil ; ourPersistedCallbacks = s.persistedCallbacks ; s.persistedCallbacks = nil ; }"),
  -- Lin.lean:164 `.ack cs`: every grabbed channel is closed (error sent first, if any)
  ("persisterLoop", "ack loop", "for … range ourPersisted { if err != nil { ; ch <- err ; } ; close(ch) }"),
  ("persisterLoop", "ack loop follows persistSnapshot in the same block", "true"),
  ("package index", "statements mentioning rootPersisted", "[persisterLoop: ourPersisted = s.rootPersisted ; persisterLoop: s.rootPersisted = nil ; replaceRoot: s.rootPersisted = append(s.rootPersisted, persistedCh)]")
]

def expectedStmts : List (String × String) := [
  -- index/writer.go prepareSegment  ==>  Bluge/Lin.lean:33 `Ev.prepare` (:144 stepCore), :39 `Ev.ret` (:190 enabled)
  ("prepareSegment", "introduction := &segmentIntroduction{id: atomic.AddUint64(&s.nextSegmentID, 1), data: newSegment, idTerms: idTerms, obsoletes: make(map[uint64]*roaring.Bitmap), internal: internalOps, applied: make(chan error), persistedCallback: persistedCallback}"),
  ("prepareSegment", "if !s.config.UnsafeBatch {"),
  ("prepareSegment", "introduction.persisted = make(chan error, 1)"),
  ("prepareSegment", "}"),
  ("prepareSegment", "root := s.currentSnapshot()"),
  ("prepareSegment", "defer func() {"),
  ("prepareSegment", "_ = root.Close()"),
  ("prepareSegment", "}()"),
  ("prepareSegment", "for _, seg := range root.segment {"),
  ("prepareSegment", "delta, err := seg.segment.DocsMatchingTerms(idTerms)"),
  ("prepareSegment", "if err != nil {"),
  ("prepareSegment", "return err"),
  ("prepareSegment", "}"),
  ("prepareSegment", "introduction.obsoletes[seg.id] = delta"),
  ("prepareSegment", "}"),
  ("prepareSegment", "s.introductions <- introduction"),
  ("prepareSegment", "err := <-introduction.applied"),
  ("prepareSegment", "if err != nil {"),
  ("prepareSegment", "return err"),
  ("prepareSegment", "}"),
  ("prepareSegment", "if introduction.persisted != nil {"),
  ("prepareSegment", "err = <-introduction.persisted"),
  ("prepareSegment", "}"),
  ("prepareSegment", "return err"),
  -- index/writer.go Writer.Reader  ==>  Bluge/Lin.lean:41 `Ev.reader` (:169 stepCore: the reader holds `s.core.root`)
  ("Writer.Reader", "return s.currentSnapshot(), nil"),
  -- index/introducer.go introducerLoop  ==>  Bluge/Lin.lean:35 `Ev.intro`, `Ev.persist`, `Ev.merge` (:151-174 stepCore: one introduction per event, epoch `nextEpoch`)
  ("introducerLoop", "var introduceWatchers epochWatchers"),
  ("introducerLoop", "OUTER:"),
  ("introducerLoop", "for {"),
  ("introducerLoop", "select {"),
  ("introducerLoop", "case <-s.closeCh:"),
  ("introducerLoop", "break OUTER"),
  ("introducerLoop", "case epochWatcher := <-introducerNotifier:"),
  ("introducerLoop", "introduceWatchers.Add(epochWatcher)"),
  ("introducerLoop", "case nextMerge := <-merges:"),
  ("introducerLoop", "introduceSnapshotEpoch := nextSnapshotEpoch"),
  ("introducerLoop", "nextSnapshotEpoch++"),
  ("introducerLoop", "s.introduceMerge(nextMerge, introduceSnapshotEpoch)"),
  ("introducerLoop", "case next := <-introductions:"),
  ("introducerLoop", "introduceSnapshotEpoch := nextSnapshotEpoch"),
  ("introducerLoop", "nextSnapshotEpoch++"),
  ("introducerLoop", "err := s.introduceSegment(next, introduceSnapshotEpoch)"),
  ("introducerLoop", "if err != nil {"),
  ("introducerLoop", "continue OUTER"),
  ("introducerLoop", "}"),
  ("introducerLoop", "case persist := <-persists:"),
  ("introducerLoop", "introduceSnapshotEpoch := nextSnapshotEpoch"),
  ("introducerLoop", "nextSnapshotEpoch++"),
  ("introducerLoop", "s.introducePersist(persist, introduceSnapshotEpoch)"),
  ("introducerLoop", "}"),
  ("introducerLoop", "epochCurr := s.currentEpoch()"),
  ("introducerLoop", "introduceWatchers.NotifySatisfiedWatchers(epochCurr)"),
  ("introducerLoop", "}"),
  ("introducerLoop", "s.asyncTasks.Done()"),
  -- index/introducer.go replaceRoot  ==>  Bluge/Lin.lean:155-161 (root, publication and slot change in ONE event)
  ("replaceRoot", "s.rootLock.Lock()"),
  ("replaceRoot", "if persistedCh != nil {"),
  ("replaceRoot", "s.rootPersisted = append(s.rootPersisted, persistedCh)"),
  ("replaceRoot", "}"),
  ("replaceRoot", "if persistedCallback != nil {"),
  ("replaceRoot", "s.persistedCallbacks = append(s.persistedCallbacks, persistedCallback)"),
  ("replaceRoot", "}"),
  ("replaceRoot", "rootPrev := s.root"),
  ("replaceRoot", "s.root = newSnapshot"),
  ("replaceRoot", "s.rootLock.Unlock()"),
  ("replaceRoot", "if rootPrev != nil {"),
  ("replaceRoot", "_ = rootPrev.Close()"),
  ("replaceRoot", "}"),
  -- index/writer.go currentSnapshot  ==>  Bluge/Lin.lean:147-149 / :169 (reading the root is one event: a whole published root)
  ("currentSnapshot", "s.rootLock.RLock()"),
  ("currentSnapshot", "var rv *Snapshot"),
  ("currentSnapshot", "if s.root != nil {"),
  ("currentSnapshot", "rv = s.root"),
  ("currentSnapshot", "if rv != nil {"),
  ("currentSnapshot", "rv.addRef()"),
  ("currentSnapshot", "}"),
  ("currentSnapshot", "}"),
  ("currentSnapshot", "s.rootLock.RUnlock()"),
  ("currentSnapshot", "return rv"),
  -- index/writer.go Writer.close  ==>  outside the alphabet of Bluge.Lin: the last swap (to nil) happens after every loop has exited
  ("close", "close(s.closeCh)"),
  ("close", "s.asyncTasks.Wait()"),
  ("close", "s.replaceRoot(nil, nil, nil)"),
  ("close", "err = s.directory.Unlock()"),
  ("close", "if err != nil {"),
  ("close", "return err"),
  ("close", "}"),
  ("close", "return nil")
]

end Bluge.C05

import BlugeProofs.C05.Accept
/-! From the events of an execution to the ghost state: an `Invoke`/`IntroSegment`/`Return`/`ReaderGet` event at
position `j` of a well-formed execution left its stamp `j` in the state. With `PoInv` (stamps point at events) this
lets the property theorems speak about the event list alone. -/
namespace Bluge.Lin
open Bluge.Index List

/-- what a client has is never taken back: batch, invocation stamp, introduction data, return stamp -/
theorem phase_forward (s : State) (e : Ev) {x : Nat} {ph : Phase} (hx : s.phase x = some ph) :
    ∃ ph', (step s e).phase x = some ph' ∧ ph'.batch = ph.batch ∧ ph'.tInv = ph.tInv ∧
      (∀ d, ph.intro? = some d → ph'.intro? = some d) ∧ (∀ t, ph.tRet? = some t → ph'.tRet? = some t) := by
  rw [step_phase]
  have key : ∀ (c : Nat) (p q : Phase), s.phase c = some p → q.batch = p.batch → q.tInv = p.tInv →
      (∀ d, p.intro? = some d → q.intro? = some d) → (∀ t, p.tRet? = some t → q.tRet? = some t) →
      ∃ ph', upd s.phase c q x = some ph' ∧ ph'.batch = ph.batch ∧ ph'.tInv = ph.tInv ∧
        (∀ d, ph.intro? = some d → ph'.intro? = some d) ∧ (∀ t, ph.tRet? = some t → ph'.tRet? = some t) := by
    intro c p q hc h1 h2 h3 h4
    by_cases hxc : x = c
    · subst hxc; rw [hc] at hx; cases hx; exact ⟨q, upd_same _ _ _, h1, h2, h3, h4⟩
    · exact ⟨ph, by rw [upd_other _ _ hxc]; exact hx, rfl, rfl, fun _ h => h, fun _ h => h⟩
  have same : ∃ ph', s.phase x = some ph' ∧ ph'.batch = ph.batch ∧ ph'.tInv = ph.tInv ∧
      (∀ d, ph.intro? = some d → ph'.intro? = some d) ∧ (∀ t, ph.tRet? = some t → ph'.tRet? = some t) :=
    ⟨ph, hx, rfl, rfl, fun _ h => h, fun _ h => h⟩
  cases effect s e with
  | idle h => rw [h]; exact same
  | invoke c b he hc h =>
    rw [h]
    have hxc : x ≠ c := by intro hxc; subst hxc; rw [hc] at hx; cases hx
    obtain ⟨ph', h1, h2⟩ := same
    exact ⟨ph', by show upd s.phase c _ x = some ph'; rw [upd_other _ _ hxc]; exact h1, h2⟩
  | prepare c sid k b t0 n he hc h =>
    rw [h]; exact key c _ _ hc rfl rfl (by intro d hd; simp [Phase.intro?] at hd) (by intro t ht; simp [Phase.tRet?] at ht)
  | intro c b t0 sid n tp he hc h =>
    rw [h]; exact key c _ _ hc rfl rfl (by intro d hd; simp [Phase.intro?] at hd) (by intro t ht; simp [Phase.tRet?] at ht)
  | ack cs he h =>
    rw [h]
    exact ⟨ph.ack (cs.contains x), by simp [hx], by simp, by simp, by intro d hd; simpa using hd, by intro t ht; simpa using ht⟩
  | ret c b t0 tp i ti a he hc h =>
    rw [h]; exact key c _ _ hc rfl rfl (by intro d hd; exact hd) (by intro t ht; simp [Phase.tRet?] at ht)
  | reader r he h => rw [h]; exact same
  | persist p he h => rw [h]; exact same
  | merge k pick fm id he h => rw [h]; exact same

/-- every event of the execution left its stamp -/
structure EvInv (evs : List Ev) (s : State) : Prop where
  inv : ∀ j c b, evs[j]? = some (.invoke c b) → ∃ ph, s.phase c = some ph ∧ ph.tInv = j ∧ ph.batch = b
  intro : ∀ j c, evs[j]? = some (.intro c) → ∃ ph i, s.phase c = some ph ∧ ph.intro? = some (i, j)
  ret : ∀ j c, evs[j]? = some (.ret c) → ∃ ph, s.phase c = some ph ∧ ph.tRet? = some j
  reader : ∀ rd ∈ s.reads, evs[rd.t]? = some (.reader rd.r)
  batch : ∀ c ph, s.phase c = some ph → batchIn evs c = ph.batch

theorem EvInv.init (safe : Bool) : EvInv [] (State.init safe) where
  inv := by intro j c b h; simp at h
  intro := by intro j c h; simp at h
  ret := by intro j c h; simp at h
  reader := by intro rd h; simp [State.init] at h
  batch := by intro c ph h; simp [State.init] at h

theorem getElem?_snoc_cases {α : Type} {l : List α} {a x : α} {j : Nat} (h : (l ++ [a])[j]? = some x) :
    l[j]? = some x ∨ (j = l.length ∧ x = a) := by
  rcases Nat.lt_or_ge j l.length with hlt | hge
  · rw [List.getElem?_append_left hlt] at h; exact Or.inl h
  · rw [List.getElem?_append_right hge] at h
    rcases Nat.eq_zero_or_pos (j - l.length) with h0 | h0
    · rw [h0] at h; simp at h; exact Or.inr ⟨by omega, h.symm⟩
    · rw [List.getElem?_eq_none (by simp; omega)] at h; cases h

theorem batchIn_snoc_of_some {evs : List Ev} {c : Nat} (e : Ev) {b : Batch}
    (h : evs.findSome? (invokeOf c) = some b) : batchIn (evs ++ [e]) c = b := by
  unfold batchIn
  rw [List.findSome?_append, h]; rfl

theorem EvInv.step {evs : List Ev} {s : State} (h : EvInv evs s) (hpo : PoInv evs s) (e : Ev)
    (hen : Enabled s e) : EvInv (evs ++ [e]) (Lin.step s e) := by
  have hlen : s.clock = evs.length := hpo.clock
  refine ⟨?_, ?_, ?_, ?_, ?_⟩
  · intro j c b hj
    rcases getElem?_snoc_cases hj with hj | ⟨rfl, rfl⟩
    · obtain ⟨ph, h1, h2, h3⟩ := h.inv j c b hj
      obtain ⟨ph', h4, h5, h6, _⟩ := phase_forward s (e) h1
      exact ⟨ph', h4, by rw [h6]; exact h2, by rw [h5]; exact h3⟩
    · -- the new event is this invocation: it is enabled, so it fires
      have hc : s.phase c = none := by
        unfold Enabled enabled at hen; simpa using hen
      refine ⟨.invoked b s.clock, ?_, hlen, rfl⟩
      simp [stepCore, hc, upd_same]
  · intro j c hj
    rcases getElem?_snoc_cases hj with hj | ⟨rfl, rfl⟩
    · obtain ⟨ph, i, h1, h2⟩ := h.intro j c hj
      obtain ⟨ph', h4, _, _, h7, _⟩ := phase_forward s (e) h1
      exact ⟨ph', i, h4, h7 _ h2⟩
    · unfold Enabled enabled at hen
      cases hc : s.phase c with
      | none => simp [hc] at hen
      | some p =>
        cases p with
        | prepared b t0 sid n tp =>
          refine ⟨.introduced b t0 tp s.lin.length s.clock false, s.lin.length, ?_, by rw [hlen]; rfl⟩
          simp [stepCore, hc, upd_same]
        | invoked b t0 => simp [hc] at hen
        | introduced b t0 tp i ti a => simp [hc] at hen
        | returned b t0 tp i ti tr => simp [hc] at hen
  · intro j c hj
    rcases getElem?_snoc_cases hj with hj | ⟨rfl, rfl⟩
    · obtain ⟨ph, h1, h2⟩ := h.ret j c hj
      obtain ⟨ph', h4, _, _, _, h8⟩ := phase_forward s (e) h1
      exact ⟨ph', h4, h8 _ h2⟩
    · unfold Enabled enabled at hen
      cases hc : s.phase c with
      | none => simp [hc] at hen
      | some p =>
        cases p with
        | introduced b t0 tp i ti a =>
          refine ⟨.returned b t0 tp i ti s.clock, ?_, by rw [hlen]; rfl⟩
          simp [stepCore, hc, upd_same]
        | invoked b t0 => simp [hc] at hen
        | prepared b t0 sid n tp => simp [hc] at hen
        | returned b t0 tp i ti tr => simp [hc] at hen
  · intro rd hrd
    rw [step_reads] at hrd
    have old : ∀ rd ∈ s.reads, (evs ++ [e])[rd.t]? = some (.reader rd.r) :=
      fun rd hrd => getElem?_snoc_of_some (h.reader rd hrd)
    cases effect s e with
    | idle he => rw [he] at hrd; exact old rd hrd
    | invoke c b _ _ he => rw [he] at hrd; exact old rd hrd
    | prepare c sid k b t0 n _ _ he => rw [he] at hrd; exact old rd hrd
    | intro c b t0 sid n tp _ _ he => rw [he] at hrd; exact old rd hrd
    | ack cs _ he => rw [he] at hrd; exact old rd hrd
    | ret c b t0 tp i ti a _ _ he => rw [he] at hrd; exact old rd hrd
    | persist p _ he => rw [he] at hrd; exact old rd hrd
    | merge k pick fm id _ he => rw [he] at hrd; exact old rd hrd
    | reader r heq he =>
      rw [he] at hrd
      rcases List.mem_cons.mp hrd with rfl | hrd
      · subst heq; show (evs ++ [Ev.reader r])[s.clock]? = _; rw [hlen]; simp
      · exact old rd hrd
  · intro c ph' hc
    -- either the client had a phase (then its invocation is in `evs` already) or this is its invocation
    cases hold : s.phase c with
    | some ph =>
      obtain ⟨ph'', h4, h5, _⟩ := phase_forward s e hold
      rw [hc] at h4; cases h4
      have hb := h.batch c ph hold
      obtain ⟨j, hj⟩ : ∃ j : Nat, evs[j]? = some (Ev.invoke c ph.batch) := by
        have := hpo.pos c ph hold
        cases ph with
        | invoked b t0 => exact ⟨t0, this⟩
        | prepared b t0 sid n tp => exact ⟨t0, this.1⟩
        | introduced b t0 tp i ti a => exact ⟨t0, this.1⟩
        | returned b t0 tp i ti tr => exact ⟨t0, this.1⟩
      -- the search already succeeds inside `evs`
      have hsome : (evs.findSome? (invokeOf c)).isSome = true := by
        rw [List.findSome?_isSome_iff]
        exact ⟨_, List.mem_of_getElem? hj, by simp [invokeOf]⟩
      obtain ⟨b0, hb0⟩ := Option.isSome_iff_exists.mp hsome
      have : batchIn evs c = b0 := by unfold batchIn; rw [hb0]; rfl
      rw [batchIn_snoc_of_some e hb0, h5, ← hb, this]
    | none =>
      rw [step_phase] at hc
      cases effect s e with
      | idle he => rw [he, hold] at hc; cases hc
      | invoke c' b heq hc' he =>
        rw [he] at hc
        by_cases hcc : c = c'
        · subst hcc
          have : some (Phase.invoked b s.clock) = some ph' := by rw [← hc]; exact (upd_same _ _ _).symm
          cases this
          subst heq
          -- no earlier invocation of `c`
          have hnone : evs.findSome? (invokeOf c) = none := by
            rw [List.findSome?_eq_none_iff]
            intro x hx
            cases x with
            | invoke c2 b2 =>
              by_cases h2 : c2 = c
              · subst h2
                obtain ⟨j, hj⟩ := List.getElem?_of_mem hx
                obtain ⟨ph, h1, _⟩ := h.inv j _ _ hj
                rw [hold] at h1; cases h1
              · simp [invokeOf, h2]
            | _ => rfl
          unfold batchIn
          rw [List.findSome?_append, hnone]
          simp [Phase.batch, invokeOf]
        · have : s.phase c = some ph' := by rw [← hc]; exact (upd_other _ _ hcc).symm
          rw [hold] at this; cases this
      | prepare c' sid k b t0 n _ hc' he =>
        rw [he] at hc
        by_cases hcc : c = c'
        · subst hcc; rw [hold] at hc'; cases hc'
        · have : s.phase c = some ph' := by rw [← hc]; exact (upd_other _ _ hcc).symm
          rw [hold] at this; cases this
      | intro c' b t0 sid n tp _ hc' he =>
        rw [he] at hc
        by_cases hcc : c = c'
        · subst hcc; rw [hold] at hc'; cases hc'
        · have : s.phase c = some ph' := by rw [← hc]; exact (upd_other _ _ hcc).symm
          rw [hold] at this; cases this
      | ack cs _ he =>
        rw [he] at hc
        have : (s.phase c).map (fun p => p.ack (cs.contains c)) = some ph' := hc
        rw [hold] at this; cases this
      | ret c' b t0 tp i ti a _ hc' he =>
        rw [he] at hc
        by_cases hcc : c = c'
        · subst hcc; rw [hold] at hc'; cases hc'
        · have : s.phase c = some ph' := by rw [← hc]; exact (upd_other _ _ hcc).symm
          rw [hold] at this; cases this
      | reader r _ he => rw [he, hold] at hc; cases hc
      | persist p _ he => rw [he, hold] at hc; cases hc
      | merge k pick fm id _ he => rw [he, hold] at hc; cases hc

theorem evinv_of_reach {safe : Bool} {evs : List Ev} {s : State} (h : Reach safe evs s) : EvInv evs s := by
  induction h with
  | init => exact EvInv.init safe
  | snoc e hr hen ih => exact ih.step (good_of_reach hr).po e hen

end Bluge.Lin

import BlugeProofs.C05.Pos
/-! Recorded histories: the history a model execution records is accepted by the specification `Accepts` with the
linearisation as the explaining order; the checker `explains` is sound; what `Accepts` entails. -/
namespace Bluge.Lin
open Bluge.Index List

/-! ### the calls of a recorded model history -/

theorem toCall_c (c : Nat) (p : Phase) : (Phase.toCall c p).c = c := rfl

theorem calls_mem {s : State} {a : Call} (ha : a ∈ s.history.calls) :
    ∃ ph, s.phase a.c = some ph ∧ a = Phase.toCall a.c ph ∧ a.c ∈ s.ids := by
  simp only [State.history, List.mem_filterMap] at ha
  obtain ⟨c, hc, hf⟩ := ha
  cases hp : s.phase c with
  | none => rw [hp] at hf; cases hf
  | some ph =>
    rw [hp] at hf; simp only [Option.map_some, Option.some.injEq] at hf
    subst hf
    exact ⟨ph, hp, rfl, hc⟩

theorem calls_of_phase {s : State} (hp : PhInv s) {c : Nat} {ph : Phase} (h : s.phase c = some ph) :
    Phase.toCall c ph ∈ s.history.calls := by
  simp only [State.history, List.mem_filterMap]
  exact ⟨c, (hp.ids_iff c).mpr (by rw [h]; rfl), by rw [h]; rfl⟩

theorem filterMap_calls_c (s : State) (l : List Nat) (h : ∀ c ∈ l, (s.phase c).isSome = true) :
    (l.filterMap (fun c => (s.phase c).map (Phase.toCall c))).map (·.c) = l := by
  induction l with
  | nil => rfl
  | cons x t ih =>
    obtain ⟨ph, hph⟩ := Option.isSome_iff_exists.mp (h x List.mem_cons_self)
    rw [List.filterMap_cons]
    simp only [hph, Option.map_some, List.map_cons, toCall_c]
    rw [ih (fun c hc => h c (List.mem_cons_of_mem _ hc))]

theorem calls_ids {s : State} (hp : PhInv s) : s.history.calls.map (·.c) = s.ids :=
  filterMap_calls_c s s.ids (fun c hc => (hp.ids_iff c).mp hc)

/-- the history looks up the same batch as the state -/
theorem history_batchOf {s : State} (hp : PhInv s) {c : Nat} (h : (s.phase c).isSome = true) :
    s.history.batchOf c = s.batchOf c := by
  obtain ⟨ph, hph⟩ := Option.isSome_iff_exists.mp h
  unfold History.batchOf State.batchOf
  cases hf : s.history.calls.find? (fun a => a.c == c) with
  | none =>
    have := List.find?_eq_none.mp hf _ (calls_of_phase hp hph)
    simp [toCall_c] at this
  | some a =>
    have ha := List.mem_of_find?_eq_some hf
    have hc := List.find?_some hf
    simp only [beq_iff_eq] at hc
    obtain ⟨ph', h1, h2, _⟩ := calls_mem ha
    rw [hc, hph] at h1; cases h1
    rw [h2, hph]; rfl

theorem absAfter_eq {s : State} (hp : PhInv s) (hc : CoInv s) (k : Nat) :
    s.history.absAfter s.lin k = absOf (s.core.applied.take k) := by
  unfold History.absAfter
  have : (s.lin.take k).map s.history.batchOf = (s.lin.take k).map s.batchOf := by
    apply List.map_congr_left
    intro x hx
    obtain ⟨i, hi⟩ := List.getElem?_of_mem (List.mem_of_mem_take hx)
    obtain ⟨ph, ti, h1, _⟩ := hp.lin_phase i x hi
    exact history_batchOf hp (by rw [h1]; rfl)
  rw [this, List.map_take, hc.applied]

theorem mem_zip_getElem? {α β : Type} {l : List α} {l' : List β} {p : α × β} (h : p ∈ l.zip l') :
    ∃ i : Nat, l[i]? = some p.1 ∧ l'[i]? = some p.2 := by
  obtain ⟨i, hi⟩ := List.getElem?_of_mem h
  refine ⟨i, ?_⟩
  rw [List.getElem?_zip_eq_some] at hi
  exact hi

/-- **every history the model records is accepted**, the linearisation being the explaining order -/
theorem good_accepts {evs : List Ev} {s : State} (g : Good evs s) : Accepts s.history s.lin := by
  have hp := g.ph; have hc := g.co; have ho := g.ob
  refine ⟨⟨ho.slots_pair, ?_, ?_⟩, ⟨ho.slots_len.symm, hp.lin_nodup, ?_, ?_, ?_⟩, ?_, ?_, ⟨?_, ?_⟩, ?_⟩
  · rw [calls_ids hp]; exact hp.ids_nodup
  · intro a ha tr htr
    obtain ⟨ph, h1, h2, _⟩ := calls_mem ha
    rw [h2] at htr ⊢
    obtain ⟨i, ti, h3, h4, _⟩ := (hp.stamps _ _ h1).ret htr
    have := ((hp.stamps _ _ h1).intro h3).2.2
    show ph.tInv < tr; omega
  · intro c hcl
    obtain ⟨i, hi⟩ := List.getElem?_of_mem hcl
    obtain ⟨ph, ti, h1, _⟩ := hp.lin_phase i c hi
    exact ⟨_, calls_of_phase hp h1, rfl⟩
  · intro a ha hr
    obtain ⟨ph, h1, h2, _⟩ := calls_mem ha
    obtain ⟨tr, htr⟩ := Option.isSome_iff_exists.mp hr
    rw [h2] at htr
    obtain ⟨i, ti, h3, _⟩ := (hp.stamps _ _ h1).ret htr
    exact List.mem_of_getElem? ((hp.stamps _ _ h1).intro h3).1
  · intro p hpz w hw
    obtain ⟨i, h1, h2⟩ := mem_zip_getElem? hpz
    obtain ⟨c, ph, h3, h4, _⟩ := ho.slots_ok i p.2 h2
    have h2' : s.lin[i]? = some p.1 := h1
    rw [h3] at h2'; cases h2'
    rw [h4] at hw; cases hw; rfl
  · intro p hpz
    obtain ⟨i, h1, h2⟩ := mem_zip_getElem? hpz
    obtain ⟨c, ph, h3, h4, h5, h6⟩ := ho.slots_ok i p.2 h2
    have h1' : s.lin[i]? = some p.1 := h1
    rw [h3] at h1'; cases h1'
    refine ⟨_, calls_of_phase hp h5, rfl, ((hp.stamps _ _ h5).intro h6).2.2, ?_, ?_⟩
    · intro tr htr
      obtain ⟨i', ti', h7, h8, _⟩ := (hp.stamps _ _ h5).ret htr
      rw [h6] at h7; cases h7; exact h8
    · intro tp htp
      obtain ⟨h7, h8⟩ := (hp.stamps _ _ h5).prep htp
      exact ⟨h7, h8 _ _ h6⟩
  · intro p hpz
    have hget : s.slots[p.2]? = some p.1 := List.mem_zipIdx_iff_getElem?.mp hpz
    obtain ⟨_, h2⟩ := ho.slots_content p.2 p.1 hget
    show p.1.content.Perm (s.history.absAfter s.lin (p.2 + 1))
    rw [absAfter_eq hp hc]; exact h2
  · intro r hr
    simp only [State.history, List.mem_map, List.mem_reverse] at hr
    obtain ⟨rd, hrd, rfl⟩ := hr
    obtain ⟨_, h2, h3, _, h5⟩ := ho.reads_ok rd hrd
    refine ⟨?_, fun sl hsl => (ho.reads_slots rd hrd sl hsl).1, fun sl hsl => (ho.reads_slots rd hrd sl hsl).2⟩
    have hk : s.history.kAt rd.epoch = rd.k := h5
    show rd.content.Perm (s.history.absAfter s.lin (s.history.kAt rd.epoch))
    rw [hk, absAfter_eq hp hc]; exact h3
  · intro r1 hr1 r2 hr2 hlt
    simp only [State.history, List.mem_map, List.mem_reverse] at hr1 hr2
    obtain ⟨rd1, hrd1, rfl⟩ := hr1
    obtain ⟨rd2, hrd2, rfl⟩ := hr2
    exact (ho.reads_mono rd1 hrd1 rd2 hrd2 hlt).1
  · show s.core.root.abs.Perm (s.history.absAfter s.lin s.lin.length)
    rw [absAfter_eq hp hc, lin_len hc, List.take_length]; exact hc.core.abs

/-! ### the checker -/

theorem explains_sound (h : History) (he : explains h = true) : Explained h := by
  unfold explains at he
  rw [List.any_eq_true] at he
  obtain ⟨o, _, ho⟩ := he
  exact ⟨o, of_decide_eq_true ho⟩

theorem judge_ok_accepts (h : History) (o : List Nat) (hj : judge h = .ok o) : Accepts h o := by
  unfold judge at hj
  split at hj
  · rename_i o' hf
    cases hj
    have := List.find?_some hf
    exact of_decide_eq_true this
  · exfalso
    dsimp only at hj
    repeat' split at hj
    all_goals cases hj

/-- the verdict is `ok` exactly when the checker says yes -/
theorem judge_ok_iff (h : History) : (∃ o, judge h = .ok o) ↔ explains h = true := by
  unfold judge explains
  constructor
  · rintro ⟨o, hj⟩
    split at hj
    · rename_i o' hf
      rw [List.any_eq_true]
      have := List.find?_some hf
      exact ⟨o', List.mem_of_find?_eq_some hf, this⟩
    · exfalso
      dsimp only at hj
      repeat' split at hj
      all_goals cases hj
  · intro he
    rw [List.any_eq_true] at he
    obtain ⟨o, ho, hd⟩ := he
    cases hf : h.candidates.find? (fun o => decide (Accepts h o)) with
    | some o' => exact ⟨o', rfl⟩
    | none => exact absurd hd (by simpa using List.find?_eq_none.mp hf o ho)

/-! ### what an accepted history satisfies, in the words of the property -/

/-- **real time**: a call that returned before another was invoked stands before it in the explaining order -/
theorem accepts_realtime {h : History} {order : List Nat} (ha : Accepts h order) {a a' : Call} (hm : a ∈ h.calls)
    (hm' : a' ∈ h.calls) {tr : Nat} (hr : a.tRet = some tr) (hlt : tr < a'.tInv) (hin : a'.c ∈ order) :
    ∃ i j : Nat, i < j ∧ order[i]? = some a.c ∧ order[j]? = some a'.c := by
  obtain ⟨⟨hpair, hnd, _⟩, ⟨hlen, _, _, hret, _⟩, hrt, _, _, _⟩ := ha
  obtain ⟨i, hi⟩ := List.getElem?_of_mem (hret a hm (by rw [hr]; rfl))
  obtain ⟨j, hj⟩ := List.getElem?_of_mem hin
  have hil := lt_length_of_getElem? hi
  have hjl := lt_length_of_getElem? hj
  refine ⟨i, j, ?_, hi, hj⟩
  have hi' : i < h.slots.length := by omega
  have hj' : j < h.slots.length := by omega
  have zi : (a.c, h.slots[i]) ∈ order.zip h.slots := by
    have : (order.zip h.slots)[i]? = some (a.c, h.slots[i]) := by
      rw [List.getElem?_zip_eq_some]; exact ⟨hi, List.getElem?_eq_getElem hi'⟩
    exact List.mem_of_getElem? this
  have zj : (a'.c, h.slots[j]) ∈ order.zip h.slots := by
    have : (order.zip h.slots)[j]? = some (a'.c, h.slots[j]) := by
      rw [List.getElem?_zip_eq_some]; exact ⟨hj, List.getElem?_eq_getElem hj'⟩
    exact List.mem_of_getElem? this
  obtain ⟨a0, h0, e0, _, r0, _⟩ := hrt _ zi
  obtain ⟨a1, h1, e1, t1, _, _⟩ := hrt _ zj
  have : a0 = a := eq_of_nodup_map hnd h0 hm e0
  subst this
  have : a1 = a' := eq_of_nodup_map hnd h1 hm' e1
  subst this
  have s1 := r0 tr hr
  -- slot i is stamped before slot j, so i < j
  rcases Nat.lt_or_ge i j with hij | hij
  · exact hij
  · exfalso
    rcases Nat.eq_or_lt_of_le hij with heq | hlt'
    · subst heq; simp at s1 t1; omega
    · have := (List.pairwise_iff_getElem.mp hpair) j i hj' hi' hlt'
      simp at s1 t1; omega

/-- with increasing epochs, the slots up to an epoch are a prefix that contains every slot not above it -/
theorem lt_kAt {h : History} (hpair : h.slots.Pairwise (fun a b => a.epoch < b.epoch ∧ a.t < b.t)) {i : Nat}
    (hi : i < h.slots.length) {E : Nat} (hE : h.slots[i].epoch ≤ E) : i < h.kAt E := by
  unfold History.kAt
  have hsplit : h.slots = h.slots.take (i + 1) ++ h.slots.drop (i + 1) := (List.take_append_drop _ _).symm
  have hall : ∀ sl ∈ h.slots.take (i + 1), decide (sl.epoch ≤ E) = true := by
    intro sl hsl
    obtain ⟨j, hj⟩ := List.getElem?_of_mem hsl
    rw [List.getElem?_take] at hj
    split at hj
    · rename_i hji
      have hjl : j < h.slots.length := by omega
      rw [List.getElem?_eq_getElem hjl] at hj; cases hj
      rcases Nat.eq_or_lt_of_le (Nat.le_of_lt_succ hji) with heq | hlt
      · subst heq; simpa using hE
      · have := (List.pairwise_iff_getElem.mp hpair) j i hjl hi hlt
        simp; omega
    · cases hj
  rw [hsplit, List.filter_append, List.filter_eq_self.mpr hall, List.length_append, List.length_take]
  omega

/-- **a reader obtained after a call returned reflects that call** (and, by the same token, every call that returned
before it): the call stands in the prefix the reader shows -/
theorem accepts_reader_reflects {h : History} {order : List Nat} (ha : Accepts h order) {r : Obs} (hr : r ∈ h.reads)
    {a : Call} (hm : a ∈ h.calls) {tr : Nat} (hret : a.tRet = some tr) (hlt : tr < r.tReq) :
    a.c ∈ order.take (h.kAt r.epoch) ∧ r.content.Perm (h.absAfter order (h.kAt r.epoch)) := by
  obtain ⟨⟨hpair, hnd, _⟩, ⟨hlen, _, _, hret', _⟩, hrt, _, ⟨hrd, _⟩, _⟩ := ha
  obtain ⟨hcont, hlow, _⟩ := hrd r hr
  refine ⟨?_, hcont⟩
  obtain ⟨i, hi⟩ := List.getElem?_of_mem (hret' a hm (by rw [hret]; rfl))
  have hil := lt_length_of_getElem? hi
  have hi' : i < h.slots.length := by omega
  have zi : (a.c, h.slots[i]) ∈ order.zip h.slots := by
    have : (order.zip h.slots)[i]? = some (a.c, h.slots[i]) := by
      rw [List.getElem?_zip_eq_some]; exact ⟨hi, List.getElem?_eq_getElem hi'⟩
    exact List.mem_of_getElem? this
  obtain ⟨a0, h0, e0, _, r0, _⟩ := hrt _ zi
  have : a0 = a := eq_of_nodup_map hnd h0 hm e0
  subst this
  have s1 := r0 tr hret
  have hep := hlow h.slots[i] (List.getElem_mem hi') (by simp at s1; omega)
  have hk := lt_kAt hpair hi' hep
  have : (order.take (h.kAt r.epoch))[i]? = some a0.c := by rw [List.getElem?_take]; simp [hk, hi]
  exact List.mem_of_getElem? this

end Bluge.Lin

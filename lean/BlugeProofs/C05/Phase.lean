import BlugeProofs.C05.Basic
/-! The client part of the state (phases, stamps, the linearisation) along every execution. None of this depends on
what the introductions do to the root. -/
namespace Bluge.Lin
open Bluge.Index List

/-! ### projections of `step` -/
@[simp] theorem step_clock (s : State) (e : Ev) : (step s e).clock = s.clock + 1 := rfl
@[simp] theorem step_phase (s : State) (e : Ev) : (step s e).phase = (stepCore s e).phase := rfl
@[simp] theorem step_lin (s : State) (e : Ev) : (step s e).lin = (stepCore s e).lin := rfl
@[simp] theorem step_ids (s : State) (e : Ev) : (step s e).ids = (stepCore s e).ids := rfl
@[simp] theorem step_core (s : State) (e : Ev) : (step s e).core = (stepCore s e).core := rfl
@[simp] theorem step_pubs (s : State) (e : Ev) : (step s e).pubs = (stepCore s e).pubs := rfl
@[simp] theorem step_slots (s : State) (e : Ev) : (step s e).slots = (stepCore s e).slots := rfl
@[simp] theorem step_reads (s : State) (e : Ev) : (step s e).reads = (stepCore s e).reads := rfl
@[simp] theorem step_safe (s : State) (e : Ev) : (step s e).safe = (stepCore s e).safe := rfl

@[simp] theorem ack_intro? (p : Phase) (h : Bool) : (p.ack h).intro? = p.intro? := by cases p <;> rfl
@[simp] theorem ack_batch (p : Phase) (h : Bool) : (p.ack h).batch = p.batch := by cases p <;> rfl
@[simp] theorem ack_tInv (p : Phase) (h : Bool) : (p.ack h).tInv = p.tInv := by cases p <;> rfl
@[simp] theorem ack_tRet? (p : Phase) (h : Bool) : (p.ack h).tRet? = p.tRet? := by cases p <;> rfl
@[simp] theorem ack_tPrep? (p : Phase) (h : Bool) : (p.ack h).tPrep? = p.tPrep? := by cases p <;> rfl

theorem upd_same (f : Nat → Option Phase) (c : Nat) (p : Phase) : upd f c p c = some p := by simp [upd]
theorem upd_other (f : Nat → Option Phase) {c x : Nat} (p : Phase) (h : x ≠ c) : upd f c p x = f x := by simp [upd, h]

/-- what the stamps of the call `c` in phase `ph` satisfy in state `s`: program order, all in the past, and the
position in the linearisation is where `c` stands -/
def StampsOK (s : State) (c : Nat) : Phase → Prop
  | .invoked _ t0 => t0 < s.clock
  | .prepared _ t0 _ _ tp => t0 < tp ∧ tp < s.clock
  | .introduced _ t0 tp i ti _ => t0 < tp ∧ tp < ti ∧ ti < s.clock ∧ s.lin[i]? = some c
  | .returned _ t0 tp i ti tr => t0 < tp ∧ tp < ti ∧ ti < tr ∧ tr < s.clock ∧ s.lin[i]? = some c

theorem StampsOK.mono {s s' : State} {c : Nat} {ph : Phase} (h : StampsOK s c ph) (hc : s.clock ≤ s'.clock)
    (hl : ∀ (i x : Nat), s.lin[i]? = some x → s'.lin[i]? = some x) : StampsOK s' c ph := by
  cases ph with
  | invoked b t0 => exact Nat.lt_of_lt_of_le h hc
  | prepared b t0 sid n tp => exact ⟨h.1, Nat.lt_of_lt_of_le h.2 hc⟩
  | introduced b t0 tp i ti a => exact ⟨h.1, h.2.1, Nat.lt_of_lt_of_le h.2.2.1 hc, hl _ _ h.2.2.2⟩
  | returned b t0 tp i ti tr => exact ⟨h.1, h.2.1, h.2.2.1, Nat.lt_of_lt_of_le h.2.2.2.1 hc, hl _ _ h.2.2.2.2⟩

theorem StampsOK.ack {s : State} {c : Nat} {ph : Phase} (h : StampsOK s c ph) (hit : Bool) : StampsOK s c (ph.ack hit) := by
  cases ph <;> exact h

/-- an introduced call: its index is a position of `lin` holding it, and its stamp is in the past -/
theorem StampsOK.intro {s : State} {c : Nat} {ph : Phase} (h : StampsOK s c ph) {i ti : Nat} (hi : ph.intro? = some (i, ti)) :
    s.lin[i]? = some c ∧ ti < s.clock ∧ ph.tInv < ti := by
  cases ph with
  | invoked b t0 => simp [Phase.intro?] at hi
  | prepared b t0 sid n tp => simp [Phase.intro?] at hi
  | introduced b t0 tp i' ti' a =>
    simp only [Phase.intro?, Option.some.injEq, Prod.mk.injEq] at hi
    obtain ⟨rfl, rfl⟩ := hi
    exact ⟨h.2.2.2, h.2.2.1, Nat.lt_trans h.1 h.2.1⟩
  | returned b t0 tp i' ti' tr =>
    simp only [Phase.intro?, Option.some.injEq, Prod.mk.injEq] at hi
    obtain ⟨rfl, rfl⟩ := hi
    exact ⟨h.2.2.2.2, Nat.lt_trans h.2.2.1 h.2.2.2.1, Nat.lt_trans h.1 h.2.1⟩

/-- a prepared call: prepared after it was invoked and before it was introduced -/
theorem StampsOK.prep {s : State} {c : Nat} {ph : Phase} (h : StampsOK s c ph) {tp : Nat} (hp : ph.tPrep? = some tp) :
    ph.tInv < tp ∧ ∀ i ti, ph.intro? = some (i, ti) → tp < ti := by
  cases ph with
  | invoked b t0 => simp [Phase.tPrep?] at hp
  | prepared b t0 sid n tp' =>
    simp only [Phase.tPrep?, Option.some.injEq] at hp; subst hp
    exact ⟨h.1, by intro i ti hi; simp [Phase.intro?] at hi⟩
  | introduced b t0 tp' i' ti' a =>
    simp only [Phase.tPrep?, Option.some.injEq] at hp; subst hp
    refine ⟨h.1, ?_⟩
    intro i ti hi
    simp only [Phase.intro?, Option.some.injEq, Prod.mk.injEq] at hi
    obtain ⟨rfl, rfl⟩ := hi
    exact h.2.1
  | returned b t0 tp' i' ti' tr =>
    simp only [Phase.tPrep?, Option.some.injEq] at hp; subst hp
    refine ⟨h.1, ?_⟩
    intro i ti hi
    simp only [Phase.intro?, Option.some.injEq, Prod.mk.injEq] at hi
    obtain ⟨rfl, rfl⟩ := hi
    exact h.2.1

/-- a returned call: introduced before it returned -/
theorem StampsOK.ret {s : State} {c : Nat} {ph : Phase} (h : StampsOK s c ph) {tr : Nat} (hr : ph.tRet? = some tr) :
    ∃ i ti, ph.intro? = some (i, ti) ∧ ti < tr ∧ tr < s.clock := by
  cases ph with
  | invoked b t0 => simp [Phase.tRet?] at hr
  | prepared b t0 sid n tp => simp [Phase.tRet?] at hr
  | introduced b t0 tp i' ti' a => simp [Phase.tRet?] at hr
  | returned b t0 tp i' ti' tr' =>
    simp only [Phase.tRet?, Option.some.injEq] at hr
    subst hr
    exact ⟨i', ti', rfl, h.2.2.1, h.2.2.2.1⟩

structure PhInv (s : State) : Prop where
  stamps : ∀ c ph, s.phase c = some ph → StampsOK s c ph
  ids_nodup : s.ids.Nodup
  ids_iff : ∀ c, c ∈ s.ids ↔ (s.phase c).isSome = true
  /-- every position of the linearisation holds a call that was introduced at that position -/
  lin_phase : ∀ i c, s.lin[i]? = some c → ∃ ph ti, s.phase c = some ph ∧ ph.intro? = some (i, ti)
  /-- positions in the linearisation and introduction stamps are ordered alike -/
  mono : ∀ c c' ph ph' i ti i' ti', s.phase c = some ph → s.phase c' = some ph' →
      ph.intro? = some (i, ti) → ph'.intro? = some (i', ti') → i < i' → ti < ti'

theorem PhInv.init (safe : Bool) : PhInv (State.init safe) where
  stamps := by intro c ph h; simp [State.init] at h
  ids_nodup := by simp [State.init]
  ids_iff := by intro c; simp [State.init]
  lin_phase := by intro i c h; simp [State.init] at h
  mono := by intro c c' ph ph' i ti i' ti' h; simp [State.init] at h

/-- nothing but the clock moved -/
theorem PhInv.frame {s s' : State} (h : PhInv s) (hp : s'.phase = s.phase) (hl : s'.lin = s.lin) (hi : s'.ids = s.ids)
    (hc : s.clock ≤ s'.clock) : PhInv s' where
  stamps := by
    intro c ph hph; rw [hp] at hph
    exact (h.stamps c ph hph).mono hc (by intro i x hx; rw [hl]; exact hx)
  ids_nodup := by rw [hi]; exact h.ids_nodup
  ids_iff := by intro c; rw [hi, hp]; exact h.ids_iff c
  lin_phase := by intro i c hx; rw [hl] at hx; rw [hp]; exact h.lin_phase i c hx
  mono := by intro c c' ph ph' i ti i' ti' h1 h2; rw [hp] at h1 h2; exact h.mono c c' ph ph' i ti i' ti' h1 h2

/-- the phase of `c` moved to `p'`, which has the same introduction data as the old phase `p`; `lin` and `ids` stay -/
theorem PhInv.move {s s' : State} (h : PhInv s) {c : Nat} {p p' : Phase} (hold : s.phase c = some p)
    (hp : s'.phase = upd s.phase c p') (hl : s'.lin = s.lin) (hi : s'.ids = s.ids) (hc : s.clock ≤ s'.clock)
    (hintro : p'.intro? = p.intro?) (hst : StampsOK s' c p') : PhInv s' where
  stamps := by
    intro x ph hph; rw [hp] at hph
    by_cases hx : x = c
    · subst hx; rw [upd_same] at hph; cases hph; exact hst
    · rw [upd_other _ _ hx] at hph
      exact (h.stamps x ph hph).mono hc (by intro i y hy; rw [hl]; exact hy)
  ids_nodup := by rw [hi]; exact h.ids_nodup
  ids_iff := by
    intro x; rw [hi, hp]
    by_cases hx : x = c
    · subst hx; rw [upd_same]; simpa [hold] using h.ids_iff x
    · rw [upd_other _ _ hx]; exact h.ids_iff x
  lin_phase := by
    intro i x hx; rw [hl] at hx
    obtain ⟨ph, ti, h1, h2⟩ := h.lin_phase i x hx
    rw [hp]
    by_cases hxc : x = c
    · subst hxc; rw [hold] at h1; cases h1
      exact ⟨p', ti, upd_same _ _ _, by rw [hintro]; exact h2⟩
    · exact ⟨ph, ti, by rw [upd_other _ _ hxc]; exact h1, h2⟩
  mono := by
    intro x x' ph ph' i ti i' ti' h1 h2 h3 h4
    rw [hp] at h1 h2
    have key : ∀ y q, upd s.phase c p' y = some q → ∃ q0, s.phase y = some q0 ∧ q0.intro? = q.intro? := by
      intro y q hq
      by_cases hy : y = c
      · subst hy; rw [upd_same] at hq; cases hq; exact ⟨p, hold, hintro.symm⟩
      · rw [upd_other _ _ hy] at hq; exact ⟨q, hq, rfl⟩
    obtain ⟨q, hq, e1⟩ := key x ph h1
    obtain ⟨q', hq', e2⟩ := key x' ph' h2
    exact h.mono x x' q q' i ti i' ti' hq hq' (by rw [e1]; exact h3) (by rw [e2]; exact h4)

theorem getElem?_snoc_of_some {α : Type} {l : List α} {a x : α} {i : Nat} (h : l[i]? = some x) : (l ++ [a])[i]? = some x := by
  have hi : i < l.length := by
    rcases Nat.lt_or_ge i l.length with h' | h'
    · exact h'
    · rw [List.getElem?_eq_none h'] at h; cases h
  rw [List.getElem?_append_left hi]; exact h

theorem lt_length_of_getElem? {α : Type} {l : List α} {x : α} {i : Nat} (h : l[i]? = some x) : i < l.length := by
  rcases Nat.lt_or_ge i l.length with h' | h'
  · exact h'
  · rw [List.getElem?_eq_none h'] at h; cases h

theorem PhInv.step {s : State} (h : PhInv s) (e : Ev) : PhInv (step s e) := by
  have hck : s.clock ≤ (Lin.step s e).clock := by simp
  cases e with
  | invoke c b =>
    cases hc : s.phase c with
    | some p => exact h.frame (by simp [stepCore, hc]) (by simp [stepCore, hc]) (by simp [stepCore, hc]) hck
    | none =>
      have hph : (Lin.step s (.invoke c b)).phase = upd s.phase c (.invoked b s.clock) := by simp [stepCore, hc]
      have hl : (Lin.step s (.invoke c b)).lin = s.lin := by simp [stepCore, hc]
      have hi : (Lin.step s (.invoke c b)).ids = s.ids ++ [c] := by simp [stepCore, hc]
      have hne : ∀ x ph, s.phase x = some ph → x ≠ c := by intro x ph hx hxc; subst hxc; rw [hc] at hx; cases hx
      constructor
      · intro x ph hx; rw [hph] at hx
        by_cases hxc : x = c
        · subst hxc; rw [upd_same] at hx; cases hx; show s.clock < s.clock + 1; omega
        · rw [upd_other _ _ hxc] at hx
          exact (h.stamps x ph hx).mono hck (by intro i y hy; rw [hl]; exact hy)
      · rw [hi, List.nodup_append]
        refine ⟨h.ids_nodup, by simp, ?_⟩
        intro a ha b' hb' hab
        simp at hb'; subst hb'; subst hab
        have := (h.ids_iff a).mp ha
        rw [hc] at this; cases this
      · intro x; rw [hi, hph]
        by_cases hxc : x = c
        · subst hxc; simp [upd_same]
        · rw [upd_other _ _ hxc]; simp [hxc]; exact h.ids_iff x
      · intro i x hx; rw [hl] at hx
        obtain ⟨ph, ti, h1, h2⟩ := h.lin_phase i x hx
        exact ⟨ph, ti, by rw [hph, upd_other _ _ (hne x ph h1)]; exact h1, h2⟩
      · intro x x' ph ph' i ti i' ti' h1 h2 h3 h4
        rw [hph] at h1 h2
        have key : ∀ y q, upd s.phase c (.invoked b s.clock) y = some q → q.intro?.isSome = true → s.phase y = some q := by
          intro y q hq hs
          by_cases hy : y = c
          · subst hy; rw [upd_same] at hq; cases hq; simp [Phase.intro?] at hs
          · rw [upd_other _ _ hy] at hq; exact hq
        exact h.mono x x' ph ph' i ti i' ti' (key _ _ h1 (by rw [h3]; rfl)) (key _ _ h2 (by rw [h4]; rfl)) h3 h4
  | prepare c sid k =>
    cases hc : s.phase c with
    | none => exact h.frame (by simp [stepCore, hc]) (by simp [stepCore, hc]) (by simp [stepCore, hc]) hck
    | some p =>
      cases p with
      | invoked b t0 =>
        have hs := h.stamps c _ hc
        exact h.move hc (p' := .prepared b t0 sid (if k < s.core.history.length then s.core.history.length - 1 - k else s.core.history.length - 1) s.clock)
          (by simp [stepCore, hc]) (by simp [stepCore, hc]) (by simp [stepCore, hc]) hck rfl
          (by show t0 < s.clock ∧ s.clock < s.clock + 1; exact ⟨hs, by omega⟩)
      | prepared b t0 sid' n tp => exact h.frame (by simp [stepCore, hc]) (by simp [stepCore, hc]) (by simp [stepCore, hc]) hck
      | introduced b t0 tp i ti a => exact h.frame (by simp [stepCore, hc]) (by simp [stepCore, hc]) (by simp [stepCore, hc]) hck
      | returned b t0 tp i ti tr => exact h.frame (by simp [stepCore, hc]) (by simp [stepCore, hc]) (by simp [stepCore, hc]) hck
  | intro c =>
    cases hc : s.phase c with
    | none => exact h.frame (by simp [stepCore, hc]) (by simp [stepCore, hc]) (by simp [stepCore, hc]) hck
    | some p =>
      cases p with
      | invoked b t0 => exact h.frame (by simp [stepCore, hc]) (by simp [stepCore, hc]) (by simp [stepCore, hc]) hck
      | introduced b t0 tp i ti a => exact h.frame (by simp [stepCore, hc]) (by simp [stepCore, hc]) (by simp [stepCore, hc]) hck
      | returned b t0 tp i ti tr => exact h.frame (by simp [stepCore, hc]) (by simp [stepCore, hc]) (by simp [stepCore, hc]) hck
      | prepared b t0 sid n tp =>
        have hph : (Lin.step s (.intro c)).phase = upd s.phase c (.introduced b t0 tp s.lin.length s.clock false) := by
          simp [stepCore, hc]
        have hl : (Lin.step s (.intro c)).lin = s.lin ++ [c] := by simp [stepCore, hc]
        have hi : (Lin.step s (.intro c)).ids = s.ids := by simp [stepCore, hc]
        have hs := h.stamps c _ hc
        have hlin : ∀ (i y : Nat), s.lin[i]? = some y → (Lin.step s (.intro c)).lin[i]? = some y := by
          intro i y hy; rw [hl]; exact getElem?_snoc_of_some hy
        -- an old call with introduction data is not `c`
        have hold : ∀ y q, s.phase y = some q → q.intro?.isSome = true → y ≠ c := by
          intro y q hq hs' hyc; subst hyc; rw [hc] at hq; cases hq; simp [Phase.intro?] at hs'
        constructor
        · intro x ph hx; rw [hph] at hx
          by_cases hxc : x = c
          · subst hxc; rw [upd_same] at hx; cases hx
            refine ⟨hs.1, hs.2, by simp, ?_⟩
            rw [hl]; simp
          · rw [upd_other _ _ hxc] at hx
            exact (h.stamps x ph hx).mono hck hlin
        · rw [hi]; exact h.ids_nodup
        · intro x; rw [hi, hph]
          by_cases hxc : x = c
          · subst hxc; rw [upd_same]; simpa [hc] using h.ids_iff x
          · rw [upd_other _ _ hxc]; exact h.ids_iff x
        · intro i x hx; rw [hl] at hx
          rcases Nat.lt_or_ge i s.lin.length with hlt | hge
          · rw [List.getElem?_append_left hlt] at hx
            obtain ⟨ph, ti, h1, h2⟩ := h.lin_phase i x hx
            exact ⟨ph, ti, by rw [hph, upd_other _ _ (hold x ph h1 (by rw [h2]; rfl))]; exact h1, h2⟩
          · rw [List.getElem?_append_right hge] at hx
            have hi0 : i - s.lin.length = 0 := by
              rcases Nat.eq_zero_or_pos (i - s.lin.length) with h0 | h0
              · exact h0
              · rw [List.getElem?_eq_none (by simp; omega)] at hx; cases hx
            rw [hi0] at hx; simp at hx; subst hx
            have : i = s.lin.length := by omega
            subst this
            exact ⟨_, s.clock, by rw [hph, upd_same], rfl⟩
        · intro x x' ph ph' i ti i' ti' h1 h2 h3 h4 hlt
          rw [hph] at h1 h2
          by_cases hx : x = c <;> by_cases hx' : x' = c
          · subst hx; subst hx'; rw [upd_same] at h1 h2; cases h1; cases h2
            simp only [Phase.intro?, Option.some.injEq, Prod.mk.injEq] at h3 h4; omega
          · subst hx; rw [upd_same] at h1; cases h1
            rw [upd_other _ _ hx'] at h2
            simp only [Phase.intro?, Option.some.injEq, Prod.mk.injEq] at h3
            have := ((h.stamps x' ph' h2).intro h4).1
            have := lt_length_of_getElem? this
            omega
          · subst hx'; rw [upd_same] at h2; cases h2
            rw [upd_other _ _ hx] at h1
            simp only [Phase.intro?, Option.some.injEq, Prod.mk.injEq] at h4
            have := ((h.stamps x ph h1).intro h3).2.1
            omega
          · rw [upd_other _ _ hx] at h1; rw [upd_other _ _ hx'] at h2
            exact h.mono x x' ph ph' i ti i' ti' h1 h2 h3 h4 hlt
  | ack cs =>
    have hph : (Lin.step s (.ack cs)).phase = fun x => (s.phase x).map (fun p => p.ack (cs.contains x)) := by simp [stepCore]
    have hl : (Lin.step s (.ack cs)).lin = s.lin := by simp [stepCore]
    have hi : (Lin.step s (.ack cs)).ids = s.ids := by simp [stepCore]
    have key : ∀ y q, (Lin.step s (.ack cs)).phase y = some q → ∃ q0 hit, s.phase y = some q0 ∧ q = q0.ack hit := by
      intro y q hq; rw [hph] at hq
      cases hy : s.phase y with
      | none => simp [hy] at hq
      | some q0 => simp [hy] at hq; exact ⟨q0, _, rfl, hq.symm⟩
    constructor
    · intro x ph hx
      obtain ⟨q0, hit, h0, rfl⟩ := key x ph hx
      exact ((h.stamps x q0 h0).mono hck (by intro i y hy; rw [hl]; exact hy)).ack _
    · rw [hi]; exact h.ids_nodup
    · intro x; rw [hi, hph]; simp; simpa using h.ids_iff x
    · intro i x hx; rw [hl] at hx
      obtain ⟨ph, ti, h1, h2⟩ := h.lin_phase i x hx
      exact ⟨ph.ack (cs.contains x), ti, by rw [hph]; simp [h1], by simpa using h2⟩
    · intro x x' ph ph' i ti i' ti' h1 h2 h3 h4
      obtain ⟨q, _, hq, rfl⟩ := key x ph h1
      obtain ⟨q', _, hq', rfl⟩ := key x' ph' h2
      exact h.mono x x' q q' i ti i' ti' hq hq' (by simpa using h3) (by simpa using h4)
  | ret c =>
    cases hc : s.phase c with
    | none => exact h.frame (by simp [stepCore, hc]) (by simp [stepCore, hc]) (by simp [stepCore, hc]) hck
    | some p =>
      cases p with
      | invoked b t0 => exact h.frame (by simp [stepCore, hc]) (by simp [stepCore, hc]) (by simp [stepCore, hc]) hck
      | prepared b t0 sid n tp => exact h.frame (by simp [stepCore, hc]) (by simp [stepCore, hc]) (by simp [stepCore, hc]) hck
      | returned b t0 tp i ti tr => exact h.frame (by simp [stepCore, hc]) (by simp [stepCore, hc]) (by simp [stepCore, hc]) hck
      | introduced b t0 tp i ti a =>
        have hs := h.stamps c _ hc
        exact h.move hc (p' := .returned b t0 tp i ti s.clock)
          (by simp [stepCore, hc]) (by simp [stepCore, hc]) (by simp [stepCore, hc]) hck rfl
          (by
            show t0 < tp ∧ tp < ti ∧ ti < s.clock ∧ s.clock < s.clock + 1 ∧ (Lin.step s (.ret c)).lin[i]? = some c
            refine ⟨hs.1, hs.2.1, hs.2.2.1, by omega, ?_⟩
            simp [stepCore, hc]; exact hs.2.2.2)
  | reader r => exact h.frame (by simp [stepCore]) (by simp [stepCore]) (by simp [stepCore]) hck
  | persist p => exact h.frame (by simp [stepCore]) (by simp [stepCore]) (by simp [stepCore]) hck
  | merge k pick f id => exact h.frame (by simp [stepCore]) (by simp [stepCore]) (by simp [stepCore]) hck

/-- the linearisation has no client twice -/
theorem PhInv.lin_nodup {s : State} (h : PhInv s) : s.lin.Nodup := by
  unfold List.Nodup
  rw [List.pairwise_iff_getElem]
  intro i j hi hj hij heq
  obtain ⟨ph, ti, h1, h2⟩ := h.lin_phase i _ (List.getElem?_eq_getElem hi)
  obtain ⟨ph', ti', h1', h2'⟩ := h.lin_phase j _ (List.getElem?_eq_getElem hj)
  rw [← heq, h1] at h1'; cases h1'
  rw [h2] at h2'; cases h2'
  omega

end Bluge.Lin

import BlugeProofs.C05.Core
/-! What is recorded along every execution: the root swaps of `introduceSegment` (`slots`) and the readers. -/
namespace Bluge.Lin
open Bluge.Index List

/-- introduction data of a client survive every event -/
theorem intro_forward (s : State) (e : Ev) {x : Nat} {ph : Phase} {d : Nat × Nat} (hx : s.phase x = some ph)
    (hd : ph.intro? = some d) : ∃ ph', (step s e).phase x = some ph' ∧ ph'.intro? = some d := by
  rw [step_phase]
  have key : ∀ (c : Nat) (p q : Phase), s.phase c = some p → (p.intro?.isSome = true → q.intro? = p.intro?) →
      ∃ ph', upd s.phase c q x = some ph' ∧ ph'.intro? = some d := by
    intro c p q hc hb
    by_cases hxc : x = c
    · subst hxc; rw [hc] at hx; cases hx; exact ⟨q, upd_same _ _ _, by rw [hb (by rw [hd]; rfl)]; exact hd⟩
    · exact ⟨ph, by rw [upd_other _ _ hxc]; exact hx, hd⟩
  cases effect s e with
  | idle h => rw [h]; exact ⟨ph, hx, hd⟩
  | invoke c b he hc h =>
    rw [h]; refine ⟨ph, ?_, hd⟩
    show upd s.phase c _ x = some ph
    rw [upd_other]; exact hx
    intro hxc; subst hxc; rw [hc] at hx; cases hx
  | prepare c sid k b t0 n he hc h => rw [h]; exact key c _ _ hc (by intro h'; simp [Phase.intro?] at h')
  | intro c b t0 sid n tp he hc h => rw [h]; exact key c _ _ hc (by intro h'; simp [Phase.intro?] at h')
  | ack cs he h => rw [h]; exact ⟨ph.ack (cs.contains x), by simp [hx], by simpa using hd⟩
  | ret c b t0 tp i ti a he hc h => rw [h]; exact key c _ _ hc (by intro _; rfl)
  | reader r he h => rw [h]; exact ⟨ph, hx, hd⟩
  | persist p he h => rw [h]; exact ⟨ph, hx, hd⟩
  | merge k pick fm id he h => rw [h]; exact ⟨ph, hx, hd⟩

/-- introduction data after an event were there before, or the event is that client's introduction -/
theorem intro_backward (s : State) (e : Ev) {x : Nat} {ph' : Phase} {d : Nat × Nat} (hx : (step s e).phase x = some ph')
    (hd : ph'.intro? = some d) :
    (∃ ph, s.phase x = some ph ∧ ph.intro? = some d) ∨
    (e = .intro x ∧ d = (s.lin.length, s.clock) ∧ (s.phase x).all (fun p => !p.isIntroduced) = true ∧
      (stepCore s e).lin = s.lin ++ [x]) := by
  rw [step_phase] at hx
  have key : ∀ (c : Nat) (p q : Phase), s.phase c = some p → q.intro? = p.intro? → upd s.phase c q x = some ph' →
      ∃ ph, s.phase x = some ph ∧ ph.intro? = some d := by
    intro c p q hc hb hq
    by_cases hxc : x = c
    · subst hxc; rw [upd_same] at hq; cases hq; exact ⟨p, hc, by rw [← hb]; exact hd⟩
    · rw [upd_other _ _ hxc] at hq; exact ⟨ph', hq, hd⟩
  cases effect s e with
  | idle h => rw [h] at hx; exact Or.inl ⟨ph', hx, hd⟩
  | invoke c b he hc h =>
    rw [h] at hx
    by_cases hxc : x = c
    · subst hxc; rw [show ({ s with phase := upd s.phase x (.invoked b s.clock), ids := s.ids ++ [x] } : State).phase x
        = some (.invoked b s.clock) from upd_same _ _ _] at hx
      cases hx; simp [Phase.intro?] at hd
    · rw [show ({ s with phase := upd s.phase c (.invoked b s.clock), ids := s.ids ++ [c] } : State).phase x = s.phase x
        from upd_other _ _ hxc] at hx
      exact Or.inl ⟨ph', hx, hd⟩
  | prepare c sid k b t0 n he hc h =>
    rw [h] at hx
    by_cases hxc : x = c
    · subst hxc; rw [show ({ s with phase := upd s.phase x (.prepared b t0 sid n s.clock) } : State).phase x
        = some (.prepared b t0 sid n s.clock) from upd_same _ _ _] at hx
      cases hx; simp [Phase.intro?] at hd
    · rw [show ({ s with phase := upd s.phase c (.prepared b t0 sid n s.clock) } : State).phase x = s.phase x
        from upd_other _ _ hxc] at hx
      exact Or.inl ⟨ph', hx, hd⟩
  | intro c b t0 sid n tp he hc h =>
    rw [h] at hx
    by_cases hxc : x = c
    · subst hxc
      have : some (Phase.introduced b t0 tp s.lin.length s.clock false) = some ph' := by
        rw [← hx]; exact (upd_same _ _ _).symm
      cases this
      simp only [Phase.intro?, Option.some.injEq] at hd
      exact Or.inr ⟨he, hd.symm, by simp [hc, Phase.isIntroduced, Phase.intro?], by rw [h]⟩
    · have : s.phase x = some ph' := by rw [← hx]; exact (upd_other _ _ hxc).symm
      exact Or.inl ⟨ph', this, hd⟩
  | ack cs he h =>
    rw [h] at hx
    have hx' : (s.phase x).map (fun p => p.ack (cs.contains x)) = some ph' := hx
    cases hp : s.phase x with
    | none => rw [hp] at hx'; cases hx'
    | some p =>
      rw [hp] at hx'; simp only [Option.map_some, Option.some.injEq] at hx'
      subst hx'
      exact Or.inl ⟨p, rfl, by simpa using hd⟩
  | ret c b t0 tp i ti a he hc h => rw [h] at hx; exact Or.inl (key c _ (.returned b t0 tp i ti s.clock) hc rfl hx)
  | reader r he h => rw [h] at hx; exact Or.inl ⟨ph', hx, hd⟩
  | persist p he h => rw [h] at hx; exact Or.inl ⟨ph', hx, hd⟩
  | merge k pick fm id he h => rw [h] at hx; exact Or.inl ⟨ph', hx, hd⟩

structure ObInv (s : State) : Prop where
  slots_len : s.slots.length = s.lin.length
  /-- the i-th recorded root swap is the introduction of the i-th client of the linearisation, stamped when it happened -/
  slots_ok : ∀ i sl, s.slots[i]? = some sl → ∃ c ph, s.lin[i]? = some c ∧ sl.who = some c ∧ s.phase c = some ph ∧
      ph.intro? = some (i, sl.t)
  slots_epoch : ∀ sl ∈ s.slots, sl.epoch ≤ s.core.root.epoch
  /-- the root installed by the i-th introduction holds the abstract index after i+1 batches -/
  slots_content : ∀ i sl, s.slots[i]? = some sl → i + 1 ≤ s.core.applied.length ∧
      sl.content.Perm (absOf (s.core.applied.take (i + 1)))
  slots_pair : s.slots.Pairwise (fun a b => a.epoch < b.epoch ∧ a.t < b.t)
  slots_t : ∀ sl ∈ s.slots, sl.t < s.clock
  reads_ok : ∀ rd ∈ s.reads, rd.t < s.clock ∧ rd.k ≤ s.core.applied.length ∧
      rd.content.Perm (absOf (s.core.applied.take rd.k)) ∧ rd.epoch ≤ s.core.root.epoch ∧
      (s.slots.filter (fun sl => sl.epoch ≤ rd.epoch)).length = rd.k
  reads_intro : ∀ rd ∈ s.reads, ∀ c ph i ti, s.phase c = some ph → ph.intro? = some (i, ti) →
      (ti < rd.t → i < rd.k) ∧ (rd.t < ti → rd.k ≤ i)
  reads_slots : ∀ rd ∈ s.reads, ∀ sl ∈ s.slots, (sl.t < rd.t → sl.epoch ≤ rd.epoch) ∧ (rd.t < sl.t → rd.epoch < sl.epoch)
  reads_mono : ∀ r1 ∈ s.reads, ∀ r2 ∈ s.reads, r1.t < r2.t → r1.epoch ≤ r2.epoch ∧ r1.k ≤ r2.k
  /-- every reader holds a published root -/
  reads_pub : ∀ rd ∈ s.reads, ∃ p ∈ s.core.history.zip s.pubs, p.1.epoch = rd.epoch ∧ p.2.k = rd.k ∧ p.1.abs = rd.content

theorem ObInv.init (safe : Bool) : ObInv (State.init safe) where
  slots_len := rfl
  slots_ok := by intro i sl h; simp [State.init] at h
  slots_epoch := by intro sl h; simp [State.init] at h
  slots_content := by intro i sl h; simp [State.init] at h
  slots_pair := by simp [State.init]
  slots_t := by intro sl h; simp [State.init] at h
  reads_ok := by intro rd h; simp [State.init] at h
  reads_intro := by intro rd h; simp [State.init] at h
  reads_slots := by intro rd h; simp [State.init] at h
  reads_mono := by intro rd h; simp [State.init] at h
  reads_pub := by intro rd h; simp [State.init] at h

theorem lin_len {s : State} (hc : CoInv s) : s.lin.length = s.core.applied.length := by
  rw [← hc.applied, List.length_map]

theorem root_epoch_lt {s : State} (hc : CoInv s) : s.core.root.epoch < s.core.nextEpoch :=
  hc.epoch_lt _ List.mem_cons_self

/-- core, slots, reads and lin did not move (an event of a client other than its introduction, or nothing) -/
theorem ObInv.keep {s : State} (h : ObInv s) (e : Ev) (hcore : (Lin.step s e).core = s.core)
    (hslots : (Lin.step s e).slots = s.slots) (hreads : (Lin.step s e).reads = s.reads) (hlin : (Lin.step s e).lin = s.lin) :
    ObInv (Lin.step s e) := by
  have back : ∀ x ph' d, (Lin.step s e).phase x = some ph' → ph'.intro? = some d → ∃ ph, s.phase x = some ph ∧ ph.intro? = some d := by
    intro x ph' d h1 h2
    rcases intro_backward s e h1 h2 with h' | ⟨_, _, _, h4⟩
    · exact h'
    · rw [step_lin] at hlin; rw [hlin] at h4
      have := congrArg List.length h4; simp at this
  exact {
    slots_len := by rw [hslots, hlin]; exact h.slots_len
    slots_ok := by
      intro i sl hi; rw [hslots] at hi
      obtain ⟨c, ph, h1, h2, h3, h4⟩ := h.slots_ok i sl hi
      obtain ⟨ph', h5, h6⟩ := intro_forward s e h3 h4
      exact ⟨c, ph', by rw [hlin]; exact h1, h2, h5, h6⟩
    slots_epoch := by rw [hslots, hcore]; exact h.slots_epoch
    slots_content := by rw [hslots, hcore]; exact h.slots_content
    slots_pair := by rw [hslots]; exact h.slots_pair
    slots_t := by rw [hslots]; intro sl hsl; have := h.slots_t sl hsl; simp; omega
    reads_ok := by
      rw [hreads, hcore, hslots]; intro rd hrd
      obtain ⟨h1, h2⟩ := h.reads_ok rd hrd
      exact ⟨by simp; omega, h2⟩
    reads_intro := by
      rw [hreads]; intro rd hrd c ph' i ti h1 h2
      obtain ⟨ph, h3, h4⟩ := back c ph' _ h1 h2
      exact h.reads_intro rd hrd c ph i ti h3 h4
    reads_slots := by rw [hreads, hslots]; exact h.reads_slots
    reads_mono := by rw [hreads]; exact h.reads_mono
    reads_pub := by
      rw [hreads, hcore]; intro rd hrd
      have hp : (Lin.step s e).pubs = s.pubs := by
        rw [step_pubs]; rw [step_core] at hcore; rw [step_slots] at hslots
        cases effect s e with
        | idle he => rw [he]
        | invoke c b _ _ he => rw [he]
        | prepare c sid k b t0 n _ _ he => rw [he]
        | intro c b t0 sid n tp _ _ he => rw [he] at hslots; have := congrArg List.length hslots; simp at this
        | ack cs _ he => rw [he]
        | ret c b t0 tp i ti a _ _ he => rw [he]
        | reader r _ he => rw [he]
        | persist p _ he =>
          rw [he] at hcore
          have := congrArg (fun c : Index.State => c.nextEpoch) hcore
          simp [idx_nextEpoch] at this
        | merge k pick fm id _ he =>
          rw [he] at hcore
          have := congrArg (fun c : Index.State => c.nextEpoch) hcore
          simp [idx_nextEpoch] at this
      rw [hp]; exact h.reads_pub rd hrd }

/-- a persist or a merge: the root changes (same content), nothing else that is recorded -/
theorem ObInv.background {s : State} (h : ObInv s) (hc : CoInv s) (e : Ev) (ie : Index.Event)
    (happ : (Index.step s.core ie).applied = s.core.applied)
    (he : stepCore s e = { s with core := Index.step s.core ie, pubs := ⟨s.core.applied.length, s.clock⟩ :: s.pubs }) :
    ObInv (Lin.step s e) := by
  have hcore : (Lin.step s e).core = Index.step s.core ie := by simp [he]
  have hph : (Lin.step s e).phase = s.phase := by simp [he]
  have hslots : (Lin.step s e).slots = s.slots := by simp [he]
  have hreads : (Lin.step s e).reads = s.reads := by simp [he]
  have hlin : (Lin.step s e).lin = s.lin := by simp [he]
  have hpubs : (Lin.step s e).pubs = ⟨s.core.applied.length, s.clock⟩ :: s.pubs := by simp [he]
  have hep : s.core.root.epoch < (Index.step s.core ie).root.epoch := by rw [idx_epoch]; exact root_epoch_lt hc
  exact {
    slots_len := by rw [hslots, hlin]; exact h.slots_len
    slots_ok := by rw [hslots, hlin, hph]; exact h.slots_ok
    slots_epoch := by
      rw [hslots, hcore]; intro sl hsl; have := h.slots_epoch sl hsl; omega
    slots_content := by rw [hslots, hcore, happ]; exact h.slots_content
    slots_pair := by rw [hslots]; exact h.slots_pair
    slots_t := by rw [hslots]; intro sl hsl; have := h.slots_t sl hsl; simp; omega
    reads_ok := by
      rw [hreads, hcore, hslots, happ]; intro rd hrd
      obtain ⟨h1, h2, h3, h4, h5⟩ := h.reads_ok rd hrd
      exact ⟨by simp; omega, h2, h3, by omega, h5⟩
    reads_intro := by rw [hreads, hph]; exact h.reads_intro
    reads_slots := by rw [hreads, hslots]; exact h.reads_slots
    reads_mono := by rw [hreads]; exact h.reads_mono
    reads_pub := by
      rw [hreads, hcore, hpubs, idx_history]; intro rd hrd
      obtain ⟨p, hp, h1⟩ := h.reads_pub rd hrd
      exact ⟨p, by rw [List.zip_cons_cons]; exact List.mem_cons_of_mem _ hp, h1⟩ }

theorem ObInv.step {s : State} (h : ObInv s) (hp : PhInv s) (hc : CoInv s) (e : Ev) (hc' : CoInv (Lin.step s e)) :
    ObInv (Lin.step s e) := by
  cases effect s e with
  | idle he => exact h.keep e (by simp [he]) (by simp [he]) (by simp [he]) (by simp [he])
  | invoke c b _ _ he => exact h.keep e (by simp [he]) (by simp [he]) (by simp [he]) (by simp [he])
  | prepare c sid k b t0 n _ _ he => exact h.keep e (by simp [he]) (by simp [he]) (by simp [he]) (by simp [he])
  | ack cs _ he => exact h.keep e (by simp [he]) (by simp [he]) (by simp [he]) (by simp [he])
  | ret c b t0 tp i ti a _ _ he => exact h.keep e (by simp [he]) (by simp [he]) (by simp [he]) (by simp [he])
  | persist p _ he => exact h.background hc e (.persist p) rfl he
  | merge k pick fm id _ he => exact h.background hc e (.merge k pick fm id) rfl he
  | reader r _ he =>
    have hcore : (Lin.step s e).core = s.core := by simp [he]
    have hph : (Lin.step s e).phase = s.phase := by simp [he]
    have hslots : (Lin.step s e).slots = s.slots := by simp [he]
    have hreads : (Lin.step s e).reads = ⟨r, s.clock, s.core.root.epoch, s.core.root.abs, s.core.applied.length⟩ :: s.reads := by simp [he]
    have hlin : (Lin.step s e).lin = s.lin := by simp [he]
    have hpubs : (Lin.step s e).pubs = s.pubs := by simp [he]
    exact {
      slots_len := by rw [hslots, hlin]; exact h.slots_len
      slots_ok := by rw [hslots, hlin, hph]; exact h.slots_ok
      slots_epoch := by rw [hslots, hcore]; exact h.slots_epoch
      slots_content := by rw [hslots, hcore]; exact h.slots_content
      slots_pair := by rw [hslots]; exact h.slots_pair
      slots_t := by rw [hslots]; intro sl hsl; have := h.slots_t sl hsl; simp; omega
      reads_ok := by
        rw [hreads, hcore, hslots]; intro rd hrd
        rcases List.mem_cons.mp hrd with rfl | hrd
        · refine ⟨by simp, Nat.le_refl _, ?_, Nat.le_refl _, ?_⟩
          · show s.core.root.abs.Perm (absOf (s.core.applied.take s.core.applied.length))
            rw [List.take_length]; exact hc.core.abs
          · show (s.slots.filter (fun sl => decide (sl.epoch ≤ s.core.root.epoch))).length = s.core.applied.length
            rw [List.filter_eq_self.mpr (by intro sl hsl; simpa using h.slots_epoch sl hsl), h.slots_len, lin_len hc]
        · obtain ⟨h1, h2⟩ := h.reads_ok rd hrd
          exact ⟨by simp; omega, h2⟩
      reads_intro := by
        rw [hreads, hph]; intro rd hrd c ph i ti h1 h2
        rcases List.mem_cons.mp hrd with rfl | hrd
        · obtain ⟨h3, h4, _⟩ := (hp.stamps c ph h1).intro h2
          have := lt_length_of_getElem? h3
          have := lin_len hc
          exact ⟨fun _ => by show i < s.core.applied.length; omega, fun h' => by simp at h'; omega⟩
        · exact h.reads_intro rd hrd c ph i ti h1 h2
      reads_slots := by
        rw [hreads, hslots]; intro rd hrd sl hsl
        rcases List.mem_cons.mp hrd with rfl | hrd
        · have := h.slots_t sl hsl
          exact ⟨fun _ => h.slots_epoch sl hsl, fun h' => by simp at h'; omega⟩
        · exact h.reads_slots rd hrd sl hsl
      reads_mono := by
        rw [hreads]; intro r1 h1 r2 h2 hlt
        rcases List.mem_cons.mp h1 with rfl | h1 <;> rcases List.mem_cons.mp h2 with rfl | h2
        · exact ⟨Nat.le_refl _, Nat.le_refl _⟩
        · have := (h.reads_ok r2 h2).1; simp at hlt; omega
        · obtain ⟨_, h3, _, h4, _⟩ := h.reads_ok r1 h1
          exact ⟨h4, h3⟩
        · exact h.reads_mono r1 h1 r2 h2 hlt
      reads_pub := by
        rw [hreads, hcore, hpubs]; intro rd hrd
        rcases List.mem_cons.mp hrd with rfl | hrd
        · have hh := hc.pubs_head
          cases hpb : s.pubs with
          | nil => rw [hpb] at hh; simp at hh
          | cons m rest =>
            rw [hpb] at hh; simp at hh
            refine ⟨(s.core.root, m), ?_, rfl, hh, rfl⟩
            show (s.core.root, m) ∈ (s.core.root :: s.core.past).zip (m :: rest)
            rw [List.zip_cons_cons]; exact List.mem_cons_self
        · exact h.reads_pub rd hrd }
  | intro c b t0 sid n tp heq hcph he =>
    have hcore : (Lin.step s e).core = Index.step s.core (.batch b (s.seenIdx n) sid) := by simp [he]
    have hslots : (Lin.step s e).slots = s.slots ++ [⟨s.core.nextEpoch, s.clock, some c,
        (Index.step s.core (.batch b (s.seenIdx n) sid)).root.abs⟩] := by simp [he]
    have hreads : (Lin.step s e).reads = s.reads := by simp [he]
    have hlin : (Lin.step s e).lin = s.lin ++ [c] := by simp [he]
    have hpubs : (Lin.step s e).pubs = ⟨s.core.applied.length + 1, s.clock⟩ :: s.pubs := by simp [he]
    have hphc : (Lin.step s e).phase c = some (.introduced b t0 tp s.lin.length s.clock false) := by simp [he, upd_same]
    have hrep := root_epoch_lt hc
    have hll := lin_len hc
    exact {
      slots_len := by rw [hslots, hlin]; simp [h.slots_len]
      slots_ok := by
        intro i sl hi; rw [hslots] at hi
        rcases Nat.lt_or_ge i s.slots.length with hlt | hge
        · rw [List.getElem?_append_left hlt] at hi
          obtain ⟨c0, ph, h1, h2, h3, h4⟩ := h.slots_ok i sl hi
          obtain ⟨ph', h5, h6⟩ := intro_forward s e h3 h4
          exact ⟨c0, ph', by rw [hlin]; exact getElem?_snoc_of_some h1, h2, h5, h6⟩
        · rw [List.getElem?_append_right hge] at hi
          have hi0 : i - s.slots.length = 0 := by
            rcases Nat.eq_zero_or_pos (i - s.slots.length) with h0 | h0
            · exact h0
            · rw [List.getElem?_eq_none (by simp; omega)] at hi; cases hi
          rw [hi0] at hi; simp at hi; subst hi
          have hi' : i = s.lin.length := by have := h.slots_len; omega
          subst hi'
          exact ⟨c, _, by rw [hlin]; simp, rfl, hphc, rfl⟩
      slots_epoch := by
        rw [hslots, hcore, idx_epoch]; intro sl hsl
        rcases List.mem_append.mp hsl with hsl | hsl
        · have := h.slots_epoch sl hsl; omega
        · simp at hsl; subst hsl; exact Nat.le_refl _
      slots_content := by
        intro i sl hi; rw [hslots] at hi
        rw [hcore, idx_applied_batch]
        rcases Nat.lt_or_ge i s.slots.length with hlt | hge
        · rw [List.getElem?_append_left hlt] at hi
          obtain ⟨h1, h2⟩ := h.slots_content i sl hi
          refine ⟨by simp; omega, ?_⟩
          rw [List.take_append_of_le_length h1]; exact h2
        · rw [List.getElem?_append_right hge] at hi
          have hi0 : i - s.slots.length = 0 := by
            rcases Nat.eq_zero_or_pos (i - s.slots.length) with h0 | h0
            · exact h0
            · rw [List.getElem?_eq_none (by simp; omega)] at hi; cases hi
          rw [hi0] at hi; simp at hi; subst hi
          have hi' : i = s.core.applied.length := by have := h.slots_len; omega
          subst hi'
          refine ⟨by simp, ?_⟩
          have habs := hc'.core.abs
          rw [hcore, idx_applied_batch] at habs
          have : (s.core.applied ++ [b]).take (s.core.applied.length + 1) = s.core.applied ++ [b] := by
            rw [List.take_of_length_le (by simp)]
          rw [this]; exact habs
      slots_pair := by
        rw [hslots, List.pairwise_append]
        refine ⟨h.slots_pair, by simp, ?_⟩
        intro a ha b' hb'
        simp at hb'; subst hb'
        have := h.slots_epoch a ha
        have := h.slots_t a ha
        exact ⟨by show a.epoch < s.core.nextEpoch; omega, by show a.t < s.clock; omega⟩
      slots_t := by
        rw [hslots]; intro sl hsl
        rcases List.mem_append.mp hsl with hsl | hsl
        · have := h.slots_t sl hsl; simp; omega
        · simp at hsl; subst hsl; simp
      reads_ok := by
        rw [hreads, hcore, hslots, idx_applied_batch, idx_epoch]; intro rd hrd
        obtain ⟨h1, h2, h3, h4, h5⟩ := h.reads_ok rd hrd
        refine ⟨by simp; omega, by simp; omega, ?_, by omega, ?_⟩
        · rw [List.take_append_of_le_length h2]; exact h3
        · rw [List.filter_append]
          have : ([⟨s.core.nextEpoch, s.clock, some c, (Index.step s.core (.batch b (s.seenIdx n) sid)).root.abs⟩] : List Slot).filter
              (fun sl => decide (sl.epoch ≤ rd.epoch)) = [] := by
            simp; omega
          rw [this, List.append_nil]; exact h5
      reads_intro := by
        rw [hreads]; intro rd hrd x ph' i ti h1 h2
        rcases intro_backward s e h1 h2 with ⟨ph, h3, h4⟩ | ⟨_, h3, _, _⟩
        · exact h.reads_intro rd hrd x ph i ti h3 h4
        · simp only [Prod.mk.injEq] at h3
          obtain ⟨rfl, rfl⟩ := h3
          obtain ⟨h5, h6, _⟩ := h.reads_ok rd hrd
          exact ⟨fun h' => by omega, fun _ => by omega⟩
      reads_slots := by
        rw [hreads, hslots]; intro rd hrd sl hsl
        rcases List.mem_append.mp hsl with hsl | hsl
        · exact h.reads_slots rd hrd sl hsl
        · simp at hsl; subst hsl
          obtain ⟨h5, _, _, h6, _⟩ := h.reads_ok rd hrd
          exact ⟨fun h' => by simp at h'; omega, fun _ => by show rd.epoch < s.core.nextEpoch; omega⟩
      reads_mono := by rw [hreads]; exact h.reads_mono
      reads_pub := by
        rw [hreads, hcore, hpubs, idx_history]; intro rd hrd
        obtain ⟨p, hp', h1⟩ := h.reads_pub rd hrd
        exact ⟨p, by rw [List.zip_cons_cons]; exact List.mem_cons_of_mem _ hp', h1⟩ }

end Bluge.Lin

import BlugeProofs.C05.Obs
/-! The stamps are the positions of the events in the execution, and `lin` is the order of the `IntroSegment` events. -/
namespace Bluge.Lin
open Bluge.Index List

/-- the stamps of the call `c` point at its own events -/
def PosOK (evs : List Ev) (c : Nat) : Phase → Prop
  | .invoked b t0 => evs[t0]? = some (.invoke c b)
  | .prepared b t0 sid _ tp => evs[t0]? = some (.invoke c b) ∧ ∃ k, evs[tp]? = some (.prepare c sid k)
  | .introduced b t0 tp _ ti _ =>
    evs[t0]? = some (.invoke c b) ∧ (∃ sid k, evs[tp]? = some (.prepare c sid k)) ∧ evs[ti]? = some (.intro c)
  | .returned b t0 tp _ ti tr =>
    evs[t0]? = some (.invoke c b) ∧ (∃ sid k, evs[tp]? = some (.prepare c sid k)) ∧ evs[ti]? = some (.intro c) ∧
      evs[tr]? = some (.ret c)

theorem PosOK.snoc {evs : List Ev} {c : Nat} {ph : Phase} (h : PosOK evs c ph) (e : Ev) : PosOK (evs ++ [e]) c ph := by
  cases ph with
  | invoked b t0 => exact getElem?_snoc_of_some h
  | prepared b t0 sid n tp =>
    obtain ⟨h1, k, h2⟩ := h
    exact ⟨getElem?_snoc_of_some h1, k, getElem?_snoc_of_some h2⟩
  | introduced b t0 tp i ti a =>
    obtain ⟨h1, ⟨sid, k, h2⟩, h3⟩ := h
    exact ⟨getElem?_snoc_of_some h1, ⟨sid, k, getElem?_snoc_of_some h2⟩, getElem?_snoc_of_some h3⟩
  | returned b t0 tp i ti tr =>
    obtain ⟨h1, ⟨sid, k, h2⟩, h3, h4⟩ := h
    exact ⟨getElem?_snoc_of_some h1, ⟨sid, k, getElem?_snoc_of_some h2⟩, getElem?_snoc_of_some h3, getElem?_snoc_of_some h4⟩

theorem PosOK.ack {evs : List Ev} {c : Nat} {ph : Phase} (h : PosOK evs c ph) (hit : Bool) : PosOK evs c (ph.ack hit) := by
  cases ph <;> exact h

theorem PosOK.inv {evs : List Ev} {c : Nat} {ph : Phase} (h : PosOK evs c ph) :
    evs[ph.tInv]? = some (Ev.invoke c ph.batch) := by
  cases ph with
  | invoked b t0 => exact h
  | prepared b t0 sid n tp => exact h.1
  | introduced b t0 tp i ti a => exact h.1
  | returned b t0 tp i ti tr => exact h.1

theorem PosOK.intro {evs : List Ev} {c : Nat} {ph : Phase} (h : PosOK evs c ph) {i ti : Nat}
    (hi : ph.intro? = some (i, ti)) : evs[ti]? = some (Ev.intro c) := by
  cases ph with
  | invoked b t0 => simp [Phase.intro?] at hi
  | prepared b t0 sid n tp => simp [Phase.intro?] at hi
  | introduced b t0 tp i' ti' a =>
    simp only [Phase.intro?, Option.some.injEq, Prod.mk.injEq] at hi
    obtain ⟨rfl, rfl⟩ := hi
    exact h.2.2
  | returned b t0 tp i' ti' tr =>
    simp only [Phase.intro?, Option.some.injEq, Prod.mk.injEq] at hi
    obtain ⟨rfl, rfl⟩ := hi
    exact h.2.2.1

theorem introOrder_snoc (evs : List Ev) (e : Ev) :
    introOrder (evs ++ [e]) = introOrder evs ++ (match e with | .intro c => [c] | _ => []) := by
  induction evs with
  | nil => cases e <;> rfl
  | cons a t ih => cases a <;> simp [introOrder, ih]

structure PoInv (evs : List Ev) (s : State) : Prop where
  clock : s.clock = evs.length
  pos : ∀ c ph, s.phase c = some ph → PosOK evs c ph
  lin : s.lin = introOrder evs

theorem PoInv.init (safe : Bool) : PoInv [] (State.init safe) where
  clock := rfl
  pos := by intro c ph h; simp [State.init] at h
  lin := rfl

theorem last_snoc (evs : List Ev) (e : Ev) : (evs ++ [e])[evs.length]? = some e := by simp

theorem PoInv.step {evs : List Ev} {s : State} (h : PoInv evs s) (e : Ev) (hen : Enabled s e) :
    PoInv (evs ++ [e]) (Lin.step s e) := by
  have hlast : (evs ++ [e])[s.clock]? = some e := by rw [h.clock]; exact last_snoc evs e
  -- the phase of `c` moved to `q`, whose positions are fine in the longer execution
  have moved : ∀ (c : Nat) (q : Phase), PosOK (evs ++ [e]) c q →
      ∀ x ph, upd s.phase c q x = some ph → PosOK (evs ++ [e]) x ph := by
    intro c q hq x ph hx
    by_cases hxc : x = c
    · subst hxc; rw [upd_same] at hx; cases hx; exact hq
    · rw [upd_other _ _ hxc] at hx; exact (h.pos x ph hx).snoc e
  refine ⟨by simp [h.clock], ?_, ?_⟩
  · rw [step_phase]
    cases effect s e with
    | idle he => rw [he]; intro c ph hc; exact (h.pos c ph hc).snoc e
    | invoke c b heq hc he => rw [he]; subst heq; exact moved c _ hlast
    | prepare c sid k b t0 n heq hc he =>
      rw [he]; subst heq
      exact moved c _ ⟨getElem?_snoc_of_some (h.pos c _ hc), k, hlast⟩
    | intro c b t0 sid n tp heq hc he =>
      rw [he]; subst heq
      obtain ⟨h1, k, h2⟩ := h.pos c _ hc
      exact moved c _ ⟨getElem?_snoc_of_some h1, ⟨sid, k, getElem?_snoc_of_some h2⟩, hlast⟩
    | ack cs heq he =>
      rw [he]; intro x ph hx
      have hx' : (s.phase x).map (fun p => p.ack (cs.contains x)) = some ph := hx
      cases hp : s.phase x with
      | none => rw [hp] at hx'; cases hx'
      | some p =>
        rw [hp] at hx'; simp only [Option.map_some, Option.some.injEq] at hx'
        subst hx'
        exact ((h.pos x p hp).snoc e).ack _
    | ret c b t0 tp i ti a heq hc he =>
      rw [he]; subst heq
      obtain ⟨h1, ⟨sid, k, h2⟩, h3⟩ := h.pos c _ hc
      exact moved c _ ⟨getElem?_snoc_of_some h1, ⟨sid, k, getElem?_snoc_of_some h2⟩, getElem?_snoc_of_some h3, hlast⟩
    | reader r heq he => rw [he]; intro c ph hc; exact (h.pos c ph hc).snoc e
    | persist p heq he => rw [he]; intro c ph hc; exact (h.pos c ph hc).snoc e
    | merge k pick fm id heq he => rw [he]; intro c ph hc; exact (h.pos c ph hc).snoc e
  · rw [step_lin, introOrder_snoc, ← h.lin]
    cases effect s e with
    | idle he =>
      rw [he]
      cases e with
      | intro c =>
        -- an enabled introduction is not idle
        exfalso
        unfold Enabled enabled at hen
        cases hc : s.phase c with
        | none => simp [hc] at hen
        | some p =>
          cases p with
          | prepared b t0 sid n tp =>
            have := congrArg State.lin he
            simp [stepCore, hc] at this
          | invoked b t0 => simp [hc] at hen
          | introduced b t0 tp i ti a => simp [hc] at hen
          | returned b t0 tp i ti tr => simp [hc] at hen
      | invoke c b => simp
      | prepare c sid k => simp
      | ack cs => simp
      | ret c => simp
      | reader r => simp
      | persist p => simp
      | merge k pick fm id => simp
    | invoke c b heq hc he => rw [he]; subst heq; simp
    | prepare c sid k b t0 n heq hc he => rw [he]; subst heq; simp
    | intro c b t0 sid n tp heq hc he => rw [he]; subst heq; rfl
    | ack cs heq he => rw [he]; subst heq; simp
    | ret c b t0 tp i ti a heq hc he => rw [he]; subst heq; simp
    | reader r heq he => rw [he]; subst heq; simp
    | persist p heq he => rw [he]; subst heq; simp
    | merge k pick fm id heq he => rw [he]; subst heq; simp

/-- everything that holds of a reachable state -/
structure Good (evs : List Ev) (s : State) : Prop where
  ph : PhInv s
  co : CoInv s
  ob : ObInv s
  po : PoInv evs s

theorem good_of_reach {safe : Bool} {evs : List Ev} {s : State} (h : Reach safe evs s) : Good evs s := by
  induction h with
  | init => exact ⟨PhInv.init safe, CoInv.init safe, ObInv.init safe, PoInv.init safe⟩
  | snoc e _ hen ih => exact ⟨ih.ph.step e, ih.co.step ih.ph e hen, ih.ob.step ih.ph ih.co e (ih.co.step ih.ph e hen), ih.po.step e hen⟩

theorem good_of_wf (safe : Bool) (evs : List Ev) (hwf : WF (State.init safe) evs) : Good evs (run safe evs) :=
  good_of_reach (reach_of_wf safe evs hwf)

end Bluge.Lin

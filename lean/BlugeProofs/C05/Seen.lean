import BlugeProofs.C05.Events
/-! Which root a `Prepare` event saw does not matter for the whole execution: changing the `seen` argument of every
`Prepare` event arbitrarily gives a well-formed execution with the same roots, readers and recorded history. -/
namespace Bluge.Lin
open Bluge.Index List

/-- replace what every `Prepare c` saw by `g c` -/
def reseen (g : Nat → Nat) : Ev → Ev
  | .prepare c sid _ => .prepare c sid (g c)
  | e => e

/-- forget the publication number a prepared call recorded -/
def Phase.forget : Phase → Phase
  | .prepared b t0 sid _ tp => .prepared b t0 sid 0 tp
  | p => p

/-- the same state up to the publication numbers recorded by `Prepare` -/
structure Sim (s s' : State) : Prop where
  core : s'.core = s.core
  safe : s'.safe = s.safe
  clock : s'.clock = s.clock
  ids : s'.ids = s.ids
  lin : s'.lin = s.lin
  pubs : s'.pubs = s.pubs
  slots : s'.slots = s.slots
  reads : s'.reads = s.reads
  phase : ∀ c, (s'.phase c).map Phase.forget = (s.phase c).map Phase.forget

theorem forget_eq_cases {p p' : Phase} (h : p'.forget = p.forget) :
    p' = p ∨ ∃ b t0 sid n n' tp, p = .prepared b t0 sid n tp ∧ p' = .prepared b t0 sid n' tp := by
  cases p <;> cases p' <;> simp [Phase.forget] at h
  · left; obtain ⟨rfl, rfl⟩ := h; rfl
  · rename_i b t0 sid n tp b' t0' sid' n' tp'
    obtain ⟨rfl, rfl, rfl, rfl⟩ := h
    exact Or.inr ⟨_, _, _, _, _, _, rfl, rfl⟩
  · left; obtain ⟨rfl, rfl, rfl, rfl, rfl, rfl⟩ := h; rfl
  · left; obtain ⟨rfl, rfl, rfl, rfl, rfl, rfl⟩ := h; rfl

theorem Sim.phase_cases {s s' : State} (h : Sim s s') (c : Nat) :
    s'.phase c = s.phase c ∨ ∃ b t0 sid n n' tp, s.phase c = some (.prepared b t0 sid n tp) ∧
      s'.phase c = some (.prepared b t0 sid n' tp) := by
  have := h.phase c
  cases hp : s.phase c with
  | none =>
    rw [hp] at this
    cases hp' : s'.phase c with
    | none => left; rfl
    | some p' => rw [hp'] at this; cases this
  | some p =>
    rw [hp] at this
    cases hp' : s'.phase c with
    | none => rw [hp'] at this; cases this
    | some p' =>
      rw [hp'] at this
      simp only [Option.map_some, Option.some.injEq] at this
      rcases forget_eq_cases this with rfl | ⟨b, t0, sid, n, n', tp, rfl, rfl⟩
      · left; rfl
      · right; exact ⟨b, t0, sid, n, n', tp, rfl, rfl⟩

/-- the introduction of a batch does not depend on which published root it was prepared against -/
theorem idx_batch_seen_irrelevant {s : Index.State} (hs : Index.Inv s) (b : Batch) (k k' sid : Nat) :
    Index.step s (.batch b k sid) = Index.step s (.batch b k' sid) := by
  have hroot : s.root ∈ s.history := List.mem_cons_self
  have := C01.prepare_stale_irrelevant (s.seen k) (s.seen k') s.root s.nextEpoch b sid
    (hs.hist.cons _ (s.seen_mem k) _ hroot) (hs.hist.cons _ (s.seen_mem k') _ hroot)
  simp only [Index.step]
  rw [this]

theorem upd_forget (f f' : Nat → Option Phase) (c : Nat) (p p' : Phase) (hp : p'.forget = p.forget)
    (h : ∀ x, (f' x).map Phase.forget = (f x).map Phase.forget) :
    ∀ x, (upd f' c p' x).map Phase.forget = (upd f c p x).map Phase.forget := by
  intro x
  by_cases hx : x = c
  · subst hx; simp [upd_same, hp]
  · rw [upd_other _ _ hx, upd_other _ _ hx]; exact h x

/-- one step of the simulation: the changed event is enabled too and leads to a similar state -/
theorem Sim.step {s s' : State} (h : Sim s s') (hc : CoInv s) (g : Nat → Nat) (e : Ev) (hen : Enabled s e) :
    Enabled s' (reseen g e) ∧ Sim (Lin.step s e) (Lin.step s' (reseen g e)) := by
  cases e with
  | invoke c b =>
    have hn : s.phase c = none := by unfold Enabled enabled at hen; simpa using hen
    have hn' : s'.phase c = none := by
      rcases h.phase_cases c with h' | ⟨_, _, _, _, _, _, h1, _⟩
      · rw [h', hn]
      · rw [hn] at h1; cases h1
    refine ⟨by unfold Enabled enabled reseen; simp [hn'], ?_⟩
    exact {
      core := by simp [reseen, stepCore, hn, hn', h.core]
      safe := by simp [reseen, stepCore, hn, hn', h.safe]
      clock := by simp [h.clock]
      ids := by simp [reseen, stepCore, hn, hn', h.ids]
      lin := by simp [reseen, stepCore, hn, hn', h.lin]
      pubs := by simp [reseen, stepCore, hn, hn', h.pubs]
      slots := by simp [reseen, stepCore, hn, hn', h.slots]
      reads := by simp [reseen, stepCore, hn, hn', h.reads]
      phase := by
        simp only [reseen, step_phase, stepCore, hn, hn', h.clock]
        exact upd_forget _ _ c _ _ rfl h.phase }
  | prepare c sid k =>
    have hi : ∃ b t0, s.phase c = some (.invoked b t0) := by
      unfold Enabled enabled at hen
      cases hp : s.phase c with
      | none => simp [hp] at hen
      | some p => cases p <;> simp [hp, Phase.isInvoked] at hen; exact ⟨_, _, rfl⟩
    obtain ⟨b, t0, hp⟩ := hi
    have hp' : s'.phase c = some (.invoked b t0) := by
      rcases h.phase_cases c with h' | ⟨_, _, _, _, _, _, h1, _⟩
      · rw [h', hp]
      · rw [hp] at h1; cases h1
    refine ⟨by unfold Enabled enabled reseen; simp [hp', Phase.isInvoked], ?_⟩
    exact {
      core := by simp [reseen, stepCore, hp, hp', h.core]
      safe := by simp [reseen, stepCore, hp, hp', h.safe]
      clock := by simp [h.clock]
      ids := by simp [reseen, stepCore, hp, hp', h.ids]
      lin := by simp [reseen, stepCore, hp, hp', h.lin]
      pubs := by simp [reseen, stepCore, hp, hp', h.pubs]
      slots := by simp [reseen, stepCore, hp, hp', h.slots]
      reads := by simp [reseen, stepCore, hp, hp', h.reads]
      phase := by
        simp only [reseen, step_phase, stepCore, hp, hp', h.clock]
        exact upd_forget _ _ c _ _ rfl h.phase }
  | intro c =>
    have hi : ∃ b t0 sid n tp, s.phase c = some (.prepared b t0 sid n tp) ∧ sid ∉ s.core.usedSids := by
      unfold Enabled enabled at hen
      cases hp : s.phase c with
      | none => simp [hp] at hen
      | some p =>
        cases p with
        | prepared b t0 sid n tp => simp [hp] at hen; exact ⟨_, _, _, _, _, rfl, hen⟩
        | invoked b t0 => simp [hp] at hen
        | introduced b t0 tp i ti a => simp [hp] at hen
        | returned b t0 tp i ti tr => simp [hp] at hen
    obtain ⟨b, t0, sid, n, tp, hp, hfresh⟩ := hi
    obtain ⟨n', hp'⟩ : ∃ n', s'.phase c = some (.prepared b t0 sid n' tp) := by
      rcases h.phase_cases c with h' | ⟨_, _, _, _, n', _, h1, h2⟩
      · exact ⟨n, by rw [h', hp]⟩
      · rw [hp] at h1; cases h1; exact ⟨n', h2⟩
    have hcore : Index.step s'.core (.batch b (s'.seenIdx n') sid) = Index.step s.core (.batch b (s.seenIdx n) sid) := by
      rw [h.core]; exact idx_batch_seen_irrelevant hc.core b _ _ sid
    refine ⟨by unfold Enabled enabled reseen; simp [hp', h.core]; exact hfresh, ?_⟩
    exact {
      core := by simp only [reseen, step_core, stepCore, hp, hp']; exact hcore
      safe := by simp [reseen, stepCore, hp, hp', h.safe]
      clock := by simp [h.clock]
      ids := by simp [reseen, stepCore, hp, hp', h.ids]
      lin := by simp [reseen, stepCore, hp, hp', h.lin]
      pubs := by simp [reseen, stepCore, hp, hp', h.pubs, h.core, h.clock]
      slots := by simp only [reseen, step_slots, stepCore, hp, hp']; rw [hcore, h.slots, h.core, h.clock]
      reads := by simp [reseen, stepCore, hp, hp', h.reads]
      phase := by
        simp only [reseen, step_phase, stepCore, hp, hp', h.clock, h.lin]
        exact upd_forget _ _ c _ _ rfl h.phase }
  | ack cs =>
    refine ⟨?_, ?_⟩
    · unfold Enabled enabled reseen
      unfold Enabled enabled at hen
      simp only [List.all_eq_true] at hen ⊢
      intro c hcs
      have := hen c hcs
      rcases h.phase_cases c with h' | ⟨_, _, _, _, _, _, h1, _⟩
      · rw [h']; exact this
      · rw [h1] at this; simp [Phase.isIntroduced, Phase.intro?] at this
    · exact {
        core := by simp [reseen, stepCore, h.core]
        safe := by simp [reseen, stepCore, h.safe]
        clock := by simp [h.clock]
        ids := by simp [reseen, stepCore, h.ids]
        lin := by simp [reseen, stepCore, h.lin]
        pubs := by simp [reseen, stepCore, h.pubs]
        slots := by simp [reseen, stepCore, h.slots]
        reads := by simp [reseen, stepCore, h.reads]
        phase := by
          intro x
          simp only [reseen, step_phase, stepCore]
          rcases h.phase_cases x with h' | ⟨_, _, _, _, _, _, h1, h2⟩
          · rw [h']
          · rw [h1, h2]; simp [Phase.ack, Phase.forget] }
  | ret c =>
    have hi : ∃ b t0 tp i ti a, s.phase c = some (.introduced b t0 tp i ti a) ∧ (!s.safe || a) = true := by
      unfold Enabled enabled at hen
      cases hp : s.phase c with
      | none => simp [hp] at hen
      | some p =>
        cases p with
        | introduced b t0 tp i ti a => simp only [hp] at hen; exact ⟨_, _, _, _, _, _, rfl, hen⟩
        | invoked b t0 => simp [hp] at hen
        | prepared b t0 sid n tp => simp [hp] at hen
        | returned b t0 tp i ti tr => simp [hp] at hen
    obtain ⟨b, t0, tp, i, ti, a, hp, ha⟩ := hi
    have hp' : s'.phase c = some (.introduced b t0 tp i ti a) := by
      rcases h.phase_cases c with h' | ⟨_, _, _, _, _, _, h1, _⟩
      · rw [h', hp]
      · rw [hp] at h1; cases h1
    refine ⟨by unfold Enabled enabled reseen; simp only [hp', h.safe]; exact ha, ?_⟩
    exact {
      core := by simp [reseen, stepCore, hp, hp', h.core]
      safe := by simp [reseen, stepCore, hp, hp', h.safe]
      clock := by simp [h.clock]
      ids := by simp [reseen, stepCore, hp, hp', h.ids]
      lin := by simp [reseen, stepCore, hp, hp', h.lin]
      pubs := by simp [reseen, stepCore, hp, hp', h.pubs]
      slots := by simp [reseen, stepCore, hp, hp', h.slots]
      reads := by simp [reseen, stepCore, hp, hp', h.reads]
      phase := by
        simp only [reseen, step_phase, stepCore, hp, hp', h.clock]
        exact upd_forget _ _ c _ _ rfl h.phase }
  | reader r =>
    refine ⟨by unfold Enabled enabled reseen; rfl, ?_⟩
    exact {
      core := by simp [reseen, stepCore, h.core]
      safe := by simp [reseen, stepCore, h.safe]
      clock := by simp [h.clock]
      ids := by simp [reseen, stepCore, h.ids]
      lin := by simp [reseen, stepCore, h.lin]
      pubs := by simp [reseen, stepCore, h.pubs]
      slots := by simp [reseen, stepCore, h.slots]
      reads := by simp [reseen, stepCore, h.reads, h.core, h.clock]
      phase := by simp only [reseen, step_phase, stepCore]; exact h.phase }
  | persist p =>
    refine ⟨by unfold Enabled enabled reseen; unfold Enabled enabled at hen; simpa [h.core] using hen, ?_⟩
    exact {
      core := by simp [reseen, stepCore, h.core]
      safe := by simp [reseen, stepCore, h.safe]
      clock := by simp [h.clock]
      ids := by simp [reseen, stepCore, h.ids]
      lin := by simp [reseen, stepCore, h.lin]
      pubs := by simp [reseen, stepCore, h.pubs, h.core, h.clock]
      slots := by simp [reseen, stepCore, h.slots]
      reads := by simp [reseen, stepCore, h.reads]
      phase := by simp only [reseen, step_phase, stepCore]; exact h.phase }
  | merge k pick fm id =>
    refine ⟨by unfold Enabled enabled reseen; unfold Enabled enabled at hen; simpa [h.core] using hen, ?_⟩
    exact {
      core := by simp [reseen, stepCore, h.core]
      safe := by simp [reseen, stepCore, h.safe]
      clock := by simp [h.clock]
      ids := by simp [reseen, stepCore, h.ids]
      lin := by simp [reseen, stepCore, h.lin]
      pubs := by simp [reseen, stepCore, h.pubs, h.core, h.clock]
      slots := by simp [reseen, stepCore, h.slots]
      reads := by simp [reseen, stepCore, h.reads]
      phase := by simp only [reseen, step_phase, stepCore]; exact h.phase }

theorem Sim.refl (s : State) : Sim s s := ⟨rfl, rfl, rfl, rfl, rfl, rfl, rfl, rfl, fun _ => rfl⟩

theorem sim_foldl (safe : Bool) (g : Nat → Nat) (evs : List Ev) : ∀ (pre : List Ev) (s s' : State), Reach safe pre s →
    Sim s s' → WF s evs → WF s' (evs.map (reseen g)) ∧ Sim (evs.foldl Lin.step s) ((evs.map (reseen g)).foldl Lin.step s') := by
  induction evs with
  | nil => intro pre s s' _ h _; exact ⟨trivial, h⟩
  | cons e t ih =>
    intro pre s s' hr h hwf
    unfold WF at hwf
    obtain ⟨hen', hsim⟩ := h.step (good_of_reach hr).co g e hwf.1
    obtain ⟨h1, h2⟩ := ih (pre ++ [e]) _ _ (Reach.snoc e hr hwf.1) hsim hwf.2
    exact ⟨by rw [List.map_cons]; unfold WF; exact ⟨hen', h1⟩, by simpa using h2⟩

end Bluge.Lin

import BlugeProofs.C05.Cases
/-! The writer part of the state along every execution: C01's invariant, the linearisation is the list of applied
batches, epochs grow, and every published root is the abstract index after a prefix of the linearisation. -/
namespace Bluge.Lin
open Bluge.Index List

structure CoInv (s : State) : Prop where
  core : Index.Inv s.core
  /-- the batches of the linearisation are the batches the introducer applied, in that order -/
  applied : s.lin.map s.batchOf = s.core.applied
  epoch_lt : ∀ r ∈ s.core.history, r.epoch < s.core.nextEpoch
  epoch_mono : s.core.history.Pairwise (fun newer older => older.epoch < newer.epoch)
  pubs_len : s.pubs.length = s.core.history.length
  /-- every published root holds the abstract index after the first `k` batches -/
  pubs_ok : ∀ p ∈ s.core.history.zip s.pubs,
      p.2.k ≤ s.core.applied.length ∧ p.1.abs.Perm (absOf (s.core.applied.take p.2.k))
  pubs_mono : s.pubs.Pairwise (fun newer older => older.k ≤ newer.k ∧ older.t ≤ newer.t)
  pubs_head : s.pubs.head?.map (·.k) = some s.core.applied.length
  pubs_k : ∀ m ∈ s.pubs, m.k ≤ s.core.applied.length
  pubs_t : ∀ m ∈ s.pubs, m.t ≤ s.clock

theorem CoInv.init (safe : Bool) : CoInv (State.init safe) where
  core := Index.Inv.init
  applied := rfl
  epoch_lt := by intro r hr; simp [State.init, Index.State.init, Index.State.history] at hr; subst hr; show (0 : Nat) < 1; omega
  epoch_mono := by simp [State.init, Index.State.init, Index.State.history]
  pubs_len := rfl
  pubs_ok := by
    intro p hp
    simp [State.init, Index.State.init, Index.State.history] at hp
    subst hp
    exact ⟨Nat.le_refl _, List.Perm.refl _⟩
  pubs_mono := by simp [State.init]
  pubs_head := rfl
  pubs_k := by intro m hm; simp [State.init] at hm; subst hm; exact Nat.le_refl _
  pubs_t := by intro m hm; simp [State.init] at hm; subst hm; exact Nat.le_refl _

theorem idx_applied_ext (s : Index.State) (e : Index.Event) : ∃ l, (Index.step s e).applied = s.applied ++ l := by
  cases e with
  | batch b k sid => exact ⟨[b], rfl⟩
  | persist p => exact ⟨[], (List.append_nil _).symm⟩
  | merge k pick f id => exact ⟨[], (List.append_nil _).symm⟩

/-- the linearisation stays the list of applied batches -/
theorem applied_step {s : State} (hph : PhInv s) (h : s.lin.map s.batchOf = s.core.applied) (e : Ev) :
    (step s e).lin.map (step s e).batchOf = (step s e).core.applied := by
  have stable : s.lin.map (step s e).batchOf = s.lin.map s.batchOf := by
    apply List.map_congr_left
    intro x hx
    obtain ⟨i, hi⟩ := List.getElem?_of_mem hx
    obtain ⟨ph, ti, h1, _⟩ := hph.lin_phase i x hi
    exact batchOf_stable s e (by rw [h1]; rfl)
  rw [step_lin, step_core]
  cases effect s e with
  | idle he => rw [he, stable]; exact h
  | invoke c b _ hc he => rw [he]; show s.lin.map _ = s.core.applied; rw [stable]; exact h
  | prepare c sid k b t0 n _ hc he => rw [he]; show s.lin.map _ = s.core.applied; rw [stable]; exact h
  | intro c b t0 sid n tp _ hc he =>
    have hb : (step s e).batchOf c = b := by
      simp [State.batchOf, he, upd_same, Phase.batch]
    rw [he]
    show (s.lin ++ [c]).map _ = (Index.step s.core (.batch b (s.seenIdx n) sid)).applied
    rw [List.map_append, stable, h, idx_applied_batch]
    simp [hb]
  | ack cs _ he => rw [he]; show s.lin.map _ = s.core.applied; rw [stable]; exact h
  | ret c b t0 tp i ti a _ hc he => rw [he]; show s.lin.map _ = s.core.applied; rw [stable]; exact h
  | reader r _ he => rw [he]; show s.lin.map _ = s.core.applied; rw [stable]; exact h
  | persist p _ he => rw [he]; show s.lin.map _ = (Index.step s.core (.persist p)).applied; rw [stable]; exact h
  | merge k pick fm id _ he => rw [he]; show s.lin.map _ = (Index.step s.core (.merge k pick fm id)).applied; rw [stable]; exact h

/-- the core and the published roots did not move -/
theorem CoInv.keep {s s' : State} (h : CoInv s) (hcore : s'.core = s.core) (hpubs : s'.pubs = s.pubs)
    (happ : s'.lin.map s'.batchOf = s'.core.applied) (hclock : s.clock ≤ s'.clock) : CoInv s' where
  core := by rw [hcore]; exact h.core
  applied := happ
  epoch_lt := by rw [hcore]; exact h.epoch_lt
  epoch_mono := by rw [hcore]; exact h.epoch_mono
  pubs_len := by rw [hcore, hpubs]; exact h.pubs_len
  pubs_ok := by rw [hcore, hpubs]; exact h.pubs_ok
  pubs_mono := by rw [hpubs]; exact h.pubs_mono
  pubs_head := by rw [hcore, hpubs]; exact h.pubs_head
  pubs_k := by rw [hcore, hpubs]; exact h.pubs_k
  pubs_t := by rw [hpubs]; intro m hm; exact Nat.le_trans (h.pubs_t m hm) hclock

/-- an introduction (segment, persist or merge) that `Bluge.Index` accepts -/
theorem CoInv.introduce {s s' : State} (h : CoInv s) (ie : Index.Event) (hwf : EventWF s.core ie)
    (hcore : s'.core = Index.step s.core ie)
    (hpubs : s'.pubs = ⟨(Index.step s.core ie).applied.length, s.clock⟩ :: s.pubs)
    (happ : s'.lin.map s'.batchOf = s'.core.applied) (hclock : s.clock ≤ s'.clock) : CoInv s' := by
  obtain ⟨l, hl⟩ := idx_applied_ext s.core ie
  have hinv := idx_inv_step h.core ie hwf
  have hlen : s.core.applied.length ≤ (Index.step s.core ie).applied.length := by rw [hl]; simp
  exact {
    core := by rw [hcore]; exact hinv
    applied := happ
    epoch_lt := by
      rw [hcore, idx_history, idx_nextEpoch]
      intro r hr
      rcases List.mem_cons.mp hr with rfl | hr
      · rw [idx_epoch]; omega
      · have := h.epoch_lt r hr; omega
    epoch_mono := by
      rw [hcore, idx_history, List.pairwise_cons]
      refine ⟨?_, h.epoch_mono⟩
      intro r hr; rw [idx_epoch]; exact h.epoch_lt r hr
    pubs_len := by rw [hcore, hpubs, idx_history]; simp [h.pubs_len]
    pubs_ok := by
      rw [hcore, hpubs, idx_history]
      intro p hp
      rw [List.zip_cons_cons] at hp
      rcases List.mem_cons.mp hp with rfl | hp
      · refine ⟨Nat.le_refl _, ?_⟩
        show (Index.step s.core ie).root.abs.Perm (absOf ((Index.step s.core ie).applied.take (Index.step s.core ie).applied.length))
        rw [List.take_length]; exact hinv.abs
      · obtain ⟨h1, h2⟩ := h.pubs_ok p hp
        refine ⟨Nat.le_trans h1 hlen, ?_⟩
        rw [hl, List.take_append_of_le_length h1]; exact h2
    pubs_mono := by
      rw [hpubs, List.pairwise_cons]
      refine ⟨?_, h.pubs_mono⟩
      intro m hm
      exact ⟨Nat.le_trans (h.pubs_k m hm) hlen, h.pubs_t m hm⟩
    pubs_head := by rw [hcore, hpubs]; rfl
    pubs_k := by
      rw [hcore, hpubs]
      intro m hm
      rcases List.mem_cons.mp hm with rfl | hm
      · exact Nat.le_refl _
      · exact Nat.le_trans (h.pubs_k m hm) hlen
    pubs_t := by
      rw [hpubs]
      intro m hm
      rcases List.mem_cons.mp hm with rfl | hm
      · exact hclock
      · exact Nat.le_trans (h.pubs_t m hm) hclock }

theorem CoInv.step {s : State} (h : CoInv s) (hph : PhInv s) (e : Ev) (hen : Enabled s e) : CoInv (step s e) := by
  have happ := applied_step hph h.applied e
  have hck : s.clock ≤ (Lin.step s e).clock := by simp
  cases effect s e with
  | idle he => exact h.keep (by simp [he]) (by simp [he]) happ hck
  | invoke c b _ hc he => exact h.keep (by simp [he]) (by simp [he]) happ hck
  | prepare c sid k b t0 n _ hc he => exact h.keep (by simp [he]) (by simp [he]) happ hck
  | intro c b t0 sid n tp heq hc he =>
    subst heq
    have hwf : EventWF s.core (.batch b (s.seenIdx n) sid) := by
      unfold Enabled enabled at hen
      simp only [hc] at hen
      simpa [EventWF] using hen
    exact h.introduce (.batch b (s.seenIdx n) sid) hwf (by simp [he]) (by simp [he, idx_applied_batch]) happ hck
  | ack cs _ he => exact h.keep (by simp [he]) (by simp [he]) happ hck
  | ret c b t0 tp i ti a _ hc he => exact h.keep (by simp [he]) (by simp [he]) happ hck
  | reader r _ he => exact h.keep (by simp [he]) (by simp [he]) happ hck
  | persist p heq he =>
    subst heq
    have hwf : EventWF s.core (.persist p) := by
      unfold Enabled enabled at hen
      simpa [EventWF] using hen
    exact h.introduce (.persist p) hwf (by simp [he]) (by simp [he, idx_applied_persist]) happ hck
  | merge k pick fm id heq he =>
    subst heq
    have hwf : EventWF s.core (.merge k pick fm id) := by
      unfold Enabled enabled at hen
      simpa [EventWF] using hen
    exact h.introduce (.merge k pick fm id) hwf (by simp [he]) (by simp [he, idx_applied_merge]) happ hck

end Bluge.Lin

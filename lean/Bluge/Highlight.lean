import Bluge.Basic
/-! Hand-written model of bluge's highlighter (package search/highlight):
`fragment_simple.go` (SimpleFragmenter.Fragment), `term_locations.go` (Overlaps, Less/sort,
MergeOverlapping with its `lastTl` behaviour), `fragment_scorer_simple.go`, `highlighter_simple.go`
(BestFragments, the container/heap fragment queue), `format_html.go`, `format_ansi.go`, and the three
`unicode/utf8` functions the fragmenter calls (DecodeRune, DecodeLastRune, RuneCount) on raw bytes.

Go `int` is `Int` (no overflow: offsets are far below 2^62), `[]byte` is `List (BitVec 8)` with
cap = len, a slice expression that Go would reject at run time is `none` (= panic).
The functions that the proposed repairs touch take a `Variant` (or one of its flags): `pinned` is the tree
as pinned, the other variants are the same code with the guards of /verif/work/C20/fix-1..5.diff; which
variant /repo is, is read off the source on every run (`BlugeGen.C20.variant`).
Specification-side definitions (validity, rune boundaries, stripping the markup, marks) are at the end.
Core Lean only. -/
namespace Bluge.Highlight

abbrev Byte := BitVec 8
abbrev Bytes := List Byte

/-! ## unicode/utf8 -/

/-- utf8.RuneError = U+FFFD -/
def runeError : Nat := 0xFFFD

/-- continuation byte, `locb ≤ b ≤ hicb` -/
def isCont (b : Byte) : Bool := 0x80 ≤ b.toNat && b.toNat ≤ 0xBF
/-- utf8.RuneStart: `b&0xC0 != 0x80` -/
def runeStart (b : Byte) : Bool := !isCont b

/-- `acceptRanges[first[x]>>4]` applied to the second byte, for a lead byte `x` in C2..F4 -/
def secondOK (x : Nat) (b1 : Byte) : Bool :=
  (if x = 0xE0 then 0xA0 else if x = 0xF0 then 0x90 else 0x80) ≤ b1.toNat &&
  b1.toNat ≤ (if x = 0xED then 0x9F else if x = 0xF4 then 0x8F else 0xBF)

/-- utf8.DecodeRune: (rune, size). Invalid or short encodings give (RuneError, 1), the empty slice
(RuneError, 0); the genuine encoding EF BF BD of U+FFFD gives (RuneError, 3).
The `first`/`acceptRanges` tables are written out as ranges of the lead byte: 00..7F ASCII,
80..C1 and F5..FF invalid, C2..DF two bytes, E0..EF three, F0..F4 four. -/
def decodeRune (p : Bytes) : Nat × Nat :=
  match p with
  | [] => (runeError, 0)
  | b0 :: t =>
    if b0.toNat < 0x80 then (b0.toNat, 1)
    else if b0.toNat < 0xC2 then (runeError, 1)
    else if b0.toNat < 0xE0 then
      match t with
      | b1 :: _ =>
        if secondOK b0.toNat b1 then ((b0.toNat % 32) * 64 + b1.toNat % 64, 2) else (runeError, 1)
      | _ => (runeError, 1)
    else if b0.toNat < 0xF0 then
      match t with
      | b1 :: b2 :: _ =>
        if secondOK b0.toNat b1 && isCont b2 then
          ((b0.toNat % 16) * 4096 + (b1.toNat % 64) * 64 + b2.toNat % 64, 3)
        else (runeError, 1)
      | _ => (runeError, 1)
    else if b0.toNat ≤ 0xF4 then
      match t with
      | b1 :: b2 :: b3 :: _ =>
        if secondOK b0.toNat b1 && isCont b2 && isCont b3 then
          ((b0.toNat % 8) * 262144 + (b1.toNat % 64) * 4096 + (b2.toNat % 64) * 64 + b3.toNat % 64, 4)
        else (runeError, 1)
      | _ => (runeError, 1)
    else (runeError, 1)

/-- `end - start` after DecodeLastRune's backward scan
`for start--; start >= lim; start-- { if RuneStart(p[start]) { break } }; if start < 0 { start = 0 }`
with `lim = max(0, end-UTFMax)`; the argument is the slice *before the last byte*, reversed. -/
def lastRuneWidth : Bytes → Nat
  | [] => 1
  | r1 :: rest1 => if runeStart r1 then 2 else
    match rest1 with
    | [] => 2
    | r2 :: rest2 => if runeStart r2 then 3 else
      match rest2 with
      | [] => 3
      | r3 :: rest3 => if runeStart r3 then 4 else
        match rest3 with
        | [] => 4
        | _ :: _ => 5

/-- utf8.DecodeLastRune (on the reversed slice: last byte first) -/
def decodeLastRune (p : Bytes) : Nat × Nat :=
  match p.reverse with
  | [] => (runeError, 0)
  | l0 :: rest =>
    if l0.toNat < 0x80 then (l0.toNat, 1) else
    let k := lastRuneWidth rest
    let rs := decodeRune ((l0 :: rest).take k).reverse
    if rs.2 ≠ k then (runeError, 1) else rs

/-- utf8.RuneCount: every invalid byte counts as one rune of width 1 (fuel = length) -/
def runeCountAux : Nat → Bytes → Nat
  | _, [] => 0
  | 0, _ => 0
  | f + 1, b :: t => 1 + runeCountAux f ((b :: t).drop (decodeRune (b :: t)).2)

def runeCount (p : Bytes) : Nat := runeCountAux p.length p

/-! ## slices -/

/-- `orig[a:b]` for a slice with cap = len; `none` = run-time panic (slice bounds out of range) -/
def slice (orig : Bytes) (a b : Int) : Option Bytes :=
  if 0 ≤ a ∧ a ≤ b ∧ b ≤ orig.length then some ((orig.drop a.toNat).take (b.toNat - a.toNat)) else none

/-! ## term_locations.go -/

structure TermLocation where
  term : String
  pos : Int
  start : Int
  stop : Int          -- Go field `End`
deriving DecidableEq, Repr, Inhabited

/-- (tl *TermLocation) Overlaps(other) -/
def TermLocation.overlaps (tl other : TermLocation) : Bool :=
  if other.start ≥ tl.start ∧ other.start < tl.stop then true
  else if tl.start ≥ other.start ∧ tl.start < other.stop then true
  else false

/-- (t TermLocations) Less(i, j) with a = t[i], b = t[j]: `t[i].Start < t[j].Start`; a tree with repair 4
(`tb`, work/C20/fix-4) compares (Start, End) lexicographically -/
def lessTL (tb : Bool) (a b : TermLocation) : Bool :=
  if tb then decide (a.start < b.start) || (decide (a.start = b.start) && decide (a.stop < b.stop))
  else decide (a.start < b.start)

/-- insertion into a list sorted by `Less` (stable) -/
def insertBy (tb : Bool) (x : TermLocation) : List TermLocation → List TermLocation
  | [] => [x]
  | y :: ys => if lessTL tb x y then x :: y :: ys else y :: insertBy tb x ys

/-- OrderTermLocations: flatten the map and `sort.Sort` by `Less`. The Go sort is not stable and the
map iteration order is random, so the order among locations that `Less` does not separate is
unspecified: `orderTermLocations` is the STABLE sort of the list handed in, one of the admissible
orders. Everything downstream (`bestSelectionOrd`, `bestFragmentsOrd`) takes the ordered list as an
argument, and the theorems quantify over every `Less`-sorted permutation (`sortedFor`). -/
def orderTermLocations (tb : Bool) (locs : List TermLocation) : List TermLocation :=
  locs.foldr (insertBy tb) []

/-- the loop of MergeOverlapping once `lastTl` is set: `lastTl` is never advanced, every later
location that overlaps it is nil-ed and *overwrites* its End (`lastTl.End = tl.End`); a tree with
repair 5 (`mx`, work/C20/fix-5) keeps the larger End (`if tl.End > lastTl.End { lastTl.End = tl.End }`) -/
def mergeLoop (mx : Bool) (last : TermLocation) : List TermLocation → TermLocation × List (Option TermLocation)
  | [] => (last, [])
  | tl :: rest =>
    if last.overlaps tl then
      let r := mergeLoop mx { last with stop := if mx && decide (tl.stop ≤ last.stop) then last.stop else tl.stop } rest
      (r.1, none :: r.2)
    else
      let r := mergeLoop mx last rest
      (r.1, some tl :: r.2)

/-- (t TermLocations) MergeOverlapping(), result = the slice afterwards (nil = `none`) -/
def mergeOverlapping (mx : Bool) : List TermLocation → List (Option TermLocation)
  | [] => []
  | tl :: rest => let r := mergeLoop mx tl rest; some r.1 :: r.2

/-! ## fragment_simple.go -/

structure Fragment where
  start : Int
  stop : Int          -- Go field `End`
  score : Nat := 0
deriving DecidableEq, Repr, Inhabited

/-- per-location result of the fragmenter's loop body -/
inductive LocRes where
  | frag (s e : Int)
  | bail               -- `continue OUTER`
  | panic
deriving DecidableEq, Repr

/-- Which of the proposed repairs the modelled tree contains (all `false` = the pinned tree).
* `sizeGuard`: the four `r == utf8.RuneError` tests of `Fragment` also require `size <= 1` (work/C20/fix-1);
* `locGuard`: `Fragment` ignores locations with `Start < 0` or `End < Start`, both formatters skip a
  location with `End < Start` (work/C20/fix-2);
* `runeCut`: with no location the single fragment is `fragmentSize` runes, not bytes (work/C20/fix-3);
* `tieBreak`: `TermLocations.Less` compares (Start, End), so that the sorted order is unique up to locations
  with the same span (work/C20/fix-4);
* `mergeMax`: `MergeOverlapping` keeps the larger End when it absorbs a location (work/C20/fix-5). -/
structure Variant where
  sizeGuard : Bool
  locGuard : Bool
  runeCut : Bool
  tieBreak : Bool
  mergeMax : Bool
deriving DecidableEq, Repr

def pinned : Variant := ⟨false, false, false, false, false⟩
/-- the tree after the three fix: commits a31c68e, 1070e7e, 997011d (repairs 1–3) -/
def tree3 : Variant := ⟨true, true, true, false, false⟩
def repaired : Variant := ⟨true, true, true, true, true⟩

/-- the fragmenter's test after a decode: `r == utf8.RuneError` (pinned) or `r == utf8.RuneError && size <= 1` -/
def bails (guard : Bool) (rs : Nat × Nat) : Bool := rs.1 == runeError && (!guard || decide (rs.2 ≤ 1))

/-- a location that can index a byte slice at all -/
def usable (l : TermLocation) : Bool := decide (0 ≤ l.start) && decide (l.start ≤ l.stop)

/-- three-valued loop result -/
inductive Loop (α : Type) where
  | done (a : α)
  | bail
  | panic
deriving Repr

/-- `for end < len(orig) && used < s.fragmentSize { r, size := utf8.DecodeRune(orig[end:]); if r == utf8.RuneError { continue OUTER }; end += size; used++ }` -/
def fwd (g : Bool) (orig : Bytes) (fsize : Int) : Nat → Int → Int → Loop (Int × Int)
  | 0, e, used => .done (e, used)
  | f + 1, e, used =>
    if e < orig.length ∧ used < fsize then
      if e < 0 then .panic else            -- orig[end:] with a negative end
      let rs := decodeRune (orig.drop e.toNat)
      if bails g rs then .bail
      else fwd g orig fsize f (e + rs.2) (used + 1)
    else .done (e, used)

/-- `for start > 0 && used < s.fragmentSize { if start > len(orig) { continue OUTER }; r, size := utf8.DecodeLastRune(orig[0:start]); if r == utf8.RuneError { continue OUTER }; if start-size >= maxbegin { start -= size; used++ } else { break } }` -/
def back (g : Bool) (orig : Bytes) (fsize maxbegin : Int) : Nat → Int → Int → Loop (Int × Int)
  | 0, s, used => .done (s, used)
  | f + 1, s, used =>
    if s > 0 ∧ used < fsize then
      if s > orig.length then .bail else
      let rs := decodeLastRune (orig.take s.toNat)
      if bails g rs then .bail
      else if s - rs.2 ≥ maxbegin then back g orig fsize maxbegin f (s - rs.2) (used + 1)
      else .done (s, used)
    else .done (s, used)

/-- `minend := end; for _, inner := range ot[currTermIndex:] { if inner.End > end { break }; minend = inner.End }` -/
def minEnd (e : Int) : List TermLocation → Int → Int
  | [], m => m
  | tl :: rest, m => if tl.stop > e then m else minEnd e rest tl.stop

/-- `for offset > 0 { DecodeLastRune(orig[0:start]) …; start -= size; DecodeLastRune(orig[0:end]) …; end -= size; offset-- }` -/
def shiftLeft (g : Bool) (orig : Bytes) : Nat → Int → Int → Loop (Int × Int)
  | 0, s, e => .done (s, e)
  | k + 1, s, e =>
    if s < 0 ∨ s > orig.length then .panic else      -- orig[0:start]
    let r1 := decodeLastRune (orig.take s.toNat)
    if bails g r1 then .bail else
    if e < 0 ∨ e > orig.length then .panic else      -- orig[0:end]
    let r2 := decodeLastRune (orig.take e.toNat)
    if bails g r2 then .bail else
    shiftLeft g orig k (s - r1.2) (e - r2.2)

/-- body of the OUTER loop for the location `tl = ot[currTermIndex]`, `tail = ot[currTermIndex:]` -/
def fragOne (g : Bool) (orig : Bytes) (fsize maxbegin : Int) (tl : TermLocation) (tail : List TermLocation) : LocRes :=
  match fwd g orig fsize (orig.length + 1) tl.start 0 with
  | .panic => .panic
  | .bail => .bail
  | .done (e, used) =>
    match back g orig fsize maxbegin (orig.length + 1) tl.start used with
    | .panic => .panic
    | .bail => .bail
    | .done (s, _) =>
      let minend := minEnd e tail e
      match slice orig minend e with            -- utf8.RuneCount(orig[minend:end])
      | none => .panic
      | some after =>
        let roomToMove := runeCount after
        let roomStart : Option Nat :=
          if s ≥ maxbegin then (slice orig maxbegin s).map runeCount else some 0
        match roomStart with
        | none => .panic                        -- utf8.RuneCount(orig[maxbegin:start])
        | some roomToMoveStart =>
          let room := if roomToMoveStart < roomToMove then roomToMoveStart else roomToMove
          match shiftLeft g orig (room / 2) s e with
          | .panic => .panic
          | .bail => .bail
          | .done (s', e') => .frag s' e'

/-- the OUTER loop; `maxbegin` is only advanced by a location that produced a fragment -/
def fragmentLoop (g : Bool) (orig : Bytes) (fsize : Int) : List TermLocation → Int → Option (List Fragment)
  | [], _ => some []
  | tl :: rest, maxbegin =>
    match fragOne g orig fsize maxbegin tl (tl :: rest) with
    | .panic => none
    | .bail => fragmentLoop g orig fsize rest maxbegin
    | .frag s e => (fragmentLoop g orig fsize rest tl.stop).map (fun fs => { start := s, stop := e } :: fs)

/-- repaired no-location branch: `for used := 0; end < len(orig) && used < fragmentSize; used++ { _, size := DecodeRune(orig[end:]); end += size }` -/
def cutRunes (orig : Bytes) (fsize : Int) : Nat → Int → Int → Int
  | 0, e, _ => e
  | f + 1, e, used =>
    if e < orig.length ∧ used < fsize then
      cutRunes orig fsize f (e + (decodeRune (orig.drop e.toNat)).2) (used + 1)
    else e

/-- SimpleFragmenter.Fragment; `none` = panic. With no location: one fragment of `fragmentSize`
*bytes* from the beginning. -/
def fragment (v : Variant) (orig : Bytes) (fsize : Int) (ot : List TermLocation) : Option (List Fragment) :=
  match (if v.locGuard then ot.filter usable else ot) with
  | [] =>
    if v.runeCut then some [{ start := 0, stop := cutRunes orig fsize (orig.length + 1) 0 0 }]
    else some [{ start := 0, stop := if fsize > orig.length then orig.length else fsize }]
  | ot' => fragmentLoop v.sizeGuard orig fsize ot' 0

/-! ## fragment_scorer_simple.go -/

def dedup : List String → List String
  | [] => []
  | x :: xs => if xs.contains x then dedup xs else x :: dedup xs

/-- SimpleFragmentScorer.Score: the number of distinct terms with a location inside the fragment -/
def scoreOf (locs : List TermLocation) (f : Fragment) : Nat :=
  (dedup ((locs.filter fun l => l.start ≥ f.start ∧ l.stop ≤ f.stop).map (·.term))).length

/-! ## highlighter_simple.go: the fragment queue (container/heap, `Less(i,j) = Score[i] > Score[j]`) -/

/-- (f *Fragment) Overlaps(other) -/
def Fragment.overlaps (f other : Fragment) : Bool :=
  if other.start ≥ f.start ∧ other.start < f.stop then true
  else if f.start ≥ other.start ∧ f.start < other.stop then true
  else false

def hless (h : List Fragment) (i j : Nat) : Bool := (h.getD i default).score > (h.getD j default).score

def hswap (h : List Fragment) (i j : Nat) : List Fragment :=
  (h.set i (h.getD j default)).set j (h.getD i default)

/-- heap.up -/
def heapUp (h : List Fragment) : Nat → Nat → List Fragment
  | 0, _ => h
  | f + 1, j =>
    let i := (j - 1) / 2
    if i = j ∨ !hless h j i then h else heapUp (hswap h i j) f i

/-- heap.down(h, i, n) -/
def heapDown (h : List Fragment) (n : Nat) : Nat → Nat → List Fragment
  | 0, _ => h
  | f + 1, i =>
    let j1 := 2 * i + 1
    if j1 ≥ n then h else
    let j := if j1 + 1 < n ∧ hless h (j1 + 1) j1 then j1 + 1 else j1
    if !hless h j i then h else heapDown (hswap h i j) n f j

/-- heap.Push -/
def heapPush (h : List Fragment) (x : Fragment) : List Fragment :=
  heapUp (h ++ [x]) (h.length + 1) h.length

/-- heap.Pop on a non-empty queue: (popped item, rest) -/
def heapPop (h : List Fragment) : Fragment × List Fragment :=
  let n := h.length - 1
  let h1 := hswap h 0 n
  let h2 := heapDown h1 n (n + 1) 0
  (h2.getD n default, h2.take n)

/-- the selection loop of BestFragments (label OUTER), `c` = candidate -/
def selectLoop (num : Int) : Nat → Fragment → List Fragment → List Fragment → List Fragment
  | 0, _, _, best => best
  | f + 1, c, fq, best =>
    if (best.length : Int) < num then
      if best.any (fun b => c.overlaps b) then
        if fq.length < 1 then best
        else let r := heapPop fq; selectLoop num f r.1 r.2 best
      else
        let best' := best ++ [c]
        if fq.length < 1 then best'
        else let r := heapPop fq; selectLoop num f r.1 r.2 best'
    else best

def selectBest (num : Int) (frags : List Fragment) : List Fragment :=
  let fq := frags.foldl heapPush []
  if fq.length > 0 then
    let r := heapPop fq
    selectLoop num (frags.length + 1) r.1 r.2 []
  else []

/-! ## formatters -/

def strBytes (s : String) : Bytes := s.toUTF8.toList.map fun b => BitVec.ofNat 8 b.toNat

def amp : Bytes := [0x26, 0x61, 0x6D, 0x70, 0x3B]      -- &amp;
def apos : Bytes := [0x26, 0x23, 0x33, 0x39, 0x3B]     -- &#39;
def ltE : Bytes := [0x26, 0x6C, 0x74, 0x3B]            -- &lt;
def gtE : Bytes := [0x26, 0x67, 0x74, 0x3B]            -- &gt;
def quot : Bytes := [0x26, 0x23, 0x33, 0x34, 0x3B]     -- &#34;
def markOpen : Bytes := [0x3C, 0x6D, 0x61, 0x72, 0x6B, 0x3E]          -- <mark>
def markClose : Bytes := [0x3C, 0x2F, 0x6D, 0x61, 0x72, 0x6B, 0x3E]   -- </mark>
def ansiColor : Bytes := [0x1B, 0x5B, 0x34, 0x33, 0x6D]               -- BgYellow "\x1b[43m"
def ansiReset : Bytes := [0x1B, 0x5B, 0x30, 0x6D]                     -- Reset "\x1b[0m"
def separator : Bytes := [0xE2, 0x80, 0xA6]                           -- DefaultSeparator "…"

def escByte (b : Byte) : Bytes :=
  if b = 0x26 then amp else if b = 0x27 then apos else if b = 0x3C then ltE
  else if b = 0x3E then gtE else if b = 0x22 then quot else [b]

/-- html.EscapeString (a byte replacer: five single-byte patterns) -/
def htmlEscape : Bytes → Bytes
  | [] => []
  | b :: t => escByte b ++ htmlEscape t

/-- what a formatter is made of: how text is rendered, what goes before/after a marked term -/
structure Fmt where
  esc : Bytes → Bytes
  before : Bytes
  after : Bytes

def htmlFmt : Fmt := ⟨htmlEscape, markOpen, markClose⟩
def ansiFmt : Fmt := ⟨id, ansiColor, ansiReset⟩

/-- HTMLFragmentFormatter.Format / ANSIFragmentFormatter.Format (the two bodies differ only in
`esc`, `before`, `after`): the loop over the ordered (merged, possibly nil) locations from `curr` -/
def formatLoop (fm : Fmt) (lg : Bool) (orig : Bytes) (fend : Int) : List (Option TermLocation) → Int → Option Bytes
  | [], curr => (slice orig curr fend).map fm.esc
  | none :: rest, curr => formatLoop fm lg orig fend rest curr
  | some tl :: rest, curr =>
    if lg && decide (tl.stop < tl.start) then formatLoop fm lg orig fend rest curr   -- repaired trees only
    else if tl.start < curr then formatLoop fm lg orig fend rest curr
    else if tl.stop > fend then (slice orig curr fend).map fm.esc      -- break
    else
      match slice orig curr tl.start, slice orig tl.start tl.stop with
      | some a, some b =>
        (formatLoop fm lg orig fend rest tl.stop).map fun r => fm.esc a ++ fm.before ++ fm.esc b ++ fm.after ++ r
      | _, _ => none

def format (v : Variant) (fm : Fmt) (orig : Bytes) (f : Fragment) (tls : List (Option TermLocation)) : Option Bytes :=
  formatLoop fm v.locGuard orig f.stop tls f.start

/-! ## BestFragments -/

/-- one formatted fragment with the separators -/
def render (v : Variant) (fm : Fmt) (orig : Bytes) (merged : List (Option TermLocation)) (f : Fragment) : Option Bytes :=
  (format v fm orig f merged).map fun s =>
    (if f.start ≠ 0 then separator else []) ++ s ++ (if f.stop ≠ orig.length then separator else [])

def mapM' {α β : Type} (g : α → Option β) : List α → Option (List β)
  | [] => some []
  | x :: xs => match g x, mapM' g xs with
    | some y, some ys => some (y :: ys)
    | _, _ => none

/-- the fragments BestFragments selects (scored), before formatting; `locs` = the map's locations (the scorer
walks the map), `ot` = the slice OrderTermLocations returned -/
def bestSelectionOrd (v : Variant) (orig : Bytes) (fsize num : Int) (locs ot : List TermLocation) : Option (List Fragment) :=
  (fragment v orig fsize ot).map fun frags =>
    selectBest num (frags.map fun f => { f with score := scoreOf locs f })

/-- SimpleHighlighter.BestFragments(tlm, orig, num) when OrderTermLocations returned `ot` -/
def bestFragmentsOrd (v : Variant) (fm : Fmt) (orig : Bytes) (fsize num : Int) (locs ot : List TermLocation) : Option (List Bytes) :=
  match bestSelectionOrd v orig fsize num locs ot with
  | none => none
  | some best => mapM' (render v fm orig (mergeOverlapping v.mergeMax ot)) best

/-- … with the stable order -/
def bestSelection (v : Variant) (orig : Bytes) (fsize num : Int) (locs : List TermLocation) : Option (List Fragment) :=
  bestSelectionOrd v orig fsize num locs (orderTermLocations v.tieBreak locs)

def bestFragments (v : Variant) (fm : Fmt) (orig : Bytes) (fsize num : Int) (locs : List TermLocation) : Option (List Bytes) :=
  bestFragmentsOrd v fm orig fsize num locs (orderTermLocations v.tieBreak locs)

/-! ## specification side: validity, rune boundaries, stripping the markup -/

/-- every rune decoded from the front is acceptable: `strict` also rejects a genuine U+FFFD -/
def runesOK (strict : Bool) : Nat → Bytes → Bool
  | _, [] => true
  | 0, _ => false
  | f + 1, b :: t =>
    let rs := decodeRune (b :: t)
    (if strict then rs.1 ≠ runeError else !(rs.1 = runeError ∧ rs.2 ≤ 1)) && runesOK strict f ((b :: t).drop rs.2)

/-- utf8.Valid -/
def validUtf8 (p : Bytes) : Bool := runesOK false p.length p
/-- valid and without U+FFFD -/
def cleanUtf8 (p : Bytes) : Bool := runesOK true p.length p

/-- byte offsets at which a rune starts (plus the length), by decoding from the front -/
def boundsFrom : Nat → Nat → Bytes → List Nat
  | _, k, [] => [k]
  | 0, k, _ => [k]
  | f + 1, k, b :: t =>
    let n := (decodeRune (b :: t)).2
    k :: boundsFrom f (k + n) ((b :: t).drop n)

def bounds (orig : Bytes) : List Nat := boundsFrom orig.length 0 orig

def isBoundary (orig : Bytes) (k : Int) : Bool := 0 ≤ k && (bounds orig).contains k.toNat

def sortedByStart : List TermLocation → Bool
  | [] => true
  | [_] => true
  | a :: b :: rest => a.start ≤ b.start && sortedByStart (b :: rest)

/-- what `sort.Sort` guarantees about the slice OrderTermLocations returns, whatever the (unstable) algorithm
and the map iteration order: no later element is `Less` than an earlier one (adjacent form; `Less` is a
strict weak order, so this is the pairwise statement) -/
def sortedFor (tb : Bool) : List TermLocation → Bool
  | [] => true
  | [_] => true
  | a :: b :: rest => !lessTL tb b a && sortedFor tb (b :: rest)

/-- locations with the same Start have the same End (then `Less` separates all locations with different spans) -/
def tiesAgree (locs : List TermLocation) : Bool :=
  locs.all fun a => locs.all fun b => a.start != b.start || a.stop == b.stop

/-- Ends do not decrease along the list: no location is nested in an earlier one. True of the tokens of a
tokenizer (disjoint) and of the CJK bigrams (overlapping, both ends increasing). -/
def monotoneStops : List TermLocation → Bool
  | [] => true
  | [_] => true
  | a :: b :: rest => a.stop ≤ b.stop && monotoneStops (b :: rest)

/-- both ends strictly increase along the list and no span is empty: the tokens of a tokenizer (disjoint), any
selection of them (what a search returns), and the CJK bigrams formed from adjacent tokens -/
def advancing : List TermLocation → Bool
  | [] => true
  | [a] => a.start < a.stop
  | a :: b :: rest => a.start < a.stop && a.start < b.start && a.stop < b.stop && advancing (b :: rest)

/-- the spans of the CJK bigram filter on a run of adjacent single-rune tokens: token i joined with token i+1 -/
def bigramSpans : List TermLocation → List TermLocation
  | a :: b :: rest => { term := a.term ++ b.term, pos := a.pos, start := a.start, stop := b.stop } :: bigramSpans (b :: rest)
  | _ => []

/-- closed form of what MergeOverlapping does to a list sorted by Start whose head has End `e`:
(how many of the following locations the head absorbs, the End the head is left with). The absorbed locations
are the maximal prefix in which each one starts before the head's CURRENT End; that End is overwritten by the
End of each absorbed location (`mx = false`: the End of the LAST one absorbed, not the largest) or only grows
(`mx = true`, repair 5). Everything after the absorbed prefix is left as it is (`lastTl` is never advanced). -/
def absorbRun (mx : Bool) (e : Int) : List TermLocation → Nat × Int
  | [] => (0, e)
  | tl :: rest =>
    if tl.start < e then
      let r := absorbRun mx (if mx && decide (tl.stop ≤ e) then e else tl.stop) rest
      (r.1 + 1, r.2)
    else (0, e)

/-- the spans "one location, or the union of a run of overlapping ones" starting with a location of span
[s, e): the run grows while the next location (in list order) starts inside the union so far -/
def chainFrom (s e : Int) : List TermLocation → List (Int × Int)
  | [] => [(s, e)]
  | tl :: rest => (s, e) :: (if tl.start < e then chainFrom s (if tl.stop ≤ e then e else tl.stop) rest else [])

/-- every span that is exactly one location or the union of a run of consecutive overlapping locations -/
def runUnions : List TermLocation → List (Int × Int)
  | [] => []
  | a :: rest => chainFrom a.start a.stop rest ++ runUnions rest

/-- the property text's "every marked span is exactly one matched term occurrence or a run of overlapping ones" -/
def markOK (ot : List TermLocation) (m : Int × Int) : Bool := (runUnions ot).contains m

/-- a location is in range and on rune boundaries -/
def locOK (orig : Bytes) (l : TermLocation) : Bool :=
  0 ≤ l.start && l.start ≤ l.stop && l.stop ≤ orig.length && isBoundary orig l.start && isBoundary orig l.stop

/-- the location lies in the text and is at most `fsize` runes long -/
def fits (orig : Bytes) (fsize : Int) (l : TermLocation) : Bool :=
  match slice orig l.start l.stop with
  | some s => (runeCount s : Int) ≤ fsize
  | none => false

/-- the hypothesis of the faithfulness theorems: what a search with the bundled analyzers produces -/
def locsOK (orig : Bytes) (locs : List TermLocation) : Bool :=
  validUtf8 orig && sortedByStart locs && locs.all (locOK orig)

/-- remove `<mark>`/`</mark>` and undo html.EscapeString; `skip` = bytes of a recognised token still to drop -/
def stripHtmlAux : Nat → Bytes → Bytes
  | _, [] => []
  | skip + 1, _ :: t => stripHtmlAux skip t
  | 0, b :: t =>
    let s := b :: t
    if markOpen.isPrefixOf s then stripHtmlAux 5 t
    else if markClose.isPrefixOf s then stripHtmlAux 6 t
    else if amp.isPrefixOf s then 0x26 :: stripHtmlAux 4 t
    else if apos.isPrefixOf s then 0x27 :: stripHtmlAux 4 t
    else if ltE.isPrefixOf s then 0x3C :: stripHtmlAux 3 t
    else if gtE.isPrefixOf s then 0x3E :: stripHtmlAux 3 t
    else if quot.isPrefixOf s then 0x22 :: stripHtmlAux 4 t
    else b :: stripHtmlAux 0 t

def stripHtml (s : Bytes) : Bytes := stripHtmlAux 0 s

/-- remove the ANSI colour and reset codes -/
def stripAnsiAux : Nat → Bytes → Bytes
  | _, [] => []
  | skip + 1, _ :: t => stripAnsiAux skip t
  | 0, b :: t =>
    let s := b :: t
    if ansiColor.isPrefixOf s then stripAnsiAux 4 t
    else if ansiReset.isPrefixOf s then stripAnsiAux 3 t
    else b :: stripAnsiAux 0 t

def stripAnsi (s : Bytes) : Bytes := stripAnsiAux 0 s

/-- the marked spans of a formatter run, as byte offsets into `orig` (mirror of `formatLoop`) -/
def marksLoop (lg : Bool) (fend : Int) : List (Option TermLocation) → Int → List (Int × Int)
  | [], _ => []
  | none :: rest, curr => marksLoop lg fend rest curr
  | some tl :: rest, curr =>
    if lg && decide (tl.stop < tl.start) then marksLoop lg fend rest curr
    else if tl.start < curr then marksLoop lg fend rest curr
    else if tl.stop > fend then []
    else (tl.start, tl.stop) :: marksLoop lg fend rest tl.stop

def marks (v : Variant) (f : Fragment) (tls : List (Option TermLocation)) : List (Int × Int) :=
  marksLoop v.locGuard f.stop tls f.start

/-- the output of a formatter run described by its marked spans: text, mark, text, mark, …, text -/
def renderMarks (fm : Fmt) (orig : Bytes) (fend : Int) : List (Int × Int) → Int → Option Bytes
  | [], curr => (slice orig curr fend).map fm.esc
  | (a, b) :: rest, curr =>
    match slice orig curr a, slice orig a b with
    | some x, some y => (renderMarks fm orig fend rest b).map fun r => fm.esc x ++ fm.before ++ fm.esc y ++ fm.after ++ r
    | _, _ => none

/-- sorted and pairwise disjoint (what a tokenizer produces): each location ends where or before the next starts -/
def disjointLocs : List TermLocation → Bool
  | [] => true
  | [_] => true
  | a :: b :: rest => a.stop ≤ b.start && disjointLocs (b :: rest)

end Bluge.Highlight

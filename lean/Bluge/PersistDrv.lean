import Bluge.Basic
import Bluge.Persist
/-! Shared model driver of C02 and C11 (stream `dirtrace`, see go/harness/persistlib).

Every recorded event of the real writer is replayed through `Bluge.Persist.step`; the driver must
ACCEPT it (enabledness) and print the same directory (`S[…] G[…]`) the harness listed. On the
implementation's own listing it evaluates the specification: keepN, no needed segment removed,
an observed acknowledgement is backed by a complete snapshot, a crash image recovers every
acknowledged batch, the second writer is refused, the lock is released, handles are balanced. -/
namespace Bluge.Persist.Drv
open Bluge Bluge.Persist

def parseList (s : String) : Option (List Nat) :=
  if s == "-" || s == "" then some [] else (s.splitOn ",").mapM String.toNat?

def showList (l : List Nat) : String := if l.isEmpty then "-" else ",".intercalate (l.map toString)

def insertNat (x : Nat) : List Nat → List Nat
  | [] => [x]
  | y :: r => if x < y then x :: y :: r else if x == y then y :: r else y :: insertNat x r

def sortDedup (l : List Nat) : List Nat := l.foldr insertNat []

def insertKV (x : Nat × String) : List (Nat × String) → List (Nat × String)
  | [] => [x]
  | y :: r => if x.1 < y.1 then x :: y :: r else if x.1 == y.1 then x :: r else y :: insertKV x r

/-- the directory as the model has it, in the harness's format; files whose Persist has not
returned are shown torn -/
def showState (s : State) : String :=
  let sn := s.disk.snaps.foldr (fun f acc =>
      insertKV (f.epoch, if f.complete then s!"{f.epoch}:c:{showList f.segs}" else s!"{f.epoch}:t") acc) []
  let infl : List Nat := s.mergeW ++ (match s.job with | some j => j.cur.toList | none => [])
  let sg0 := s.disk.segs.foldr (fun g acc => insertKV (g.1, if g.2 then s!"{g.1}:c" else s!"{g.1}:t") acc) []
  let sg := infl.foldr (fun x acc => insertKV (x, s!"{x}:t") acc) sg0
  "S[" ++ " ".intercalate (sn.map (·.2)) ++ "] G[" ++ " ".intercalate (sg.map (·.2)) ++ "]"

/-- the implementation's listing, parsed back: complete snapshots (epoch, segs), torn snapshot epochs,
complete segment ids -/
structure Listing where
  snaps : List (Nat × List Nat) := []
  torn : List Nat := []
  segs : List Nat := []
  ok : Bool := true

def parseListing (s : String) : Listing :=
  -- "S[a b c] G[d e]"
  match s.splitOn "] G[" with
  | [a, b] =>
      let a := (a.drop 2).toString
      let b := (b.dropEnd 1).toString
      let sn := (a.splitOn " ").filter (· != "")
      let sg := (b.splitOn " ").filter (· != "")
      let l0 : Listing := {}
      let l1 := sn.foldl (fun (l : Listing) w => match w.splitOn ":" with
        | [e, "c", segs] => match e.toNat?, parseList segs with
            | some e, some ss => { l with snaps := l.snaps ++ [(e, ss)] }
            | _, _ => { l with ok := false }
        | [e, "t"] => match e.toNat? with
            | some e => { l with torn := l.torn ++ [e] }
            | none => { l with ok := false }
        | _ => { l with ok := false }) l0
      sg.foldl (fun (l : Listing) w => match w.splitOn ":" with
        | [x, "c"] => match x.toNat? with
            | some x => { l with segs := l.segs ++ [x] }
            | none => { l with ok := false }
        | [_, "t"] => l
        | _ => { l with ok := false }) l1
  | _ => { ok := false }

/-- spec on a listing: snapshot `e` is there, complete, and every segment it names is there and complete -/
def Listing.loadable (l : Listing) (e : Nat) : Bool :=
  match l.snaps.find? (·.1 == e) with
  | some (_, ss) => ss.all l.segs.contains
  | none => false

structure DState where
  s : State := init 1
  n : Nat := 1
  sync : Bool := true
  obs : List Nat := []                 -- acknowledgements observed so far
  epochK : List (Nat × Nat) := []      -- epoch ↦ content, from the snapbegin lines
  commits : List Nat := []             -- commit events observed for the open writer
  images : Bool := true
  openKeepN : Bool := false            -- C02/C11 drivers: keepN at open time is judged against what was LOADABLE at `open`
  loadableAtOpen : List Nat := []

def kOf (d : DState) (e : Nat) : Option Nat := (d.epochK.find? (·.1 == e)).map (·.2)

/-- keepN evaluated on the implementation's listing -/
def keepNBad (d : DState) (l : Listing) : Option String :=
  let need := d.commits.drop (d.commits.length - d.n)
  match need.find? (fun e => !l.loadable e) with
  | some e => some s!"bad:keepN-epoch-{e}-not-loadable"
  | none => none

/-- the current root's file segments are all on disk (evaluated on the implementation's listing) -/
def rootBad (d : DState) (l : Listing) : Option String :=
  if d.sync && d.s.isOpen then
    match (rootFiles d.s).find? (fun x => !l.segs.contains x) with
    | some x => some s!"bad:root-segment-{x}-missing"
    | none => none
  else none

def durableFor (d : DState) (l : Listing) (c : Nat) : Bool :=
  l.snaps.any fun (e, _) => l.loadable e && (match kOf d e with | some k => decide (c ≤ k) | none => false)

inductive Act
  | ev (e : Event) (pre : State → Option String)   -- a model event with an extra agreement check on the pre-state
  | note                                              -- no model event
  | bad (msg : String)

def b? (s : String) : Option Bool := if s == "1" then some true else if s == "0" then some false else none

def parseOp (ws : List String) : Option Act :=
  match ws with
  | ["open"] => some (.ev .openWriter fun _ => none)
  | ["crash"] => some (.ev .crash fun _ => none)
  | ["intro", e, added, gone, safe, cb] => do
      let e ← e.toNat?; let a ← parseList added; let g ← parseList gone
      let safe ← b? safe; let cb ← b? cb
      let sid ← match a with | [] => some none | [x] => some (some x) | _ => none
      pure (.ev (.intro e sid g safe cb) fun _ => none)
  | ["imerge", e, gone, added] => do
      let e ← e.toNat?; let a ← parseList added; let g ← parseList gone
      let nw ← match a with | [] => some none | [x] => some (some x) | _ => none
      pure (.ev (.introMerge e g nw) fun _ => none)
  | ["ipersist", e] => do
      let e ← e.toNat?
      pure (.ev (.introPersist e) fun _ => none)
  | ["grab", e, x] => do
      let e ← e.toNat?; let x ← x.toNat?
      pure (.ev .persistGrab fun s =>
        if s.rootEpoch != e then some s!"grab-epoch model={s.rootEpoch}"
        else if s.waitAcks.length + s.waitCbs.length != x then some s!"grab-waiting model={s.waitAcks.length + s.waitCbs.length}"
        else none)
  | ["segbegin", sid] => do pure (.ev (.segBegin (← sid.toNat?)) fun _ => none)
  | ["msegbegin", sid] => do pure (.ev (.mergeSegBegin (← sid.toNat?)) fun _ => none)
  | ["segend", sid, ok, ex] => do pure (.ev (.segEnd (← sid.toNat?) (← b? ok) (← b? ex)) fun _ => none)
  | ["msegend", sid, ok, ex] => do pure (.ev (.mergeSegEnd (← sid.toNat?) (← b? ok) (← b? ex)) fun _ => none)
  | ["equiv", nw] => do
      let a ← parseList nw
      match a with
      | [x] => pure (.ev (.equiv x) fun _ => none)
      | _ => none
  | ["snapbegin", e, k, segs] => do
      let e ← e.toNat?; let k ← k.toNat?; let ss ← parseList segs
      pure (.ev .snapBegin fun s => match s.job with
        | some j => if j.epoch != e then some s!"snap-epoch model={j.epoch}"
                    else if j.k != k then some s!"snap-content model={j.k}"
                    else if j.segs != ss then some s!"snap-segments model={showList j.segs}"
                    else none
        | none => some "snap-without-grab")
  | ["snapend", e, ok, ex] => do
      let e ← e.toNat?
      pure (.ev (.snapEnd (← b? ok) (← b? ex)) fun s => match s.job with
        | some j => if j.epoch != e then some s!"snapend-epoch model={j.epoch}" else none
        | none => some "snapend-without-grab")
  | ["commit", e, segs] => do
      let e ← e.toNat?; let ss ← parseList segs
      pure (.ev .commit fun s => match s.job with
        | some j => if j.epoch != e then some s!"commit-epoch model={j.epoch}"
                    else if j.segs != ss then some s!"commit-segments model={showList j.segs}" else none
        | none => some "commit-without-grab")
  | ["ack", e] => do
      let e ← e.toNat?
      pure (.ev .ack fun s => match s.job with
        | some j => if j.epoch != e then some s!"ack-epoch model={j.epoch}" else none
        | none => some "ack-without-grab")
  | ["fault", "persister"] => some (.ev (.fault .persister) fun _ => none)
  | ["pfail", cl] => do pure (.ev (.persistFail (← b? cl)) fun _ => none)
  | ["ackobs", c] => do pure (.ev (.ackObs (← c.toNat?)) fun _ => none)
  | ["nackobs", _] => some .note
  | ["blocked", _] => some .note      -- closerace: the Batch call did not return within its bound: NOT an acknowledgement
  | ["closehung"] => some (.bad "bad:close-did-not-return")
  | ["closehung", _] => some (.bad "bad:close-did-not-return")
  | ["lockcheck", "locked"] => some (.bad "bad:lock-not-released-after-close-error")
  | ["rmsnap", e, ok] => do pure (.ev (.cleanupRemoveSnap (← e.toNat?) (← b? ok)) fun _ => none)
  | ["rmseg", sid, ok, _] => do pure (.ev (.cleanupRemoveSeg (← sid.toNat?) (← b? ok)) fun _ => none)
  | ["ropen", rid, k, segs] => do pure (.ev (.readerOpen (← rid.toNat?) (← k.toNat?) (← parseList segs)) fun _ => none)
  | ["rclose", rid] => do pure (.ev (.readerClose (← rid.toNat?)) fun _ => none)
  | ["second", _] => some (.ev .openWriter fun s => if s.lock then none else some "second-writer-on-unlocked-directory")
  | ["close", _] => some (.ev .closeWriter fun _ => none)
  | _ => none

def evName : Event → String
  | .intro _ sid dr _ _ => "intro" ++ (if sid.isNone then "-noseg" else "") ++ (if dr.isEmpty then "" else "-drop")
  | .introMerge _ _ nw => if nw.isNone then "imerge-skipped" else "imerge"
  | .introPersist _ => "ipersist"
  | .introFail _ => "introfail"
  | .persistGrab => "grab"
  | .segBegin _ => "segbegin"
  | .mergeSegBegin _ => "msegbegin"
  | .segEnd _ ok _ => if ok then "segend" else "segend-fail"
  | .mergeSegEnd _ ok _ => if ok then "msegend" else "msegend-fail"
  | .equiv _ => "equiv"
  | .snapBegin => "snapbegin"
  | .snapEnd ok _ => if ok then "snapend" else "snapend-fail"
  | .commit => "commit"
  | .ack => "ack"
  | .persistFail _ => "pfail"
  | .ackObs _ => "ackobs"
  | .cleanupRemoveSnap _ ok => if ok then "rmsnap" else "rmsnap-fail"
  | .cleanupRemoveSeg _ ok => if ok then "rmseg" else "rmseg-fail"
  | .readerOpen .. => "ropen"
  | .readerClose _ => "rclose"
  | .fault _ => "fault"
  | .crash => "crash"
  | .openWriter => "open"
  | .closeWriter => "close"

def answer (res verdict : String) (brs : List String) : String :=
  res ++ sep ++ verdict ++ (if brs.isEmpty then "" else " br=" ++ ",".intercalate brs)

/-- one line of the stream -/
def stepLine (d : DState) (op impl : String) : DState × String :=
  let ws := (op.splitOn " ").filter (· != "")
  match ws with
  | "case" :: _ :: rest =>
      let n := match rest.find? (·.startsWith "n=") with
        | some w => ((w.drop 2).toString.toNat?).getD 1
        | none => 1
      ({ s := init n, n := n, images := d.images }, answer "case" "na" [])
  | ["image", _] =>
      -- a crash image of the directory as it is now (files in flight torn or absent)
      let m := match d.s.disk.recoverK with | some k => s!"rec={k}" | none => "rec=none"
      let implK : Option Nat := if impl.startsWith "rec=" then (impl.drop 4).toString.toNat? else none
      let lost := d.obs.find? fun c => match implK with | some k => decide (k < c) | none => true
      let res := if d.sync then m else impl
      match lost with
      | some c => (d, answer res s!"bad:acked-batch-lost batch={c} image-recovers={(impl.drop 4).toString}" ["image"])
      | none =>
          if impl == "rec=fault" then (d, answer res "bad:assumption-decoder-total recovery-faults-on-crash-image" ["image"])
          else (d, answer res (if d.sync then "ok" else "na") ["image", if d.obs.isEmpty then "image-before-ack" else "image-after-ack"])
  | ["final", re] =>
      -- impl: acked=<list> handles=<loads>/<closes>/<double closes>
      let parts := impl.splitOn " "
      let loads := match parts.find? (·.startsWith "handles=") with
        | some w => ((w.drop 8).toString.splitOn "/").headD "0"
        | none => "0"
      let implHandles := (parts.find? (·.startsWith "handles=")).getD ""
      -- callers that never returned pin a root snapshot (prepareSegment's deferred root.Close()): no balance to check
      let blocked := (parts.find? (·.startsWith "blocked=")).getD ""
      let m := if blocked == "" then s!"acked={showList (sortDedup d.s.acked)} handles={loads}/{loads}/0"
               else s!"acked={showList (sortDedup d.s.acked)} {implHandles} {blocked}"
      if re != "reopened" then (d, answer m "bad:lock-not-released" ["final"])
      else if blocked == "" && implHandles != s!"handles={loads}/{loads}/0" then
        (d, answer m "bad:handles-not-released-exactly-once" ["final"])
      else (d, answer (if d.sync then m else impl) (if d.sync then "ok" else "na")
              ["final", if blocked == "" then "final-handles-balanced" else "final-with-blocked-callers"])
  | "opened" :: cs :: _ =>
      let l := parseListing impl
      let spec : Option String :=
        if d.openKeepN && l.ok && parseList cs != some d.loadableAtOpen then
          some s!"bad:open-commits-not-the-loadable-snapshots loadable={showList d.loadableAtOpen}"
        else none
      let d := if d.openKeepN then d else match parseList cs with | some c => { d with commits := c } | none => d
      let spec := match spec with
        | some b => some b
        | none => keepNBad d l
      if !d.sync then (d, answer impl (spec.getD "na") ["desync"]) else
      if some d.s.commits != parseList cs then ({ d with sync := false }, answer s!"REJECT:open-commits model={showList d.s.commits}" (spec.getD "ok") [])
      else match spec with
        | some b => (d, answer (showState d.s) b ["opened"])
        | none => (d, answer (showState d.s) "ok" ["opened", if d.s.commits.isEmpty then "open-empty" else "open-existing",
                      if l.torn.isEmpty then "open-clean" else "open-over-torn-snapshot"])
  | ["readerheld", rid, o, nd, mr] =>
      -- the writer is closed, reader `rid` is not: handles open / file segments the reader references / least reference count
      let num := fun (w : String) (k : Nat) => ((w.drop k).toString.toInt?).getD (-1)
      let opn := num o 5; let need := num nd 5; let minref := num mr 7
      let heldInModel := d.s.readers.any (fun r => some r.rid == rid.toNat?)
      let res := if d.sync then showState d.s else impl
      if opn < need || minref < 1 then
        (d, answer res s!"bad:handle-released-under-open-reader reader={rid} {o} {nd} {mr}" ["readerheld"])
      else if opn > need then (d, answer res s!"bad:handles-not-released-after-close {o} {nd}" ["readerheld"])
      else if d.sync && !heldInModel then (d, answer "REJECT:reader-not-open-in-model" "ok" [])
      else (d, answer res "ok" ["readerheld"])
  | ["readerquery", _, q] =>
      let res := if d.sync then showState d.s else impl
      if q == "ok" then (d, answer res "ok" ["readerquery"])
      else (d, answer res s!"bad:open-reader-unusable-after-writer-close {q}" ["readerquery"])
  | ["readerclosed", _, o, db] =>
      let res := if d.sync then showState d.s else impl
      if o == "open=0" && db == "dbl=0" then (d, answer res "ok" ["readerclosed"])
      else (d, answer res s!"bad:handles-not-released-exactly-once {o} {db}" ["readerclosed"])
  | "closeret" :: who :: lk :: hs :: _ =>
      -- a Close call returned; the harness probed the pid file lock and counted handles at that instant
      let hp := ((hs.drop 8).toString.splitOn "/")
      let balanced := match hp with | [a, b] => a == b | _ => false
      let spec : Option String :=
        if lk != "free" then some s!"bad:close-returned-before-close-finished caller={who} lock-still-held"
        else if !balanced then some s!"bad:close-returned-before-close-finished caller={who} handles-open {hs}"
        else none
      if !d.sync then (d, answer impl (spec.getD "na") ["desync"]) else
      (match closeReturned d.s with
       | none => ({ d with sync := false }, answer "REJECT:close-returned-while-writer-open"
                    (spec.getD s!"bad:close-returned-before-close-finished caller={who}") [])
       | some _ => (d, answer (showState d.s) (spec.getD "ok") ["closeret"]))
  | ["openfail"] =>
      if !d.sync then (d, answer impl "na" ["desync"]) else
      (match step d.s .openWriter with
       | none => (d, answer (showState d.s) "ok" ["openfail"])
       | some _ => ({ d with sync := false }, answer "REJECT:open-should-succeed" "ok" []))
  | _ =>
    match parseOp ws with
    | none => (d, answer "bad-op" "na" [])
    | some (.bad m) => (d, answer "bad-op" m [])
    | some .note => (d, answer (if d.sync then showState d.s else impl) "na" ["note"])
    | some (.ev ev pre) =>
        let l := parseListing impl
        -- specification checks on the implementation's own output
        let d := match ws with
          | ["ackobs", c] => { d with obs := d.obs ++ (c.toNat?).toList }
          | ["snapbegin", e, k, _] => match e.toNat?, k.toNat? with
              | some e, some k => { d with epochK := (e, k) :: d.epochK.filter (·.1 != e) }
              | _, _ => d
          | ["commit", e, _] => { d with commits := d.commits ++ (e.toNat?).toList }
          | ["open"] =>
              -- loadSnapshots must commit exactly the loadable snapshots of this listing, oldest first
              let ld := (l.snaps.map (·.1)).filter l.loadable
              if d.openKeepN then { d with commits := ld, loadableAtOpen := ld } else { d with commits := [] }
          | _ => d
        let spec : Option String :=
          match ws with
          | ["ackobs", c] => (match c.toNat? with
              | some c => if durableFor d l c then none else some s!"bad:ack-without-durable-snapshot batch={c}"
              | none => none)
          | ["rmseg", _, "1", "held=1"] => some "bad:segment-removed-under-open-reader"
          | ["second", "opened"] => some "bad:second-writer-not-refused"
          | ["segend", _, "1", "0"] => some "bad:assumption-persist-exact segment"
          | ["msegend", _, "1", "0"] => some "bad:assumption-persist-exact segment"
          | ["snapend", _, "1", "0"] => some "bad:assumption-persist-exact snapshot"
          | _ => none
        let spec := match spec with
          | some b => some b
          | none => if !l.ok then none else match keepNBad d l with
              | some b => some b
              | none => none
        if !d.sync then (d, answer impl (spec.getD "na") ["desync"]) else
        match pre d.s with
        | some why => ({ d with sync := false }, answer s!"REJECT:{why}" (spec.getD "ok") [])
        | none =>
          match step d.s ev with
          | none => ({ d with sync := false }, answer s!"REJECT:not-enabled:{evName ev}" (spec.getD "ok") [])
          | some s' =>
              let d := { d with s := s' }
              let spec := match spec with
                | some b => some b
                | none => if l.ok then rootBad d l else none
              (d, answer (showState s') (spec.getD "ok") [evName ev])

def driverStep (images : Bool) (d : DState) (op impl : String) : DState × String :=
  stepLine { d with images := images, openKeepN := true } op impl

end Bluge.Persist.Drv

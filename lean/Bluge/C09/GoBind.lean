import Bluge.TopN
/-! # Bindings of the Go names the translated comparator (`BlugeGen.C09`, written by `go/extract/c09tr.go`) refers to

Core Lean only. These are the TRUSTED readings of library functions and types that the translator does not translate:
`bytes.Compare` (its `int` result), and `search.sortFirstLast` (two `*bool`, `nil` = `none`). -/
namespace Bluge.TopN

/-- the `int` an `Ordering` stands for (`bytes.Compare`, `SortOrder.Compare`: -1, 0, +1) -/
def Ordering.toInt : Ordering → Int
  | .lt => -1
  | .eq => 0
  | .gt => 1

/-- Go `bytes.Compare(a, b)`: -1, 0, +1 by lexicographic order (`bytesCmp`) -/
def bytesCompare (a b : Bytes) : Int := Ordering.toInt (bytesCmp a b)

/-- `search.sortFirstLast`: `desc *bool`, `first *bool` (`none` = nil pointer) -/
structure FirstLast where
  desc : Option Bool
  first : Option Bool
deriving DecidableEq, Repr

/-- what `SortBy` / `SortOrder.Copy` bind: `&sortFirstLast{desc: &s.desc, first: &s.missingFirst}` -/
def FirstLast.of (s : SortKey) : FirstLast := ⟨some s.desc, some s.missingFirst⟩

end Bluge.TopN

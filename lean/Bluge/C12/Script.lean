/-! # Bluge.Codec.Script — the call scripts the model `Bluge.Codec` is a transcription of

`go/extract/c12.go` renders every statement of the codec functions of /repo's working tree, in source
order, as one normalised line per statement (`BlugeGen.C12.writeTo`, `.recordSegment`, … — regenerated on
every run of `./check C12`).  This file holds, for each of those functions, the script the hand-written
model `Bluge.Codec` was transcribed from, annotated line by line with the model definition that carries it.
`BlugeProofs.C12` proves `BlugeGen.C12.<f> = Bluge.Codec.Script.<f> …` (closed terms: `decide`/`rfl`), so a
swapped pair of fields, a dropped version, another byte order, another `Peek` length, a `Read` where the
model has `io.ReadFull`, a byte count taken from another variable — each changes a generated line and breaks
an obligation at `lake build`, whether or not the random round trips would have noticed.

Normalisation (see go/extract/c12.go): `:=`/`=` both `=`; `var x T` dropped; integer constants of package
index replaced by their value (`blugeSnapshotFormatVersion` → `1`, `crcWidth` → `4`, `readNChunk` → `4096`);
`fmt.Errorf(…)` → `error`; `if err != nil { return …err… }` after the statement that set `err` → suffix ` ?`
(` ?eof-ok` for `err != nil && err != io.EOF`; statements of the branch before its return: ` ?[…]`).

Where the model has a configuration switch (`Cfg`) the table takes the switch as an argument: the `false`
table is the code as pinned, the `true` table the repaired code, and the obligation is stated for the value
the extractor reads off the same source (`BlugeGen.C12.boundedReads`, `.uintLoop`, `.crcCopy`,
`.lengthChecked`). -/
namespace Bluge.Codec.Script

/-! ## encoder -/

/-- `(*Snapshot).WriteTo` — model: `encFile` / `encBody` -/
def writeTo : List String := [
  "func Snapshot.WriteTo(w io.Writer, _ chan struct{}) (int64, error)",
  -- ASSUMPTIONS "bufio.Writer + countHashWriter are transparent": the file is the concatenation of the Writes
  "bw = bufio.NewWriter(w)",
  "chw = newCountHashWriter(bw)",
  "intBuf = make([]byte, binary.MaxVarintLen64)",
  -- encBody: `putUvarint 1 ++`
  "n = binary.PutUvarint(intBuf, uint64(1))",
  "sz, err = chw.Write(intBuf[:n]) ?",
  "bytesWritten += int64(sz)",
  -- encBody: `putUvarint segs.length ++`
  "n = binary.PutUvarint(intBuf, uint64(len(i.segment)))",
  "sz, err = chw.Write(intBuf[:n]) ?",
  "bytesWritten += int64(sz)",
  -- encBody: `(segs.map (encSeg ro)).flatten` — id, typ, ver of `Seg` are the three arguments
  "for _, segmentSnapshot = range i.segment {",
  "  sz, err = recordSegment(chw, segmentSnapshot, segmentSnapshot.id, segmentSnapshot.segment.Type(), segmentSnapshot.segment.Version()) ?",
  "  bytesWritten += int64(sz)",
  "}",
  -- encFile: `b ++ be32 (crc32 b)` — the hash writer has seen exactly the body `b` at this point
  "crc32 = chw.Sum32()",
  "binary.BigEndian.PutUint32(intBuf, crc32)",
  "sz, err = chw.Write(intBuf[:4]) ?",
  "bytesWritten += int64(sz)",
  "err = bw.Flush() ?",
  "return bytesWritten, nil"]

/-- `recordSegment` — model: `encSeg` -/
def recordSegment : List String := [
  "func recordSegment(w io.Writer, snapshot *segmentSnapshot, id uint64, typ string, ver uint32) (int, error)",
  "intBuf = make([]byte, binary.MaxVarintLen64)",
  -- encSeg: `encStr s.typ ++`
  "sz, err = writeVarLenString(w, intBuf, typ) ?",
  "bytesWritten += sz",
  -- encSeg: `be32 s.ver ++` (big endian, 4 bytes)
  "binary.BigEndian.PutUint32(intBuf, ver)",
  "sz, err = w.Write(intBuf[:4]) ?",
  "bytesWritten += sz",
  -- encSeg: `putUvarint s.id.toNat ++`
  "n = binary.PutUvarint(intBuf, id)",
  "sz, err = w.Write(intBuf[:n]) ?",
  "bytesWritten += sz",
  -- encSeg: `match s.deleted with | some d => putUvarint (ro.enc d).length ++ ro.enc d`
  "if snapshot.deleted != nil {",
  "  deletedBytes, err = snapshot.deleted.ToBytes() ?",
  "  n = binary.PutUvarint(intBuf, uint64(len(deletedBytes)))",
  "  sz, err = w.Write(intBuf[:n]) ?",
  "  bytesWritten += sz",
  "  sz, err = w.Write(deletedBytes) ?",
  "  bytesWritten += sz",
  -- encSeg: `| none => putUvarint 0`
  "} else {",
  "  n = binary.PutUvarint(intBuf, 0)",
  "  sz, err = w.Write(intBuf[:n]) ?",
  "  bytesWritten += sz",
  "}",
  "return bytesWritten, nil"]

/-- `writeVarLenString` — model: `encStr s = putUvarint s.length ++ s` -/
def writeVarLenString : List String := [
  "func writeVarLenString(w io.Writer, intBuf []byte, str string) (int, error)",
  "n = binary.PutUvarint(intBuf, uint64(len(str)))",
  "sz, err = w.Write(intBuf[:n]) ?",
  "bytesWritten += sz",
  "sz, err = w.Write([]byte(str)) ?",
  "bytesWritten += sz",
  "return bytesWritten, nil"]

/-- `(*countHashWriter).Write` — model: transparent; `Sum32` after the body = `crc32 body` (`crcUpdate_append`) -/
def countHashWriterWrite : List String := [
  "func countHashWriter.Write(b []byte) (int, error)",
  "n, err = c.w.Write(b)",
  "c.crc = crc32.Update(c.crc, crc32.IEEETable, b[:n])",
  "c.n += n",
  "return n, err"]

/-! ## decoder -/

/-- `(*Snapshot).ReadFrom` — model: `readFromRd` -/
def readFrom (lengthChecked : Bool) : List String := [
  "func Snapshot.ReadFrom(r io.Reader) (int64, error)",
  -- readFrom: the reader state starts as `{}` (empty 4096-byte buffer)
  "br = bufio.NewReader(r)",
  -- readFromRd: `let (v, n0, r) ← peekUvarintC cfg inp false r` (false = io.EOF from Peek tolerated)
  "peek, err = br.Peek(binary.MaxVarintLen64) ?eof-ok",
  "snapshotFormatVersion, n = binary.Uvarint(peek)"] ++
  -- peekUvarintC: `else if cfg.lengthChecked && n == 0 then error .eof` (n < 0 is an error either way)
  (if lengthChecked then [
  "if n <= 0 {",
  "  return bytesRead, error",
  "}"] else []) ++ [
  "sz, err = br.Discard(n) ?",
  "bytesRead += int64(sz)",
  -- readFromRd: `if v = 1 then … ok (ss, n0 + n1 + m, r)`
  "if snapshotFormatVersion == 1 {",
  "  n, err = i.readFromVersion1(br)",
  "  return n + bytesRead, err",
  "}",
  -- readFromRd: `else error .version`
  "return bytesRead, error"]

/-- `readFromVersion1` — model: second `peekUvarint` of `readFromRd`, `loopCount`, `readSegments` -/
def readFromVersion1 (uintLoop lengthChecked : Bool) : List String := [
  "func Snapshot.readFromVersion1(br *bufio.Reader) (int64, error)",
  -- readFromRd: `let (numSegments, n1, r) ← peekUvarintC cfg inp false r`
  "peek, err = br.Peek(binary.MaxVarintLen64) ?eof-ok",
  "numSegments, n = binary.Uvarint(peek)"] ++
  (if lengthChecked then [
  "if n <= 0 {",
  "  return bytesRead, error",
  "}"] else []) ++ [
  "sz, err = br.Discard(n) ?",
  "bytesRead += int64(sz)",
  -- loopCount cfg numSegments: uint64 counter (all of it) / `int(numSegments)` (nothing when ≥ 2^63)
  (if uintLoop then "for j = uint64(0); j < numSegments; j++ {" else "for j = 0; j < int(numSegments); j++ {"),
  -- readSegments: `let (s, n, r) ← readSegment …; … ok (s :: ss, n + m, r)` — first error ends the loop
  "  segmentBytesRead, ss, err = i.readSegmentSnapshot(br) ?",
  "  bytesRead += segmentBytesRead",
  "  i.segment = append(i.segment, ss)",
  "}",
  "return bytesRead, nil"]

/-- `readSegmentSnapshot` — model: `readSegment` (`readDelBytes` for the deleted bytes) -/
def readSegmentSnapshot (bounded lengthChecked : Bool) : List String := [
  "func Snapshot.readSegmentSnapshot(br *bufio.Reader) (bytesRead int64, ss *segmentSnapshot, err error)",
  -- readSegment: `let (typ, n1, r) ← readVarLenString cfg inp lim r`
  "sz, segmentType, err = readVarLenString(br) ?",
  "bytesRead += int64(sz)",
  -- readSegment: 4 version bytes — pinned: ONE `Read` (`read inp 4 r`); repaired: `readFull inp 4 r`
  "verBuf = make([]byte, 4)",
  (if bounded then "sz, err = io.ReadFull(br, verBuf) ?" else "sz, err = br.Read(verBuf) ?"),
  -- readSegment: `let ver := be32get vb` (big endian), `… + vb.length + …`
  "segmentVersion = binary.BigEndian.Uint32(verBuf)",
  "bytesRead += int64(sz)",
  -- readSegment: `let (id, n3, r) ← peekUvarintC cfg inp false r`
  "peekSegmentID, err = br.Peek(binary.MaxVarintLen64) ?eof-ok",
  "segmentID, n = binary.Uvarint(peekSegmentID)"] ++
  (if lengthChecked then [
  "if n <= 0 {",
  "  return bytesRead, nil, error",
  "}"] else []) ++ [
  "sz, err = br.Discard(n) ?",
  "bytesRead += int64(sz)",
  -- readSegment: `{ id := BitVec.ofNat 64 id, typ := typ, ver := ver, deleted := … }`
  "ss = &segmentSnapshot{id: segmentID, segmentType: segmentType, segmentVersion: segmentVersion}",
  -- readSegment: `let (delLen, n4, r) ← peekUvarintC cfg inp false r`
  "peek, err = br.Peek(binary.MaxVarintLen64) ?eof-ok",
  "delLen, n = binary.Uvarint(peek)"] ++
  (if lengthChecked then [
  "if n <= 0 {",
  "  return bytesRead, nil, error",
  "}"] else []) ++ [
  "sz, err = br.Discard(n) ?",
  "bytesRead += int64(sz)",
  -- readSegment: `if delLen > 0 then … else ok (… deleted := none …)`
  "if delLen > 0 {"] ++
  -- readDelBytes: pinned `makeBytes .del lim n r` then `readFull inp n r`; repaired `readChunked` (= readN)
  (if bounded then [
  "  deletedBytes, err = readN(br, delLen) ?",
  "  bytesRead += int64(len(deletedBytes))"]
  else [
  "  deletedBytes = make([]byte, int(delLen))",
  "  sz, err = io.ReadFull(br, deletedBytes) ?",
  "  bytesRead += int64(sz)"]) ++ [
  -- readSegment: `match ro.dec db with | none => error .roaring | some d => … if ro.isEmpty d then none else some d`
  "  rr = bytes.NewReader(deletedBytes)",
  "  deletedBitmap = roaring.NewBitmap()",
  "  _, err = deletedBitmap.ReadFrom(rr) ?",
  "  if !deletedBitmap.IsEmpty() {",
  "    ss.deleted = deletedBitmap",
  "  }",
  "}",
  "return bytesRead, ss, nil"]

/-- `readVarLenString` — model: `readVarLenString` (`peekUvarint inp (!cfg.boundedReads)`, `readStrBytes`) -/
def readVarLenString (bounded lengthChecked : Bool) : List String := [
  "func readVarLenString(r *bufio.Reader) (n int, str string, err error)",
  -- peekUvarintC with strict = !boundedReads: the pinned code treats io.EOF from Peek as an error here
  (if bounded then "peek, err = r.Peek(binary.MaxVarintLen64) ?eof-ok" else "peek, err = r.Peek(binary.MaxVarintLen64) ?"),
  "strLen, uVarRead = binary.Uvarint(peek)"] ++
  (if lengthChecked then [
  "if uVarRead <= 0 {",
  "  return n, \"\", error",
  "}"] else []) ++ [
  "sz, err = r.Discard(uVarRead) ?",
  "n += sz"] ++
  -- readStrBytes: pinned `makeBytes .str lim n r` then ONE `read inp n r` (short reads keep the zero tail,
  -- only the bytes read are counted); repaired `readChunked` (= readN), `bs.length` counted
  (if bounded then [
  "strBytes, err = readN(r, strLen) ?",
  "n += len(strBytes)"]
  else [
  "strBytes = make([]byte, strLen)",
  "sz, err = r.Read(strBytes) ?",
  "n += sz"]) ++ [
  "return n, string(strBytes), nil"]

/-- `readN` (exists only in the repaired code) — model: `readChunked`, `bufSize = 4096` steps of `readFull` -/
def readN (bounded : Bool) : List String :=
  if bounded then [
  "func readN(r io.Reader, n uint64) ([]byte, error)",
  -- readChunked: `if need = 0 then (some acc, r)`
  "for n > 0 {",
  -- readChunked: `let step := min need bufSize`
  "  step = n",
  "  if step > 4096 {",
  "    step = 4096",
  "  }",
  -- readChunked: `match readFull inp step r with | (none, r) => (none, r) | (some bs, r) => … (acc ++ bs)`
  "  start = len(rv)",
  "  rv = append(rv, make([]byte, step)...)",
  "  _, err = io.ReadFull(r, rv[start:]) ?",
  -- readChunked: `(need - step)`
  "  n -= step",
  "}",
  "return rv, nil"]
  else []

/-- `(*countHashReader).Read` — model: `Rd.pos` counts what the underlying reader handed out; the CRC is
`crc32 (inp.take pos)` — of the bytes PULLED by bufio, not of the bytes the decoder consumed -/
def countHashReaderRead : List String := [
  "func countHashReader.Read(p []byte) (n int, err error)",
  "n, err = c.r.Read(p)",
  "c.n += n",
  "c.crc = crc32.Update(c.crc, crc32.IEEETable, p[:n])",
  "return n, err"]

/-! ## loader -/

/-- `(*Writer).loadSnapshot` — model: `loadSnapshot` (through the CRC comparison), `loadSegments` (the rest) -/
def loadSnapshot (crcCopy lengthChecked : Bool) : List String := [
  "func Writer.loadSnapshot(epoch uint64) (*Snapshot, error)",
  "snapshot = &Snapshot{parent: s, epoch: epoch, refs: 1, creator: \"loadSnapshot\"}",
  "data, closer, err = s.directory.Load(ItemKindSnapshot, epoch) ?",
  -- bodyOf: `file.take (file.length - 4)` (a negative limit reads as empty)
  "dataReader = io.LimitReader(data.Reader(), int64(data.Len() - 4))",
  -- the harness runs with ValidateSnapshotCRC = true (the default)
  "if s.config.ValidateSnapshotCRC {",
  "  crcReader = newCountHashReader(dataReader)",
  "  dataReader = crcReader",
  "}",
  -- loadSnapshot: `match readFrom ro cfg body with | error e => error e …`
  (if lengthChecked then "bytesRead, err = snapshot.ReadFrom(dataReader) ?[if closer != nil { _ = closer.Close() }]"
   else "_, err = snapshot.ReadFrom(dataReader) ?[if closer != nil { _ = closer.Close() }]")] ++
  -- loadSnapshot: `if cfg.lengthChecked && n != body.length then error .length` (body = all but the 4 CRC bytes)
  (if lengthChecked then [
  "if bytesRead != int64(data.Len() - 4) {",
  "  if closer != nil {",
  "    _ = closer.Close()",
  "  }",
  "  return nil, error",
  "}"] else []) ++ [
  "if crcReader != nil {",
  -- loadSnapshot: `let computed := be32 (crc32 (body.take r.pos))`
  "  computedCRCBytes = make([]byte, 4)",
  "  binary.BigEndian.PutUint32(computedCRCBytes, crcReader.Sum32())",
  -- trailerOf: `file.drop (file.length - 4)`; `file.length < 4` → the slice bounds are negative (`.panic .crcBytes`)
  "  fileCRCBytes, err = data.Read(data.Len() - 4, data.Len()) ?[if closer != nil { _ = closer.Close() }]"] ++
  -- cfg.crcCopy: the 4 bytes are copied out of the mapping before anything closes it
  (if crcCopy then [
  "  fileCRCBytes = append([]byte(nil), fileCRCBytes...)"] else []) ++ [
  -- loadSnapshot: `if computed = trailerOf file then ok ss else if mmap && !cfg.crcCopy then fault .crcBytes else error .crc`
  -- (close, i.e. unmap, FIRST — then the error message formats computedCRCBytes and fileCRCBytes)
  "  if !bytes.Equal(computedCRCBytes, fileCRCBytes) {",
  "    if closer != nil {",
  "      _ = closer.Close()",
  "    }",
  "    return nil, error",
  "  }",
  "}",
  "if closer != nil {",
  "  err = closer.Close() ?",
  "}",
  -- (not in the codec model: on a failure below, the segments loaded so far are released — handles are C04/C11's)
  "closeLoaded = func() {",
  "  for _, loaded = range snapshot.segment {",
  "    if loaded.segment != nil {",
  "      _ = loaded.segment.Close()",
  "    }",
  "  }",
  "}",
  -- loadSegments: plugin first (`error .plugin`), then the segment file (`error .segment`), in snapshot order
  "for _, segSnapshot = range snapshot.segment {",
  "  segPlugin, err = loadSegmentPlugin(s.config.supportedSegmentPlugins, segSnapshot.segmentType, segSnapshot.segmentVersion) ?[closeLoaded()]",
  "  seg, err = s.loadSegment(segSnapshot.id, segPlugin) ?[closeLoaded()]",
  "  segSnapshot.segment = seg",
  "  snapshot.offsets = append(snapshot.offsets, running)",
  "  running += segSnapshot.segment.Count()",
  "}",
  "return snapshot, nil"]

/-- `(*Writer).loadSnapshots` — model: `writerWalk` / `openWriterSnap` (the writer's fallback: oldest → newest,
an error moves on, the LAST snapshot that loads is the root; failure only when files exist and none loads) -/
def loadSnapshots : List String := [
  "func Writer.loadSnapshots() (lastPersistedEpoch, nextSnapshotEpoch uint64, err error)",
  "nextSnapshotEpoch = 1",
  -- the listing is descending (`FileSystemDirectory.List`: C03's `listDescending`) …
  "snapshotEpochs, err = s.directory.List(ItemKindSnapshot) ?",
  -- … so this walks oldest → newest: `writerWalk` over the files oldest first
  "for i = len(snapshotEpochs) - 1; i >= 0; i-- {",
  "  snapshotEpoch = snapshotEpochs[i]",
  "  snapshotsFound = true",
  -- writerWalk: `match loadFull … f with`
  "  indexSnapshot, err = s.loadSnapshot(snapshotEpoch)",
  -- writerWalk: `| error _ => writerWalk … rest (i + 1) acc` — the accumulated result is kept
  "  if err != nil {",
  "    log.Printf(\"error loading snapshot epoch: %d: %v\", snapshotEpoch, err)",
  "    continue",
  "  }",
  -- writerWalk: `| ok ss => writerWalk … rest (i + 1) (some (i, ss))` — a later snapshot replaces an earlier one
  "  snapshotLoaded = true",
  "  lastPersistedEpoch = indexSnapshot.epoch",
  "  nextSnapshotEpoch = indexSnapshot.epoch + 1",
  "  s.deletionPolicy.Commit(indexSnapshot)",
  "  atomic.StoreUint64(&s.stats.TotFileSegmentsAtRoot, uint64(len(indexSnapshot.segment)))",
  "  s.replaceRoot(indexSnapshot, nil, nil)",
  "}",
  -- openWriterSnap: `| ok none => if files.isEmpty then ok none else error .noSnapshot`
  "if snapshotsFound && !snapshotLoaded {",
  "  return 0, 0, error",
  "}",
  -- openWriterSnap: `| ok (some x) => ok (some x)` — NOT the outcome of the last file looked at: `err` is the named
  -- result and still holds the newest file's error here, the function must return nil
  "return lastPersistedEpoch, nextSnapshotEpoch, nil"]

end Bluge.Codec.Script

import Bluge.Basic
/-! # Model of bluge's top-N collector, sort comparator and paging (property C09)

Transcribed from (pinned tree)
* `search/sort.go`        : `SortOrder.Compare`, `SortOrder.Reverse`, `SortOrder.Copy`, `sortFirstLast.Value`,
                            `lowTerm`, `highTerm`
* `search/collector/slice.go`, `heap.go` : the two stores
* `search/collector/topn.go` : `newTopNCollector` (store switch at `size+skip > 10`), `collectSingle`
                            (search-after filter, lowest-match-outside-results shortcut, `AddNotExceedingSize`),
                            `finalizeResults` (`Final(skip)`, reversal for search-before)
* `search.go`             : `TopNSearch.After/Before/Collector()`

Core Lean only.  Specifications (`sort`, `topSpec`, `afterSpec`, `beforeSpec`, `blocks`, `blocksBack`) are in
this file too; the theorems are in `BlugeProofs/C09.lean`. -/
namespace Bluge.TopN

abbrev Byte := BitVec 8
abbrev Bytes := List Byte

/-! ## The comparator -/

/-- Go `bytes.Compare` -/
def bytesCmp : Bytes → Bytes → Ordering
  | [], [] => .eq
  | [], _ :: _ => .lt
  | _ :: _, [] => .gt
  | a :: as, b :: bs => if a < b then .lt else if b < a then .gt else bytesCmp as bs

/-- `search.Sort` (named `SortKey`: `Sort` is a Lean keyword) without its value source: the two flags `Reverse` flips -/
structure SortKey where
  desc : Bool
  missingFirst : Bool
deriving DecidableEq, Repr

abbrev SortOrder := List SortKey

/-- `search.DocumentMatch` as the collector sees it: the hit number given by `Collect` and the
sort value computed by `SortOrder.Compute` (one byte string per sort key) -/
structure Match where
  hitNumber : Nat
  keys : List Bytes
deriving DecidableEq, Repr

/-- the loop of `SortOrder.Compare`: first key that differs decides, `desc` flips.
(`keys[x]` beyond the end is read as the empty string here; the Go code panics there, see `cmpPanics`.) -/
def cmpKeys : SortOrder → List Bytes → List Bytes → Ordering
  | [], _, _ => .eq
  | s :: so, ka, kb =>
    match bytesCmp (ka.headD []) (kb.headD []) with
    | .eq => cmpKeys so ka.tail kb.tail
    | c => if s.desc then c.swap else c

/-- `SortOrder.Compare`: keys, then "impose order based on index natural sort order" -/
def cmpMatch (so : SortOrder) (i j : Match) : Ordering :=
  match cmpKeys so i.keys j.keys with
  | .eq => if i.hitNumber = j.hitNumber then .eq else if i.hitNumber > j.hitNumber then .gt else .lt
  | c => c

/-- would `SortOrder.Compare` index `SortValue[x]` out of range? (reached only when all earlier keys tie) -/
def cmpPanics : SortOrder → List Bytes → List Bytes → Bool
  | [], _, _ => false
  | _ :: so, a :: ka, b :: kb => if bytesCmp a b = .eq then cmpPanics so ka kb else false
  | _ :: _, _, _ => true

/-- `cmpMatch so a b < 0` -/
abbrev lt (so : SortOrder) (a b : Match) : Prop := cmpMatch so a b = .lt

/-- `SortOrder.Reverse` on values -/
def SortKey.reverse (s : SortKey) : SortKey := { desc := !s.desc, missingFirst := !s.missingFirst }
def reverseOrder (so : SortOrder) : SortOrder := so.map SortKey.reverse

/-! ## Missing values (`sortFirstLast.Value`) -/

def lowTerm : Bytes := [0x00#8]
def highTerm : Bytes := List.replicate 10 0xff#8

/-- `sortFirstLast.Value` (both pointers are always non-nil: `SortBy` binds them) -/
def missingValue (s : SortKey) : Bytes :=
  if s.desc && s.missingFirst then highTerm
  else if s.desc then lowTerm
  else if s.missingFirst then lowTerm
  else highTerm

/-- `MissingTextValueSource.Value`: the primary value, or the replacement when it is nil -/
def keyOf (s : SortKey) (v : Option Bytes) : Bytes := v.getD (missingValue s)

/-- a present sort value is strictly between the two replacements (bytewise): the exact condition under
which `lowTerm` / `highTerm` do their job (`missing_first_last`) -/
def keyInRange (v : Bytes) : Bool := bytesCmp lowTerm v == .lt && bytesCmp v highTerm == .lt

/-- PROPERTY-level order of one sort key ("missing values placed first or last as requested"): a missing
value (`none`) goes before / after every present one as `missingFirst` says, whatever `desc`; two present
values in byte order, `desc` flips; no replacement bytes involved -/
def cmpProp1 (s : SortKey) : Option Bytes → Option Bytes → Ordering
  | none, none => .eq
  | none, some _ => if s.missingFirst then .lt else .gt
  | some _, none => if s.missingFirst then .gt else .lt
  | some a, some b => if s.desc then (bytesCmp a b).swap else bytesCmp a b

/-- PROPERTY-level order of whole sort values: first key that differs decides -/
def cmpPropKeys : SortOrder → List (Option Bytes) → List (Option Bytes) → Ordering
  | [], _, _ => .eq
  | s :: so, ka, kb =>
    match cmpProp1 s (ka.headD none) (kb.headD none) with
    | .eq => cmpPropKeys so ka.tail kb.tail
    | c => c

/-! ## Specification: the full ranking and its slices -/

/-- ordered insertion -/
def insert (so : SortOrder) (d : Match) : List Match → List Match
  | [] => [d]
  | x :: xs => if cmpMatch so d x = .lt then d :: x :: xs else x :: insert so d xs

/-- the complete match list ordered by the sort keys, ties broken by hit number (insertion sort) -/
def sort (so : SortOrder) : List Match → List Match
  | [] => []
  | x :: xs => insert so x (sort so xs)

/-- SPEC of a top-N search: elements `[from, from+n)` of the full ranking -/
def topSpec (so : SortOrder) (n from_ : Nat) (ms : List Match) : List Match :=
  ((sort so ms).drop from_).take n

/-- SPEC of search-after: of the full ranking, the matches whose keys are strictly after `key`, first `n` -/
def afterSpec (so : SortOrder) (n : Nat) (key : List Bytes) (ms : List Match) : List Match :=
  ((sort so ms).filter fun d => cmpKeys so d.keys key = .gt).take n

/-- the last `n` elements -/
def lastN (n : Nat) (l : List α) : List α := l.drop (l.length - n)

/-- SPEC of search-before: of the full ranking, the matches whose keys are strictly before `key`, last `n` -/
def beforeSpec (so : SortOrder) (n : Nat) (key : List Bytes) (ms : List Match) : List Match :=
  lastN n ((sort so ms).filter fun d => cmpKeys so d.keys key = .lt)

/-- consecutive blocks of `n` from the front (`fuel` bounds the number of blocks) -/
def blocks (n : Nat) : Nat → List α → List (List α)
  | 0, _ => []
  | f + 1, l => if l.isEmpty then [] else l.take n :: blocks n f (l.drop n)

/-- consecutive blocks of `n` from the back, last block first -/
def blocksBack (n : Nat) : Nat → List α → List (List α)
  | 0, _ => []
  | f + 1, l => if l.isEmpty then [] else lastN n l :: blocksBack n f (l.take (l.length - n))

/-- the sort order distinguishes all matches -/
def KeysDistinct (so : SortOrder) (ms : List Match) : Prop :=
  ms.Pairwise fun a b => cmpKeys so a.keys b.keys ≠ .eq

instance (so : SortOrder) (ms : List Match) : Decidable (KeysDistinct so ms) := by
  unfold KeysDistinct; infer_instance

/-- hit numbers are pairwise different (true of everything `Collect` numbers) -/
def HitsDistinct (ms : List Match) : Prop := ms.Pairwise fun a b => a.hitNumber ≠ b.hitNumber

instance (ms : List Match) : Decidable (HitsDistinct ms) := by unfold HitsDistinct; infer_instance

/-! ## The two stores -/

/-- the loop of `collectStoreSlice.add`, walking the slice from its END (the argument is the slice
reversed, last element first):
`i := len; for ; i > 0; i-- { if compare(doc, slice[i-1]) >= 0 { break } }; insert at i` -/
def insRev (so : SortOrder) (d : Match) : List Match → List Match
  | [] => [d]
  | x :: r => if cmpMatch so d x ≠ .lt then d :: x :: r else x :: insRev so d r

/-- `collectStoreSlice.add` -/
def sliceAdd (so : SortOrder) (d : Match) (s : List Match) : List Match :=
  (insRev so d s.reverse).reverse

/-- the maximum under `cmpMatch` = what `container/heap` pops with `Less(i,j) := cmpMatch(i,j) > 0` -/
def maxOf (so : SortOrder) : List Match → Option Match
  | [] => none
  | x :: xs => match maxOf so xs with
    | none => some x
    | some m => if cmpMatch so x m = .gt then some x else some m

/-- `heap.Pop`: remove and return the root.  The heap is modelled as a priority queue (a bag kept as a
list); the array layout of `container/heap` is not modelled (assumption, see checks/c09.py). -/
def heapPop (so : SortOrder) (h : List Match) : Option (Match × List Match) :=
  (maxOf so h).map fun m => (m, h.erase m)

/-- pop `k` times; popped elements in pop order -/
def popN (so : SortOrder) : Nat → List Match → List Match
  | 0, _ => []
  | k + 1, h => match heapPop so h with
    | none => []
    | some (m, h') => m :: popN so k h'

inductive StoreKind | slice | heap
deriving DecidableEq, Repr

/-- a collector store: `slice` keeps its elements in ascending order, `heap` is a bag -/
structure Store where
  kind : StoreKind
  items : List Match
deriving DecidableEq, Repr

/-- `AddNotExceedingSize(doc, size)`: add, and when the store is now larger than `size` remove and
return the last (largest) element -/
def Store.addNotExceedingSize (so : SortOrder) (st : Store) (d : Match) (size : Nat) : Store × Option Match :=
  match st.kind with
  | .slice =>
    let s := sliceAdd so d st.items
    if s.length > size then ({ st with items := s.dropLast }, s.getLast?) else ({ st with items := s }, none)
  | .heap =>
    let h := d :: st.items
    if h.length > size then
      match heapPop so h with
      | some (m, h') => ({ st with items := h' }, some m)
      | none => ({ st with items := h }, none)
    else ({ st with items := h }, none)

/-- `Final(skip)`: slice: `slice[skip:]` (empty when `skip > len`); heap: pop `count - skip` elements,
filling the result from the back -/
def Store.final (so : SortOrder) (st : Store) (skip : Nat) : List Match :=
  match st.kind with
  | .slice => st.items.drop skip
  | .heap => (popN so (st.items.length - skip) st.items).reverse

/-! ## The collector -/

structure Coll where
  size : Nat
  skip : Nat
  so : SortOrder
  reverse : Bool
  store : Store
  lowest : Option Match            -- lowestMatchOutsideResults
  searchAfter : Option (List Bytes)
deriving Repr

def switchFromSliceToHeap : Nat := 10

/-- `newTopNCollector`'s choice of store -/
def storeKindFor (size skip : Nat) : StoreKind :=
  if size + skip > switchFromSliceToHeap then .heap else .slice

def Coll.new (kind : StoreKind) (size skip : Nat) (so : SortOrder) (reverse : Bool)
    (after : Option (List Bytes)) : Coll :=
  { size, skip, so, reverse, store := ⟨kind, []⟩, lowest := none, searchAfter := after }

/-- which path `collectSingle` took (reported by the driver as coverage) -/
inductive Branch | afterSkip | shortcut | added | evictFirst | evictLower | evictNotLower
deriving DecidableEq, Repr

def Branch.name : Branch → String
  | .afterSkip => "after-skip" | .shortcut => "shortcut" | .added => "added"
  | .evictFirst => "evict-first" | .evictLower => "evict-lower" | .evictNotLower => "evict-not-lower"

/-- the search-after test of `collectSingle`:
`hc.searchAfter.HitNumber = d.HitNumber; if Compare(d, searchAfter) <= 0 { return }` -/
def Coll.afterSkips (c : Coll) (d : Match) : Bool :=
  match c.searchAfter with
  | some a => cmpMatch c.so d (Match.mk d.hitNumber a) != Ordering.gt
  | none => false

/-- the shortcut of `collectSingle`:
`if lowestMatchOutsideResults != nil && Compare(d, lowestMatchOutsideResults) >= 0 { return }` -/
def Coll.shortcuts (c : Coll) (d : Match) : Bool :=
  match c.lowest with
  | some l => cmpMatch c.so d l != Ordering.lt
  | none => false

/-- `collectSingle` after the sort value has been computed -/
def collectSingleB (c : Coll) (d : Match) : Coll × Branch :=
  if c.afterSkips d then (c, .afterSkip)
  else if c.shortcuts d then (c, .shortcut)
  else
    let r := c.store.addNotExceedingSize c.so d (c.size + c.skip)
    match r.2 with
    | none => ({ c with store := r.1 }, .added)
    | some removed =>
      match c.lowest with
      | none => ({ c with store := r.1, lowest := some removed }, .evictFirst)
      | some l =>
        if cmpMatch c.so removed l = Ordering.lt then ({ c with store := r.1, lowest := some removed }, .evictLower)
        else ({ c with store := r.1 }, .evictNotLower)

def collectSingle (c : Coll) (d : Match) : Coll := (collectSingleB c d).1

/-- `finalizeResults` -/
def Coll.final (c : Coll) : List Match :=
  let r := c.store.final c.so c.skip
  if c.reverse then r.reverse else r

/-- the loop of `Collect` over an already numbered match sequence -/
def Coll.run (c : Coll) (ms : List Match) : Coll := ms.foldl collectSingle c

/-- `Collect` numbers the hits 1, 2, 3, … in the order the searcher returns them -/
def numberFrom (start : Nat) : List (List Bytes) → List Match
  | [] => []
  | k :: ks => { hitNumber := start, keys := k } :: numberFrom (start + 1) ks

def number (keys : List (List Bytes)) : List Match := numberFrom 1 keys

/-- a whole collection with a given store -/
def collectWith (kind : StoreKind) (so : SortOrder) (n from_ : Nat) (ms : List Match) : List Match :=
  ((Coll.new kind n from_ so false none).run ms).final

/-- `NewTopNCollector(size, skip, sort)` + `Collect` -/
def collect (so : SortOrder) (n from_ : Nat) (ms : List Match) : List Match :=
  collectWith (storeKindFor n from_) so n from_ ms

/-- `NewTopNCollectorAfter(size, sort, after, false)` + `Collect` (the request's sort order itself) -/
def collectAfterWith (kind : StoreKind) (so : SortOrder) (n : Nat) (key : List Bytes) (ms : List Match) : List Match :=
  ((Coll.new kind n 0 so false (some key)).run ms).final

def collectAfter (so : SortOrder) (n : Nat) (key : List Bytes) (ms : List Match) : List Match :=
  collectAfterWith (storeKindFor n 0) so n key ms

/-- `NewTopNCollectorAfter(size, reversed sort, before, true)` + `Collect`; `so` is the order the request
means (the caller reverses a copy) -/
def collectBeforeWith (kind : StoreKind) (so : SortOrder) (n : Nat) (key : List Bytes) (ms : List Match) : List Match :=
  ((Coll.new kind n 0 (reverseOrder so) true (some key)).run ms).final

def collectBefore (so : SortOrder) (n : Nat) (key : List Bytes) (ms : List Match) : List Match :=
  collectBeforeWith (storeKindFor n 0) so n key ms

/-! ## Paging chains -/

/-- page₀ = top n; pageₖ₊₁ = After(sort value of the last hit of pageₖ); stop at an empty page -/
def afterChain (so : SortOrder) (n : Nat) (ms : List Match) : Nat → List Match → List (List Match)
  | 0, _ => []
  | f + 1, page => match page.getLast? with
    | none => []
    | some l => page :: afterChain so n ms f (collectAfter so n l.keys ms)

def pagesAfter (so : SortOrder) (n : Nat) (ms : List Match) (fuel : Nat) : List (List Match) :=
  afterChain so n ms fuel (collect so n 0 ms)

/-- going back from a match with sort value `key`: pageₖ₊₁ = Before(sort value of the first hit of pageₖ) -/
def beforeChain (so : SortOrder) (n : Nat) (ms : List Match) : Nat → List Match → List (List Match)
  | 0, _ => []
  | f + 1, page => match page.head? with
    | none => []
    | some h => page :: beforeChain so n ms f (collectBefore so n h.keys ms)

def pagesBefore (so : SortOrder) (n : Nat) (ms : List Match) (fuel : Nat) (key : List Bytes) : List (List Match) :=
  beforeChain so n ms fuel (collectBefore so n key ms)

/-! ## The `[]*Sort` aliasing: `TopNSearch.Collector()`

A `search.SortOrder` is a slice of POINTERS to `Sort` objects.  The heap of `Sort` objects is a list,
a pointer is an index into it. -/

abbrev SortHeap := List SortKey
abbrev SortPtrs := List Nat

/-- the sort order a pointer slice denotes right now -/
def deref (h : SortHeap) (ps : SortPtrs) : SortOrder := ps.map fun p => h.getD p ⟨false, false⟩

/-- `SortOrder.Copy`.  Pinned tree: `make` + `copy(rv, o)` — the pointers are copied, the objects are shared
(`deep = false`).  The repaired version allocates new `Sort` objects (`deep = true`). -/
def copyOrder (deep : Bool) (h : SortHeap) (ps : SortPtrs) : SortHeap × SortPtrs :=
  if deep then (h ++ deref h ps, (List.range ps.length).map (· + h.length)) else (h, ps)

/-- `SortOrder.Reverse`: flips the flags INSIDE the objects pointed to -/
def reverseInPlace (h : SortHeap) (ps : SortPtrs) : SortHeap :=
  ps.foldl (fun h p => if p < h.length then h.set p (h.getD p ⟨false, false⟩).reverse else h) h

/-- a `TopNSearch` request: `n`, `from`, `sort`, `after`, `reversed` -/
structure Request where
  n : Nat
  from_ : Nat
  sort : SortPtrs
  after : Option (List Bytes)
  reversed : Bool
deriving Repr, DecidableEq

/-- what `Collector()` hands to the collector -/
structure Built where
  heap : SortHeap          -- the heap of Sort objects after the call
  collSort : SortPtrs      -- the collector's sort order
  coll : Coll

/-- `TopNSearch.Collector()` -/
def buildCollector (deep : Bool) (h : SortHeap) (r : Request) : Built :=
  match r.after with
  | some a =>
    if r.reversed then
      let (h1, cs) := copyOrder deep h r.sort        -- collectorSort = s.sort.Copy()
      let h2 := reverseInPlace h1 cs                 -- collectorSort.Reverse()
      { heap := h2, collSort := cs,
        coll := Coll.new (storeKindFor r.n 0) r.n 0 (deref h2 cs) true (some a) }
    else
      { heap := h, collSort := r.sort,
        coll := Coll.new (storeKindFor r.n 0) r.n 0 (deref h r.sort) false (some a) }
  | none =>
    { heap := h, collSort := r.sort,
      coll := Coll.new (storeKindFor r.n r.from_) r.n r.from_ (deref h r.sort) false none }

/-- `Reader.Search(req)`: build the collector, collect; returns the hits and the heap of Sort objects
afterwards.  The collector reads its sort order through the pointers, but nothing writes the objects
during collection, so dereferencing once is exact. -/
def search (deep : Bool) (h : SortHeap) (r : Request) (ms : List Match) : SortHeap × List Match :=
  let b := buildCollector deep h r
  (b.heap, (b.coll.run ms).final)

/-- STATEMENT of `collector_pure`: building a collector leaves every caller-visible `Sort` object as it was -/
def CollectorPure (deep : Bool) : Prop :=
  ∀ (h : SortHeap) (r : Request), (∀ p ∈ r.sort, p < h.length) →
    (buildCollector deep h r).heap.take h.length = h

end Bluge.TopN

import Bluge.Basic
/-! Hand-written reference model of bluge's numeric coding (numeric/float.go, numeric/prefix_coded.go,
search/searcher/search_numeric_range.go). int64/uint64 are `BitVec 64` with Go's wrap-around.
The *translated* versions of the same functions live in `BlugeGen.C10`; `BlugeProofs.C10` proves the
two equal and states the property theorems. -/
namespace Bluge.Numeric

abbrev I64 := BitVec 64
abbrev Byte := BitVec 8

def signBit : I64 := 0x8000000000000000#64
def lowMask : I64 := 0x7fffffffffffffff#64

/-- numeric.Float64ToInt64 on the bit pattern of the float -/
def f2i (f : I64) : I64 := if f.msb then f ^^^ lowMask else f
/-- numeric.Int64ToFloat64, result as a bit pattern -/
def i2f (i : I64) : I64 := if i.msb then i ^^^ lowMask else i

def nChars (shift : Nat) : Nat := (63 - shift) / 7 + 1

/-- numeric.NewPrefixCodedInt64 for shift ≤ 63: header byte then `nChars` base-128 digits, big endian -/
def encode (v : I64) (shift : Nat) : List Byte :=
  let sb : I64 := (v ^^^ signBit) >>> shift
  let n := nChars shift
  BitVec.ofNat 8 (0x20 + shift) :: (List.range n).map fun i => ((sb >>> (7 * (n - 1 - i))) &&& 0x7f#64).setWidth 8

def encode? (v : I64) (shift : Nat) : Option (List Byte) :=
  if shift > 63 then none else some (encode v shift)

/-- PrefixCoded.Shift -/
def shiftOf (p : List Byte) : Option Nat :=
  match p with
  | [] => none
  | b :: _ => let s := (b - 0x20#8).toNat; if s < 63 then some s else none

/-- PrefixCoded.Int64 -/
def decode (p : List Byte) : Option I64 :=
  match shiftOf p with
  | none => none
  | some s =>
    let sb : I64 := (p.drop 1).foldl (fun acc b => (acc <<< 7) ||| b.setWidth 64) 0#64
    some ((sb <<< s) ^^^ signBit)

/-- ValidPrefixCodedTermBytes -/
def validTerm (p : List Byte) : Bool × Nat :=
  match p with
  | [] => (false, 0)
  | b :: _ =>
    if b.toNat < 0x20 ∨ b.toNat > 0x20 + 63 then (false, 0) else
    let s := b.toNat - 0x20
    if p.length != nChars s + 1 then (false, 0) else (true, s)

structure TermRange where
  startTerm : List Byte
  endTerm : List Byte
deriving Repr, DecidableEq

/-- newRange -/
def newRange (lo hi : I64) (shift : Nat) : TermRange :=
  let hi' := hi ||| ((1#64 <<< shift) - 1#64)
  ⟨encode lo shift, encode hi' shift⟩

/-- one pass of the loop body of splitInt64Range at `shift`; `step` = precisionStep -/
def splitLoop (fuel : Nat) (lo hi : I64) (shift step : Nat) : List TermRange :=
  match fuel with
  | 0 => []
  | fuel + 1 =>
    let diff : I64 := 1#64 <<< (shift + step)
    let mask : I64 := ((1#64 <<< step) - 1#64) <<< shift
    let hasLower := (lo &&& mask) != 0#64
    let hasUpper := (hi &&& mask) != mask
    let nlo := if hasLower then (lo + diff) &&& ~~~mask else lo &&& ~~~mask
    let nhi := if hasUpper then (hi - diff) &&& ~~~mask else hi &&& ~~~mask
    let lowerWrapped := nlo.slt lo
    let upperWrapped := hi.slt nhi
    if shift + step ≥ 64 ∨ nhi.slt nlo ∨ lowerWrapped ∨ upperWrapped then
      [newRange lo hi shift]
    else
      (if hasLower then [newRange lo (lo ||| mask) shift] else []) ++
      (if hasUpper then [newRange (hi &&& ~~~mask) hi shift] else []) ++
      splitLoop fuel nlo nhi (shift + step) step

/-- splitInt64Range minBound maxBound precisionStep (precisionStep ≥ 1) -/
def split (lo hi : I64) (step : Nat) : List TermRange :=
  if hi.slt lo then [] else splitLoop 65 lo hi 0 step

/-- incrementBytes -/
def incBytes (bs : List Byte) : List Byte :=
  (bs.reverse.foldl (fun (acc : List Byte × Bool) b =>
      if acc.2 then ((b + 1) :: acc.1, (b + 1) == 0#8) else (b :: acc.1, false)) ([], true)).1

def bytesLe : List Byte → List Byte → Bool
  | [], _ => true
  | _ :: _, [] => false
  | a :: as, b :: bs => if a.toNat < b.toNat then true else if a.toNat > b.toNat then false else bytesLe as bs

def bytesCmp (a b : List Byte) : Int :=
  if a == b then 0 else if bytesLe a b then -1 else 1

/-- incrementPrefixCoded (added by the repair of the numeric range walk): the next prefix coded term of the
same shift — the bytes after the leading shift byte are base-128 digits, a digit exceeding 0x7f carries
into the previous one; the shift byte itself is incremented without a wrap test. -/
def incPC (bs : List Byte) : List Byte :=
  -- direct transcription of the Go loop, from the last index down to 0
  let rec loop (fuel i : Nat) (rv : List Byte) : List Byte :=
    match fuel with
    | 0 => rv
    | fuel + 1 =>
      let v := (rv.getD i 0#8) + 1#8
      let rv := rv.set i v
      if i == 0 || v.toNat ≤ 0x7f then rv
      else loop fuel (i - 1) (rv.set i 0#8)
  if bs.length == 0 then bs else loop bs.length (bs.length - 1) bs

/-- termRange.Enumerate WITH a filter (the only production use): the walk `next = incrementPrefixCoded next` while `next ≤ endTerm`, calling
`visit` on every term walked (the role of the dictionary filter). `fuel` caps the number of steps:
`none` = the cap was hit (the real walk is still going). Returns the remaining fuel and the visited
terms satisfying `keep`. -/
def enumerate (keep : List Byte → Bool) (r : TermRange) (fuel : Nat) (acc : List (List Byte)) :
    Option (Nat × List (List Byte)) :=
  let rec go (fuel : Nat) (next : List Byte) (acc : List (List Byte)) : Option (Nat × List (List Byte)) :=
    if bytesLe next r.endTerm then
      match fuel with
      | 0 => none
      | fuel + 1 => go fuel (incPC next) (if keep next then next :: acc else acc)
    else some (fuel, acc)
  go fuel r.startTerm acc

def enumerateAll (keep : List Byte → Bool) (rs : List TermRange) (fuel : Nat) : Option (List (List Byte)) :=
  let rec go (rs : List TermRange) (fuel : Nat) (acc : List (List Byte)) : Option (List (List Byte)) :=
    match rs with
    | [] => some acc.reverse
    | r :: rest => match enumerate keep r fuel acc with
        | none => none
        | some (fuel', acc') => go rest fuel' acc'
  go rs fuel []

/-- the terms a value is indexed under: one per shift 0,4,…,60 (field.go addShiftTokens) -/
def shiftTerms (v : I64) : List (List Byte) :=
  (List.range 16).map fun k => encode v (4 * k)

/-- does the decomposition of [lo,hi] match the value v as indexed?  `none`: the walk exceeded `cap` steps -/
def rangeMatches (cap : Nat) (lo hi v : I64) : Option Bool :=
  let st := shiftTerms v
  (enumerateAll (fun t => st.contains t) (split lo hi 4) cap).map fun hits => !hits.isEmpty

def interleaveSpread (v : I64) : I64 :=
  let v := (v ||| (v <<< 16)) &&& 0x0000FFFF0000FFFF#64
  let v := (v ||| (v <<< 8)) &&& 0x00FF00FF00FF00FF#64
  let v := (v ||| (v <<< 4)) &&& 0x0F0F0F0F0F0F0F0F#64
  let v := (v ||| (v <<< 2)) &&& 0x3333333333333333#64
  (v ||| (v <<< 1)) &&& 0x5555555555555555#64

def interleave (a b : I64) : I64 := (interleaveSpread b <<< 1) ||| interleaveSpread a

def deinterleave (b : I64) : I64 :=
  let b := b &&& 0x5555555555555555#64
  let b := (b ^^^ (b >>> 1)) &&& 0x3333333333333333#64
  let b := (b ^^^ (b >>> 2)) &&& 0x0F0F0F0F0F0F0F0F#64
  let b := (b ^^^ (b >>> 4)) &&& 0x00FF00FF00FF00FF#64
  let b := (b ^^^ (b >>> 8)) &&& 0x0000FFFF0000FFFF#64
  (b ^^^ (b >>> 16)) &&& 0x00000000FFFFFFFF#64

end Bluge.Numeric

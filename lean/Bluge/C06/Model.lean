import Bluge.Index
/-! # Bluge.C06.Model — what C06 adds to the writer-protocol model `Bluge.Index` (core Lean only)

Transcribed from /repo:
* `index/introducer.go` `introduceMerge`: the `skipped` flag it reports back to the requester;
* `index/persister.go` `persistSnapshotMaybeMerge`: the in-memory segments it collects, the call of
  `mergeSegmentBases`, and the **equiv** snapshot it hands to `persistSnapshotDirect` for the epoch it grabbed;
* `index/merge.go` `planSegmentsToMerge` / `executeMergeTask`: the `old` map, the list given to the plugin's
  `Merge`, and the loop `for i, segNewDocNums := range newDocNums { oldNewDocNums[task.Segments[i].ID()] = … }`
  that attaches the i-th table returned by the plugin to the i-th segment OF THE TASK (not of the merged list).
-/
namespace Bluge.Index

/-! ## `introduceMerge`: the `skipped` flag -/

/-- `skipped` of `introduceMerge`: the merged segment is not put into the root
(`!(nextMerge.new != nil && nextMerge.new.Count() > newSegmentDeleted.GetCardinality())`) -/
def mergeSkipped (r : Root) (m : MergeTask) : Bool :=
  let (_, left, nd) := mergeLoop m.oldNew r.segs m.old []
  let nd := leftBehind m.oldNew left nd
  match m.new with
  | some docs => !(nd.card < docs.length)
  | none => true

/-! ## `persistSnapshotMaybeMerge` -/

/-- the loop collecting `sbs / sbsDrops / sbsIndexes`: the segments of the grabbed snapshot that are not persisted -/
def inMemSegs (snapshot : Root) : List SegSnap := snapshot.segs.filter (fun ss => !ss.persisted)

/-- the `equiv` snapshot: "logically equivalent to the input snapshot, but with merged segments replaced by the new
segment". `snapshot` is the root the persister grabbed (epoch E), `newSnapshot` the root `introduceMerge` installed
(handed back through `notifyCh`), `newId` the id of the merged segment. -/
def equivSnapshot (snapshot newSnapshot : Root) (newId : Nat) : Root :=
  -- mergedSegmentIDs[snapshot.segment[idx].id] = struct{}{}  for idx in sbsIndexes
  let merged := (inMemSegs snapshot).map (·.sid)
  -- copy to the equiv the segments that weren't replaced
  let kept := snapshot.segs.filter (fun ss => !merged.contains ss.sid)
  -- append to the equiv the new segment:  for _, segment := range newSnapshot.segment { if segment.id == newSegmentID {…; break} }
  let new : List SegSnap := match newSnapshot.segs.find? (fun ss => ss.sid == newId) with
    | some ss => [{ sid := newId, docs := ss.docs, deleted := [], persisted := ss.persisted }]  -- deleted: nil since merging handled deletions
    | none => []
  { epoch := snapshot.epoch, segs := kept ++ new }

/-- `persistSnapshotMaybeMerge(snapshot)` while the root is `cur` and the introducer's next epoch is `introEpoch`:
`none` = it returned `(false, nil)` (too few in-memory segments, or the merge introduction was skipped) and the caller
persists `snapshot` itself; `some (root installed by introduceMerge, snapshot written for snapshot.epoch)` otherwise. -/
def persistSnapshotMaybeMerge (snapshot cur : Root) (introEpoch newId minSegs : Nat) : Option (Root × Root) :=
  let sbs := inMemSegs snapshot
  if sbs.length < minSegs then none
  else
    -- mergeSegmentBases: every input is recorded in `old`, nothing is filtered (in-memory merge)
    let m := MergeTask.plan sbs newId false
    if mergeSkipped cur m then none
    else
      let newRoot := introduceMerge cur introEpoch m
      some (newRoot, equivSnapshot snapshot newRoot newId)

/-! ## `executeMergeTask` -/

/-- `planSegmentsToMerge(task)`: (`oldMap`, `segmentsToMerge`). Every segment the merger gives to the planner is
persisted (`planMergeAtSnapshot` filters on `Persisted()`), so the inner `if` is always entered. -/
def planSegmentsToMerge (task : List SegSnap) : List (Nat × Option SegSnap) × List SegSnap :=
  (task.map (fun ss => (ss.sid, if ss.liveSize == 0 then none else some ss)),
   task.filter (fun ss => !(ss.liveSize == 0)))

/-- `for i, segNewDocNums := range newDocNums { oldNewDocNums[task.Segments[i].ID()] = segNewDocNums }`
(a Go map; segment ids of a task are distinct, so no entry is overwritten) -/
def executeOldNew (task : List SegSnap) (newDocNums : List (List Nat)) : List (Nat × List Nat) :=
  (task.zip newDocNums).map (fun p => (p.1.sid, p.2))

/-- the `segmentMerge` that `executeMergeTask(task)` sends to the introducer, the plugin's `Merge` being what
`mergeSpec` says (live documents in input order, one table per INPUT of `Merge`) -/
def executeMergeTask (task : List SegSnap) (id : Nat) : MergeTask :=
  let (oldMap, toMerge) := planSegmentsToMerge task
  if toMerge.isEmpty then { id := id, old := oldMap, oldNew := [], new := none }
  else
    let (docs, tbls) := mergeSpec toMerge
    { id := id, old := oldMap, oldNew := executeOldNew task (tbls.map Prod.snd), new := some docs }

/-- the property of a task that makes the indexing `task.Segments[i]` ↔ `newDocNums[i]` right: all segments
without live documents, or all with -/
def Homogeneous (task : List SegSnap) : Prop :=
  (∀ ss ∈ task, ¬ 0 < ss.liveSize) ∨ (∀ ss ∈ task, 0 < ss.liveSize)
instance (task : List SegSnap) : Decidable (Homogeneous task) := by unfold Homogeneous; exact inferInstance

end Bluge.Index

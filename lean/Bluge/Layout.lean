/-! # Bluge.Layout — models for C08 (answers do not depend on the physical layout)

Core Lean only (the driver `Drv/C08.lean` links against this file).

* part A: the three rewrites of `index/optimize.go` (conjunction push-down, unadorned conjunction,
  unadorned disjunction) over per-segment posting iterators, the searchers they replace
  (leap-frog conjunction, min=1 disjunction) and `Min()` of what `newDisjunctionSearcher` returns;
* part B: `bluge.OfflineWriter` / `index.WriterOffline` (Insert, Batch, doMerge, Close);
* part C: a layout is a list of segments of (document, deleted) pairs; `abs`, the searcher over a
  layout, collection statistics as sums over segments;
* part D: `MultiSearch` = one collector over the concatenation of the per-reader match sequences;
* part E: `Snapshot.Backup` / `bluge.Reader.Backup` into a directory (any `Persist` may fail) and which snapshot
  `OpenReader` opens.

roaring bitmaps are modelled by their set semantics on strictly increasing lists (trusted base);
the ice segment's `Merge` returns the live documents of its inputs in input order (trusted base). -/
namespace Bluge.Layout

/-- strictly increasing = a posting list / the content of a bitmap -/
abbrev SSorted (l : List Nat) : Prop := l.Pairwise (· < ·)

/-! ## sorted-set operations (the set semantics of roaring) -/

/-- `bm.Add(d)` -/
def ins (d : Nat) : List Nat → List Nat
  | [] => [d]
  | x :: xs => if d < x then d :: x :: xs else if d = x then x :: xs else x :: ins d xs

/-- `roaring.Or(a, b)` / `HeapOr` / `bm.AddMany(ds)`: add every element of `b` to `a` -/
def orInto (a b : List Nat) : List Nat := b.foldl (fun acc d => ins d acc) a

/-- `roaring.And(a, b)` / `a.And(b)` -/
def andBM (a b : List Nat) : List Nat := a.filter (fun x => b.contains x)

/-! ## A. per-segment posting iterators as `optimize.go` sees them -/

/-- what `tfr.iterators[i]` can be:
* `empty`  : bluge's `emptyPostingsIterator` (`Empty()` = true, NOT an `OptimizablePostingsIterator`) —
  only produced by an enclosing unadorned conjunction rewrite;
* `oneHit d`: an ice iterator over a 1-hit posting list whose document is live (`DocNum1Hit()` = (d, true));
* `bitmap bm`: an ice iterator in the general encoding or `unadornedPostingsIteratorBitmap`:
  `DocNum1Hit()` = (_, false), `ActualBitmap()` = `bm` (`none` = nil: the term is missing from the segment's
  dictionary, or a 1-hit whose document is deleted);
* `raw1 d` : `unadornedPostingsIterator1Hit` (enumerates `d`, `Empty()` = false, NOT optimizable) —
  only produced by an enclosing unadorned conjunction rewrite. -/
inductive SegPost where
  | empty
  | oneHit (d : Nat)
  | bitmap (bm : Option (List Nat))
  | raw1 (d : Nat)
  deriving Repr, DecidableEq, Inhabited

/-- the local document numbers the iterator enumerates -/
def SegPost.docs : SegPost → List Nat
  | .empty => []
  | .oneHit d => [d]
  | .bitmap none => []
  | .bitmap (some l) => l
  | .raw1 d => [d]

/-- `_, ok := it.(segment.OptimizablePostingsIterator)` -/
def SegPost.optimizable : SegPost → Bool
  | .oneHit _ => true
  | .bitmap _ => true
  | _ => false

/-- accumulator of the inner loop of `optimizeConjunctionUnadorned.Finish` -/
structure ConjAcc where
  bms : List (List Nat) := []       -- actualBMs
  hit : Option Nat := none          -- docNum1HitLast, docNum1HitLastOk
  deriving Repr, DecidableEq

/-- result of one iteration of `for _, tfr := range o.tfrs` -/
inductive ConjStep where
  | emptySeg                -- `oTFR.iterators[i] = anEmptyPostingsIterator; continue OUTER`
  | giveUp                  -- `return nil, nil`
  | next (acc : ConjAcc)
  deriving Repr, DecidableEq

def conjStep (acc : ConjAcc) : SegPost → ConjStep
  | .empty => .emptySeg                                    -- tfr.iterators[i].Empty()
  | .raw1 _ => .giveUp                                     -- !ok
  | .oneHit d =>
      match acc.hit with
      | some h => if h ≠ d then .emptySeg else .next { acc with hit := some d }
      | none => .next { acc with hit := some d }
  | .bitmap none => .emptySeg                              -- itr.ActualBitmap() == nil
  | .bitmap (some l) => .next { acc with bms := acc.bms ++ [l] }

/-- the per-segment iterator the unadorned rewrites install -/
inductive SegOut where
  | empty                       -- anEmptyPostingsIterator
  | oneHit (d : Nat)            -- newUnadornedPostingsIteratorFrom1Hit
  | bitmap (l : List Nat)       -- newUnadornedPostingsIteratorFromBitmap
  deriving Repr, DecidableEq, Inhabited

def SegOut.docs : SegOut → List Nat
  | .empty => []
  | .oneHit d => [d]
  | .bitmap l => l

/-- as seen by an enclosing rewrite -/
def SegOut.toPost : SegOut → SegPost
  | .empty => .empty
  | .oneHit d => .raw1 d
  | .bitmap l => .bitmap (some l)

/-- `bm := roaring.And(b0, b1); for … bm.And(b)` -/
def andAll : List Nat → List (List Nat) → List Nat
  | a, [] => a
  | a, b :: bs => andAll (andBM a b) bs

/-- the code after the inner loop -/
def conjFinishSeg (acc : ConjAcc) : SegOut :=
  match acc.hit with
  | some h => if acc.bms.all (fun bm => bm.contains h) then .oneHit h else .empty
  | none =>
    match acc.bms with
    | [] => .empty
    | [b] => .bitmap b
    | b0 :: b1 :: rest => .bitmap (andAll (andBM b0 b1) rest)

/-- one segment of `optimizeConjunctionUnadorned.Finish`; `none` = `return nil, nil` -/
def conjSegGo (acc : ConjAcc) : List SegPost → Option SegOut
  | [] => some (conjFinishSeg acc)
  | p :: ps =>
    match conjStep acc p with
    | .emptySeg => some .empty
    | .giveUp => none
    | .next acc' => conjSegGo acc' ps

def conjSeg (ps : List SegPost) : Option SegOut := conjSegGo {} ps

/-- `ActualBitmap()` of an optimizable iterator when it is not nil -/
def SegPost.actual? : SegPost → Option (List Nat)
  | .bitmap (some l) => some l
  | _ => none

/-- `DocNum1Hit()` of an optimizable iterator when ok -/
def SegPost.hit? : SegPost → Option Nat
  | .oneHit d => some d
  | _ => none

/-- `ReplaceActual(bm)` on an iterator that has an actual bitmap; the others are left alone -/
def SegPost.replaceActual (bm : List Nat) : SegPost → SegPost
  | .bitmap (some _) => .bitmap (some bm)
  | q => q

/-- one segment of `optimizeDisjunctionUnadorned.Finish`; `none` = `return nil, nil` -/
def disjSeg (ps : List SegPost) : Option SegOut :=
  if ps.all SegPost.optimizable then
    let docNums := ps.filterMap SegPost.hit?
    let bms := ps.filterMap SegPost.actual?
    -- HeapOr / Or / Clone / New, then AddMany(docNums)
    some (.bitmap (orInto (bms.foldl orInto []) docNums))
  else none

/-- what one segment of `optimizeConjunction.Finish` (push-down) does to each iterator: when the
first two both have an actual bitmap, every iterator that has one gets the AND of all of them -/
def pdFun (ps : List SegPost) : SegPost → SegPost :=
  match ps with
  | .bitmap (some b0) :: .bitmap (some b1) :: rest =>
      SegPost.replaceActual (andAll (andBM b0 b1) (rest.filterMap SegPost.actual?))
  | _ => id

/-- one segment of `optimizeConjunction.Finish`: the iterators keep their identity and position -/
def pushdownSeg (ps : List SegPost) : List SegPost := ps.map (pdFun ps)

/-! ### the snapshot level -/

/-- `nS` segments, `nT` term field readers; `off i` = `snapshot.offsets[i]`, `size i` = number of
documents of segment `i`, `post t i` = `o.tfrs[t].iterators[i]` -/
structure Snap where
  nS : Nat
  nT : Nat
  off : Nat → Nat
  size : Nat → Nat
  post : Nat → Nat → SegPost

/-- offsets are increasing by at least the segment sizes, local numbers are below the segment size,
bitmaps are strictly increasing -/
def Snap.wf (L : Snap) : Prop :=
  (∀ i j, i < j → j < L.nS → L.off i + L.size i ≤ L.off j) ∧
  (∀ t i, t < L.nT → i < L.nS → SSorted (L.post t i).docs ∧ ∀ d ∈ (L.post t i).docs, d < L.size i)

/-- `snapshot.offsets` as the code computes them (running sum of the segment sizes) -/
def prefixOff (size : Nat → Nat) : Nat → Nat
  | 0 => 0
  | i + 1 => prefixOff size i + size i

/-- the iterators of segment `i`, in tfr order -/
def Snap.segPosts (L : Snap) (i : Nat) : List SegPost := (List.range L.nT).map fun t => L.post t i

/-- `postingsIterator.Next` until exhaustion: per segment, local numbers plus the offset -/
def enumerate (nS : Nat) (off : Nat → Nat) (docs : Nat → List Nat) : List Nat :=
  (List.range nS).flatMap fun i => (docs i).map (· + off i)

/-- the global posting list of tfr `t` -/
def Snap.global (L : Snap) (t : Nat) : List Nat := enumerate L.nS L.off fun i => (L.post t i).docs

def Snap.globals (L : Snap) : List (List Nat) := (List.range L.nT).map L.global

/-- sequence of `Option`s: all present or nothing (`return nil, nil` anywhere abandons the rewrite) -/
def allSome {α} : List (Option α) → Option (List α)
  | [] => some []
  | none :: _ => none
  | some a :: r => (allSome r).map (a :: ·)

/-- `optimizeConjunctionUnadorned.Finish` -/
def Snap.conjFinish (L : Snap) : Option (List SegOut) :=
  if L.nT ≤ 1 then none else allSome ((List.range L.nS).map fun i => conjSeg (L.segPosts i))

/-- `optimizeDisjunctionUnadorned.Finish` -/
def Snap.disjFinish (L : Snap) : Option (List SegOut) :=
  if L.nT ≤ 1 then none else allSome ((List.range L.nS).map fun i => disjSeg (L.segPosts i))

/-- `optimizeConjunction.Finish`: the same tfrs with modified actual bitmaps -/
def Snap.pushdown (L : Snap) : Snap :=
  if L.nT ≤ 1 then L else
  { L with post := fun t i => (pushdownSeg (L.segPosts i)).getD t (L.post t i) }

/-- what the rewritten TermSearcher enumerates -/
def Snap.enumOuts (L : Snap) (outs : List SegOut) : List Nat :=
  enumerate L.nS L.off fun i => (outs.getD i .empty).docs

/-! ### the searchers that are replaced -/

def heads (ls : List (List Nat)) : List Nat := ls.filterMap List.head?

def sumLen (ls : List (List Nat)) : Nat := (ls.map List.length).sum

/-- `ConjunctionSearcher.Next` until exhaustion, on cursors = remaining lists: stop when a cursor
is exhausted; `m` = the largest current number; when every cursor is at `m` emit it and step all,
otherwise `Advance(m)` the cursors that are behind. -/
def leapfrog (fuel : Nat) (ls : List (List Nat)) : List Nat :=
  match fuel with
  | 0 => []
  | fuel + 1 =>
    if ls.isEmpty || ls.any List.isEmpty then [] else
    let m := (heads ls).foldl max 0
    if (heads ls).all (· == m) then m :: leapfrog fuel (ls.map List.tail)
    else leapfrog fuel (ls.map fun l => l.dropWhile (· < m))

/-- enough fuel: every round removes at least one element -/
def conjSearch (ls : List (List Nat)) : List Nat := leapfrog (sumLen ls + 1) ls

/-- a disjunction cursor positioned on the emitted number `m` is stepped, the others stay -/
def djStep (m : Nat) (l : List Nat) : List Nat := match l with | x :: r => if x = m then r else l | [] => []

/-- `DisjunctionSearcher.Next` (min ≤ 1) until exhaustion: the smallest current number is emitted,
every cursor positioned on it is stepped. -/
def disjLoop (fuel : Nat) (ls : List (List Nat)) : List Nat :=
  match fuel with
  | 0 => []
  | fuel + 1 =>
    match heads ls with
    | [] => []
    | h :: hs =>
      let m := hs.foldl min h
      m :: disjLoop fuel (ls.map (djStep m))

def disjSearch (ls : List (List Nat)) : List Nat := disjLoop (sumLen ls + 1) ls

/-! ### `Min()` -/

/-- a searcher as the boolean searcher sees it: what it enumerates and its `Min()` -/
structure Srch where
  docs : List Nat
  min : Nat
  deriving Repr, DecidableEq

/-- `Min()` of what `newDisjunctionSearcher` returns when the rewrite fires: the rewritten searcher is
a `TermSearcher` (`Min()` = 0); when `min > 0` it is wrapped in `minSearcher{Searcher, min}` whose
`Min()` is the requested one — so in both cases the requested `min` (≤ 1 here). (Before commit
"the unadorned disjunction rewrite keeps the disjunction's Min()" this was the constant 0, see the
parent of that commit; theorem `opt_min_kept_example` shows what the boolean searcher did with 0.) -/
def rewrittenMin (requested : Nat) : Nat := if requested > 0 then requested else 0

/-- `newDisjunctionSearcher` for ≥ 2 optimizable children (`scoreNone` = `options.Score == "none" &&
!IncludeTermVectors`; `enabled` = `config.OptimizeDisjunctionUnadorned`) -/
def newDisjunctionSearcher (L : Snap) (min : Nat) (scoreNone enabled : Bool) : Srch :=
  let regular : Srch :=
    { docs := if min ≤ 1 then disjSearch L.globals else
               -- min > 1: documents that occur in at least `min` of the lists
               (disjSearch L.globals).filter fun x => decide (min ≤ (L.globals.filter (·.contains x)).length),
      min := min }
  if L.nT > 1 ∧ min ≤ 1 ∧ scoreNone ∧ enabled then
    match L.disjFinish with
    | some outs => { docs := L.enumOuts outs, min := rewrittenMin min }
    | none => regular
  else regular

/-- the part of `BooleanSearcher.Next` that reads `Min()`: a must candidate that is not a should
match is still returned when `shouldSearcher.Min() == 0` -/
def boolMustShould (must : List Nat) (should : Srch) : List Nat :=
  must.filter fun d => should.docs.contains d || should.min == 0

/-! ## B. the offline writer (`writer_offline.go`, `index/writer_offline.go`) -/

/-- `index.WriterOffline` + the public `bluge.OfflineWriter` wrapper.
`queue` = `segIDs` together with the content of the segment file of that id (Persist/Load round trip:
C12/C13), `files` = ids of the segment files present in the directory. -/
structure OffW (α : Type) where
  queue : List (Nat × List α) := []
  files : List Nat := []
  segCount : Nat := 0
  batch : List α := []          -- w.batch
  batchCount : Nat := 0         -- w.batchCount

/-- `WriterOffline.Batch(w.batch)`: nothing for an empty batch, else one new segment `segCount` -/
def OffW.flush {α} (w : OffW α) : OffW α :=
  if w.batch.isEmpty then w else
  { w with queue := w.queue ++ [(w.segCount, w.batch)], files := w.files ++ [w.segCount],
           segCount := w.segCount + 1 }

/-- `OfflineWriter.Insert`: flushes when `batchCount > batchSize`, i.e. batches hold `batchSize+1` documents -/
def OffW.insert {α} (batchSize : Nat) (w : OffW α) (d : α) : OffW α :=
  let w1 := { w with batch := w.batch ++ [d], batchCount := w.batchCount + 1 }
  if w1.batchCount > batchSize then
    let w2 := w1.flush
    { w2 with batch := [], batchCount := 0 }      -- w.batch.Reset(); w.batchCount = 0
  else w1

/-- `doMerge`: while more than one segment, merge the first `min mergeMax len` (ice `Merge` with no
drops = the documents of the inputs in input order) into segment `segCount`, appended at the END of
`segIDs`; remove the merged files. `fuel` bounds the loop (`mergeMax ≥ 2` makes every round shrink). -/
def OffW.doMerge {α} (mergeMax : Nat) : Nat → OffW α → OffW α
  | 0, w => w
  | fuel + 1, w =>
    if w.queue.length > 1 then
      let mergeCount := if mergeMax > w.queue.length then w.queue.length else mergeMax
      let mergeSegs := w.queue.take mergeCount
      let merged : List α := mergeSegs.flatMap (·.2)
      let ids := mergeSegs.map (·.1)
      OffW.doMerge mergeMax fuel
        { w with queue := w.queue.drop mergeCount ++ [(w.segCount, merged)],
                 files := (w.files ++ [w.segCount]).filter (fun f => !ids.contains f),
                 segCount := w.segCount + 1 }
    else w

/-- the directory after `Close` -/
structure OffResult (α : Type) where
  snapshotEpoch : Nat                     -- the `.snp` file
  segments : List (Nat × List α)          -- the segments the snapshot names, with their documents
  segFiles : List Nat                     -- the `.seg` files present
  deriving Repr, DecidableEq

inductive OffOutcome (α : Type) where
  | ok (r : OffResult α)
  | panic
  deriving Repr, DecidableEq

/-- `WriterOffline.Close` when `segIDs` is empty: an empty snapshot is persisted as epoch 0 (no
segment), so the empty index can be opened. -/
def closeEmpty {α} (files : List Nat) : OffOutcome α :=
  .ok { snapshotEpoch := 0, segments := [], segFiles := files }

/-- `OfflineWriter.Close`: flush a partial batch, `doMerge`, snapshot named after `segIDs[0]` -/
def OffW.close {α} (mergeMax : Nat) (w : OffW α) : OffOutcome α :=
  let w1 := if w.batchCount > 0 then w.flush else w
  let w2 := w1.doMerge mergeMax w1.queue.length
  match w2.queue with
  | [] => closeEmpty w2.files
  | (id, docs) :: _ => .ok { snapshotEpoch := id, segments := [(id, docs)], segFiles := w2.files }

/-- open, insert `docs` one by one, close -/
def offlineRun {α} (batchSize mergeMax : Nat) (docs : List α) : OffOutcome α :=
  (docs.foldl (OffW.insert batchSize) {}).close mergeMax

/-- the logical content of a result: the documents of its segments in segment order -/
def OffResult.abs {α} (r : OffResult α) : List α := r.segments.flatMap (·.2)

/-- number of segments the inserts + the final flush create -/
def numBatches (batchSize n : Nat) : Nat := (n + batchSize) / (batchSize + 1)

/-! ## C. layouts, abstraction, the searcher over a layout, statistics -/

/-- a segment: its documents in local-number order with the deleted bit, and the collection
statistics the segment reports (`fresh` segments compute them from their documents; a merged ice
segment may report something else for the field-length sum — see `Layout.fresh`). -/
structure Seg (α : Type) where
  docs : List (α × Bool)
  stats : Nat × Nat × Nat      -- totalDocCount, docCount (field), sumTotalTermFreq (field)

abbrev Layout (α : Type) := List (Seg α)

def Seg.live {α} (s : Seg α) : List α := (s.docs.filter (!·.2)).map (·.1)

/-- the logical content: the live documents in segment order -/
def abs {α} (L : Layout α) : List α := L.flatMap Seg.live

/-- global document numbers with the document, deleted ones dropped: what a searcher can return -/
def numbered {α} : Nat → Layout α → List (Nat × α)
  | _, [] => []
  | off, s :: rest =>
      (((List.range s.docs.length).zip s.docs).filter (fun p => !p.2.2)).map (fun p => (off + p.1, p.2.1))
        ++ numbered (off + s.docs.length) rest

/-- a query whose meaning is a predicate on single documents, run over a layout: the matching
(global number, document) pairs in number order = hit order -/
def search {α} (L : Layout α) (m : α → Bool) : List (Nat × α) := (numbered 0 L).filter (fun p => m p.2)

/-- per-document contribution to the statistics of one field: (1, has the field, field length) -/
def statsOf {α} (c : α → Nat × Nat) (docs : List α) : Nat × Nat × Nat :=
  docs.foldl (fun acc d => (acc.1 + 1, acc.2.1 + (c d).1, acc.2.2 + (c d).2)) (0, 0, 0)

/-- `Snapshot.CollectionStats`: `Merge` = componentwise sum over the segments (deleted documents
included: a segment's statistics are not corrected for pending deletions) -/
def collectionStats {α} (L : Layout α) : Nat × Nat × Nat :=
  L.foldl (fun acc s => (acc.1 + s.stats.1, acc.2.1 + s.stats.2.1, acc.2.2 + s.stats.2.2)) (0, 0, 0)

/-- every segment's statistics are those of its documents (no merged segment), nothing is deleted -/
def Layout.fresh {α} (c : α → Nat × Nat) (L : Layout α) : Prop :=
  ∀ s ∈ L, s.stats = statsOf c (s.docs.map (·.1)) ∧ ∀ p ∈ s.docs, p.2 = false

/-! ## D. MultiSearch -/

/-- insert into a list kept sorted by `le` (the collector store) -/
def insertS {μ} (le : μ → μ → Bool) (m : μ) : List μ → List μ
  | [] => [m]
  | x :: xs => if le m x then m :: x :: xs else x :: insertS le m xs

/-- a collector with room for everything: keeps the store sorted -/
def collect {μ} (le : μ → μ → Bool) (ms : List μ) : List μ := ms.foldl (fun st m => insertS le m st) []

/-- the collector numbers the hits as they arrive: `hitNumber++; next.HitNumber = hitNumber` -/
def numberFrom {κ} : Nat → List κ → List (κ × Nat)
  | _, [] => []
  | n, k :: ks => (k, n + 1) :: numberFrom (n + 1) ks

/-- `MultiSearcherList.Next`: reader 0 until exhausted, then reader 1, …; the hit counter runs on -/
def multiParts {κ} : Nat → List (List κ) → List (List (κ × Nat))
  | _, [] => []
  | n, r :: rs => numberFrom n r :: multiParts (n + r.length) rs

/-- the match sequence the one collector of `MultiSearch` sees -/
def multiSeq {κ} (perReader : List (List κ)) : List (κ × Nat) := (multiParts 0 perReader).flatten

/-- `MultiSearch` with a collector of unbounded size under comparator `le` on (key, hit number) -/
def multiSearch {κ} (le : κ × Nat → κ × Nat → Bool) (perReader : List (List κ)) : List (κ × Nat) :=
  collect le (multiSeq perReader)

/-- k-way merge of sorted lists -/
def kmerge {μ} (le : μ → μ → Bool) : List (List μ) → List μ
  | [] => []
  | l :: rest => List.merge l (kmerge le rest) le

/-! ## E. Backup (`Snapshot.Backup`, `bluge.Reader.Backup`) and which snapshot a reader opens

`Snapshot.Backup(remote, cancel)` persists every segment of the snapshot into `remote`, in snapshot order,
and then the snapshot itself; the first `Persist` that fails ends the backup (`return fmt.Errorf(…)`).
`bluge.Reader.Backup(path, cancel)` is that call on `index.NewFileSystemDirectory(path)`.
`FileSystemDirectory.Persist` either completes — the file then holds exactly the new content, whatever was
there before (C13 `persist_exact_durable`) — or fails — `cleanup()` closes and REMOVES the file, also one
of that name that existed before (C13 `persist_fail_clean`). Which `Persist` fails is a parameter of the
model (`failAt`): cancellation is one cause (a `WriterTo` that monitors `closeCh`), an I/O error another. -/

/-- a segment of a reader's snapshot: id, documents in local-number order, deleted local numbers -/
structure RSeg (α : Type) where
  id : Nat
  docs : List α
  deleted : List Nat
  deriving Repr, DecidableEq

/-- the snapshot a `Reader` holds -/
structure RSnap (α : Type) where
  epoch : Nat
  segs : List (RSeg α)
  deriving Repr, DecidableEq

/-- what a reader over a snapshot shows: per segment the documents and the deleted set, in snapshot order
(global doc numbers are positions in this list of lists) -/
def RSnap.content {α} (s : RSnap α) : List (List α × List Nat) := s.segs.map fun g => (g.docs, g.deleted)

/-- what the snapshot FILE holds: per segment its id and the deleted set (`Snapshot.WriteTo`) -/
def RSnap.entries {α} (s : RSnap α) : List (Nat × List Nat) := s.segs.map fun g => (g.id, g.deleted)

/-- the logical documents of a content: the documents whose local number is not deleted, in order -/
def contentAbs {α} (c : List (List α × List Nat)) : List α :=
  c.flatMap fun p => (((List.range p.1.length).zip p.1).filter fun q => !p.2.contains q.1).map (·.2)

/-- an index directory: segment files (id ↦ documents) and snapshot files (epoch ↦ entries); the FIRST
entry of a key is the file (a later `put` shadows) -/
structure BDir (α : Type) where
  segFiles : List (Nat × List α) := []
  snapFiles : List (Nat × List (Nat × List Nat)) := []
  deriving Repr, DecidableEq

def BDir.seg? {α} (d : BDir α) (id : Nat) : Option (List α) := d.segFiles.lookup id

/-- a `Persist(ItemKindSegment, id, …)` that completes -/
def BDir.putSeg {α} (d : BDir α) (id : Nat) (docs : List α) : BDir α :=
  { d with segFiles := (id, docs) :: d.segFiles }

/-- a `Persist(ItemKindSegment, id, …)` that fails: `cleanup()` removes the file -/
def BDir.dropSeg {α} (d : BDir α) (id : Nat) : BDir α :=
  { d with segFiles := d.segFiles.filter fun f => f.1 != id }

/-- a `Persist(ItemKindSnapshot, epoch, …)` that completes (the file is replaced) -/
def BDir.putSnap {α} (d : BDir α) (e : Nat) (ent : List (Nat × List Nat)) : BDir α :=
  { d with snapFiles := (e, ent) :: d.snapFiles.filter fun f => f.1 != e }

/-- a `Persist(ItemKindSnapshot, epoch, …)` that fails -/
def BDir.dropSnap {α} (d : BDir α) (e : Nat) : BDir α :=
  { d with snapFiles := d.snapFiles.filter fun f => f.1 != e }

/-- the segment files present (`List(ItemKindSegment)`, as a set) -/
def BDir.segIds {α} (d : BDir α) : List Nat := (d.segFiles.map (·.1)).eraseDups

/-- the snapshot files present -/
def BDir.snapEpochs {α} (d : BDir α) : List Nat := (d.snapFiles.map (·.1)).eraseDups

/-- the loop `for j := range i.segment { remote.Persist(ItemKindSegment, …) }`; `k` = number of the next
`Persist`; the result says which `Persist` failed, if one did -/
def backupSegs {α} (failAt : Option Nat) : Nat → List (RSeg α) → BDir α → BDir α × Option Nat
  | _, [], d => (d, none)
  | k, g :: rest, d =>
    if failAt = some k then (d.dropSeg g.id, some k)
    else backupSegs failAt (k + 1) rest (d.putSeg g.id g.docs)

/-- `Snapshot.Backup(remote, cancel)` into the directory `d`: the segments, then the snapshot; `true` = `nil`
was returned -/
def backup {α} (failAt : Option Nat) (s : RSnap α) (d : BDir α) : BDir α × Bool :=
  match backupSegs failAt 0 s.segs d with
  | (d', some _) => (d', false)
  | (d', none) =>
    if failAt = some s.segs.length then (d'.dropSnap s.epoch, false)
    else (d'.putSnap s.epoch s.entries, true)

/-- `loadSnapshot`: every segment the snapshot file names has to load -/
def BDir.load {α} (d : BDir α) (ent : List (Nat × List Nat)) : Option (List (List α × List Nat)) :=
  allSome (ent.map fun e => (d.seg? e.1).map fun docs => (docs, e.2))

/-- one step of the walk of `OpenReader` over the snapshot files, written as a choice: the loadable
snapshot with the greatest epoch wins (the code walks `List(ItemKindSnapshot)`, which is in descending
order, and takes the first that loads; file names are unique) -/
def pickSnap {α} (d : BDir α) (best : Option (Nat × List (List α × List Nat)))
    (f : Nat × List (Nat × List Nat)) : Option (Nat × List (List α × List Nat)) :=
  match d.load f.2 with
  | none => best
  | some c =>
    match best with
    | none => some (f.1, c)
    | some b => if b.1 < f.1 then some (f.1, c) else best

/-- `index.OpenReader` / `bluge.OpenReader`: the most recent snapshot that loads, with its content;
`none` = "unable to find a usable snapshot" -/
def BDir.openReader {α} (d : BDir α) : Option (Nat × List (List α × List Nat)) :=
  d.snapFiles.foldl (pickSnap d) none

/-- every snapshot file of the directory loads (an index directory as a writer or a completed backup leaves it) -/
def BDir.closed {α} (d : BDir α) : Prop := ∀ f ∈ d.snapFiles, (d.load f.2).isSome = true

/-- the target already holds segment files of the SAME index (an earlier backup): a file with the id of a
segment of `s` has that segment's documents (segment ids are never re-used for other content, C06
`sid_never_returns`) -/
def BDir.agrees {α} (d : BDir α) (s : RSnap α) : Prop :=
  ∀ g ∈ s.segs, ∀ x, d.seg? g.id = some x → x = g.docs

/-! ## witnesses and small derived notions used by the theorems -/

/-- one segment with documents 0:"x" 1:"x y" 2:"x z" 3:"y"; the should clauses are the terms y, z -/
def witnessSnap : Snap :=
  { nS := 1, nT := 2, off := fun _ => 0, size := fun _ => 4,
    post := fun t _ => if t = 0 then .bitmap (some [1, 3]) else .oneHit 2 }


/-- the documents (they carry the id and the stored fields) a query returns over a layout -/
def hits {α : Type} (L : Layout α) (m : α → Bool) : List α := (search L m).map (·.2)


/-- a field sort: the hits in hit order (= document number order), stably sorted by the key, i.e. ties
broken by hit number as `SortOrder.Compare` does -/
def fieldSorted {α κ : Type} (le : κ → κ → Bool) (key : α → κ) (L : Layout α) (m : α → Bool) : List α :=
  (hits L m).mergeSort fun a b => le (key a) (key b)


/-- `SortOrder.Compare` for one numeric key sorted descending, ties by hit number -/
def cmpDescThenHit (a b : Nat × Nat) : Bool := decide (a.1 > b.1) || (a.1 == b.1 && decide (a.2 ≤ b.2))


end Bluge.Layout

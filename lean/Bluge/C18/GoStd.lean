import Bluge.Go
import Bluge.Analysis
/-! Run-time support for the rune-slice subset of the Go translator (`go/extract/trans_runes.go`): the few
functions of `unicode/utf8`, `bytes` and `unicode` that bluge's in-repo stemmers and normalisers call, over the
types of the translation (`rune` = `BitVec 32`, `int` = `BitVec 64`, `[]byte` = `List (BitVec 8)`).
The UTF-8 decoder and encoder are the ones of `Bluge.Analysis` (transcribed from unicode/utf8 and replayed
against it on every line of the `analysis` stream); here they are only re-typed. Core Lean only. -/
namespace Bluge.Go

/-- `copy(dst[a:b], src)`: the new value of `dst` (panics like the slice expression `dst[a:b]`) -/
def copyInto {α : Type} (dst : List α) (a b : BitVec 64) (src : List α) : Res (List α) :=
  if a.toNat ≤ b.toNat ∧ b.toNat ≤ dst.length then
    .ok (dst.take a.toNat ++ Go.copy ((dst.take b.toNat).drop a.toNat) src ++ dst.drop b.toNat)
  else .crash

/-- `make([]T, n)` with the run-time check of the length: a negative `n` panics (`makeslice: len out of range`) -/
def makeSlice {α : Type} (zero : α) (n : BitVec 64) : Res (List α) :=
  if n.toNat < 2 ^ 63 then .ok (List.replicate n.toNat zero) else .crash

end Bluge.Go

namespace Bluge.GoStd
open Bluge.Go

abbrev Rune := BitVec 32

/-- Go's unicode tables enter as an opaque parameter (the driver fills them with what the harness observed) -/
structure Unicode where
  isLetter : Rune → Bool
  isCf : Rune → Bool

instance : Inhabited Unicode := ⟨⟨fun _ => false, fun _ => false⟩⟩

/-- `bytes.Runes(p)` / `[]rune(string(p))` -/
def runes (p : Bytes) : List Rune := (Analysis.runes p).map (BitVec.ofNat 32)

/-- `utf8.RuneCount(p)` (= `len(bytes.Runes(p))`) -/
def runeCount (p : Bytes) : BitVec 64 := BitVec.ofNat 64 (Analysis.runes p).length

def isSurrogate (r : Rune) : Bool := 0xD800 ≤ r.toNat && r.toNat ≤ 0xDFFF

/-- `utf8.RuneLen(r)`: -1 for a rune that is not encodable (negative, surrogate, beyond U+10FFFF) -/
def runeLen (r : Rune) : BitVec 64 :=
  if r.toNat < 0x80 then 1#64
  else if r.toNat < 0x800 then 2#64
  else if isSurrogate r then BitVec.ofInt 64 (-1)
  else if r.toNat < 0x10000 then 3#64
  else if r.toNat ≤ 0x10FFFF then 4#64
  else BitVec.ofInt 64 (-1)

/-- the bytes `utf8.EncodeRune` writes (U+FFFD for an invalid rune; `uint32(r)` is `r.toNat`) -/
def encodeRune (r : Rune) : Bytes := Analysis.encodeRune r.toNat

/-- `n := utf8.EncodeRune(p[off:], r)`: the new `p` and `n`. Panics when `off > len(p)` (the slice expression) or
when fewer than `n` bytes remain (EncodeRune's own bounds checks, which precede every write). -/
def encodeRuneAt (p : Bytes) (off : BitVec 64) (r : Rune) : Res (Bytes × BitVec 64) :=
  let enc := encodeRune r
  if off.toNat + enc.length ≤ p.length then
    .ok (p.take off.toNat ++ enc ++ p.drop (off.toNat + enc.length), BitVec.ofNat 64 enc.length)
  else .crash

/-- `bytes.HasSuffix` / `bytes.HasPrefix` -/
def hasSuffix (s suf : Bytes) : Bool := suf.length ≤ s.length && s.drop (s.length - suf.length) == suf
def hasPrefix (s pre : Bytes) : Bool := s.take pre.length == pre

def isRuneStart (b : BitVec 8) : Bool := b.toNat &&& 0xC0 != 0x80

/-- the backward scan of `utf8.DecodeLastRune`: `for start--; start >= lim; start-- { if RuneStart(p[start]) break }` -/
def lastStart (p : Bytes) (lim : Nat) : Nat → Nat → Int
  | 0, start => start
  | fuel + 1, start =>
    if start = 0 then -1
    else
      let s := start - 1
      if s < lim then (s : Int)
      else if isRuneStart (p.getD s 0) then s else lastStart p lim fuel s

/-- `utf8.DecodeLastRune(p)`: (rune, size), transcribed from unicode/utf8 -/
def decodeLastRune (p : Bytes) : Rune × BitVec 64 :=
  let e := p.length
  if e = 0 then (0xFFFD#32, 0#64) else
  let start := e - 1
  let r0 := p.getD start 0
  if r0.toNat < 0x80 then (r0.setWidth 32, 1#64) else
  let lim := e - 4   -- max(end - UTFMax, 0): Nat subtraction truncates
  let st := lastStart p lim 4 start
  let st : Nat := if st < 0 then 0 else st.toNat
  let d := Analysis.decodeRune ((p.take e).drop st)
  if st + d.2 ≠ e then (0xFFFD#32, 1#64) else (BitVec.ofNat 32 d.1, BitVec.ofNat 64 d.2)

end Bluge.GoStd

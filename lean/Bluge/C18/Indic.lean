import Bluge.Go
import Bluge.C18.GoStd
import BlugeGen.C18I
/-! The Indic normaliser (analysis/lang/in: scripts.go `normalize`, `compose`, `init`; indic_normalize.go),
a HAND transcription over the tables extracted from the source (`BlugeGen.C18I.scripts`, `.decompositions`).
It is outside the translated rune subset (map keyed by `*unicode.RangeTable`, struct pointers, a bitset).

What the transcription relies on, and where that is checked:
* `lookupScript(r)` — the script table containing `r`, or nil — is a parameter `look : Rune → Option Nat`
  (index into `scripts` ordered by base); the driver fills it with what the harness observed with `unicode.Is`;
* `scriptData.decompMask.Test(uint(ch))` is `maskTest`: TOTAL — a `*bitset.BitSet` answers `false` beyond its
  length, which is what makes `ch = r - base` harmless for the code points of a script table outside the
  0x80-wide main block (Devanagari Extended U+A8E0.., Tamil Supplement U+11FC0.., …). The Gen facts
  `BlugeGen.C18I.maskField / maskUses / indexSites / digests` are obliged by `decide` (BlugeProofs.C18) to be the
  reviewed ones: an array or slice index in place of `Test` is a different program and fails the obligation;
* every line `stem in_normalize …` of the correspondence stream replays this model against the real filter.
Core Lean only. -/
namespace Bluge.C18.Indic
open Bluge Bluge.Go

abbrev Rune := BitVec 32

structure ScriptData where
  flag : Rune
  base : Rune
deriving Repr, DecidableEq, Inhabited

/-- the `scripts` map, by base -/
def scriptTable : List ScriptData :=
  BlugeGen.C18I.scripts.map fun s => { flag := BitVec.ofInt 32 s.2.1, base := BitVec.ofInt 32 s.2.2 }

/-- the `decompositions` table -/
def decompRows : List (List Rune) := BlugeGen.C18I.decompositions.map (·.map (BitVec.ofInt 32))

/-- `xs[i]` (a panic when out of range) -/
def idx {α : Type} (xs : List α) (i : Nat) : Res α :=
  match xs[i]? with
  | some v => .ok v
  | none => .crash

/-- `xs[i] = v` -/
def setAt {α : Type} (xs : List α) (i : Nat) (v : α) : Res (List α) :=
  if i < xs.length then .ok (xs.set i v) else .crash

/-- `analysis.DeleteRune(in, pos)` for `pos ≥ 0` -/
def deleteRune (xs : List Rune) (pos : Nat) : List Rune := if pos ≥ xs.length then xs else xs.eraseIdx pos

/-- `scriptData.decompMask.Test(uint(ch))` after `init()`: `init` sets bit `decomposition[0]` of the mask of
every script whose flag is in `decomposition[4]`; a bitset answers `false` for every other index, whatever its
size — also for `uint` of a negative `ch` -/
def maskTest (rows : List (List Rune)) (sd : ScriptData) (ch : Rune) : Bool :=
  rows.any fun d => match d[0]?, d[4]? with
    | some c, some f => c == ch && (f &&& sd.flag) != 0
    | _, _ => false

/-- the `for _, decomposition := range decompositions` loop of `compose` -/
def composeRows (sd : ScriptData) (ch0 ch1 ch2 : Rune) (input : List Rune) (pos : Nat) : List (List Rune) → Res (List Rune)
  | [] => .ok input
  | d :: rest => do
    let d0 ← idx d 0
    if d0 == ch0 then do
      let d4 ← idx d 4
      if (d4 &&& sd.flag) != 0 then do
        let d1 ← idx d 1
        if d1 == ch1 then do
          let d2 ← idx d 2
          if d2.slt 0 || d2 == ch2 then do
            let d3 ← idx d 3
            let input ← setAt input pos (sd.base + d3)
            let input := deleteRune input (pos + 1)
            let d2' ← idx d 2
            pure (if !(d2'.slt 0) then deleteRune input (pos + 1) else input)
          else composeRows sd ch0 ch1 ch2 input pos rest
        else composeRows sd ch0 ch1 ch2 input pos rest
      else composeRows sd ch0 ch1 ch2 input pos rest
    else composeRows sd ch0 ch1 ch2 input pos rest

/-- `compose(ch0, script0, scriptData, input, pos, inputLen)` -/
def compose (look : Rune → Option Nat) (rows : List (List Rune)) (ch0 : Rune) (script0 : Nat) (sd : ScriptData)
    (input : List Rune) (pos inputLen : Nat) : Res (List Rune) :=
  if pos + 1 ≥ inputLen then .ok input          -- need at least 2 characters
  else do
    let r1 ← idx input (pos + 1)
    let ch1 := r1 - sd.base
    let script1 := look r1
    if script1 != some script0 then .ok input   -- need to be same script
    else do
      let ch2 ← (if pos + 2 < inputLen then do
          let r2 ← idx input (pos + 2)
          let script2 := look r2
          pure (if r2 == 0x200D#32 then 0xff#32 else if script2 != script1 then (-1 : Rune) else r2 - sd.base)
        else pure (-1 : Rune))
      composeRows sd ch0 ch1 ch2 input pos rows

/-- the `for i := 0; i < inputLen; i++` loop of `normalize`: state (input, i, inputLen) -/
def normLoop (look : Rune → Option Nat) (table : List ScriptData) (rows : List (List Rune)) :
    Nat → List Rune → Nat → Nat → Res (List Rune × Nat)
  | 0, _, _, _ => .crash
  | fuel + 1, input, i, inputLen =>
    if i < inputLen then do
      let r ← idx input i
      match look r with
      | some k =>
        let sd := table.getD k default      -- scripts[script]: the key comes from ranging over the same map
        let ch := r - sd.base
        if maskTest rows sd ch then do
          let input ← compose look rows ch k sd input i inputLen
          normLoop look table rows fuel input (i + 1) input.length
        else normLoop look table rows fuel input (i + 1) inputLen
      | none => normLoop look table rows fuel input (i + 1) inputLen
    else .ok (input, inputLen)

/-- `normalize(input)`: … `return input[0:inputLen]` -/
def normalizeWith (look : Rune → Option Nat) (table : List ScriptData) (rows : List (List Rune)) (input : List Rune) :
    Res (List Rune) := do
  let st ← normLoop look table rows (input.length + 1) input 0 input.length
  if st.2 ≤ st.1.length then .ok (st.1.take st.2) else .crash

def normalize (look : Rune → Option Nat) (input : List Rune) : Res (List Rune) :=
  normalizeWith look scriptTable decompRows input

end Bluge.C18.Indic

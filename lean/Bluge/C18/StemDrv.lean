import Bluge.C18.GoStd
import BlugeGen.C18S
import Bluge.C18.Indic
/-! Driver side of the `stem` / `util` correspondence ops of C18: the TRANSLATED definitions of
`BlugeGen.C18S` are run on the bytes the harness gave to the real stemmer / normaliser / helper, and the
result is printed in the harness's canonical form (hex term, rune list, `panic`). The token-level wrappers
below transcribe the three-line `Filter` methods (`bytes.Runes` → stem → `BuildTermFromRunes`). Core Lean only. -/
open Bluge Bluge.Go Bluge.GoStd

namespace C18S
open BlugeGen.C18S

/-! ### the `Filter` methods around the translated functions (per token, `KeyWord = false`) -/

/-- `runes := bytes.Runes(token.Term); runes = stem(runes); token.Term = analysis.BuildTermFromRunes(runes)` -/
def viaRunes (stem : List Rune → Res (List Rune)) (term : Bytes) : Res Bytes := do
  let runes ← stem (GoStd.runes term)
  BuildTermFromRunes runes

def de_lightFilter := viaRunes de_stem
def es_lightFilter := viaRunes es_stem
def it_lightFilter := viaRunes it_stem
def pt_lightFilter := viaRunes pt_stem
def fr_minFilter := viaRunes fr_minstem
def fr_lightFilter (uc : Unicode) := viaRunes (fr_stem uc)
/-- analysis/lang/in `IndicNormalizeFilter.Filter` around the hand transcription `Bluge.C18.Indic.normalize` -/
def in_normalizeFilter (look : Rune → Option Nat) := viaRunes (Bluge.C18.Indic.normalize look)

/-- every filter the `stem` op knows: name ↦ translated term function -/
def stemFn (uc : Unicode) : String → Option (Bytes → Res Bytes)
  | "de_normalize" => some de_normalize
  | "de_light" => some de_lightFilter
  | "ar_normalize" => some ar_normalize
  | "ar_stem" => some ar_stem
  | "fa_normalize" => some fa_normalize
  | "ckb_normalize" => some (ckb_normalize uc)
  | "ckb_stem" => some ckb_stem
  | "hi_normalize" => some hi_normalize
  | "hi_stem" => some hi_stem
  | "es_light" => some es_lightFilter
  | "it_light" => some it_lightFilter
  | "pt_light" => some pt_lightFilter
  | "fr_light" => some (fr_lightFilter uc)
  | "fr_min" => some fr_minFilter
  | _ => none

/-! ### parsing / printing -/

def hexNib (c : Char) : Nat :=
  let n := c.toNat
  if n ≥ 97 then n - 87 else if n ≥ 65 then n - 55 else n - 48

def unhex (s : String) : Bytes :=
  if s == "-" then [] else
  let rec go : List Char → List (BitVec 8) → List (BitVec 8)
    | a :: b :: rest, acc => go rest (BitVec.ofNat 8 (hexNib a * 16 + hexNib b) :: acc)
    | _, acc => acc.reverse
  go s.toList []

def hexChar (n : Nat) : Char := if n < 10 then Char.ofNat (48 + n) else Char.ofNat (87 + n)

def hex (bs : Bytes) : String :=
  if bs.isEmpty then "-" else
  bs.foldl (fun (acc : String) b => (acc.push (hexChar (b.toNat / 16))).push (hexChar (b.toNat % 16))) ""

/-- runes travel as comma-separated signed decimals (`-` = empty list), so that invalid runes can be sent -/
def parseRunes (s : String) : Option (List Rune) :=
  if s == "-" then some [] else (s.splitOn ",").mapM fun w => w.toInt?.map (BitVec.ofInt 32)

def showRunes (rs : List Rune) : String :=
  if rs.isEmpty then "-" else ",".intercalate (rs.map fun r => toString r.toInt)

def showRes {α : Type} (f : α → String) : Res α → String
  | .ok a => f a
  | .err => "err"
  | .crash => "panic"

/-- `l=<bits>` / `c=<bits>`: unicode.IsLetter / unicode.In(·, Cf) of the runes of the term, as observed by the harness -/
def obsTable (term : Bytes) (bits : String) : Option (List (Rune × Bool)) :=
  let rs := GoStd.runes term
  let cs := bits.toList
  if rs.length ≠ cs.length then none else
  (rs.zip (cs.map (· == '1'))).foldlM (fun m (p : Rune × Bool) =>
    match m.lookup p.1 with
    | some v => if v == p.2 then some m else none
    | none => some (p :: m)) []

def isAsciiLower (r : Rune) : Bool := 97 ≤ r.toNat && r.toNat ≤ 122

/-- the tables used by a `stem` line: the observations, and for runes the term does not contain (the ASCII
letters the French stemmer writes) `a`–`z` are letters and nothing is a format character -/
def ucOf (term : Bytes) (aux : List String) : Option Unicode :=
  let get (key : String) : Option (List (Rune × Bool)) :=
    match aux.find? (·.startsWith key) with
    | some a => obsTable term (a.drop key.length).toString
    | none => some []
  match get "l=", get "c=" with
  | some l, some c => some { isLetter := fun r => (l.lookup r).getD (isAsciiLower r), isCf := fun r => (c.lookup r).getD false }
  | _, _ => none

def boolStr (b : Bool) : String := if b then "1" else "0"

/-- `s=<codes>`: for every rune of the term, the index (0…8, by base) of the script table `lookupScript` finds
it in, `-` for nil — as observed by the harness with `unicode.Is` -/
def lookOf (term : Bytes) (aux : List String) : Option (Rune → Option Nat) :=
  match aux.find? (·.startsWith "s=") with
  | none => none
  | some a =>
    let rs := GoStd.runes term
    let cs := (a.drop 2).toString.toList
    if rs.length ≠ cs.length then none else
    ((rs.zip cs).foldlM (fun (m : List (Rune × Option Nat)) (p : Rune × Char) =>
      let v : Option Nat := if p.2 == '-' then none else some (p.2.toNat - 48)
      match m.lookup p.1 with
      | some v' => if v == v' then some m else none
      | none => some ((p.1, v) :: m)) []).map fun (m : List (Rune × Option Nat)) (r : Rune) => (m.lookup r).getD none

/-- model result and verdict of a `stem` / `util` line -/
def stemStep (ws : List String) (impl : String) : String × String :=
  match ws with
  | "stem" :: "in_normalize" :: h :: aux =>
    let term := unhex h
    match lookOf term aux with
    | none => ("script-observation-inconsistent", "na")
    | some look =>
      let m := showRes hex (in_normalizeFilter look term)
      (m, (if impl == "panic" then "bad:panic-stem-in_normalize" else "ok") ++ " br=stem,stem:in_normalize" ++
        (if m == "panic" then ",stem-model-crash" else ""))
  | "stem" :: name :: h :: aux =>
    let term := unhex h
    match ucOf term aux with
    | none => ("unicode-observation-inconsistent", "na")
    | some uc =>
      match stemFn uc name with
      | none => ("bad-op", "na")
      | some f =>
        let m := showRes hex (f term)
        -- a bundled stemmer / normaliser must not panic on any bytes
        (m, (if impl == "panic" then "bad:panic-stem-" ++ name else "ok") ++ " br=stem," ++ "stem:" ++ name ++
          (if m == "panic" then ",stem-model-crash" else ""))
  | ["util", "DeleteRune", rs, pos] =>
    match parseRunes rs, pos.toInt? with
    | some rs, some p =>
      let inDom := decide (0 ≤ p)
      let m := showRes showRunes (DeleteRune rs (BitVec.ofInt 64 p))
      (m, (if impl == "panic" && inDom then "bad:panic-util-DeleteRune" else "ok") ++ " br=util,util:DeleteRune" ++ (if inDom then "" else ",util-outside-domain"))
    | _, _ => ("bad-op", "na")
  | ["util", "InsertRune", rs, pos, r] =>
    match parseRunes rs, pos.toInt?, r.toInt? with
    | some rs, some p, some r =>
      let inDom := decide (0 ≤ p ∧ p ≤ rs.length)
      let m := showRes showRunes (InsertRune rs (BitVec.ofInt 64 p) (BitVec.ofInt 32 r))
      (m, (if impl == "panic" && inDom then "bad:panic-util-InsertRune" else "ok") ++ " br=util,util:InsertRune" ++ (if inDom then "" else ",util-outside-domain"))
    | _, _, _ => ("bad-op", "na")
  | ["util", "BuildTermFromRunes", rs] =>
    match parseRunes rs with
    | some rs =>
      (showRes hex (BuildTermFromRunes rs), (if impl == "panic" then "bad:panic-util-BuildTermFromRunes" else "ok") ++ " br=util,util:BuildTermFromRunes")
    | none => ("bad-op", "na")
  | ["util", "BuildTermOpt", n, rs] =>
    match parseRunes rs, n.toNat? with
    | some rs, some n =>
      -- outside the domain: a rune utf8.RuneLen reports as -1 (negative, surrogate, > U+10FFFF)
      let inDom := rs.all fun r => GoStd.runeLen r != BitVec.ofInt 64 (-1)
      let m := showRes hex (BuildTermFromRunesOptimistic (List.replicate n 0#8) rs)
      (m, (if impl == "panic" && inDom then "bad:panic-util-BuildTermOpt" else "ok") ++ " br=util,util:BuildTermOpt" ++ (if inDom then "" else ",util-outside-domain"))
    | _, _ => ("bad-op", "na")
  | ["util", "TruncateRunes", h, num] =>
    match num.toInt? with
    | some k =>
      let term := unhex h
      let inDom := decide (0 ≤ k ∧ k ≤ (GoStd.runes term).length)
      let m := showRes hex (TruncateRunes term (BitVec.ofInt 64 k))
      (m, (if impl == "panic" && inDom then "bad:panic-util-TruncateRunes" else "ok") ++ " br=util,util:TruncateRunes" ++ (if inDom then "" else ",util-outside-domain"))
    | none => ("bad-op", "na")
  | ["util", "RunesEndsWith", rs, suf] =>
    match parseRunes rs with
    | some rs =>
      (showRes boolStr (RunesEndsWith rs (unhex suf)), (if impl == "panic" then "bad:panic-util-RunesEndsWith" else "ok") ++ " br=util,util:RunesEndsWith")
    | none => ("bad-op", "na")
  | _ => ("bad-op", "na")

end C18S

import Bluge.Basic
/-! # Bluge.Search — postings, searchers (C07; also used by C08/C09/C16)

Model of `/repo/search/searcher/*.go` and `/repo/index/postings*.go`, core Lean only.

A searcher is a state machine answering two calls, `Next` and `Advance n`, with `Option DocNum`
(`none` = Go's `nil` match). Composite searchers are transcribed *generically over the state type `ι`
of their children and the children's step function* `cs : ι → Call → Resp × ι`, so that the theorems
about one composite (BlugeProofs.C07) speak about arbitrary children satisfying the iterator contract
and query trees of any depth follow by induction on the depth (`NodeD`).

Loops of the Go code whose termination depends on the children making progress are given a `fuel`
argument; BlugeProofs.C07 proves that `fuel ≥ …` is never exhausted when the children are iterators.
Running out of fuel answers `none` (and is unreachable under the proved bound).

What is abstracted (listed in checks/c07.py ASSUMPTIONS): a `DocumentMatch` is its doc number (scores,
locations and the match pool are C17/C09's business); `sort.Sort` of the children by `Count()` is the
identity (the order of children never influences doc numbers, only which child is asked first);
`container/heap` is an abstract priority queue (`popMin` removes the first minimal element); errors
from children do not occur (ice/vellum are assumed total on a well-formed segment). -/
namespace Bluge.Search

abbrev DocNum := Nat

/-- the two calls of `search.Searcher` that move the cursor -/
inductive Call where
  | next
  | adv (n : Nat)
deriving Repr, DecidableEq, Inhabited

abbrev Resp := Option Nat

/-- step function of a child searcher with state type `ι` -/
abbrev Step (ι : Type) := ι → Call → Resp × ι

/-- first element `≥ n` of a list (used on strictly increasing lists) -/
def firstGE (L : List Nat) (n : Nat) : Option Nat := L.find? (fun x => decide (n ≤ x))

/-! ## Leaves: `TermSearcher` over `index.postingsIterator`, `MatchAllSearcher` over
`postingsIteratorAll`, `MatchNoneSearcher` (a leaf with the empty list), and the `TermSearcher` over
the *unadorned* iterator built by index/optimize.go. The leaf sees one strictly increasing list of
global doc numbers (the live postings of all segments, `offset + local`); `Bluge.Search.Postings`
below is the per-segment machine that is proved to be such a leaf. -/

inductive LeafKind where
  | postings   -- index/postings.go
  | unadorned  -- postingsIterator built by Snapshot.unadornedPostingsIterator (index/optimize.go Finish)
  | all        -- index/postings_all.go
deriving Repr, DecidableEq, Inhabited

structure Leaf where
  kind : LeafKind
  /-- every live posting, global numbers, strictly increasing -/
  list : List Nat
  /-- postings not yet returned -/
  rest : List Nat
  /-- `currPosting != nil` -/
  started : Bool
  /-- `currID` -/
  curr : Nat
deriving Repr, Inhabited

def Leaf.mk' (kind : LeafKind) (l : List Nat) : Leaf := ⟨kind, l, l, false, 0⟩

/-- `postingsIterator.Next` / `postingsIteratorAll.Next` -/
def Leaf.next (l : Leaf) : Resp × Leaf :=
  match l.rest with
  | [] => (none, l)
  | x :: r => (some x, { l with rest := r, started := true, curr := x })

/-- `postingsIterator.Advance`: "if we need to seek backwards, then restart from the beginning"
(`currPosting != nil && currID >= number`): the iterator is replaced by a fresh
`snapshot.PostingsIterator(term, field)`. For the unadorned iterator `term`/`field` are the artificial
`<disjunction:unadorned>` / `*`, so the fresh iterator is EMPTY. `postingsIteratorAll.Advance` never
restarts: it only moves the per-segment bitmap iterators forward. -/
def Leaf.restart (l : Leaf) : Leaf :=
  match l.kind with
  | .postings => { l with rest := l.list, started := false, curr := 0 }
  | .unadorned => { kind := .postings, list := [], rest := [], started := false, curr := 0 }
  | .all => l

def Leaf.adv (l : Leaf) (n : Nat) : Resp × Leaf :=
  let l1 := if l.kind != .all && l.started && decide (n ≤ l.curr) then l.restart else l
  Leaf.next { l1 with rest := l1.rest.dropWhile (fun x => decide (x < n)) }

def Leaf.step (l : Leaf) : Call → Resp × Leaf
  | .next => l.next
  | .adv n => l.adv n

/-! ## helpers for composites over a list of children -/

/-- call child `i` -/
def callKid {ι} (cs : Step ι) (kids : List ι) (i : Nat) (c : Call) : Resp × List ι :=
  match kids[i]? with
  | none => (none, kids)
  | some k => let r := cs k c; (r.1, kids.set i r.2)

/-- `Next` on every child, in order (all `initSearchers`, and the bump after a conjunction match) -/
def nextAll {ι} (cs : Step ι) : List ι → List Resp × List ι
  | [] => ([], [])
  | k :: ks =>
    let r := cs k .next
    let rs := nextAll cs ks
    (r.1 :: rs.1, r.2 :: rs.2)

/-- `for i: if currs[i] != nil && currs[i].Number >= n {continue}; currs[i] = searchers[i].Advance(n)`
(ConjunctionSearcher.Advance, DisjunctionSliceSearcher.Advance) -/
def advBehind {ι} (cs : Step ι) (n : Nat) : List ι → List Resp → List Resp × List ι
  | k :: ks, c :: cur =>
    let rs := advBehind cs n ks cur
    match c with
    | some x => if n ≤ x then (some x :: rs.1, k :: rs.2)
                else let r := cs k (.adv n); (r.1 :: rs.1, r.2 :: rs.2)
    | none => let r := cs k (.adv n); (r.1 :: rs.1, r.2 :: rs.2)
  | ks, _ => ([], ks)

/-! ## ConjunctionSearcher (search_conjunction.go) -/

structure Conj (ι : Type) where
  kids : List ι
  currs : List Resp
  maxIdx : Nat
  init : Bool
deriving Repr

namespace Conj
variable {ι : Type}

def mk' (kids : List ι) : Conj ι := ⟨kids, kids.map (fun _ => none), 0, false⟩

/-- `advanceChild(i, n)` -/
def advChild (cs : Step ι) (s : Conj ι) (i n : Nat) : Conj ι :=
  let r := callKid cs s.kids i (.adv n)
  { s with kids := r.2, currs := s.currs.set i r.1 }

/-- `for x := 0; x < i; x++ { advanceChild(x, n) }` -/
def advPrefix (cs : Step ι) (s : Conj ι) (n : Nat) : Nat → Conj ι
  | 0 => s
  | x + 1 => advChild cs (advPrefix cs s n x) x n

def ensureInit (cs : Step ι) (s : Conj ι) : Conj ι :=
  if s.init then s else
    let r := nextAll cs s.kids
    { s with kids := r.2, currs := r.1, init := true }

mutual
/-- the `OUTER:` loop head of `ConjunctionSearcher.Next` -/
def outer (cs : Step ι) : Nat → Conj ι → Resp × Conj ι
  | 0, s => (none, s)
  | f + 1, s =>
    match s.currs.getD s.maxIdx none with      -- maxIDIdx < len(currs) && currs[maxIDIdx] != nil
    | none => (none, s)
    | some maxID => inner cs f s maxID 0
/-- the inner `for i < len(currs)` loop -/
def inner (cs : Step ι) : Nat → Conj ι → Nat → Nat → Resp × Conj ι
  | 0, s, _, _ => (none, s)
  | f + 1, s, maxID, i =>
    if s.currs.length ≤ i then
      -- a doc matched all readers: rv = currs[0]; every searcher is bumped with Next
      let r := nextAll cs s.kids
      (some maxID, { s with kids := r.2, currs := r.1 })
    else match s.currs.getD i none with
      | none => (none, s)                                   -- `return nil, nil`
      | some c =>
        if i = s.maxIdx then inner cs f s maxID (i + 1)
        else if maxID = c then inner cs f s maxID (i + 1)
        else if maxID < c then
          -- found a new maxIDIdx; advance the positions [0,i) to it; continue OUTER
          outer cs f { advPrefix cs s c i with maxIdx := i }
        else
          -- maxID > currs[i]: advance searchers[i]; do not bump i
          inner cs f (advChild cs s i maxID) maxID i
end

def step (cs : Step ι) (fuel : Nat) (s : Conj ι) : Call → Resp × Conj ι
  | .next => outer cs fuel (ensureInit cs s)
  | .adv n =>
    let s := ensureInit cs s
    let r := advBehind cs n s.kids s.currs
    outer cs fuel { s with kids := r.2, currs := r.1 }

end Conj

/-! ## DisjunctionSliceSearcher (search_disjunction_slice.go) -/

/-- `updateMatches`: the indices of the children standing on the smallest doc number, and that number -/
def updateMatches (currs : List Resp) : Option Nat × List Nat :=
  let rec go : Nat → List Resp → Option Nat × List Nat → Option Nat × List Nat
    | _, [], acc => acc
    | i, none :: cs, acc => go (i + 1) cs acc
    | i, some c :: cs, (none, _) => go (i + 1) cs (some c, [i])
    | i, some c :: cs, (some m, idxs) =>
        if m < c then go (i + 1) cs (some m, idxs)
        else if c < m then go (i + 1) cs (some c, [i])
        else go (i + 1) cs (some m, idxs ++ [i])
  go 0 currs (none, [])

structure DisjS (ι : Type) where
  kids : List ι
  currs : List Resp
  min : Nat
  /-- `matching[0].Number` -/
  mval : Option Nat
  /-- `matchingIdxs` -/
  midx : List Nat
  init : Bool
deriving Repr

namespace DisjS
variable {ι : Type}

def mk' (kids : List ι) (min : Nat) : DisjS ι := ⟨kids, kids.map (fun _ => none), min, none, [], false⟩

def refresh (s : DisjS ι) : DisjS ι :=
  let m := updateMatches s.currs
  { s with mval := m.1, midx := m.2 }

def ensureInit (cs : Step ι) (s : DisjS ι) : DisjS ι :=
  if s.init then s else
    let r := nextAll cs s.kids
    refresh { s with kids := r.2, currs := r.1, init := true }

/-- `for _, i := range matchingIdxs { currs[i] = searchers[i].Next() }` -/
def nextIdxs (cs : Step ι) (s : DisjS ι) : List Nat → DisjS ι
  | [] => s
  | i :: is =>
    let r := callKid cs s.kids i .next
    nextIdxs cs { s with kids := r.2, currs := s.currs.set i r.1 } is

/-- the `for !found && len(matching) > 0` loop of `Next` -/
def loop (cs : Step ι) : Nat → DisjS ι → Resp × DisjS ι
  | 0, s => (none, s)
  | f + 1, s =>
    match s.mval with
    | none => (none, s)                       -- len(matching) == 0
    | some m =>
      let found := decide (s.min ≤ s.midx.length)
      let s' := refresh (nextIdxs cs s s.midx)
      if found then (some m, s') else loop cs f s'

def step (cs : Step ι) (fuel : Nat) (s : DisjS ι) : Call → Resp × DisjS ι
  | .next => loop cs fuel (ensureInit cs s)
  | .adv n =>
    let s := ensureInit cs s
    let r := advBehind cs n s.kids s.currs
    loop cs fuel (refresh { s with kids := r.2, currs := r.1 })

end DisjS

/-! ## DisjunctionHeapSearcher (search_disjunction_heap.go); used above `DisjunctionHeapTakeover` children -/

/-- `DisjunctionHeapTakeover`: `len(qsearchers) > 10` selects the heap implementation -/
def heapTakeover : Nat := 10

/-- an entry `searcherCurr{searcher, curr}`: (index of the child, curr.Number) -/
abbrev HEntry := Nat × Nat

/-- index (in the list) of the first entry with the smallest `curr` -/
def minPos : List HEntry → Option Nat
  | [] => none
  | e :: es =>
    match minPos es with
    | none => some 0
    | some j => if (es.getD j e).2 < e.2 then some (j + 1) else some 0

/-- `heap.Pop`: remove an entry with the smallest `curr` -/
def popMin (h : List HEntry) : Option (HEntry × List HEntry) :=
  match minPos h with
  | none => none
  | some j => match h[j]? with
    | none => none
    | some e => some (e, h.eraseIdx j)

/-- `s.heap[0].curr.Number` -/
def heapTop (h : List HEntry) : Option Nat := (popMin h).map (·.1.2)

structure DisjH (ι : Type) where
  kids : List ι
  heap : List HEntry
  /-- `matchingCurrs` (all have the same `curr`) -/
  matching : List HEntry
  min : Nat
  init : Bool
deriving Repr

namespace DisjH
variable {ι : Type}

def mk' (kids : List ι) (min : Nat) : DisjH ι := ⟨kids, [], [], min, false⟩

/-- pop while the top equals `v` -/
def popEq (v : Nat) : Nat → List HEntry → List HEntry → List HEntry × List HEntry
  | 0, h, acc => (acc, h)
  | f + 1, h, acc =>
    match popMin h with
    | none => (acc, h)
    | some (e, h') => if e.2 = v then popEq v f h' (acc ++ [e]) else (acc, h)

/-- `updateMatches` -/
def refresh (s : DisjH ι) : DisjH ι :=
  match popMin s.heap with
  | none => { s with matching := [] }
  | some (e, h') =>
    let r := popEq e.2 h'.length h' [e]
    { s with matching := r.1, heap := r.2 }

/-- initSearchers: `Next` on every child, push the non-nil ones -/
def initGo (cs : Step ι) : Nat → List ι → List HEntry × List ι
  | _, [] => ([], [])
  | i, k :: ks =>
    let r := cs k .next
    let rs := initGo cs (i + 1) ks
    match r.1 with
    | some c => ((i, c) :: rs.1, r.2 :: rs.2)
    | none => (rs.1, r.2 :: rs.2)

def ensureInit (cs : Step ι) (s : DisjH ι) : DisjH ι :=
  if s.init then s else
    let r := initGo cs 0 s.kids
    refresh { s with kids := r.2, heap := r.1, init := true }

/-- `for _, matchingCurr := range matchingCurrs { curr = searcher.Next(); if curr != nil { push } }` -/
def nextMatching (cs : Step ι) (s : DisjH ι) : List HEntry → DisjH ι
  | [] => s
  | e :: es =>
    let r := callKid cs s.kids e.1 .next
    let s1 := { s with kids := r.2 }
    match r.1 with
    | some c => nextMatching cs { s1 with heap := s1.heap ++ [(e.1, c)] } es
    | none => nextMatching cs s1 es

def loop (cs : Step ι) : Nat → DisjH ι → Resp × DisjH ι
  | 0, s => (none, s)
  | f + 1, s =>
    match s.matching with
    | [] => (none, s)
    | e :: _ =>
      let found := decide (s.min ≤ s.matching.length)
      let s' := refresh (nextMatching cs { s with matching := [] } s.matching)
      if found then (some e.2, s') else loop cs f s'

/-- the pop-and-advance loop of `Advance`: returns (advanced entries, state) -/
def advLoop (cs : Step ι) (n : Nat) : Nat → DisjH ι → List HEntry → List HEntry × DisjH ι
  | 0, s, tmp => (tmp, s)
  | f + 1, s, tmp =>
    match popMin s.heap with
    | none => (tmp, s)
    | some (e, h') =>
      if e.2 < n then
        let r := callKid cs s.kids e.1 (.adv n)
        let s1 := { s with kids := r.2, heap := h' }
        match r.1 with
        | some c => advLoop cs n f s1 (tmp ++ [(e.1, c)])
        | none => advLoop cs n f s1 tmp
      else (tmp, s)

def step (cs : Step ι) (fuel : Nat) (s : DisjH ι) : Call → Resp × DisjH ι
  | .next => loop cs fuel (ensureInit cs s)
  | .adv n =>
    let s := ensureInit cs s
    -- toss matching back onto the heap
    let s := { s with heap := s.heap ++ s.matching, matching := [] }
    let r := advLoop cs n s.heap.length s []
    let s := { r.2 with heap := r.2.heap ++ r.1 }
    loop cs fuel (refresh s)

end DisjH

/-! ## BooleanSearcher (search_boolean.go) -/

structure BoolS (ι : Type) where
  must : Option ι
  should : Option ι
  mustNot : Option ι
  /-- `shouldSearcher.Min()` -/
  shouldMin : Nat
  currMust : Resp
  currShould : Resp
  currMustNot : Resp
  currentMatch : Resp
  init : Bool
  done : Bool
deriving Repr

namespace BoolS
variable {ι : Type}

def mk' (must should mustNot : Option ι) (shouldMin : Nat) : BoolS ι :=
  ⟨must, should, mustNot, shouldMin, none, none, none, none, false, false⟩

/-- call an optional child -/
def callOpt (cs : Step ι) (k : Option ι) (c : Call) : Resp × Option ι :=
  match k with
  | none => (none, none)
  | some k => let r := cs k c; (r.1, some r.2)

/-- the `if mustSearcher != nil && currMust != nil {…} else if mustSearcher == nil && currShould != nil {…} else {…}` tail -/
def setCurrent (s : BoolS ι) : BoolS ι :=
  { s with currentMatch :=
      if s.must.isSome && s.currMust.isSome then s.currMust
      else if s.must.isNone && s.currShould.isSome then s.currShould
      else none }

def initSearchers (cs : Step ι) (s : BoolS ι) : BoolS ι :=
  let rm := callOpt cs s.must .next
  let rs := callOpt cs s.should .next
  let rn := callOpt cs s.mustNot .next
  setCurrent { s with must := rm.2, currMust := rm.1, should := rs.2, currShould := rs.1,
                      mustNot := rn.2, currMustNot := rn.1, init := true }

def advanceNextMust (cs : Step ι) (s : BoolS ι) : BoolS ι :=
  if s.must.isSome then
    let r := callOpt cs s.must .next
    setCurrent { s with must := r.2, currMust := r.1 }
  else
    let r := callOpt cs s.should .next
    setCurrent { s with should := r.2, currShould := r.1 }

/-- `doesMustNotExcludeCandidate` for candidate `cand` (= currentMatch.Number), `mn` = currMustNot.Number -/
def mustNotExcludes (cs : Step ι) (s : BoolS ι) (cand mn : Nat) : Bool × BoolS ι :=
  if mn < cand then
    let r := callOpt cs s.mustNot (.adv cand)
    let s1 := { s with mustNot := r.2, currMustNot := r.1 }
    if r.1 = some cand then (true, advanceNextMust cs s1) else (false, s1)
  else if mn = cand then (true, advanceNextMust cs s)
  else (false, s)

/-- the must-not test at the head of the loop body (`if s.currMustNot != nil { … }`):
(candidate excluded?, state) — when excluded, `advanceNextMust` has already been called -/
def mustNotPhase (cs : Step ι) (s : BoolS ι) (cand : Nat) : Bool × BoolS ι :=
  match s.currMustNot with
  | some mn => mustNotExcludes cs s cand mn
  | none => (false, s)

/-- the should test of the loop body: (does the candidate match?, state after `advanceNextMust`).
`shouldCmpOrNil` is 1 when `currShould == nil`. Every path — `break` with a match, or falling through
to the bottom of the loop — calls `advanceNextMust` exactly once. -/
def shouldPhase (cs : Step ι) (s : BoolS ι) (cand : Nat) : Bool × BoolS ι :=
  match s.currShould with
  | some sh =>
    if sh < cand then
      -- advance should searcher to our candidate entry
      let r := callOpt cs s.should (.adv cand)
      let s1 := { s with should := r.2, currShould := r.1 }
      if r.1 = some cand then (true, advanceNextMust cs s1)           -- score bonus matches should
      else if s.shouldMin = 0 then (true, advanceNextMust cs s1)      -- match is OK anyway
      else (false, advanceNextMust cs s1)
    else if sh = cand then (true, advanceNextMust cs s)
    else if s.should.isNone || s.shouldMin = 0 then (true, advanceNextMust cs s)
    else (false, advanceNextMust cs s)
  | none =>
    if s.should.isNone || s.shouldMin = 0 then (true, advanceNextMust cs s)
    else (false, advanceNextMust cs s)

/-- `nextInternal`: the `for s.currentMatch != nil` loop -/
def nextInternal (cs : Step ι) : Nat → BoolS ι → Resp × BoolS ι
  | 0, s => (none, s)
  | f + 1, s =>
    match s.currentMatch with
    | none => (none, s)
    | some cand =>
      let ex := mustNotPhase cs s cand
      if ex.1 then nextInternal cs f ex.2            -- `continue`
      else
        let r := shouldPhase cs ex.2 cand
        if r.1 then (some cand, r.2) else nextInternal cs f r.2

/-- `Next` after the `done` / `initialized` tests -/
def nextCore (cs : Step ι) (fuel : Nat) (s : BoolS ι) : Resp × BoolS ι :=
  let r := nextInternal cs fuel s
  match r.1 with
  | none => (none, { r.2 with done := true })
  | some d => (some d, r.2)

/-- `if s.mustSearcher != nil { s.currMust = s.mustSearcher.Advance(number) }` -/
def advMust (cs : Step ι) (s : BoolS ι) (n : Nat) : BoolS ι :=
  match s.must with
  | some k => let r := cs k (.adv n); { s with must := some r.2, currMust := r.1 }
  | none => s

/-- `if s.shouldSearcher != nil { s.currShould = s.shouldSearcher.Advance(number) }` -/
def advShould (cs : Step ι) (s : BoolS ι) (n : Nat) : BoolS ι :=
  match s.should with
  | some k => let r := cs k (.adv n); { s with should := some r.2, currShould := r.1 }
  | none => s

/-- the must-not cursor "isn't tracked by currentID": it is advanced only when nil or behind `number` -/
def advMustNotIfBehind (cs : Step ι) (s : BoolS ι) (n : Nat) : BoolS ι :=
  match s.mustNot with
  | some k =>
    let behind := match s.currMustNot with | none => true | some mn => decide (mn < n)
    if behind then let r := cs k (.adv n); { s with mustNot := some r.2, currMustNot := r.1 } else s
  | none => s

def advanceIfTrailing (cs : Step ι) (s : BoolS ι) (n : Nat) : BoolS ι :=
  setCurrent (advMustNotIfBehind cs (advShould cs (advMust cs s n) n) n)

def step (cs : Step ι) (fuel : Nat) (s : BoolS ι) : Call → Resp × BoolS ι
  | .next =>
    if s.done then (none, s) else
    let s := if s.init then s else initSearchers cs s
    nextCore cs fuel s
  | .adv n =>
    if s.done then (none, s) else
    let s := if s.init then s else initSearchers cs s
    let trailing := match s.currentMatch with | none => true | some c => decide (c < n)
    let s := if trailing then advanceIfTrailing cs s n else s
    nextCore cs fuel s

end BoolS

/-! ## FilteringSearcher (search_filter.go). `acc` is the set of doc numbers the `FilterFunc` accepts. -/

structure Filt (ι : Type) where
  kid : ι
  acc : List Nat
deriving Repr

namespace Filt
variable {ι : Type}

/-- `Next`: `next = child.Next(); for next != nil { if accept(next) {return next}; next = child.Next() }` -/
def nextLoop (cs : Step ι) : Nat → Filt ι → Resp × Filt ι
  | 0, s => (none, s)
  | f + 1, s =>
    let r := cs s.kid .next
    let s1 := { s with kid := r.2 }
    match r.1 with
    | none => (none, s1)
    | some d => if s.acc.contains d then (some d, s1) else nextLoop cs f s1

def step (cs : Step ι) (fuel : Nat) (s : Filt ι) : Call → Resp × Filt ι
  | .next => nextLoop cs fuel s
  | .adv n =>
    let r := cs s.kid (.adv n)
    let s1 := { s with kid := r.2 }
    match r.1 with
    | none => (none, s1)
    | some d => if s.acc.contains d then (some d, s1) else nextLoop cs fuel s1

end Filt

/-! ## PhraseSearcher (search_phrase.go): a cursor over its `mustSearcher` (a conjunction of the term
positions); `ok` is the set of doc numbers on which `checkCurrMustMatch` finds a phrase path
(`Bluge.Search.phraseOk` below computes it from the positions). -/

structure PhraseS (ι : Type) where
  must : ι
  currMust : Resp
  ok : List Nat
  init : Bool
deriving Repr

namespace PhraseS
variable {ι : Type}

def mk' (must : ι) (ok : List Nat) : PhraseS ι := ⟨must, none, ok, false⟩

def advanceNextMust (cs : Step ι) (s : PhraseS ι) : PhraseS ι :=
  let r := cs s.must .next
  { s with must := r.2, currMust := r.1 }

def ensureInit (cs : Step ι) (s : PhraseS ι) : PhraseS ι :=
  if s.init then s else { advanceNextMust cs s with init := true }

/-- `for s.currMust != nil { rv := check(); advanceNextMust(); if rv != nil {return rv} }` -/
def nextLoop (cs : Step ι) : Nat → PhraseS ι → Resp × PhraseS ι
  | 0, s => (none, s)
  | f + 1, s =>
    match s.currMust with
    | none => (none, s)
    | some d =>
      let s1 := advanceNextMust cs s
      if s.ok.contains d then (some d, s1) else nextLoop cs f s1

def step (cs : Step ι) (fuel : Nat) (s : PhraseS ι) : Call → Resp × PhraseS ι
  | .next => nextLoop cs fuel (ensureInit cs s)
  | .adv n =>
    let s := ensureInit cs s
    match s.currMust with
    | none => (none, s)
    | some d =>
      if n ≤ d then nextLoop cs fuel s
      else
        let r := cs s.must (.adv n)
        nextLoop cs fuel { s with must := r.2, currMust := r.1 }

end PhraseS

/-! ## Trees of searchers of any depth -/

/-- one node of a searcher tree: `Λ` is the state type of the leaf searchers (`Leaf`: the abstract
sorted-list leaf of this file; `PIter` of Bluge.C07.Postings: the per-segment postings iterators of
/repo/index), `ι` the state type of the children -/
inductive NodeF (Λ ι : Type) where
  | leaf (l : Λ)
  | conj (s : Conj ι)
  | disjS (s : DisjS ι)
  | disjH (s : DisjH ι)
  | bool (s : BoolS ι)
  | filt (s : Filt ι)
  | phrase (s : PhraseS ι)
deriving Repr

def NodeF.step {Λ ι} (ls : Step Λ) (cs : Step ι) (fuel : Nat) : NodeF Λ ι → Call → Resp × NodeF Λ ι
  | .leaf l, c => let r := ls l c; (r.1, .leaf r.2)
  | .conj s, c => let r := Conj.step cs fuel s c; (r.1, .conj r.2)
  | .disjS s, c => let r := DisjS.step cs fuel s c; (r.1, .disjS r.2)
  | .disjH s, c => let r := DisjH.step cs fuel s c; (r.1, .disjH r.2)
  | .bool s, c => let r := BoolS.step cs fuel s c; (r.1, .bool r.2)
  | .filt s, c => let r := Filt.step cs fuel s c; (r.1, .filt r.2)
  | .phrase s, c => let r := PhraseS.step cs fuel s c; (r.1, .phrase r.2)

/-- searcher trees of depth ≤ d over leaves with state type `Λ` -/
def NodeD (Λ : Type) : Nat → Type
  | 0 => Λ
  | d + 1 => NodeF Λ (NodeD Λ d)

def stepD {Λ : Type} (ls : Step Λ) (fuel : Nat) : (d : Nat) → Step (NodeD Λ d)
  | 0 => ls
  | d + 1 => NodeF.step ls (stepD ls fuel d) fuel

/-- what a collector does: `Next` until `nil` (at most `k` times) -/
def drain {σ} (step : Step σ) : Nat → σ → List Nat
  | 0, _ => []
  | k + 1, s =>
    match step s .next with
    | (some d, s') => d :: drain step k s'
    | (none, _) => []

/-! ## Plans: the tree of constructor calls that `Query.Searcher()` performs -/

inductive Plan where
  | leaf (kind : LeafKind) (l : List Nat)
  | conj (ps : List Plan)
  /-- `newDisjunctionSearcher(qsearchers, min)`: slice or heap by `heapTakeover` -/
  | disj (ps : List Plan) (min : Nat)
  /-- `NewBooleanSearcher(must, should, mustNot)`; `shouldMin` = `shouldSearcher.Min()` -/
  | bool (must should mustNot : Option Plan) (shouldMin : Nat)
  | filt (p : Plan) (acc : List Nat)
  | phrase (p : Plan) (ok : List Nat)
deriving Repr, Inhabited

/-- sorted intersection / membership helpers on strictly increasing lists -/
def inter (a b : List Nat) : List Nat := a.filter (fun x => b.contains x)

/-- docs of the universe `U` contained in at least `k` of the lists -/
def atLeast (U : List Nat) (k : Nat) (Ls : List (List Nat)) : List Nat :=
  U.filter (fun x => decide (k ≤ (Ls.filter (fun L => L.contains x)).length))

/-- all doc numbers occurring in some list, increasing -/
def unionAll (bound : Nat) (Ls : List (List Nat)) : List Nat :=
  (List.range bound).filter (fun x => Ls.any (fun L => L.contains x))

/-- the set expression a plan denotes (`bound` > every doc number) -/
def Plan.den (bound : Nat) : Plan → List Nat
  | .leaf _ l => l
  | .conj ps => (List.range bound).filter (fun x => (ps.map (fun p => p.den bound)).all (fun L => L.contains x))
  | .disj ps min => atLeast (List.range bound) (max min 1) (ps.map (fun p => p.den bound))
  | .bool must should mustNot shouldMin =>
    let cand := match must with
      | some m => m.den bound
      | none => match should with | some s => s.den bound | none => []
    cand.filter (fun x =>
      (match mustNot with | some n => !(n.den bound).contains x | none => true) &&
      (match must, should with
       | some _, some s => shouldMin == 0 || (s.den bound).contains x
       | _, _ => true))
  | .filt p acc => (p.den bound).filter (fun x => acc.contains x)
  | .phrase p ok => (p.den bound).filter (fun x => ok.contains x)

def Plan.depth : Plan → Nat
  | .leaf _ _ => 0
  | .conj ps => 1 + (ps.map (fun p => p.depth)).foldl max 0
  | .disj ps _ => 1 + (ps.map (fun p => p.depth)).foldl max 0
  | .bool m s n _ =>
    1 + max (match m with | some p => p.depth | none => 0)
          (max (match s with | some p => p.depth | none => 0) (match n with | some p => p.depth | none => 0))
  | .filt p _ => 1 + p.depth
  | .phrase p _ => 1 + p.depth

/-- construct the searcher tree at depth `d` over leaves built by `mk` (a plan deeper than `d` degenerates to an empty leaf;
`Plan.depth p ≤ d` is the side condition of every theorem and the driver uses `d = depth`) -/
def Plan.build {Λ : Type} (mk : LeafKind → List Nat → Λ) : (d : Nat) → Plan → NodeD Λ d
  | 0, .leaf k l => mk k l
  | 0, _ => mk .postings []
  | _ + 1, .leaf k l => NodeF.leaf (mk k l)
  | d + 1, .conj ps => NodeF.conj (Conj.mk' (ps.map (fun p => p.build mk d)))
  | d + 1, .disj ps min =>
    if heapTakeover < ps.length then NodeF.disjH (DisjH.mk' (ps.map (fun p => p.build mk d)) min)
    else NodeF.disjS (DisjS.mk' (ps.map (fun p => p.build mk d)) min)
  | d + 1, .bool m s n smin =>
    NodeF.bool (BoolS.mk' (m.map (fun p => p.build mk d)) (s.map (fun p => p.build mk d)) (n.map (fun p => p.build mk d)) smin)
  | d + 1, .filt p acc => NodeF.filt ⟨p.build mk d, acc⟩
  | d + 1, .phrase p ok => NodeF.phrase (PhraseS.mk' (p.build mk d) ok)

/-- fuel that is enough for every loop of a tree whose doc numbers are `< bound` and whose nodes have at
most `width` children (proved in BlugeProofs.C07) -/
def fuelFor (bound width : Nat) : Nat := (bound + 2) * (2 * width + 4)

/-- run a plan the way a collector does and return the produced doc numbers; `ls` / `mk` = step
function and constructor of the leaf searchers -/
def Plan.runWith {Λ : Type} (ls : Step Λ) (mk : LeafKind → List Nat → Λ) (bound width : Nat) (p : Plan) : List Nat :=
  drain (stepD ls (fuelFor bound width) p.depth) (bound + 1) (p.build mk p.depth)

/-- … over the abstract sorted-list leaves of this file -/
def Plan.run (bound width : Nat) (p : Plan) : List Nat := p.runWith Leaf.step Leaf.mk' bound width

/-! ## The unadorned rewrites of index/optimize.go (used when `options.Score == "none"` and no term
vectors are requested): a conjunction / a disjunction with `min ≤ 1` of more than one child, all of them
optimizable (`TermSearcher` over a postings iterator, or a disjunction that wraps exactly one such
child), is replaced by ONE `TermSearcher` over the AND / OR of the children's bitmaps.
`TermSearcher.Min()` is 0. -/

/-- `searcher.(segment.Optimizable)` succeeds and yields a bitmap: the list the child denotes -/
def Plan.optimizable : Plan → Option (List Nat)
  | .leaf .postings l => some l
  | .leaf .unadorned l => some l
  | .disj [p] _ => p.optimizable      -- "a wrapper around a single Optimizable child searcher"
  | _ => none

def optimizables (ps : List Plan) : Option (List (List Nat)) :=
  ps.foldr (fun p acc => match p.optimizable, acc with
    | some l, some ls => some (l :: ls)
    | _, _ => none) (some [])

/-- `keepMin`: does the rewritten disjunction still report `Min() = min`? `false` on the pinned tree
(the rewritten searcher is a `TermSearcher`, `Min() = 0`); `true` models the `minSearcher` repair. -/
structure ScoreNone where
  keepMin : Bool

/-- bottom-up application of the two unadorned rewrites; returns the rewritten plan and its `Min()` -/
def Plan.rewriteNone (o : ScoreNone) (bound : Nat) : Plan → Plan × Nat
  | .leaf k l => (.leaf k l, 0)
  | .conj ps =>
    let ps' := ps.map (fun p => (p.rewriteNone o bound).1)
    match (if 1 < ps'.length then optimizables ps' else none) with
    | some ls => (.leaf .unadorned ((List.range bound).filter (fun x => ls.all (fun L => L.contains x))), 0)
    | none => (.conj ps', 0)
  | .disj ps min =>
    let ps' := ps.map (fun p => (p.rewriteNone o bound).1)
    match (if 1 < ps'.length && min ≤ 1 then optimizables ps' else none) with
    | some ls => (.leaf .unadorned (unionAll bound ls), if o.keepMin then min else 0)
    | none => (.disj ps' min, min)
  | .bool m s n _ =>
    let m' := match m with | some p => some (p.rewriteNone o bound).1 | none => none
    let s' := match s with | some p => some (p.rewriteNone o bound) | none => none
    let n' := match n with | some p => some (p.rewriteNone o bound).1 | none => none
    (.bool m' (s'.map (·.1)) n' (match s' with | some r => r.2 | none => 0), 0)
  | .filt p acc => (.filt (p.rewriteNone o bound).1 acc, 0)
  | .phrase p ok => (.phrase p ok, 0)     -- phrase sets IncludeTermVectors: no unadorned rewrite below it

end Bluge.Search

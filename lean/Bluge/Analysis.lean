import Bluge.Basic
/-! # Model of bluge's text analysis (analysis/type.go, freq.go, util.go, tokenizer/*.go, token/*.go,
lang/cjk/cjk_bigram.go, document.go) — core Lean only.

What is modelled, and how:
* `decodeRune` / `runes` / `encodeRune` / `buildTerm` : `utf8.DecodeRune`, `bytes.Runes`, `utf8.EncodeRune`,
  `analysis.BuildTermFromRunes`, on arbitrary bytes (invalid bytes decode to U+FFFD of width 1).
* every Go `for` loop is a recursive definition; loops over a slice or an integer range go through `loop`
  (a left fold in the `Option` monad), loops that advance by a decoded rune are well-founded recursions
  whose measure is the remaining input — Lean accepting the definitions is termination of the loops.
* a Go slice expression `s[lo:hi]` is `goSlice`, which is `none` exactly when Go would panic
  (`¬ (0 ≤ lo ≤ hi ≤ len s)`); a component that can reach such a panic returns `Option`.
* Go's unicode tables (`unicode.IsLetter`, `IsLower`, `Mn` …) are *parameters* (`Rune → Bool`,
  `Rune → Nat`); the driver instantiates them with the values the harness observed on the real run.
-/
namespace Bluge.Analysis

abbrev Byte := BitVec 8
abbrev Bytes := List Byte
/-- a Go `rune` as produced by `utf8.DecodeRune`: 0 … 0x10FFFF -/
abbrev Rune := Nat

def runeError : Rune := 0xFFFD

/-! ## UTF-8 -/

def isCont (b : Byte) : Bool := 0x80 ≤ b.toNat && b.toNat ≤ 0xBF

/-- two-byte form: lead byte C2…DF, continuation 80…BF -/
def dec2 (p0 : Nat) : Bytes → Rune × Nat
  | b1 :: _ => if isCont b1 then ((p0 % 32) * 64 + b1.toNat % 64, 2) else (runeError, 1)
  | [] => (runeError, 1)

/-- `acceptRanges`: bounds of the second byte, by lead byte -/
def secondLo (p0 : Nat) : Nat := if p0 = 0xE0 then 0xA0 else if p0 = 0xF0 then 0x90 else 0x80
def secondHi (p0 : Nat) : Nat := if p0 = 0xED then 0x9F else if p0 = 0xF4 then 0x8F else 0xBF

/-- three-byte form: E0 needs A0…BF, ED needs 80…9F (no surrogates) as second byte -/
def dec3 (p0 : Nat) : Bytes → Rune × Nat
  | b1 :: b2 :: _ =>
    if b1.toNat < secondLo p0 ∨ secondHi p0 < b1.toNat then (runeError, 1)
    else if !isCont b2 then (runeError, 1)
    else ((p0 % 16) * 4096 + (b1.toNat % 64) * 64 + b2.toNat % 64, 3)
  | _ => (runeError, 1)

/-- four-byte form: F0 needs 90…BF, F4 needs 80…8F as second byte -/
def dec4 (p0 : Nat) : Bytes → Rune × Nat
  | b1 :: b2 :: b3 :: _ =>
    if b1.toNat < secondLo p0 ∨ secondHi p0 < b1.toNat then (runeError, 1)
    else if !isCont b2 then (runeError, 1)
    else if !isCont b3 then (runeError, 1)
    else ((p0 % 8) * 262144 + (b1.toNat % 64) * 4096 + (b2.toNat % 64) * 64 + b3.toNat % 64, 4)
  | _ => (runeError, 1)

/-- `utf8.DecodeRune`: (rune, width). `(RuneError, 0)` on empty input, `(RuneError, 1)` on an invalid
or truncated encoding (the `first`/`acceptRanges` tables of unicode/utf8 written out). -/
def decodeRune : Bytes → Rune × Nat
  | [] => (runeError, 0)
  | b0 :: rest =>
    let p0 := b0.toNat
    if p0 < 0x80 then (p0, 1)
    else if p0 < 0xC2 then (runeError, 1)
    else if p0 < 0xE0 then dec2 p0 rest
    else if p0 < 0xF0 then dec3 p0 rest
    else if p0 < 0xF5 then dec4 p0 rest
    else (runeError, 1)

theorem dec2_size (p0 : Nat) (r : Bytes) : 1 ≤ (dec2 p0 r).2 ∧ (dec2 p0 r).2 ≤ r.length + 1 := by
  unfold dec2; split
  · split <;> simp
  · simp

theorem dec3_size (p0 : Nat) (r : Bytes) : 1 ≤ (dec3 p0 r).2 ∧ (dec3 p0 r).2 ≤ r.length + 1 := by
  unfold dec3
  split
  · simp only [List.length_cons]
    split
    · simp
    · split <;> simp
  · simp

theorem dec4_size (p0 : Nat) (r : Bytes) : 1 ≤ (dec4 p0 r).2 ∧ (dec4 p0 r).2 ≤ r.length + 1 := by
  unfold dec4
  split
  · simp only [List.length_cons]
    split
    · simp
    · split
      · simp
      · split <;> simp
  · simp

theorem decodeRune_cons_size (b0 : Byte) (r : Bytes) :
    1 ≤ (decodeRune (b0 :: r)).2 ∧ (decodeRune (b0 :: r)).2 ≤ r.length + 1 := by
  simp only [decodeRune]
  split
  · simp
  · split
    · simp
    · split
      · exact dec2_size _ _
      · split
        · exact dec3_size _ _
        · split
          · exact dec4_size _ _
          · simp

theorem decodeRune_size_le (p : Bytes) : (decodeRune p).2 ≤ p.length := by
  cases p with
  | nil => simp [decodeRune]
  | cons b r => simpa using (decodeRune_cons_size b r).2

theorem decodeRune_size_pos (p : Bytes) (h : p ≠ []) : 1 ≤ (decodeRune p).2 := by
  cases p with
  | nil => contradiction
  | cons b r => exact (decodeRune_cons_size b r).1

/-- a rune different from RuneError is only decoded from non-empty input -/
theorem decodeRune_ne_error (p : Bytes) (h : (decodeRune p).1 ≠ runeError) : p ≠ [] := by
  intro hp; subst hp; simp [decodeRune] at h

/-- `bytes.Runes` (and `[]rune(string(b))`): decode until the input is exhausted -/
def runes (p : Bytes) : List Rune :=
  if _h : p = [] then [] else
    (decodeRune p).1 :: runes (p.drop (decodeRune p).2)
termination_by p.length
decreasing_by
  have := decodeRune_size_pos p _h
  have : 0 < p.length := List.length_pos_iff.mpr _h
  simp only [List.length_drop]; omega

/-- `utf8.RuneLen` for the runes that `decodeRune` can return (1…4) -/
def runeLen (r : Rune) : Nat :=
  if r < 0x80 then 1 else if r < 0x800 then 2 else if r < 0x10000 then 3 else 4

/-- `utf8.EncodeRune` / `utf8.AppendRune` (surrogates and out-of-range runes encode U+FFFD) -/
def encodeRune (r : Rune) : Bytes :=
  if r < 0x80 then [BitVec.ofNat 8 r]
  else if r < 0x800 then [BitVec.ofNat 8 (0xC0 + r / 64), BitVec.ofNat 8 (0x80 + r % 64)]
  else if r > 0x10FFFF ∨ (0xD800 ≤ r ∧ r ≤ 0xDFFF) then [0xEF#8, 0xBF#8, 0xBD#8]
  else if r < 0x10000 then
    [BitVec.ofNat 8 (0xE0 + r / 4096), BitVec.ofNat 8 (0x80 + (r / 64) % 64), BitVec.ofNat 8 (0x80 + r % 64)]
  else
    [BitVec.ofNat 8 (0xF0 + r / 262144), BitVec.ofNat 8 (0x80 + (r / 4096) % 64),
     BitVec.ofNat 8 (0x80 + (r / 64) % 64), BitVec.ofNat 8 (0x80 + r % 64)]

/-- `analysis.BuildTermFromRunes` / `[]byte(string(runes))` -/
def buildTerm (rs : List Rune) : Bytes := rs.flatMap encodeRune

/-! ## Go slices and loops -/

/-- `s[lo:hi]` of a slice whose capacity equals its length: `none` is the run-time panic -/
def goSlice {α : Type} (s : List α) (lo hi : Int) : Option (List α) :=
  if 0 ≤ lo ∧ lo ≤ hi ∧ hi ≤ s.length then some ((s.drop lo.toNat).take (hi - lo).toNat) else none

/-- the values of `for v := lo; v <= hi; v++` -/
def intRange (lo hi : Int) : List Int := (List.range (hi + 1 - lo).toNat).map fun (k : Nat) => lo + (k : Int)

theorem mem_intRange {lo hi v : Int} : v ∈ intRange lo hi ↔ lo ≤ v ∧ v ≤ hi := by
  simp only [intRange, List.mem_map, List.mem_range]
  constructor
  · rintro ⟨k, hk, rfl⟩; omega
  · intro ⟨h1, h2⟩; exact ⟨(v - lo).toNat, by omega, by omega⟩

/-- a `for … range xs` loop whose body may panic (`none`): left fold in `Option` -/
def loop {α σ : Type} (xs : List α) (body : σ → α → Option σ) (st : σ) : Option σ :=
  match xs with
  | [] => some st
  | x :: rest => match body st x with
    | none => none
    | some st' => loop rest body st'

/-- invariant rule for `loop`; the invariant may mention the part of the slice not yet visited -/
theorem loop_inv {α σ : Type} {body : σ → α → Option σ} (P : List α → σ → Prop)
    (step : ∀ x rest s s', P (x :: rest) s → body s x = some s' → P rest s') :
    ∀ (xs : List α) (st st' : σ), P xs st → loop xs body st = some st' → P [] st' := by
  intro xs
  induction xs with
  | nil => intro st st' h e; simp [loop] at e; subst e; exact h
  | cons x rest ih =>
    intro st st' h e
    simp only [loop] at e
    split at e
    · contradiction
    · next s1 hb => exact ih s1 st' (step x rest st s1 h hb) e

/-- a loop whose body never panics on the elements it meets does not panic -/
theorem loop_total {α σ : Type} {body : σ → α → Option σ} (P : σ → Prop)
    (step : ∀ x s, P s → ∃ s', body s x = some s' ∧ P s') :
    ∀ (xs : List α) (st : σ), P st → ∃ st', loop xs body st = some st' ∧ P st' := by
  intro xs
  induction xs with
  | nil => intro st h; exact ⟨st, rfl, h⟩
  | cons x rest ih =>
    intro st h
    obtain ⟨s1, hb, hp⟩ := step x st h
    obtain ⟨s2, hl, hp2⟩ := ih s1 hp
    exact ⟨s2, by simp [loop, hb, hl], hp2⟩

/-- same, when the body's success depends on the element (membership is available) -/
theorem loop_total_mem {α σ : Type} {body : σ → α → Option σ} (P : σ → Prop) :
    ∀ (xs : List α) (st : σ), (∀ x ∈ xs, ∀ s, P s → ∃ s', body s x = some s' ∧ P s') → P st →
      ∃ st', loop xs body st = some st' ∧ P st' := by
  intro xs
  induction xs with
  | nil => intro st _ h; exact ⟨st, rfl, h⟩
  | cons x rest ih =>
    intro st step h
    obtain ⟨s1, hb, hp⟩ := step x (by simp) st h
    obtain ⟨s2, hl, hp2⟩ := ih s1 (fun y hy => step y (by simp [hy])) hp
    exact ⟨s2, by simp [loop, hb, hl], hp2⟩

/-! ## Tokens -/

/-- `analysis.Token` (`«end»` is a keyword: the field `End` is `stop`) -/
structure Token where
  term : Bytes
  start : Int
  stop : Int
  posIncr : Int
  typ : Nat := 0
  kw : Bool := false
deriving Repr, DecidableEq, Inhabited

/-- the `TokenType` constants of analysis/type.go -/
def tAlphaNumeric : Nat := 0
def tIdeographic : Nat := 1
def tShingle : Nat := 4
def tSingle : Nat := 5
def tDouble : Nat := 6

def Token.ok (len : Int) (t : Token) : Prop := 0 ≤ t.start ∧ t.start ≤ t.stop ∧ t.stop ≤ len ∧ 0 ≤ t.posIncr

instance (len : Int) (t : Token) : Decidable (t.ok len) := by unfold Token.ok; infer_instance

/-- every token lies inside the text the tokenizer saw and has a non-negative position increment -/
def Valid (len : Int) (ts : List Token) : Prop := ∀ t ∈ ts, t.ok len

instance (len : Int) (ts : List Token) : Decidable (Valid len ts) := by unfold Valid; infer_instance

/-- `input[a:b]` for in-range offsets (the text a pure tokenizer's token must carry) -/
def slice (input : Bytes) (a b : Int) : Bytes := (input.drop a.toNat).take (b - a).toNat

def SliceEq (input : Bytes) (ts : List Token) : Prop := ∀ t ∈ ts, t.term = slice input t.start t.stop

instance (input : Bytes) (ts : List Token) : Decidable (SliceEq input ts) := by unfold SliceEq; infer_instance

/-- tokens in text order without overlap -/
def Ordered (ts : List Token) : Prop := ts.Pairwise fun a b => a.stop ≤ b.start

/-- the weaker order the shingle filter needs: an earlier token does not start after a later one ends -/
def Mono (ts : List Token) : Prop := ts.Pairwise fun a b => a.start ≤ b.stop

instance (ts : List Token) : Decidable (Ordered ts) := by unfold Ordered; infer_instance
instance (ts : List Token) : Decidable (Mono ts) := by unfold Mono; infer_instance

/-! ## The pipeline (analysis/type.go `Analyzer.Analyze`) -/

structure Analyzer where
  charFilters : List (Bytes → Bytes)
  tokenizer : Bytes → List Token
  tokenFilters : List (List Token → List Token)

/-- the text the tokenizer sees -/
def Analyzer.filtered (a : Analyzer) (input : Bytes) : Bytes := a.charFilters.foldl (fun inp cf => cf inp) input

def Analyzer.analyze (a : Analyzer) (input : Bytes) : List Token :=
  a.tokenFilters.foldl (fun toks tf => tf toks) (a.tokenizer (a.filtered input))

/-- a filter never produces an out-of-text offset or a negative increment from a valid stream -/
def OffsetSafe (f : List Token → List Token) : Prop := ∀ len ts, Valid len ts → Valid len (f ts)

/-- "only assigns Term / Type / KeyWord, or drops tokens": every output token carries the offsets and
the increment of some input token -/
def TermOnly (f : List Token → List Token) : Prop :=
  ∀ ts, ∀ t ∈ f ts, ∃ s ∈ ts, t.start = s.start ∧ t.stop = s.stop ∧ t.posIncr = s.posIncr

/-! ## analysis.TokenFrequency (freq.go) and Document.Analyze (document.go) -/

structure Location where
  start : Int
  stop : Int
  pos : Int
deriving Repr, DecidableEq

/-- the `tls` array of TokenFrequency with term vectors: one location per token, in stream order;
returns the final position too -/
def locations (tokens : List Token) (startOffset : Int) : List Location × Int :=
  match tokens with
  | [] => ([], startOffset)
  | t :: rest =>
    let position := startOffset + t.posIncr
    let r := locations rest position
    ({ start := t.start, stop := t.stop, pos := position } :: r.1, r.2)

structure TokenFreq where
  term : Bytes
  locs : List Location
  freq : Nat
deriving Repr, DecidableEq

/-- the map `tokenFreqs` as an association list in first-occurrence order -/
def tfInsert (m : List TokenFreq) (term : Bytes) (loc : Option Location) : List TokenFreq :=
  match m with
  | [] => [{ term := term, locs := loc.toList, freq := 1 }]
  | e :: rest =>
    if e.term = term then { e with locs := e.locs ++ loc.toList, freq := e.freq + 1 } :: rest
    else e :: tfInsert rest term loc

def tokenFrequency (tokens : List Token) (includeTermVectors : Bool) (startOffset : Int) : List TokenFreq × Int :=
  if includeTermVectors then
    let ls := locations tokens startOffset
    ((tokens.zip ls.1).foldl (fun m tl => tfInsert m tl.1.term (some tl.2)) [], ls.2)
  else
    (tokens.foldl (fun m t => tfInsert m t.term none) [], 0)

/-- Document.Analyze for the fields of ONE name: `fieldOffset` is the last position of the previous
field of that name, plus the gap when it is positive -/
def docAnalyze (gap : Int) (fields : List (List Token)) (fieldOffset : Int) : List (List Location) :=
  match fields with
  | [] => []
  | f :: rest =>
    let off := if fieldOffset > 0 then fieldOffset + gap else fieldOffset
    let r := locations f off
    r.1 :: docAnalyze gap rest r.2

/-! ## Tokenizers -/

def mkTok (input : Bytes) (s e : Nat) : Token :=
  { term := (input.drop s).take (e - s), start := s, stop := e, posIncr := 1, typ := tAlphaNumeric }

/-- tokenizer/character.go `CharacterTokenizer.Tokenize`: the loop state is (offset, start, end);
`rest = input[offset:]`. The loop ends at the first `RuneError` — end of input, an invalid byte, or a
genuine U+FFFD — and the token being built is flushed. -/
def charTokLoop (isTok : Rune → Bool) (input rest : Bytes) (offset start stop : Nat) : List Token :=
  if _h : (decodeRune rest).1 = runeError then
    if start < stop then [mkTok input start stop] else []
  else
    let size := (decodeRune rest).2
    if isTok (decodeRune rest).1 then
      charTokLoop isTok input (rest.drop size) (offset + size) start (offset + size)
    else
      (if start < stop then [mkTok input start stop] else []) ++
        charTokLoop isTok input (rest.drop size) (offset + size) (offset + size) (offset + size)
termination_by rest.length
decreasing_by
  all_goals
    have hne := decodeRune_ne_error rest _h
    have := decodeRune_size_pos rest hne
    have : 0 < rest.length := List.length_pos_iff.mpr hne
    simp only [List.length_drop]; omega

def charTokenize (isTok : Rune → Bool) (input : Bytes) : List Token := charTokLoop isTok input input 0 0 0

/-- `unicode.IsSpace` -/
def isSpace (r : Rune) : Bool :=
  r == 0x09 || r == 0x0A || r == 0x0B || r == 0x0C || r == 0x0D || r == 0x20 || r == 0x85 || r == 0xA0 ||
  r == 0x1680 || (0x2000 ≤ r && r ≤ 0x200A) || r == 0x2028 || r == 0x2029 || r == 0x202F || r == 0x205F || r == 0x3000

/-- tokenizer/whitespace.go -/
def whitespaceTokenize (input : Bytes) : List Token := charTokenize (fun r => !isSpace r) input

/-- tokenizer/single.go -/
def singleTokenize (input : Bytes) : List Token :=
  [{ term := input, start := 0, stop := input.length, posIncr := 1, typ := tAlphaNumeric }]

/-! ### tokenizers over the output of a dependency (regexp match indices, blevesearch/segment) -/

def tNumeric : Nat := 2

/-- tokenizer/regexp.go: `found` is `r.FindAllIndex(input, -1)`, `typeOf` is `detectTokenType` -/
def regexpTokenize (typeOf : Bytes → Nat) (found : List (Int × Int)) (input : Bytes) : Option (List Token) :=
  (loop found (fun (rv : List Token) (m : Int × Int) =>
    match goSlice input m.1 m.2 with
    | none => none
    | some matchBytes =>
      if m.2 - m.1 > 0 then
        some ({ term := matchBytes, start := m.1, stop := m.2, posIncr := 1, typ := typeOf matchBytes } :: rv)
      else some rv) []).map List.reverse

/-- `token.Start += currInput; token.End += currInput` -/
def shiftTok (k : Int) (t : Token) : Token := { t with start := t.start + k, stop := t.stop + k }

/-- body of `for _, match := range matches` in tokenizer/exception.go: state (currInput, rv reversed) -/
def exceptionsStep (remaining : Bytes → List Token) (input : Bytes) (st : Int × List Token) (m : Int × Int) :
    Option (Int × List Token) :=
  match (if m.1 > st.1 then (goSlice input st.1 m.1).map fun seg => (remaining seg).map (shiftTok st.1) else some []) with
  | none => none
  | some inter =>
    match goSlice input m.1 m.2 with
    | none => none
    | some term =>
      some (m.2, ({ term := term, start := m.1, stop := m.2, posIncr := 1 } : Token) :: (inter.reverse ++ st.2))

/-- tokenizer/exception.go: `found` is `exception.FindAllIndex(input, -1)`, `remaining` the inner tokenizer -/
def exceptionsTokenize (remaining : Bytes → List Token) (found : List (Int × Int)) (input : Bytes) : Option (List Token) :=
  (loop found (exceptionsStep remaining input) (0, [])).bind fun st =>
    if st.1 < input.length then
      (goSlice input st.1 input.length).map fun seg => (((remaining seg).map (shiftTok st.1)).reverse ++ st.2).reverse
    else some st.2.reverse

/-- the order `FindAllIndex` promises: successive, non-overlapping, in-range found -/
def MatchesFrom (len : Int) : Int → List (Int × Int) → Prop
  | _, [] => True
  | cur, m :: rest => cur ≤ m.1 ∧ m.1 ≤ m.2 ∧ m.2 ≤ len ∧ MatchesFrom len m.2 rest

instance (len : Int) : ∀ (cur : Int) (ms : List (Int × Int)), Decidable (MatchesFrom len cur ms)
  | _, [] => by unfold MatchesFrom; infer_instance
  | cur, m :: rest => by
    unfold MatchesFrom
    have := instDecidableMatchesFrom len m.2 rest
    infer_instance

/-- tokenizer/unicode.go `convertType` (segment.None = 0, Number = 1, Letter = 2, Kana = 3, Ideo = 4) -/
def convertType (segmentWordType : Nat) : Nat :=
  if segmentWordType = 4 then tIdeographic else if segmentWordType = 3 then tIdeographic
  else if segmentWordType = 1 then tNumeric else tAlphaNumeric

/-- tokenizer/unicode.go: `segs` are the (bytes, type) pairs the word segmenter yields; state (start, rv) -/
def unicodeTokenize (segs : List (Bytes × Nat)) : List Token :=
  (segs.foldl (fun (st : Nat × List Token) (seg : Bytes × Nat) =>
    let stop := st.1 + seg.1.length
    if seg.2 ≠ 0 then
      (stop, ({ term := seg.1, start := st.1, stop := stop, posIncr := 1, typ := convertType seg.2 } : Token) :: st.2)
    else (stop, st.2)) (0, [])).2.reverse

/-! ## Token filters that build new tokens or write offsets / increments -/

/-- token/ngram.go. `rv` is accumulated in reverse. The state of the two inner loops is (first, rv). -/
def ngramFilter (min max : Int) (input : List Token) : Option (List Token) :=
  (loop input (fun (rv : List Token) (token : Token) =>
    let rs := runes token.term
    let runeCount : Int := rs.length
    (loop (intRange 0 (runeCount - 1)) (fun (st : Bool × List Token) (i : Int) =>
      loop (intRange min max) (fun (st : Bool × List Token) (ngramSize : Int) =>
        if i + ngramSize ≤ runeCount then
          match goSlice rs i (i + ngramSize) with
          | none => none
          | some sl =>
            some (false, { term := buildTerm sl, start := token.start, stop := token.stop,
                           posIncr := if st.1 then 1 else 0, typ := token.typ } :: st.2)
        else some st) st) (true, rv)).map (·.2)) []).map List.reverse

/-- token/edgengram.go (`back = true` is BACK) -/
def edgeNgramFilter (back : Bool) (min max : Int) (input : List Token) : Option (List Token) :=
  (loop input (fun (rv : List Token) (token : Token) =>
    let rs := runes token.term
    let runeCount : Int := rs.length
    (loop (intRange min max) (fun (st : Bool × List Token) (ngramSize : Int) =>
      if back then
        let i := runeCount
        if i - ngramSize ≥ 0 then
          match goSlice rs (i - ngramSize) i with
          | none => none
          | some sl =>
            some (false, { term := buildTerm sl, start := token.start, stop := token.stop,
                           posIncr := if st.1 then 1 else 0, typ := token.typ } :: st.2)
        else some st
      else
        let i : Int := 0
        if i + ngramSize ≤ runeCount then
          match goSlice rs i (i + ngramSize) with
          | none => none
          | some sl =>
            some (false, { term := buildTerm sl, start := token.start, stop := token.stop,
                           posIncr := if st.1 then 1 else 0, typ := token.typ } :: st.2)
        else some st) (true, rv)).map (·.2)) []).map List.reverse

/-- token/truncate.go + analysis.TruncateRunes: `runes[:len(runes)-num]` with `num = wordLen - length` -/
def truncateFilter (length : Int) (input : List Token) : Option (List Token) :=
  (loop input (fun (rv : List Token) (token : Token) =>
    let rs := runes token.term
    let wordLen : Int := rs.length
    if wordLen > length then
      match goSlice rs 0 (wordLen - (wordLen - length)) with
      | none => none
      | some sl => some ({ token with term := buildTerm sl } :: rv)
    else some (token :: rv)) []).map List.reverse

/-- token/length.go: state (skipped, rv) -/
def lengthFilter (min max : Int) (input : List Token) : List Token :=
  (input.foldl (fun (st : Int × List Token) (token : Token) =>
    let wordLen : Int := (runes token.term).length
    if min > 0 ∧ min > wordLen then (st.1 + token.posIncr, st.2)
    else if max > 0 ∧ max < wordLen then (st.1 + token.posIncr, st.2)
    else if st.1 > 0 then (0, { token with posIncr := token.posIncr + st.1 } :: st.2)
    else (st.1, token :: st.2)) (0, [])).2.reverse

/-- token/unique.go: state (encounteredTerms, skipped, kept) -/
def uniqueFilter (input : List Token) : List Token :=
  (input.foldl (fun (st : List Bytes × Int × List Token) (token : Token) =>
    if st.1.contains token.term then (st.1, st.2.1 + token.posIncr, st.2.2)
    else (token.term :: st.1, 0, { token with posIncr := token.posIncr + st.2.1 } :: st.2.2)) ([], 0, [])).2.2.reverse

/-- token/stop.go: state (skipped, kept) -/
def stopFilter (stop : List Bytes) (input : List Token) : List Token :=
  (input.foldl (fun (st : Int × List Token) (token : Token) =>
    if !stop.contains token.term then (0, { token with posIncr := token.posIncr + st.1 } :: st.2)
    else (st.1 + token.posIncr, st.2)) (0, [])).2.reverse

/-- token/keyword.go -/
def keywordMarkerFilter (kws : List Bytes) (input : List Token) : List Token :=
  input.map fun token => if kws.contains token.term then { token with kw := true } else token

/-! ### shingle (token/shingle.go)

The `container/ring` of `max` slots is the list `hist` of the values written so far, most recent
first, cut to `max` entries (`itemsInRing = hist.length`). `aRing.Move(-(n-1))` followed by `n` steps
forward visits the last `n` values written, oldest first. A filler token has `Start = End = -1`. -/

def fillerToken (fill : Bytes) : Token :=
  { term := fill, start := -1, stop := -1, posIncr := 1, typ := tAlphaNumeric }

/-- body of the inner `for i := 0; i < shingleN; i++` loop: state ((i = 0, shingledBytes), start, end) -/
def shingleJoinStep (sep : Bytes) (st : (Bool × Bytes) × Int × Int) (curr : Token) : (Bool × Bytes) × Int × Int :=
  let bytes := (if st.1.1 then st.1.2 else st.1.2 ++ sep) ++ curr.term
  let start := if st.2.1 = -1 ∧ curr.start ≠ -1 then curr.start else st.2.1
  let stop := if curr.stop ≠ -1 then curr.stop else st.2.2
  ((false, bytes), start, stop)

def shingleJoin (sep : Bytes) (items : List Token) : (Bool × Bytes) × Int × Int :=
  items.foldl (shingleJoinStep sep) ((true, []), -1, 0)

/-- the token built after the inner loop from (shingledBytes, start, end) -/
def shingleToken (zeroIncr : Bool) (j : (Bool × Bytes) × Int × Int) : Token :=
  let token : Token := { term := j.1.2, typ := tShingle, posIncr := 1, start := 0, stop := 0 }
  let token := if j.2.1 ≠ -1 then { token with start := j.2.1 } else token
  let token := if j.2.2 ≠ -1 then { token with stop := j.2.2 } else token
  if zeroIncr then { token with posIncr := 0 } else token

/-- body of `for shingleN := s.min; shingleN <= s.max; shingleN++` (rv reversed) -/
def shingleCurrentStep (outputOriginal : Bool) (sep : Bytes) (hist : List Token) (rv : List Token) (shingleN : Int) : List Token :=
  if (hist.length : Int) < shingleN then rv
  else shingleToken (decide (rv.length > 0) || outputOriginal) (shingleJoin sep ((hist.take shingleN.toNat).reverse)) :: rv

/-- `shingleCurrentRingState`: its result in order -/
def shingleCurrent (min max : Int) (outputOriginal : Bool) (sep : Bytes) (hist : List Token) : List Token :=
  ((intRange min max).foldl (shingleCurrentStep outputOriginal sep hist) []).reverse

/-- one `aRing.Value = v; if itemsInRing < max {…}; rv = append(rv, shingle…); aRing = aRing.Next()` -/
def shinglePush (min max : Int) (outputOriginal : Bool) (sep : Bytes) (st : List Token × List Token) (v : Token) :
    List Token × List Token :=
  let hist := (v :: st.1).take max.toNat
  (hist, (shingleCurrent min max outputOriginal sep hist).reverse ++ st.2)

/-- `ShingleFilter.Filter`; `ring.New(max)` is nil for `max ≤ 0`, and the first `aRing.Value = …` then
panics. State (hist, rv reversed). -/
def shingleFilter (min max : Int) (outputOriginal : Bool) (sep fill : Bytes) (input : List Token) : Option (List Token) :=
  (loop input (fun (st : List Token × List Token) (token : Token) =>
    if max ≤ 0 then none else
    let st := if outputOriginal then (st.1, token :: st.2) else st
    let st := (List.range (token.posIncr - 1).toNat).foldl
      (fun st _ => shinglePush min max outputOriginal sep st (fillerToken fill)) st
    some (shinglePush min max outputOriginal sep st token)) ([], [])).map (·.2.reverse)

/-! ### term-only filters with a rune scan -/

def apostrophe : Rune := 0x27
def rightSingleQuotationMark : Rune := 0x2019

/-- token/elision.go: the scan `for i := 0; i < len(term);` over `rest = term[i:]` -/
def elisionScan (articles : List Bytes) (term rest : Bytes) (i : Nat) : Bytes :=
  if _h : rest = [] then term else
    let r := (decodeRune rest).1
    let size := (decodeRune rest).2
    if (r = apostrophe ∨ r = rightSingleQuotationMark) ∧ articles.contains (term.take i) then term.drop (i + size)
    else elisionScan articles term (rest.drop size) (i + size)
termination_by rest.length
decreasing_by
  have := decodeRune_size_pos rest _h
  have : 0 < rest.length := List.length_pos_iff.mpr _h
  simp only [List.length_drop]; omega

def elisionFilter (articles : List Bytes) (input : List Token) : List Token :=
  input.map fun token => { token with term := elisionScan articles token.term token.term 0 }

/-- `bytes.IndexAny(term, "'’")`: offset of the first rune that is one of the two apostrophes -/
def indexApostrophe (rest : Bytes) (i : Nat) : Option Nat :=
  if _h : rest = [] then none else
    let r := (decodeRune rest).1
    let size := (decodeRune rest).2
    if r = apostrophe ∨ r = rightSingleQuotationMark then some i
    else indexApostrophe (rest.drop size) (i + size)
termination_by rest.length
decreasing_by
  have := decodeRune_size_pos rest _h
  have : 0 < rest.length := List.length_pos_iff.mpr _h
  simp only [List.length_drop]; omega

/-- token/apostrophe.go -/
def apostropheFilter (input : List Token) : List Token :=
  input.map fun token => match indexApostrophe token.term 0 with
    | some k => { token with term := token.term.take k }
    | none => token

/-! ### reverse (token/reverse.go, after the fix "widths from utf8.DecodeRune")

Each step takes the rune at `s[cursorIn:]` plus the combining marks that follow it; their widths `wid`
are the widths `utf8.DecodeRune` reports on the bytes (1 for an invalid byte), and `s[cursorIn:cursorIn+wid]`
is copied to `output[cursorOut-wid:cursorOut]`. `isMark r` = `unicode.Is(Mn|Me|Mc, r)`. -/

/-- the inner `for cursorIn+wid < len(s)` loop on `p = s[cursorIn+wid:]`: total width of the leading marks -/
def markWidth (isMark : Rune → Bool) (p : Bytes) : Nat :=
  if _h : p = [] then 0 else
    if isMark (decodeRune p).1 then (decodeRune p).2 + markWidth isMark (p.drop (decodeRune p).2) else 0
termination_by p.length
decreasing_by
  have := decodeRune_size_pos p _h
  have : 0 < p.length := List.length_pos_iff.mpr _h
  simp only [List.length_drop]; omega

/-- width of one step at `rest = s[cursorIn:]` -/
def stepWidth (isMark : Rune → Bool) (rest : Bytes) : Nat :=
  (decodeRune rest).2 + markWidth isMark (rest.drop (decodeRune rest).2)

theorem stepWidth_pos (isMark : Rune → Bool) (rest : Bytes) (h : rest ≠ []) : 1 ≤ stepWidth isMark rest := by
  have := decodeRune_size_pos rest h; unfold stepWidth; omega

/-- `output` is represented by the already written tail `out` (`output[cursorOut:]`); `none` = a slice panic -/
def reverseLoop (isMark : Rune → Bool) (s : Bytes) (cursorIn : Nat) (cursorOut : Int) (out : Bytes) : Option Bytes :=
  if _h : cursorIn < s.length then
    let wid := stepWidth isMark (s.drop cursorIn)
    if cursorOut - wid < 0 then none                      -- output[cursorOut-wid:cursorOut]
    else match goSlice s cursorIn (cursorIn + wid) with   -- s[cursorIn:cursorIn+wid]
      | none => none
      | some piece => reverseLoop isMark s (cursorIn + wid) (cursorOut - wid) (piece ++ out)
  else some ((List.replicate cursorOut.toNat (0#8)) ++ out)
termination_by s.length - cursorIn
decreasing_by
  have hne : s.drop cursorIn ≠ [] := by
    intro h; have := congrArg List.length h; simp only [List.length_drop, List.length_nil] at this; omega
  have := stepWidth_pos isMark (s.drop cursorIn) hne
  omega

def reverseTerm (isMark : Rune → Bool) (s : Bytes) : Option Bytes :=
  reverseLoop isMark s 0 s.length []

def reverseFilter (isMark : Rune → Bool) (input : List Token) : Option (List Token) :=
  (loop input (fun (rv : List Token) (token : Token) =>
    match reverseTerm isMark token.term with
    | none => none
    | some t => some ({ token with term := t } :: rv)) []).map List.reverse

/-! ### camel case (token/camelcase*.go)

`cls r` = 0 lower (`unicode.IsLower`), 1 upper, 2 number, 3 anything else. -/

inductive CState where
  | lower | number | nonAlnum
  | upper (startedCollecting collectingUpper : Bool)
deriving Repr, DecidableEq

/-- `Parser.NewState` -/
def newState (cls : Rune → Nat) (sym : Rune) : CState :=
  if cls sym = 0 then .lower else if cls sym = 1 then .upper false false else if cls sym = 2 then .number else .nonAlnum

/-- `State.Member(sym, peek)`: (result, state after the call — UpperCaseState mutates itself) -/
def member (cls : Rune → Nat) (st : CState) (sym : Rune) (peek : Option Rune) : Bool × CState :=
  match st with
  | .lower => (cls sym = 0, st)
  | .number => (cls sym = 2, st)
  | .nonAlnum => (cls sym = 3, st)
  | .upper started collecting =>
    if !(cls sym = 0 ∨ cls sym = 1) then (false, st)
    else if (match peek with | some p => decide (cls sym = 1) && decide (cls p = 0) | none => false) then (false, st)
    else if !started then (true, .upper true (cls sym = 1))
    else (collecting == decide (cls sym = 1), st)

structure Parser where
  buffer : List Rune      -- reversed
  current : Option CState
  tokens : List Token     -- reversed
  index : Int

/-- `buildTokenFromTerm` -/
def Parser.build (p : Parser) : Parser :=
  let term := buildTerm p.buffer.reverse
  { p with tokens := { term := term, posIncr := 1, start := p.index, stop := p.index + term.length } :: p.tokens,
           index := p.index + term.length }

/-- `Parser.Push` -/
def Parser.push (cls : Rune → Nat) (p : Parser) (sym : Rune) (peek : Option Rune) : Parser :=
  match p.current with
  | none => { p with current := some (newState cls sym), buffer := sym :: p.buffer }
  | some st =>
    let m := member cls st sym peek
    if m.1 then { p with current := some m.2, buffer := sym :: p.buffer }
    else { p.build with current := some (newState cls sym), buffer := [sym] }

/-- the `for i := 0; i < runeCount; i++ { p.Push(runes[i], peek) }` loop -/
def camelPushAll (cls : Rune → Nat) (p : Parser) : List Rune → Parser
  | [] => p
  | [r] => p.push cls r none
  | r :: r2 :: rest => camelPushAll cls (p.push cls r (some r2)) (r2 :: rest)

def camelToken (cls : Rune → Nat) (token : Token) : List Token :=
  let p := camelPushAll cls { buffer := [], current := none, tokens := [], index := token.start } (runes token.term)
  p.build.tokens.reverse      -- FlushTokens

def camelCaseFilter (cls : Rune → Nat) (input : List Token) : List Token := input.flatMap (camelToken cls)

/-! ### dictionary compound (token/dict.go) -/

/-- `decompose`: state of the inner loop is (break seen, longestMatchToken, rv reversed) -/
def dictDecompose (dict : List Bytes) (minSub maxSub : Int) (onlyLongest : Bool) (token : Token) : Option (List Token) :=
  let rs := runes token.term
  let rlen : Int := rs.length
  (loop (intRange 0 (rlen - minSub)) (fun (rv : List Token) (i : Int) =>
    (loop (intRange minSub maxSub) (fun (st : Bool × Option Token × List Token) (j : Int) =>
      if st.1 then some st
      else if i + j > rlen then some (true, st.2)
      else match goSlice rs i (i + j) with
        | none => none
        | some sl =>
          let w := buildTerm sl
          if dict.contains w then
            let newtoken : Token := { term := w, posIncr := 0, start := token.start + i, stop := token.start + i + j,
                                      typ := token.typ, kw := token.kw }
            if onlyLongest then
              match st.2.1 with
              | none => some (false, some newtoken, st.2.2)
              | some l => if ((runes l.term).length : Int) < j then some (false, some newtoken, st.2.2) else some st
            else some (false, st.2.1, newtoken :: st.2.2)
          else some st) (false, none, rv)).map fun st =>
        match onlyLongest, st.2.1 with
        | true, some l => l :: st.2.2
        | _, _ => st.2.2) []).map List.reverse

/-- `DictionaryCompoundFilter.Filter` -/
def dictFilter (dict : List Bytes) (minWord minSub maxSub : Int) (onlyLongest : Bool) (input : List Token) : Option (List Token) :=
  (loop input (fun (rv : List Token) (token : Token) =>
    if ((runes token.term).length : Int) ≥ minWord then
      match dictDecompose dict minSub maxSub onlyLongest token with
      | none => none
      | some new => some (new.reverse ++ token :: rv)
    else some (token :: rv)) []).map List.reverse

/-! ### CJK bigram (lang/cjk/cjk_bigram.go)

`ring.New(2)`: `cur` is `r.Value`, `other` is `r.Next().Value = r.Move(-1).Value`; `r = r.Next()` swaps. -/

structure Ring2 where
  cur : Option Token
  other : Option Token
  items : Nat
  rv : List Token       -- reversed

def single (prev : Token) : Token :=
  { term := prev.term, typ := tSingle, posIncr := 0, start := prev.start, stop := prev.stop }

/-- `buildUnigram(r, &itemsInRing)` -/
def Ring2.buildUnigram (r : Ring2) : Option Token :=
  if r.items = 2 then r.other.map single
  else if r.items = 1 then r.cur.map single
  else none

/-- `outputBigram(r, &itemsInRing)` -/
def Ring2.outputBigram (r : Ring2) : Option Token :=
  if r.items = 2 then
    match r.other, r.cur with
    | some prev, some curr =>
      some { term := prev.term ++ curr.term, typ := tDouble, posIncr := 0, start := prev.start, stop := curr.stop }
    | _, _ => none
  else none

/-- `flushToken := s.flush(r, &itemsInRing); if flushToken != nil { PositionIncr = 1; append }` -/
def Ring2.flushEmit (r : Ring2) : Ring2 :=
  let out := if r.items = 1 then r.buildUnigram else none
  let r := { r with cur := none, items := 0 }
  match out with
  | some t => { r with rv := { t with posIncr := 1 } :: r.rv }
  | none => r

/-- `if itemsInRing > 0 { curr := r.Value; if token.Start-curr.End != 0 { flush … } }` -/
def Ring2.align (r : Ring2) (token : Token) : Ring2 :=
  if r.items > 0 then
    match r.cur with
    | some curr => if token.start - curr.stop ≠ 0 then r.flushEmit else r
    | none => r
  else r

/-- `r = r.Next(); r.Value = token; if itemsInRing < 2 { itemsInRing++ }` -/
def Ring2.advance (r : Ring2) (token : Token) : Ring2 :=
  { r with cur := some token, other := r.cur, items := if r.items < 2 then r.items + 1 else r.items }

/-- `if itemsInRing > 1 && s.outputUnigram { unigram := buildUnigram …; PositionIncr = 1; append }` -/
def Ring2.emitUnigram (outputUnigram : Bool) (r : Ring2) : Ring2 :=
  if r.items > 1 ∧ outputUnigram then
    match r.buildUnigram with
    | some u => { r with rv := { u with posIncr := 1 } :: r.rv }
    | none => r
  else r

/-- `bigramToken := outputBigram …; if !s.outputUnigram { PositionIncr = 1 }; append` -/
def Ring2.emitBigram (outputUnigram : Bool) (r : Ring2) : Ring2 :=
  match r.outputBigram with
  | some b => { r with rv := (if !outputUnigram then { b with posIncr := 1 } else b) :: r.rv }
  | none => r

/-- the ring entry built for one rune of an ideographic token -/
def cjkPiece (tokout : Token) (piece : Bytes) (sofar rlen : Int) : Token :=
  { term := piece, start := tokout.start + sofar, stop := tokout.start + sofar + rlen,
    posIncr := 0, typ := tokout.typ, kw := tokout.kw }

/-- the body of `for range runes` (after the fix "width from DecodeRune of the term bytes"): state (ring, sofar);
`_, rlen := utf8.DecodeRune(tokout.Term[sofar:])`, then `tokout.Term[sofar:sofar+rlen]` -/
def cjkRune (outputUnigram : Bool) (tokout : Token) (st : Ring2 × Int) (_run : Rune) : Option (Ring2 × Int) :=
  match goSlice tokout.term st.2 tokout.term.length with
  | none => none
  | some rest =>
    let rlen : Int := ((decodeRune rest).2 : Nat)
    match goSlice tokout.term st.2 (st.2 + rlen) with
    | none => none
    | some piece =>
      let token := cjkPiece tokout piece st.2 rlen
      some ((((st.1.align token).advance token).emitUnigram outputUnigram).emitBigram outputUnigram, st.2 + rlen)

/-- `BigramFilter.Filter` -/
def cjkBigramFilter (outputUnigram : Bool) (input : List Token) : Option (List Token) :=
  (loop input (fun (r : Ring2) (tokout : Token) =>
    if tokout.typ = tIdeographic then
      (loop (runes tokout.term) (cjkRune outputUnigram tokout) (r, 0)).map (·.1)
    else
      let r := r.flushEmit
      some { r with rv := tokout :: r.rv }) { cur := none, other := none, items := 0, rv := [] }).map fun r =>
    let r := if r.items = 1 ∨ outputUnigram then
        let r' := if r.items = 2 then { r with cur := r.other, other := r.cur } else r
        match r'.buildUnigram with
        | some u => { r' with rv := { u with posIncr := 1 } :: r'.rv }
        | none => r'
      else r
    r.rv.reverse

/-! ## Hypotheses of the component theorems (decidable; the driver evaluates them on every real stage input) -/

/-- the term has no more runes than the token's span has bytes (true for every slice of the input) -/
def FitsRunes (t : Token) : Prop := ((runes t.term).length : Int) ≤ t.stop - t.start
/-- the re-encoded term is no longer than the token's span (true for every valid-UTF-8 slice of the input) -/
def FitsBytes (t : Token) : Prop := ((buildTerm (runes t.term)).length : Int) ≤ t.stop - t.start
/-- an ideographic token spans at least the length of its term (true for every slice of the input) -/
def IdeoFits (t : Token) : Prop := t.typ = tIdeographic → (t.term.length : Int) ≤ t.stop - t.start

instance (t : Token) : Decidable (FitsRunes t) := by unfold FitsRunes; infer_instance
instance (t : Token) : Decidable (FitsBytes t) := by unfold FitsBytes; infer_instance
instance (t : Token) : Decidable (IdeoFits t) := by unfold IdeoFits; infer_instance

end Bluge.Analysis

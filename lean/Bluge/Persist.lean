/-! # The persistence protocol of `index.Writer` (core Lean only)

Model of `/repo/index/persister.go` (persisterLoop, persistSnapshot{,MaybeMerge,Direct}),
`/repo/index/deletion.go` (KeepNLatestDeletionPolicy, transcribed wholesale),
`/repo/index/introducer.go` (replaceRoot: root + waiting acknowledgements change together),
`/repo/index/writer.go` (prepareSegment's wait, OpenWriter's Setup→Lock→loadSnapshots→List→Cleanup, close)
and of the directory as far as the protocol sees it (a file is *complete* — exactly the bytes of a
Persist that returned nil — or *torn*; `remove` first takes an exclusive flock).

A root's logical content is abstract: it is the number `k` of batches applied (`absAfter k`);
batch `c` is the `c`-th batch introduced, so a snapshot with content `k` *covers* `c` iff `c ≤ k`.
Segment ids are physical and are modelled (which snapshot names which segment file). New ids are fresh in
the sense of the code: above `List(segment)[0] + 1` as seen by OpenWriter (`sidFloor`) and not handed out
since (`used`) — an id whose Persist failed before a close may be handed out again by the next writer.

Serves C02, C11 (proved in `BlugeProofs`), and is the base of C03 (`crash`, `openWriter`) and
C14 (`fault`, `segEnd/snapEnd … false`, `persistFail`). -/
namespace Bluge.Persist

/-! ## Disk -/

/-- a snapshot file `%012x.snp`: the epoch is the name; `k`/`segs` are what a complete file decodes to -/
structure SnapFile where
  epoch : Nat
  k : Nat
  segs : List Nat
  complete : Bool
  deriving DecidableEq, Repr, Inhabited

/-- the directory: snapshot files and segment files `(sid, complete)` -/
structure Disk where
  snaps : List SnapFile := []
  segs : List (Nat × Bool) := []
  deriving DecidableEq, Repr, Inhabited

namespace Disk

/-- create/overwrite the snapshot file of `f.epoch` -/
def putSnap (d : Disk) (f : SnapFile) : Disk :=
  { d with snaps := f :: d.snaps.filter (fun g => g.epoch != f.epoch) }

def delSnap (d : Disk) (e : Nat) : Disk :=
  { d with snaps := d.snaps.filter (fun g => g.epoch != e) }

def putSeg (d : Disk) (sid : Nat) (c : Bool) : Disk :=
  { d with segs := (sid, c) :: d.segs.filter (fun g => g.1 != sid) }

def delSeg (d : Disk) (sid : Nat) : Disk :=
  { d with segs := d.segs.filter (fun g => g.1 != sid) }

/-- the segment file exists and is complete -/
def segOK (d : Disk) (sid : Nat) : Bool := d.segs.contains (sid, true)

/-- `loadSnapshot` succeeds on `f`: the file is complete and so is every segment file it names -/
def loadable (d : Disk) (f : SnapFile) : Bool := f.complete && f.segs.all d.segOK

def newer (acc : Option SnapFile) (f : SnapFile) : Option SnapFile :=
  match acc with
  | none => some f
  | some g => if g.epoch < f.epoch then some f else some g

/-- what `OpenReader` / `loadSnapshots` end with: the newest loadable snapshot -/
def recover (d : Disk) : Option SnapFile :=
  (d.snaps.filter d.loadable).foldl newer none

/-- `recover : Disk → Option k` -/
def recoverK (d : Disk) : Option Nat := d.recover.map (·.k)

end Disk

/-- `d'` is a crash image of `d`: complete files survive unchanged; a file whose Persist has not
returned survives as some torn variant (kept, still not complete) or not at all -/
def CrashImage (d d' : Disk) : Prop :=
  (∀ f, f ∈ d'.snaps → f ∈ d.snaps) ∧ (∀ f, f ∈ d.snaps → f.complete = true → f ∈ d'.snaps) ∧
  (∀ g, g ∈ d'.segs → g ∈ d.segs) ∧ (∀ g, g ∈ d.segs → g.2 = true → g ∈ d'.segs)

/-! ## KeepNLatestDeletionPolicy (deletion.go), wholesale -/

structure Policy where
  n : Nat
  live : List Nat := []                    -- liveEpochs
  deletable : List Nat := []               -- deletableEpochs
  liveSegs : List (Nat × List Nat) := []   -- liveSegments : epoch ↦ set of segment ids
  known : List Nat := []                   -- knownSegmentFiles
  deriving DecidableEq, Repr, Inhabited

namespace Policy

/-- `Commit(snapshot)` -/
def commit (p : Policy) (e : Nat) (segs : List Nat) : Policy :=
  let known := segs ++ p.known
  let live := p.live ++ [e]
  let liveSegs := (e, segs) :: p.liveSegs.filter (fun x => x.1 != e)
  if live.length > p.n then
    { p with known := known, liveSegs := liveSegs,
             live := live.drop (live.length - p.n),
             deletable := p.deletable ++ live.take (live.length - p.n) }
  else
    { p with known := known, liveSegs := liveSegs, live := live }

/-- is `sid` named by some entry of `liveSegments`? (the inner loop of `cleanupSegments`) -/
def named (p : Policy) (sid : Nat) : Bool := p.liveSegs.any (fun x => x.2.contains sid)

/-- one iteration of `cleanupSnapshots` whose `Remove` succeeded -/
def removedSnap (p : Policy) (e : Nat) : Policy :=
  { p with deletable := p.deletable.filter (· != e), liveSegs := p.liveSegs.filter (fun x => x.1 != e) }

/-- one iteration of `cleanupSegments` whose `Remove` succeeded -/
def removedSeg (p : Policy) (sid : Nat) : Policy :=
  { p with known := p.known.filter (· != sid) }

end Policy

/-! ## Writer state -/

inductive Phase
  | segs       -- persistSnapshotDirect: writing the not yet persisted segments
  | ready      -- segments written and introduced (prepareIntroducePersist returned), or none to write
  | snapW      -- directory.Persist(snapshot) in flight
  | snapDone   -- … returned nil
  | committed  -- deletionPolicy.Commit done; persistSnapshot returns nil
  | failed     -- persistSnapshot returns an error
  deriving DecidableEq, Repr, Inhabited

/-- what the persister took in ONE rootLock region, and how far persistSnapshot got -/
structure Job where
  epoch : Nat
  k : Nat
  segs : List Nat       -- segment ids the snapshot file will name (after the `equiv` rewrite)
  todo : List Nat       -- of those: in memory, still to be persisted
  cur : Option Nat      -- the segment Persist in flight (the persister writes one at a time)
  written : List Nat    -- persisted by this job, to be introduced by introducePersist
  acks : List Nat       -- ourPersisted          (safe batches blocked in prepareSegment)
  cbs : List Nat        -- ourPersistedCallbacks
  phase : Phase
  deriving DecidableEq, Repr, Inhabited

structure Reader where
  rid : Nat
  k : Nat
  segs : List Nat       -- segment files held open (shared flock)
  deriving DecidableEq, Repr, Inhabited

structure State where
  disk : Disk := {}
  pol : Policy
  isOpen : Bool := false       -- the writer's loops run
  lock : Bool := false         -- bluge.pid is flocked
  applied : Nat := 0           -- batches introduced = content of the root
  rootEpoch : Nat := 0
  nextEpoch : Nat := 1         -- the introducer's nextSnapshotEpoch
  rootSegs : List Nat := []
  rootMem : List Nat := []     -- of rootSegs: not persisted
  waitAcks : List Nat := []    -- Writer.rootPersisted
  waitCbs : List Nat := []     -- Writer.persistedCallbacks
  job : Option Job := none
  unpCbs : List Nat := []      -- persisterLoop's unpersistedCallbacks
  lastPersisted : Nat := 0     -- persisterLoop's lastPersistedEpoch
  mergeW : List Nat := []      -- merged segment files being written (Persist has not returned)
  pending : List Nat := []     -- merged segment files written, not (yet) introduced
  readers : List Reader := []
  sidFloor : Nat := 0          -- segment ids below this are taken (OpenWriter: newest segment file on disk + 2)
  used : List Nat := []        -- segment ids handed out since OpenWriter
  acked : List Nat := []       -- ghost: batches whose acknowledgement was released (nil)
  commits : List Nat := []     -- ghost: epochs committed to the policy by this writer, in order
  deriving DecidableEq, Repr, Inhabited

def init (n : Nat) : State := { pol := { n := n } }

inductive FaultKind
  | persister   -- Load/closeCh error inside persistSnapshot outside a directory write
  | merger      -- error in the merger (root unchanged)
  | list | load | remove | other
  deriving DecidableEq, Repr, Inhabited

inductive Event
  /-- `Intro c`: introduceSegment+replaceRoot for the next batch (`c = applied+1`): new epoch `e`, optional new
  in-memory segment, segments whose live size became 0 dropped, ack channel / callback registered under rootLock -/
  | intro (e : Nat) (sid : Option Nat) (dropped : List Nat) (safe cb : Bool)
  /-- `IntroOther` (merge): same content, `olds` leave the root, the merged file `new` (if not skipped) enters -/
  | introMerge (e : Nat) (olds : List Nat) (new : Option Nat)
  /-- `IntroOther` (persist): same content, the job's written segments become file segments -/
  | introPersist (e : Nat)
  /-- epoch consumed by an introduction that failed (root unchanged) -/
  | introFail (e : Nat)
  | persistGrab
  | segBegin (sid : Nat)        -- `PersistSeg sid` begins (persister, a segment of its job)
  | mergeSegBegin (sid : Nat)   -- a merge (file merge / in-memory merge) begins writing a fresh segment file
  | segEnd (sid : Nat) (ok exact : Bool)       -- `PersistSeg sid` returns
  | mergeSegEnd (sid : Nat) (ok exact : Bool)
  | equiv (new : Nat)           -- persistSnapshotMaybeMerge's `equiv` snapshot
  | snapBegin                   -- `PersistSnap e` begins
  | snapEnd (ok exact : Bool)
  | commit                      -- `Commit e`
  | ack                         -- persistSnapshot returned nil: channels closed, callbacks(nil)
  | persistFail (closed : Bool) -- persistSnapshot returned an error
  | ackObs (c : Nat)            -- observation: Batch returned nil (safe) / callback(nil) for batch c
  | cleanupRemoveSnap (e : Nat) (ok : Bool)
  | cleanupRemoveSeg (sid : Nat) (ok : Bool)
  | readerOpen (rid : Nat) (k : Nat) (segs : List Nat)   -- Writer.Reader(): a root (content k) is pinned, its segment files stay open
  | readerClose (rid : Nat)
  | fault (f : FaultKind)
  | crash
  | openWriter                  -- `Reopen`; refused while the lock is held (second writer)
  | closeWriter
  deriving DecidableEq, Repr, Inhabited

/-- the assumption of C13 made explicit: a Persist that returns nil leaves exactly the bytes written -/
def Event.exact : Event → Bool
  | .segEnd _ true x => x
  | .mergeSegEnd _ true x => x
  | .snapEnd true x => x
  | _ => true

/-- the id cannot be handed out again by `atomic.AddUint64(&s.nextSegmentID, 1)` -/
def isUsed (s : State) (x : Nat) : Prop := x < s.sidFloor ∨ x ∈ s.used

instance (s : State) (x : Nat) : Decidable (isUsed s x) := by unfold isUsed; infer_instance

/-- the largest segment file id on disk (0 if none): `List(ItemKindSegment)[0]` -/
def Disk.maxSeg (d : Disk) : Nat := d.segs.foldl (fun m g => max m g.1) 0

def rootFiles (s : State) : List Nat := s.rootSegs.filter (fun x => !s.rootMem.contains x)

/-- insertion into an epoch-ascending list (loadSnapshots walks oldest → newest) -/
def insertAsc (f : SnapFile) : List SnapFile → List SnapFile
  | [] => [f]
  | g :: r => if f.epoch ≤ g.epoch then f :: g :: r else g :: insertAsc f r

def sortAsc (l : List SnapFile) : List SnapFile := l.foldr insertAsc []

/-- `loadSnapshots`: every loadable snapshot, oldest first -/
def loadOrder (d : Disk) : List SnapFile := sortAsc (d.snaps.filter d.loadable)

def commitAll (n : Nat) (ls : List SnapFile) : Policy :=
  ls.foldl (fun p f => p.commit f.epoch f.segs) { n := n }

/-- OpenWriter on an unlocked directory: Lock, loadSnapshots (Commit + replaceRoot per loaded snapshot);
`none` when snapshots exist but none loads (OpenWriter errors and unlocks) -/
def reopen (s : State) : Option State :=
  let ls := loadOrder s.disk
  match ls.getLast? with
  | none =>
      if s.disk.snaps.isEmpty then
        some { disk := s.disk, pol := { n := s.pol.n }, isOpen := true, lock := true,
               sidFloor := s.disk.maxSeg + 2, acked := s.acked, readers := s.readers }
      else none
  | some f =>
      some { disk := s.disk, pol := commitAll s.pol.n ls, isOpen := true, lock := true,
             sidFloor := s.disk.maxSeg + 2, acked := s.acked, readers := s.readers, commits := ls.map (·.epoch),
             applied := f.k, rootEpoch := f.epoch, nextEpoch := f.epoch + 1,
             rootSegs := f.segs, lastPersisted := f.epoch }

def stepIntro (s : State) (e : Nat) (sid : Option Nat) (dropped : List Nat) (safe cb : Bool) : Option State :=
  if s.isOpen = true ∧ s.nextEpoch ≤ e ∧ (∀ x ∈ sid.toList, ¬ isUsed s x) then
    some { s with applied := s.applied + 1, rootEpoch := e, nextEpoch := e + 1,
                  rootSegs := s.rootSegs.filter (fun x => !dropped.contains x) ++ sid.toList,
                  rootMem := s.rootMem.filter (fun x => !dropped.contains x) ++ sid.toList,
                  used := sid.toList ++ s.used,
                  waitAcks := if safe then s.waitAcks ++ [s.applied + 1] else s.waitAcks,
                  waitCbs := if cb then s.waitCbs ++ [s.applied + 1] else s.waitCbs }
  else none

def stepIntroMerge (s : State) (e : Nat) (olds : List Nat) (new : Option Nat) : Option State :=
  if s.isOpen = true ∧ s.nextEpoch ≤ e ∧ (∀ x ∈ new.toList, x ∈ s.pending) then
    some { s with rootEpoch := e, nextEpoch := e + 1,
                  rootSegs := s.rootSegs.filter (fun x => !olds.contains x) ++ new.toList,
                  rootMem := s.rootMem.filter (fun x => !olds.contains x),
                  pending := s.pending.filter (fun x => !new.toList.contains x) }
  else none

def stepIntroPersist (s : State) (e : Nat) : Option State :=
  match s.job with
  | some j =>
      if s.isOpen = true ∧ s.nextEpoch ≤ e ∧ j.phase = .segs ∧ j.todo = [] ∧ j.cur = none ∧ j.written ≠ [] then
        some { s with rootEpoch := e, nextEpoch := e + 1,
                      rootMem := s.rootMem.filter (fun x => !j.written.contains x),
                      job := some { j with phase := .ready } }
      else none
  | none => none

def stepIntroFail (s : State) (e : Nat) : Option State :=
  if s.isOpen = true ∧ s.nextEpoch ≤ e then some { s with nextEpoch := e + 1 } else none

/-- ONE rootLock region: root, rootPersisted, persistedCallbacks are read and reset together -/
def stepGrab (s : State) : Option State :=
  if s.isOpen = true ∧ s.job = none ∧ s.lastPersisted < s.rootEpoch then
    some { s with job := some { epoch := s.rootEpoch, k := s.applied, segs := s.rootSegs,
                                 todo := s.rootMem, cur := none, written := [], acks := s.waitAcks, cbs := s.waitCbs,
                                 phase := if s.rootMem = [] then .ready else .segs },
                  waitAcks := [], waitCbs := [] }
  else none

def stepSegBegin (s : State) (sid : Nat) : Option State :=
  match s.job with
  | some j =>
      if j.phase = .segs ∧ sid ∈ j.todo ∧ j.cur = none then some { s with job := some { j with cur := some sid } }
      else none
  | none => none

def stepSegEnd (s : State) (sid : Nat) (ok exact : Bool) : Option State :=
  match s.job with
  | some j =>
      if j.cur = some sid then
        if ok then
          some { s with disk := s.disk.putSeg sid exact,
                        job := some { j with cur := none, todo := j.todo.filter (· != sid), written := j.written ++ [sid] } }
        else
          -- Persist's cleanup(): close and os.Remove(path); persistSnapshotDirect returns the error
          some { s with disk := s.disk.delSeg sid, job := some { j with cur := none, phase := .failed } }
      else none
  | none => none

def stepMergeSegBegin (s : State) (sid : Nat) : Option State :=
  if s.isOpen = true ∧ ¬ isUsed s sid then some { s with mergeW := sid :: s.mergeW, used := sid :: s.used } else none

def stepMergeSegEnd (s : State) (sid : Nat) (ok exact : Bool) : Option State :=
  if sid ∈ s.mergeW then
    if ok then some { s with disk := s.disk.putSeg sid exact, mergeW := s.mergeW.filter (· != sid), pending := sid :: s.pending }
    else some { s with disk := s.disk.delSeg sid, mergeW := s.mergeW.filter (· != sid) }
  else none

def stepEquiv (s : State) (new : Nat) : Option State :=
  match s.job with
  | some j =>
      if j.phase = .segs ∧ j.written = [] ∧ j.cur = none ∧ new ∈ s.rootSegs ∧ new ∉ s.rootMem ∧ new ∉ j.todo then
        some { s with job := some { j with segs := j.segs.filter (fun x => !j.todo.contains x) ++ [new],
                                           todo := [], phase := .ready } }
      else none
  | none => none

def stepSnapBegin (s : State) : Option State :=
  match s.job with
  | some j =>
      if j.phase = .ready then
        some { s with disk := s.disk.putSnap { epoch := j.epoch, k := j.k, segs := j.segs, complete := false },
                      job := some { j with phase := .snapW } }
      else none
  | none => none

def stepSnapEnd (s : State) (ok exact : Bool) : Option State :=
  match s.job with
  | some j =>
      if j.phase = .snapW then
        if ok then
          some { s with disk := s.disk.putSnap { epoch := j.epoch, k := j.k, segs := j.segs, complete := exact },
                        job := some { j with phase := .snapDone } }
        else some { s with disk := s.disk.delSnap j.epoch, job := some { j with phase := .failed } }
      else none
  | none => none

def stepCommit (s : State) : Option State :=
  match s.job with
  | some j =>
      if j.phase = .snapDone then
        some { s with pol := s.pol.commit j.epoch j.segs, commits := s.commits ++ [j.epoch],
                      job := some { j with phase := .committed } }
      else none
  | none => none

def stepAck (s : State) : Option State :=
  match s.job with
  | some j =>
      if j.phase = .committed then
        some { s with acked := s.acked ++ (j.acks ++ (s.unpCbs ++ j.cbs)), unpCbs := [],
                      lastPersisted := j.epoch, job := none }
      else none
  | none => none

/-- every grabbed channel receives the error; callbacks are parked for the retry (dropped on ErrClosed) -/
def stepPersistFail (s : State) (closed : Bool) : Option State :=
  match s.job with
  | some j =>
      if j.phase = .failed then some { s with job := none, unpCbs := if closed then s.unpCbs else s.unpCbs ++ j.cbs }
      else none
  | none => none

def stepCleanupSnap (s : State) (e : Nat) (ok : Bool) : Option State :=
  if s.isOpen = true ∧ s.job = none ∧ e ∈ s.pol.deletable then
    if ok then some { s with disk := s.disk.delSnap e, pol := s.pol.removedSnap e } else some s
  else none

/-- `remove` takes an exclusive non-blocking flock first: it cannot succeed on a file a reader holds -/
def stepCleanupSeg (s : State) (sid : Nat) (ok : Bool) : Option State :=
  if s.isOpen = true ∧ s.job = none ∧ sid ∈ s.pol.known ∧ s.pol.named sid = false then
    if ok then
      if ∀ r ∈ s.readers, sid ∉ r.segs then some { s with disk := s.disk.delSeg sid, pol := s.pol.removedSeg sid }
      else none
    else some s
  else none

def stepReaderOpen (s : State) (rid k : Nat) (segs : List Nat) : Option State :=
  if s.isOpen = true ∧ k ≤ s.applied ∧ (∀ r ∈ s.readers, r.rid ≠ rid) then
    some { s with readers := { rid := rid, k := k, segs := segs } :: s.readers }
  else none

def stepReaderClose (s : State) (rid : Nat) : Option State :=
  if ∃ r ∈ s.readers, r.rid = rid then some { s with readers := s.readers.filter (fun r => r.rid != rid) }
  else none

def stepFault (s : State) (f : FaultKind) : Option State :=
  match f with
  | .persister =>
      match s.job with
      | some j =>
          if (j.phase = .segs ∨ j.phase = .ready) ∧ j.cur = none then some { s with job := some { j with phase := .failed } }
          else none
      | none => none
  | _ => some s

/-- the process dies: memory is lost, the flock is released by the OS, files stay as they are -/
def stepCrash (s : State) : Option State :=
  some { disk := s.disk, pol := { n := s.pol.n }, sidFloor := s.sidFloor, used := s.used, acked := s.acked }

def stepOpen (s : State) : Option State :=
  if s.lock = true then some s          -- Lock() fails before any truncation, removal or clean-up
  else if s.isOpen = true then none
  else reopen s

/-- close(closeCh); asyncTasks.Wait(); replaceRoot(nil); directory.Unlock() -/
def stepClose (s : State) : Option State :=
  if s.isOpen = true ∧ s.job = none ∧ s.mergeW = [] then
    some { disk := s.disk, pol := s.pol, isOpen := false, lock := false, readers := s.readers,
           sidFloor := s.sidFloor, used := s.used, acked := s.acked, commits := s.commits }
  else none

/-- one event; `none` = the event is not enabled in `s` (the code cannot do this here) -/
def step (s : State) : Event → Option State
  | .intro e sid dropped safe cb => stepIntro s e sid dropped safe cb
  | .introMerge e olds new => stepIntroMerge s e olds new
  | .introPersist e => stepIntroPersist s e
  | .introFail e => stepIntroFail s e
  | .persistGrab => stepGrab s
  | .segBegin sid => stepSegBegin s sid
  | .mergeSegBegin sid => stepMergeSegBegin s sid
  | .segEnd sid ok exact => stepSegEnd s sid ok exact
  | .mergeSegEnd sid ok exact => stepMergeSegEnd s sid ok exact
  | .equiv new => stepEquiv s new
  | .snapBegin => stepSnapBegin s
  | .snapEnd ok exact => stepSnapEnd s ok exact
  | .commit => stepCommit s
  | .ack => stepAck s
  | .persistFail closed => stepPersistFail s closed
  | .ackObs c => if c ∈ s.acked then some s else none
  | .cleanupRemoveSnap e ok => stepCleanupSnap s e ok
  | .cleanupRemoveSeg sid ok => stepCleanupSeg s sid ok
  | .readerOpen rid k segs => stepReaderOpen s rid k segs
  | .readerClose rid => stepReaderClose s rid
  | .fault f => stepFault s f
  | .crash => stepCrash s
  | .openWriter => stepOpen s
  | .closeWriter => stepClose s

/-- run a whole event sequence -/
def run (s : State) : List Event → Option State
  | [] => some s
  | ev :: evs => match step s ev with
      | some s' => run s' evs
      | none => none

/-- every state the protocol can reach from the empty directory with retention `n`, all Persists exact -/
inductive Reachable (n : Nat) : State → Prop
  | init : Reachable n (init n)
  | step {s s' : State} (ev : Event) : Reachable n s → ev.exact = true → step s ev = some s' → Reachable n s'

/-- `s'` is reachable from `s` by further (exact) events -/
inductive Later : State → State → Prop
  | refl (s : State) : Later s s
  | step {s s' s'' : State} (ev : Event) : Later s s' → ev.exact = true → step s' ev = some s'' → Later s s''

/-- observation: a call of `Writer.Close` has returned. Close is ONE event per writer (`closeWriter`); every caller
(`closeOnce.Do` makes concurrent callers wait for the first) returns after it — never while the writer is still open -/
def closeReturned (s : State) : Option State := if s.isOpen = true then none else some s

/-! ## Specification -/

/-- every segment file the snapshot names is on disk and complete -/
def segmentsComplete (d : Disk) (f : SnapFile) : Prop := ∀ x ∈ f.segs, d.segOK x = true

/-- the snapshot contains batch `c` (its content is `absAfter k` with `k ≥ introIndex c`) -/
def covers (f : SnapFile) (c : Nat) : Prop := c ≤ f.k

def completeSnapshots (d : Disk) : List SnapFile := d.snaps.filter (·.complete)

/-- the durability invariant of C02 -/
def Durable (s : State) : Prop :=
  ∀ c ∈ s.acked, ∃ f ∈ completeSnapshots s.disk, segmentsComplete s.disk f ∧ covers f c

end Bluge.Persist

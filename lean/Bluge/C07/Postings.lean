import Bluge.C07.Query
/-! # Bluge.C07.Postings — the per-segment postings iterators of /repo/index

Transcribed from `/repo/index/postings.go` (`postingsIterator.Next/Advance`), `/repo/index/postings_all.go`
(`postingsIteratorAll.Next/Advance`), `/repo/index/unadorned.go` (`unadornedPostingsIteratorBitmap`,
`unadornedPostingsIterator1Hit`) and `/repo/index/snapshot.go`
(`segmentIndexAndLocalDocNumFromGlobal` = `sort.Search` over `offsets`). Core Lean only.

A snapshot is a list of segments; segment `i` has a global `offset` (`Snapshot.offsets[i]`) and a size
(`segment.Count()`, deleted documents included); the global number of local document `n` of segment `i`
is `offsets[i] + n`. The postings iterator of a term holds one per-segment iterator per segment
(`i.iterators`), built by `dict.PostingsList(term, seg.deleted).Iterator(...)`: it enumerates the local
postings of the term that are not in the segment's deleted set, in increasing order, forward only
(`SegIt`; for the `ice` iterator this is the assumption listed in checks/c07.py, for the two unadorned
iterators of /repo it is their transcription).

`offsets` and `iterators` are parallel slices of length `len(snapshot.segment)` in the Go code; the model
zips them (`PSeg`). -/
namespace Bluge.Search

/-! ## per-segment iterators -/

/-- one entry of `postingsIterator.iterators` / `postingsIteratorAll.iterators` -/
inductive SegIt where
  /-- the remaining local doc numbers of a roaring `IntPeekable` (`unadornedPostingsIteratorBitmap.actual`,
  `postingsIteratorAll.iterators[i]`), of an `ice` postings iterator, or of `anEmptyPostingsIterator` (`[]`) -/
  | list (rest : List Nat)
  /-- `unadornedPostingsIterator1Hit.docNum`; `none` = `docNum1HitFinished` -/
  | oneHit (d : Option Nat)
deriving Repr, Inhabited, DecidableEq

namespace SegIt

/-- what the iterator has not yet passed -/
def toList : SegIt → List Nat
  | .list r => r
  | .oneHit none => []
  | .oneHit (some d) => [d]

/-- `nextAtOrAfter(atOrAfter)`.
bitmap: `if actual == nil || !actual.HasNext() {return}; actual.AdvanceIfNeeded(atOrAfter);
         if !actual.HasNext() {return}; return actual.Next()`;
1-hit:  `if docNum == finished {return}; if docNum < atOrAfter {docNum = finished; return};
         d := docNum; docNum = finished; return d` -/
def nextAtOrAfter : SegIt → Nat → Option Nat × SegIt
  | .list r, n =>
    -- on an exhausted iterator both `HasNext()` tests fail alike: one `dropWhile` covers them
    match r.dropWhile (fun x => decide (x < n)) with
    | [] => (none, .list [])
    | x :: r' => (some x, .list r')
  | .oneHit none, _ => (none, .oneHit none)
  | .oneHit (some d), n => if d < n then (none, .oneHit none) else (some d, .oneHit none)

/-- `Next()` = `nextAtOrAfter(0)` -/
def next (it : SegIt) : Option Nat × SegIt := it.nextAtOrAfter 0

/-- `Advance(docNum)` = `nextAtOrAfter(docNum)` -/
def adv (it : SegIt) (n : Nat) : Option Nat × SegIt := it.nextAtOrAfter n

/-- `IntPeekable.AdvanceIfNeeded(minval)` (postingsIteratorAll.Advance): skip the values `< minval` -/
def advanceIfNeeded : SegIt → Nat → SegIt
  | .list r, n => .list (r.dropWhile (fun x => decide (x < n)))
  | .oneHit (some d), n => if d < n then .oneHit none else .oneHit (some d)
  | .oneHit none, _ => .oneHit none

end SegIt

/-! ## `sort.Search` and `segmentIndexAndLocalDocNumFromGlobal` -/

/-- the loop of Go's `sort.Search(n, f)`: `for i < j { h := (i+j)/2; if !f(h) {i = h+1} else {j = h} }; return i`.
The first argument bounds the number of iterations (`j - i` shrinks on every iteration). -/
def goSearchLoop (f : Nat → Bool) : Nat → Nat → Nat → Nat
  | 0, i, _ => i
  | k + 1, i, j =>
    if i < j then
      let h := (i + j) / 2
      if !f h then goSearchLoop f k (h + 1) j else goSearchLoop f k i h
    else i

/-- `sort.Search(n, f)` -/
def goSearch (n : Nat) (f : Nat → Bool) : Nat := goSearchLoop f n 0 n

/-- `segmentIndexAndLocalDocNumFromGlobal(docNum)`:
`segmentIndex = sort.Search(len(offsets), func(x) {return offsets[x] > docNum}) - 1`.
`none` = the index `-1` (no offset `≤ docNum`: `i.offsets[-1]` panics in Go). With `offsets[0] = 0`
(`segIndex_isSome`) that cannot happen on a snapshot that has a segment. -/
def segIndexOf (offsets : List Nat) (docNum : Nat) : Option Nat :=
  match goSearch offsets.length (fun x => decide (docNum < offsets.getD x 0)) with
  | 0 => none
  | k + 1 => some k

/-! ## `postingsIterator` / `postingsIteratorAll` -/

/-- one segment as the iterator sees it -/
structure PSeg where
  /-- `snapshot.offsets[i]` -/
  off : Nat
  /-- the local doc numbers a NEW per-segment iterator of the same term enumerates (postings of the
  term in the segment that are not deleted); used by the restart on a backward `Advance` -/
  fresh : List Nat
  /-- `iterators[i]` -/
  it : SegIt
deriving Repr, Inhabited

structure PIter where
  /-- `postings`: `*postingsIterator` from `Snapshot.PostingsIterator(term, field)`;
  `unadorned`: `*postingsIterator` from `Snapshot.unadornedPostingsIterator` (index/optimize.go `Finish`);
  `all`: `*postingsIteratorAll` -/
  kind : LeafKind
  segs : List PSeg
  /-- `segmentOffset` -/
  segOff : Nat
  /-- `currPosting != nil` (`postingsIteratorAll` has no such field: stays `false`) -/
  started : Bool
  /-- `currID` -/
  curr : Nat
deriving Repr, Inhabited

namespace PIter

def setIt (s : PIter) (i : Nat) (it : SegIt) : PIter :=
  { s with segs := s.segs.modify i (fun g => { g with it := it }) }

/-- `Next()`:
`for i.segmentOffset < len(i.iterators) { next := i.iterators[i.segmentOffset].Next();
   if next != nil { rvNumber := next.Number() + i.snapshot.offsets[i.segmentOffset]; i.currID = rvNumber;
                    i.currPosting = next; return next }
   i.segmentOffset++ }
 return nil`
(`postingsIteratorAll.Next`: `if !iterators[segmentOffset].HasNext() {segmentOffset++; continue}` is the
same step on a list iterator; it records no `currPosting`). The first argument bounds the iterations
(`len(iterators) - segmentOffset` shrinks). -/
def nextLoop : Nat → PIter → Resp × PIter
  | 0, s => (none, s)
  | k + 1, s =>
    match s.segs[s.segOff]? with
    | none => (none, s)                                  -- segmentOffset >= len(iterators)
    | some g =>
      let r := g.it.next
      let s1 := s.setIt s.segOff r.2
      match r.1 with
      | some x =>
        let rv := x + g.off
        (some rv, if s.kind == .all then s1 else { s1 with started := true, curr := rv })
      | none => nextLoop k { s1 with segOff := s.segOff + 1 }

def next (s : PIter) : Resp × PIter := nextLoop (s.segs.length + 1 - s.segOff) s

/-- the iterator `Snapshot.PostingsIterator(i.term, i.field, …)` returns for the restart: fresh
per-segment iterators, `segmentOffset = 0`, `currPosting = nil`, `currID = 0`. For the unadorned iterator
`term`/`field` are the artificial `<disjunction:unadorned>` / `*`, which no segment has: every
per-segment postings list of the fresh iterator is EMPTY. After `*i, *fresh = *fresh, *i` the caller's
object holds the fresh state (and the old state is closed through the other object). -/
def restart (s : PIter) : PIter :=
  match s.kind with
  | .postings =>
    { s with segs := s.segs.map (fun g => { g with it := .list g.fresh }), segOff := 0, started := false, curr := 0 }
  | .unadorned =>
    { kind := .postings, segs := s.segs.map (fun g => { g with fresh := [], it := .list [] }), segOff := 0,
      started := false, curr := 0 }
  | .all => s

/-- the first statement of `postingsIterator.Advance`: "if we need to seek backwards, then restart from
the beginning" (`i.currPosting != nil && i.currID >= number`); `postingsIteratorAll` has no such test -/
def advStart (s : PIter) (n : Nat) : PIter :=
  if s.kind != .all && s.started && decide (n ≤ s.curr) then s.restart else s

/-- the rest of `Advance(number)`: jump to the segment that holds `number`, advance inside it, fall
through to `Next()` -/
def seek (s1 : PIter) (n : Nat) : Resp × PIter :=
  match segIndexOf (s1.segs.map (·.off)) n with
  | none => (none, s1)               -- Go: `i.offsets[-1]`, index out of range (see `segIndex_isSome`)
  | some k =>
    match s1.segs[k]? with
    | none => (none, s1)             -- unreachable: k < len
    | some g =>
      let ldoc := n - g.off
      let s2 := { s1 with segOff := k }
      if s1.kind == .all then
        (s2.setIt k (g.it.advanceIfNeeded ldoc)).next
      else
        let r := g.it.adv ldoc
        let s3 := s2.setIt k r.2
        match r.1 with
        | none => s3.next
        | some x =>
          let rv := x + g.off
          (some rv, { s3 with started := true, curr := rv })

/-- `Advance(number)`.
`postingsIterator`: `if i.currPosting != nil && i.currID >= number { restart }`;
`segIndex, ldocNum := segmentIndexAndLocalDocNumFromGlobal(number)`; `i.segmentOffset = segIndex`;
`next := i.iterators[segIndex].Advance(ldocNum)`; `if next == nil { return i.Next() }`;
`rvNumber := next.Number() + offsets[segIndex]; i.currID = rvNumber; i.currPosting = next; return next`.
`postingsIteratorAll`: `i.segmentOffset = segIndex; i.iterators[segIndex].AdvanceIfNeeded(localDocNum);
return i.Next()`.
(`segIndex >= len(i.snapshot.segment)` — the error return — cannot hold for an index below
`len(offsets) = len(segment)`.) -/
def adv (s : PIter) (n : Nat) : Resp × PIter := (s.advStart n).seek n

def step (s : PIter) : Call → Resp × PIter
  | .next => s.next
  | .adv n => s.adv n

/-- does `Advance(n)` index `offsets[-1]` (a Go panic)? -/
def advPanics (s : PIter) (n : Nat) : Bool :=
  (segIndexOf ((s.advStart n).segs.map (·.off)) n).isNone

end PIter

/-! ## snapshots and the construction of the iterators -/

/-- a segment of a snapshot: (`offsets[i]`, `segment[i].segment.Count()`) -/
abbrev SnapLayout := List (Nat × Nat)

/-- **the decidable well-formedness of the offsets** (evaluated by the driver on the real
`Snapshot.offsets` / `FullSize()` of every reader: `bad:assumption-offsets`): `offsets[0] = 0` and
`offsets[i+1] = offsets[i] + size[i]` (introducer.go, writer.go `loadSnapshot`: `running += Count()`) -/
def offsetsOK : Nat → SnapLayout → Bool
  | _, [] => true
  | run, (off, size) :: t => off == run && offsetsOK (run + size) t

/-- number of documents (deleted ones included) = the first unused global doc number -/
def SnapLayout.total (sn : SnapLayout) : Nat := (sn.map (·.2)).sum

/-- the local postings of segment `(off, size)` in a list of GLOBAL doc numbers -/
def localsOf (l : List Nat) (off size : Nat) : List Nat :=
  (l.filter (fun x => decide (off ≤ x) && decide (x < off + size))).map (fun x => x - off)

/-- the iterator over the documents with global numbers `l` (live postings of a term, or all live
documents) in a snapshot with layout `sn` -/
def PIter.mk' (sn : SnapLayout) (kind : LeafKind) (l : List Nat) : PIter :=
  { kind := kind,
    segs := sn.map (fun e => let loc := localsOf l e.1 e.2; { off := e.1, fresh := loc, it := .list loc }),
    segOff := 0, started := false, curr := 0 }

/-- run a plan over the per-segment postings iterators of a snapshot with layout `sn` (every leaf of
the plan is instantiated by `PIter.mk' sn`), the way a collector does -/
def Plan.runSeg (sn : SnapLayout) (width : Nat) (p : Plan) : List Nat :=
  p.runWith PIter.step (PIter.mk' sn) sn.total width

/-- one segment as `Snapshot.PostingsIterator(term, field)` sees it: `snapshot.offsets[i]`,
`segment.Count()`, the sorted local postings of the term (`dict.PostingsList(term, …)`, deleted documents
included) and the segment's deleted set (`seg.deleted`) -/
structure SegData where
  off : Nat
  size : Nat
  raw : List Nat
  deleted : List Nat
deriving Repr, Inhabited

/-- what `dict.PostingsList(term, seg.deleted).Iterator()` enumerates: the postings that are not deleted -/
def SegData.live (e : SegData) : List Nat := e.raw.filter (fun n => !e.deleted.contains n)

/-- `Snapshot.PostingsIterator(term, field)` -/
def PIter.ofTerm (sd : List SegData) : PIter :=
  { kind := .postings,
    segs := sd.map (fun e => { off := e.off, fresh := e.live, it := .list e.live }),
    segOff := 0, started := false, curr := 0 }

/-- `{offset_i + n | n ∈ postings_i, n ∉ deleted_i}` in segment order -/
def liveGlobals (sd : List SegData) : List Nat := sd.flatMap (fun e => e.live.map (fun n => n + e.off))

/-- **decidable well-formedness of a term's per-segment data**: offsets are the running sums of the
segment sizes (from 0), postings are strictly increasing local numbers below the segment size -/
def termOK : Nat → List SegData → Bool
  | _, [] => true
  | run, e :: t => e.off == run && sortedB e.raw && e.raw.all (fun n => decide (n < e.size)) && termOK (run + e.size) t

/-- the global doc numbers an iterator enumerates: `{n + off_i | n ∈ fresh_i}` in segment order -/
def globOf (segs : List PSeg) : List Nat := segs.flatMap (fun g => g.fresh.map (fun x => x + g.off))

end Bluge.Search

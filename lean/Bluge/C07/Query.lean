import Bluge.Search
/-! # C07 — queries, their meaning (`denote`) and the searcher plan `Query.Searcher()` builds (`compile`)

`Index` is the list of LIVE documents after analysis, each with its global doc number (strictly
increasing). `sat d q` is the documented meaning of query `q` on one document; `denote` selects the
doc numbers of the documents that satisfy it — a sorted duplicate-free list by construction.
`compile` mirrors `/repo/query.go`: which searchers are constructed for a query over a given index. -/
namespace Bluge.C07
open Bluge.Search

/-- one analysed live document -/
structure Doc where
  id : String
  /-- text / keyword fields: field ↦ analysed terms in position order (position = index + 1) -/
  terms : List (String × List String)
  /-- numeric and date fields: the sortable int64 value (numeric.Float64ToInt64 / UnixNano) -/
  nums : List (String × Int)
  /-- geo point fields: (lon, lat) as decoded from the indexed morton hash -/
  geos : List (String × Float × Float)
deriving Repr, Inhabited

def Doc.fieldTerms (d : Doc) (f : String) : List String :=
  (d.terms.filter (fun e => e.1 == f)).flatMap (·.2)

def Doc.hasTerm (d : Doc) (f t : String) : Bool := (d.fieldTerms f).contains t

def Doc.numsOf (d : Doc) (f : String) : List Int := (d.nums.filter (fun e => e.1 == f)).map (·.2)

def Doc.geosOf (d : Doc) (f : String) : List (Float × Float) := (d.geos.filter (fun e => e.1 == f)).map (·.2)

/-- positions (1-based) at which term `t` occurs in field `f` -/
def Doc.positions (d : Doc) (f t : String) : List Nat :=
  ((d.fieldTerms f).zipIdx.filter (fun e => e.1 == t)).map (fun e => e.2 + 1)

abbrev Index := List (Nat × Doc)

/-- strictly increasing doc numbers below `bound` -/
def Index.WF (idx : Index) (bound : Nat) : Prop :=
  (idx.map (·.1)).Pairwise (· < ·) ∧ ∀ e ∈ idx, e.1 < bound

/-! ## multi-term predicates -/

/-- `?` one character, `*` any sequence (WildcardQuery) -/
def wildMatch : List Char → List Char → Bool
  | [], [] => true
  | [], _ :: _ => false
  | '*' :: ps, [] => wildMatch ps []
  | '*' :: ps, c :: cs => wildMatch ps (c :: cs) || wildMatch ('*' :: ps) cs
  | '?' :: _, [] => false
  | '?' :: ps, _ :: cs => wildMatch ps cs
  | _ :: _, [] => false
  | p :: ps, c :: cs => p == c && wildMatch ps cs
termination_by p s => p.length + s.length

inductive Matcher where
  | pfx (p : String)
  | wild (pat : String)
  /-- regexp / fuzzy: the dictionary terms a reference matcher accepts (computed by the harness) -/
  | oneOf (ts : List String)
  /-- term range; `none` = open end -/
  | range (lo hi : Option String) (incLo incHi : Bool)
deriving Repr, Inhabited

def Matcher.accepts : Matcher → String → Bool
  | .pfx p, t => p.isPrefixOf t
  | .wild pat, t => wildMatch pat.toList t.toList
  | .oneOf ts, t => ts.contains t
  | .range lo hi il ih, t =>
    (match lo with | none => true | some l => if il then decide (l ≤ t) else decide (l < t)) &&
    (match hi with | none => true | some h => if ih then decide (t ≤ h) else decide (t < h))

/-- what `DictionaryIterator(field, nil, start, end)` is observed to enumerate (vellum FST range search):
the terms in `[start, end)` — but when `start ≥ end` it yields the key `end` itself if that is a term.
`NewTermRangeSearcher` passes `end = max ++ "\x00"` for an inclusive max (never a term), and afterwards
drops the first term when it equals an exclusive `min`. So an inverted or degenerate term range with an
EXCLUSIVE max returns the documents holding the term `max` (unless `min = max` is exclusive too). -/
def Matcher.acceptsImpl : Matcher → String → Bool
  | .range (some lo) (some hi) il false, t =>
    if lo < hi then (if il then decide (lo ≤ t) else decide (lo < t)) && decide (t < hi)
    else t == hi && !(!il && lo == hi)
  | .range none (some hi) _ false, t => if "" < hi then decide (t < hi) else t == hi
  | m, t => m.accepts t

/-- the matcher is outside the quirk: the implementation's dictionary walk is the documented range -/
def Matcher.regular : Matcher → Bool
  | .range (some lo) (some hi) _ false => decide (lo < hi)
  | .range none (some hi) _ false => decide ("" < hi)
  | _ => true

/-! ## queries -/

inductive Query where
  | term (f t : String)
  | all
  | none
  /-- prefix, wildcard, regexp, fuzzy, term range: ⋃ over the dictionary terms the matcher accepts -/
  | multi (f : String) (m : Matcher)
  /-- numeric / date range over the sortable int64 order, bounds inclusive after the ±1 adjustments
  of `NewNumericRangeSearcher` -/
  | numRange (f : String) (lo hi : Int)
  /-- (multi-)phrase with slop; `[]` / `[""]` is a placeholder position -/
  | phrase (f : String) (slop : Nat) (pos : List (List String))
  | geoBox (f : String) (minLon minLat maxLon maxLat : Float)
  /-- centre, radius in metres -/
  | geoDist (f : String) (lon lat dist : Float)
  | bool (musts shoulds nots : List Query) (minShould : Nat)
deriving Repr, Inhabited

/-- how many should clauses a document needs (DESIGN C07 Spec) -/
def need (musts shoulds : List Query) (minShould : Nat) : Nat :=
  if musts.isEmpty && !shoulds.isEmpty then max 1 minShould else minShould

/-- `findPhrasePaths` (search_phrase.go) as an existence test. `tlm t` = positions of term `t` in the
field; `path` = the (term, position) pairs already used; `slop` = remaining slop. -/
def findPaths (tlm : String → List Nat) : List (List String) → Nat → List (String × Nat) → Int → Bool
  | [], _, _, _ => true
  | car :: cdr, prevPos, path, slop =>
    if car.isEmpty || car == [""] then
      findPaths tlm cdr (if prevPos == 0 then 0 else prevPos + 1) path slop
    else
      car.any fun t => (tlm t).any fun pos =>
        let dist : Int := if prevPos != 0 then ((prevPos + 1 : Nat) - (pos : Int)).natAbs else 0
        if prevPos == 0 || slop - dist ≥ 0 then
          if path.contains (t, pos) then false
          else findPaths tlm cdr pos ((t, pos) :: path) (slop - dist)
        else false

/-! ### the declarative meaning of a (multi-)phrase with slop (the specification `findPaths` is proved
against in BlugeProofs.C07: `findPhrasePaths_sound_complete`) -/

/-- a placeholder slot of the phrase: `[]` or `[""]` ("don't care", e.g. a removed stop word) -/
def isHole (car : List String) : Bool := car.isEmpty || car == [""]

/-- the non-placeholder slots with their index in the phrase (the first slot of `slots` has index `k`) -/
def realSlots (slots : List (List String)) (k : Nat) : List (List String × Nat) :=
  (slots.zipIdx k).filter (fun e => !isHole e.1)

/-- total displacement of the chosen positions: for consecutive non-placeholder slots with indices
`i < j` and chosen positions `p`, `q`, the term of slot `j` is expected at `p + (j - i)` (the slots in
between are placeholders that each occupy one position): `Σ |p + (j - i) - q|` -/
def displacement : List (Nat × Nat) → Nat
  | (i, p) :: (j, q) :: rest => (((p + (j - i) : Nat) : Int) - (q : Int)).natAbs + displacement ((j, q) :: rest)
  | _ => 0

/-- `ch` chooses, slot by slot in phrase order, one occurrence (term, position): the term is one of the
slot's alternatives and occurs in the field at that position -/
def Chooses (tlm : String → List Nat) : List (List String × Nat) → List (String × Nat) → Prop
  | [], [] => True
  | e :: rs, c :: ch => c.1 ∈ e.1 ∧ c.2 ∈ tlm c.1 ∧ Chooses tlm rs ch
  | _, _ => False

/-- **a phrase match with slop**: there is a choice of one occurrence (term, position) per
non-placeholder slot — the term is one of the slot's alternatives and occurs in the field at that
position —, no occurrence is chosen twice, and the total displacement is at most `slop`.
`tlm t` = the positions of term `t` in the field. -/
def PhraseMatch (tlm : String → List Nat) (slots : List (List String)) (slop : Nat) : Prop :=
  ∃ ch : List (String × Nat),
    Chooses tlm (realSlots slots 0) ch ∧
    ch.Nodup ∧
    displacement (((realSlots slots 0).map (·.2)).zip (ch.map (·.2))) ≤ slop

/-- every non-placeholder position has a term occurring in the document (the phrase searcher's
`mustSearcher` conjunction), and a phrase path exists -/
def phraseSat (d : Doc) (f : String) (slop : Nat) (pos : List (List String)) : Bool :=
  let real := pos.filter (fun car => !(car.isEmpty || car == [""]))
  !real.isEmpty &&
  real.all (fun car => car.any (fun t => t != "" && d.hasTerm f t)) &&
  findPaths (d.positions f) pos 0 [] slop

/-- Earth model of numeric/geo (WGS84 semi-axes as in geo_dist.go), haversine in metres -/
def haversinMeters (lon1 lat1 lon2 lat2 : Float) : Float :=
  let toRad : Float := 3.141592653589793 / 180
  let x1 := lat1 * toRad
  let x2 := lat2 * toRad
  let h1 := 1 - Float.cos (x1 - x2)
  let h2 := 1 - Float.cos ((lon1 - lon2) * toRad)
  let h := (h1 + Float.cos x1 * Float.cos x2 * h2) / 2
  let avgLat := (x1 + x2) / 2
  -- earthDiameter(avgLat) in km: 2 * sqrt((a²cos)² + (b²sin)²) / ((a cos)² + (b sin)²))
  let a : Float := 6378137
  let b : Float := 6356752.314245
  let c := Float.cos avgLat
  let s := Float.sin avgLat
  let diam := 2 * Float.sqrt (((a * a * c) * (a * a * c) + (b * b * s) * (b * b * s)) / ((a * c) * (a * c) + (b * s) * (b * s)))
  diam * Float.asin (if Float.sqrt h < 1 then Float.sqrt h else 1)

/-- the meaning of a query on one document -/
def sat (d : Doc) : Query → Bool
  | .term f t => d.hasTerm f t
  | .all => true
  | .none => false
  | .multi f m => (d.fieldTerms f).any m.accepts
  | .numRange f lo hi => (d.numsOf f).any (fun v => decide (lo ≤ v) && decide (v ≤ hi))
  | .phrase f slop pos => phraseSat d f slop pos
  | .geoBox f minLon minLat maxLon maxLat =>
    (d.geosOf f).any (fun p =>
      if maxLon < minLon then   -- crosses the date line: two boxes
        ((-180 : Float) ≤ p.1 && p.1 ≤ maxLon || minLon ≤ p.1 && p.1 ≤ 180) && minLat ≤ p.2 && p.2 ≤ maxLat
      else minLon ≤ p.1 && p.1 ≤ maxLon && minLat ≤ p.2 && p.2 ≤ maxLat)
  | .geoDist f lon lat dist => (d.geosOf f).any (fun p => haversinMeters p.1 p.2 lon lat ≤ dist)
  | .bool musts shoulds nots minShould =>
    (musts.map (fun q => sat d q)).all id && !((nots.map (fun q => sat d q)).any id) &&
    decide (need musts shoulds minShould ≤ ((shoulds.map (fun q => sat d q)).filter id).length)

/-- the documents a query selects: doc numbers in increasing order, no duplicates -/
def denote (idx : Index) (q : Query) : List Nat := (idx.filter (fun e => sat e.2 q)).map (·.1)

/-- queries inside the property's domain: a boolean has at least one clause and `minShould` is only
set when there are should clauses (see `minshould_without_should_witness`); a term range with an
exclusive max is not inverted or degenerate (see `termrange_inverted_witness`) -/
def Query.WF : Query → Bool
  | .multi _ m => m.regular
  | .bool musts shoulds nots minShould =>
    (!musts.isEmpty || !shoulds.isEmpty || !nots.isEmpty) && (!shoulds.isEmpty || minShould == 0) &&
    (musts.map (fun q => q.WF)).all id && (shoulds.map (fun q => q.WF)).all id && (nots.map (fun q => q.WF)).all id
  | _ => true

/-- what `Query.Searcher()` does with two shapes BEFORE it constructs anything else (the repairs fd50aeb
and a584889): an inverted / empty term range (`NewTermRangeSearcher`: `bytes.Compare(min, max) >= 0`) and a
boolean that demands matching should clauses but has none (`BooleanQuery.Searcher`:
`len(shoulds) == 0 && minShould > 0`) become a `MatchNoneSearcher`. `compile idx q.norm` is the searcher
tree of the current code for EVERY query; `compile idx q` alone is the tree before those repairs. -/
def Query.norm : Query → Query
  | .multi f m => if m.regular then .multi f m else .none
  | .bool ms ss ns k =>
    if ss.isEmpty && k != 0 then .none
    else .bool (ms.map Query.norm) (ss.map Query.norm) (ns.map Query.norm) k
  | q => q

/-- the remaining side condition of the property's domain: every boolean query has at least one clause
(`BooleanQuery.Validate` rejects the others) -/
def Query.hasClauses : Query → Bool
  | .bool ms ss ns _ =>
    (!ms.isEmpty || !ss.isEmpty || !ns.isEmpty) &&
    (ms.map (fun q => q.hasClauses)).all id && (ss.map (fun q => q.hasClauses)).all id && (ns.map (fun q => q.hasClauses)).all id
  | _ => true

/-! ## the searcher plan of a query (query.go) -/

/-- live postings of (field, term) -/
def post (idx : Index) (f t : String) : List Nat := (idx.filter (fun e => e.2.hasTerm f t)).map (·.1)

/-- all doc numbers -/
def allDocs (idx : Index) : List Nat := idx.map (·.1)

/-- the field's dictionary (distinct terms of the live documents) -/
def dict (idx : Index) (f : String) : List String := (idx.flatMap (fun e => e.2.fieldTerms f)).eraseDups

/-- distinct values of a numeric/date field -/
def numDict (idx : Index) (f : String) : List Int := (idx.flatMap (fun e => e.2.numsOf f)).eraseDups

/-- live postings of a numeric value -/
def numPost (idx : Index) (f : String) (v : Int) : List Nat :=
  (idx.filter (fun e => (e.2.numsOf f).contains v)).map (·.1)

/-- a plan for the kinds whose term expansion is not modelled in detail (numeric: C10's decomposition,
geo: the quad-tree descent): a filter over the match-all iterator. The driver uses it only to run the
iterator machines under boolean parents; the claim for these kinds is `…_partial`. -/
def filterPlan (idx : Index) (p : Doc → Bool) : Plan :=
  .filt (.leaf .all (allDocs idx)) ((idx.filter (fun e => p e.2)).map (·.1))

/-- the searcher of one phrase position (NewSloppyMultiPhraseSearcher): a term searcher, or a disjunction
(min 1) of the position's non-empty terms -/
def phraseKid (idx : Index) (f : String) (car : List String) : Plan :=
  match car with
  | [t] => .leaf .postings (post idx f t)
  | ts => .disj ((ts.filter (· != "")).map (fun t => .leaf .postings (post idx f t))) 1

def compile (idx : Index) : Query → Plan
  | .term f t => .leaf .postings (post idx f t)
  | .all => .leaf .all (allDocs idx)
  | .none => .leaf .postings []
  | .multi f m => .disj (((dict idx f).filter m.acceptsImpl).map (fun t => .leaf .postings (post idx f t))) 0
  | .numRange f lo hi =>
    -- one term searcher per indexed value in range (the real expansion is one per prefix-coded range
    -- term of C10's decomposition, which C10 proves to cover exactly the values in [lo, hi])
    .disj (((numDict idx f).filter (fun v => decide (lo ≤ v) && decide (v ≤ hi))).map
      (fun v => .leaf .postings (numPost idx f v))) 0
  | .phrase f slop pos =>
    let real := pos.filter (fun car => !(car.isEmpty || car == [""]))
    let kids : List Plan := real.map (phraseKid idx f)
    -- a conjunction of zero searchers never matches
    if kids.isEmpty then .leaf .postings []
    else .phrase (.conj kids) ((idx.filter (fun e => findPaths (e.2.positions f) pos 0 [] slop)).map (·.1))
  | .geoBox f a b c d => filterPlan idx (fun doc => sat doc (.geoBox f a b c d))
  | .geoDist f a b c => filterPlan idx (fun doc => sat doc (.geoDist f a b c))
  | .bool musts shoulds nots minShould =>
    let must : Option Plan := if musts.isEmpty then none else some (.conj (musts.map (fun q => compile idx q)))
    let should : Option Plan := if shoulds.isEmpty then none else some (.disj (shoulds.map (fun q => compile idx q)) minShould)
    let mustNot : Option Plan := if nots.isEmpty then none else some (.disj (nots.map (fun q => compile idx q)) 1)
    match must, should, mustNot with
    | none, none, none => .leaf .postings []                       -- MatchNoneSearcher
    | none, none, some n => .bool (some (.leaf .all (allDocs idx))) none (some n) 0   -- start with MatchAll
    | m, s, n => .bool m s n (if shoulds.isEmpty then 0 else minShould)

/-- widest node of a plan (for the fuel bound) -/
def Plan.width : Plan → Nat
  | .leaf _ _ => 0
  | .conj ps => max ps.length ((ps.map (fun p => Plan.width p)).foldl max 0)
  | .disj ps _ => max ps.length ((ps.map (fun p => Plan.width p)).foldl max 0)
  | .bool m s n _ =>
    max (match m with | some p => Plan.width p | none => 0)
      (max (match s with | some p => Plan.width p | none => 0) (match n with | some p => Plan.width p | none => 0))
  | .filt p _ => Plan.width p
  | .phrase p _ => Plan.width p

end Bluge.C07

namespace Bluge.Search

/-- strictly increasing -/
def sortedB : List Nat → Bool
  | [] => true
  | [_] => true
  | a :: b :: t => decide (a < b) && sortedB (b :: t)

/-- decidable well-formedness of a plan (the hypotheses of `plan_exact`): sorted leaves below `B`,
non-empty conjunctions of width ≤ `W`, a boolean has a must or a should. -/
def Plan.okB (B W : Nat) : Plan → Bool
  | .leaf _ l => sortedB l && l.all (fun x => decide (x < B))
  | .conj ps => !ps.isEmpty && decide (ps.length ≤ W) && (ps.map (fun p => p.okB B W)).all id
  | .disj ps _ => (ps.map (fun p => p.okB B W)).all id
  | .bool m s n _ =>
    (match m with | some p => p.okB B W | none => true) && (match s with | some p => p.okB B W | none => true) &&
    (match n with | some p => p.okB B W | none => true) && (m.isSome || s.isSome)
  | .filt p _ => p.okB B W
  | .phrase p _ => p.okB B W

end Bluge.Search


namespace Bluge.C07
/-- what constructing a searcher does: a searcher, an error, or a Go panic -/
inductive Outcome where | ok | err | panic
deriving Repr, DecidableEq, Inhabited

/-- `NewFuzzySearcher` (search_fuzzy.go) BEFORE the repair 2b928d2: `fuzziness > MaxFuzziness` and
`fuzziness < 0` are errors; `getLevAutomatons` builds one automaton per distance `fuzziness, fuzziness-1, …, 1`,
and `findFuzzyCandidateTerms` indexes `automatons[0]` — out of range when `fuzziness = 0`. -/
def fuzzyOutcomePre (fuzziness : Int) : Outcome :=
  if fuzziness > 2 then .err
  else if fuzziness < 0 then .err
  else match (List.replicate fuzziness.toNat ())[0]? with
    | some _ => .ok
    | none => .panic

/-- `NewFuzzySearcher` as it is now: fuzziness 0 is an exact term search (`NewMultiTermSearcher` over the
term itself), so every fuzziness in `0..MaxFuzziness` constructs a searcher -/
def fuzzyOutcome (fuzziness : Int) : Outcome :=
  if fuzziness > 2 then .err
  else if fuzziness < 0 then .err
  else .ok
end Bluge.C07

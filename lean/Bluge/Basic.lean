/-! Shared plumbing of the model drivers (core Lean only). -/
namespace Bluge

def sep : String := " ## "

/-- split a line at the LAST `" ## "` : (op part, implementation result part) -/
def splitSep (s : String) : String × String :=
  match (s.splitOn sep).reverse with
  | [] => (s, "")
  | [a] => (a, "")
  | b :: rest => (sep.intercalate rest.reverse, b)

def hexDigit (n : Nat) : Char :=
  if n < 10 then Char.ofNat (48 + n) else Char.ofNat (87 + n)

def hexVal (c : Char) : Option Nat :=
  if '0' ≤ c ∧ c ≤ '9' then some (c.toNat - 48)
  else if 'a' ≤ c ∧ c ≤ 'f' then some (c.toNat - 87)
  else if 'A' ≤ c ∧ c ≤ 'F' then some (c.toNat - 55)
  else none

/-- parse an unsigned hexadecimal number (no prefix) -/
def parseHex (s : String) : Option Nat :=
  if s.isEmpty then none else
  s.toList.foldl (fun acc c => match acc, hexVal c with
    | some a, some d => some (a * 16 + d)
    | _, _ => none) (some 0)

/-- fixed-width lower-case hex -/
def toHex (width : Nat) (n : Nat) : String :=
  String.ofList ((List.range width).reverse.map fun i => hexDigit ((n / 16 ^ i) % 16))

def hex64 (b : BitVec 64) : String := toHex 16 b.toNat

/-- bytes <-> hex ("-" is the empty byte string) -/
def bytesToHex (bs : List (BitVec 8)) : String :=
  if bs.isEmpty then "-" else String.join (bs.map fun b => toHex 2 b.toNat)

def hexToBytes (s : String) : Option (List (BitVec 8)) :=
  if s == "-" then some [] else
  let cs := s.toList
  if cs.length % 2 != 0 then none else
  let rec go : List Char → Option (List (BitVec 8))
    | a :: b :: rest => do
        let x ← hexVal a; let y ← hexVal b
        let r ← go rest
        pure (BitVec.ofNat 8 (x * 16 + y) :: r)
    | [] => some []
    | [_] => none
  go cs

def parse64 (s : String) : Option (BitVec 64) := (parseHex s).map (BitVec.ofNat 64)

/-- the generic driver loop: one answer line per input line; `step` carries the per-case state -/
partial def driverLoop {σ : Type} (init : σ) (step : σ → String → String → σ × String) : IO Unit := do
  let stdin ← IO.getStdin
  let stdout ← IO.getStdout
  let rec loop (st : σ) : IO Unit := do
    let line ← stdin.getLine
    if line.isEmpty then return ()
    let line := if line.endsWith "\n" then (line.dropEnd 1).toString else line
    let (op, impl) := splitSep line
    let st := if op.startsWith "case " then init else st
    let (st', out) := step st op impl
    stdout.putStrLn out
    loop st'
  loop init
  stdout.flush

end Bluge

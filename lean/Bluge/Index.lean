/-! # Bluge.Index — the writer-protocol model (DESIGN 4.1), core Lean only

Transcribed from /repo:
* `index/batch.go` (`Batch.Insert/Update/Delete`), `/repo/batch.go`, `/repo/writer.go` (`Insert/Update/Delete` = one-op batches)
* `index/writer.go` (`Writer.Batch`, `prepareSegment`: optimistic obsoletes against a possibly stale root)
* `index/introducer.go` (`introduceSegment`, `introducePersist`, `introduceMerge`)
* `index/merge.go` (`ProcessSegmentNow`, `planSegmentsToMerge`, `executeMergeTask`, `mergeSegmentBases`)
* `index/segment.go` (`segmentSnapshot.Count/LiveSize/DocNumbersLive`), `index/snapshot.go` (`Snapshot.Count`)

What is *modelled, not verified* (assumptions on the segment plugin `ice` and `roaring`, validated by the
correspondence harness on every event):
* a segment is an immutable list of documents, document number = position;
* `DocsMatchingTerms(idTerms)` = the positions whose document id is one of the ids (`docsMatching`), and never fails;
* `Merge(segments, drops)` writes the live documents of its inputs, in input order, and returns the
  old→new document-number table (`mergeSpec`); a segment loaded back from the directory has the documents that were written;
* a roaring bitmap is a duplicate-free list of naturals (`Bitmap`), `Or`/`AndNot`/`Add`/`GetCardinality` are the set operations;
  doc numbers are `< 2^32` (so the `uint32` conversions in `introduceMerge` are the identity).
-/
namespace Bluge.Index

abbrev Id := Nat

/-- a document: its `_id` term and a digest of everything stored in it -/
structure Doc where
  id : Id
  body : Nat
deriving DecidableEq, Repr

/-! ## roaring bitmaps: duplicate-free lists (representation invariant `Nodup`, see `SegSnap.WF`) -/
abbrev Bitmap := List Nat

namespace Bitmap
/-- `roaring.Or(a, b)` -/
def or (a b : Bitmap) : Bitmap := a ++ b.filter (fun x => !a.contains x)
/-- `roaring.AndNot(a, b)` -/
def andNot (a b : Bitmap) : Bitmap := a.filter (fun x => !b.contains x)
/-- `bm.Add(x)` -/
def add (a : Bitmap) (x : Nat) : Bitmap := if a.contains x then a else a ++ [x]
/-- `bm.GetCardinality()` -/
def card (a : Bitmap) : Nat := a.length
/-- `bm.IsEmpty()`; the model does not distinguish a nil bitmap from an empty one (the code normalises
`deleted` to nil when empty, and every reader of `deleted` treats nil as empty) -/
def isEmpty (a : Bitmap) : Bool := List.isEmpty a
end Bitmap

/-- an immutable segment as produced by the plugin: doc number = position -/
structure Seg where
  sid : Nat
  docs : List Doc
deriving DecidableEq, Repr

/-- `segmentSnapshot`: a segment + the doc numbers obsoleted so far + `segmentWrapper.persisted` -/
structure SegSnap where
  sid : Nat
  docs : List Doc
  deleted : Bitmap
  persisted : Bool
deriving DecidableEq, Repr

/-- `Snapshot`: epoch + ordered segment snapshots -/
structure Root where
  epoch : Nat
  segs : List SegSnap
deriving DecidableEq, Repr

/-- `index.Batch`: `documents` and `ids` -/
structure Batch where
  docs : List Doc
  ids : List Id
deriving DecidableEq, Repr

/-- the operations a client puts into a batch -/
inductive Op where
  | insert (d : Doc)
  | update (i : Id) (d : Doc)
  | delete (i : Id)
deriving DecidableEq, Repr

namespace Batch
def empty : Batch := ⟨[], []⟩
/-- `Batch.Insert / Update / Delete` of index/batch.go: plain appends -/
def push (b : Batch) : Op → Batch
  | .insert d   => { b with docs := b.docs ++ [d] }
  | .update i d => { docs := b.docs ++ [d], ids := b.ids ++ [i] }
  | .delete i   => { b with ids := b.ids ++ [i] }
def ofOps (ops : List Op) : Batch := ops.foldl push empty
end Batch

/-- the id an operation names (an insert names the id of its document) -/
def Op.names : Op → Id
  | .insert d => d.id
  | .update i _ => i
  | .delete i => i

/-- the batch names some id in two operations (the known-finding probe is the only generator of these) -/
def namesTwice (ops : List Op) : Bool := (ops.map Op.names).eraseDups.length != ops.length

/-! ## Specification: the abstract index -/

/-- *the* specification: a batch first removes every live document whose id it names, then adds its documents -/
def applyBatch (A : List Doc) (b : Batch) : List Doc :=
  A.filter (fun d => !b.ids.contains d.id) ++ b.docs

/-- the abstract index after a sequence of batches -/
def absOf (bs : List Batch) : List Doc := bs.foldl applyBatch []

/-! ## Segments -/

/-- `segment.DocsMatchingTerms(idTerms)`: positions whose document id is one of `ids` (plugin assumption) -/
def docsMatching (docs : List Doc) (ids : List Id) : Bitmap :=
  (docs.zipIdx.filter (fun p => ids.contains p.1.id)).map Prod.snd

namespace SegSnap
/-- the live documents, in doc-number order -/
def live (ss : SegSnap) : List Doc :=
  (ss.docs.zipIdx.filter (fun p => !ss.deleted.contains p.2)).map Prod.fst
/-- `segmentSnapshot.Count()`: `segment.Count() - deleted.GetCardinality()` (uint64 in Go; no underflow under `WF`) -/
def count (ss : SegSnap) : Nat := ss.docs.length - ss.deleted.card
/-- `segmentSnapshot.LiveSize()` -/
def liveSize (ss : SegSnap) : Nat := ss.count
/-- `segmentSnapshot.DocNumbersLive()`: `[0,Count) \ deleted` -/
def docNumbersLive (ss : SegSnap) : Bitmap :=
  (List.range ss.docs.length).filter (fun i => !ss.deleted.contains i)
/-- representation invariant of one segment snapshot: `deleted` is a set of valid doc numbers -/
def WF (ss : SegSnap) : Prop := ss.deleted.Nodup ∧ ∀ x ∈ ss.deleted, x < ss.docs.length
instance (ss : SegSnap) : Decidable ss.WF := by unfold WF; exact inferInstance
end SegSnap

namespace Root
/-- the root of a freshly opened empty index (`creator: "NewChill"`) -/
def empty : Root := ⟨0, []⟩
/-- abstraction function: the live documents of all segments, in order -/
def abs (r : Root) : List Doc := r.segs.flatMap SegSnap.live
/-- `Snapshot.Count()` -/
def count (r : Root) : Nat := (r.segs.map SegSnap.count).sum
/-- what a term query on `_id` finds -/
def lookup (r : Root) (i : Id) : List Doc := r.abs.filter (fun d => d.id == i)
def sids (r : Root) : List Nat := r.segs.map (·.sid)
def WF (r : Root) : Prop := ∀ ss ∈ r.segs, ss.WF
instance (r : Root) : Decidable r.WF := by unfold WF; exact inferInstance
/-- no segment of the root is completely deleted (every introduction filters such segments out) -/
def noEmpty (r : Root) : Prop := ∀ ss ∈ r.segs, 0 < ss.liveSize
instance (r : Root) : Decidable r.noEmpty := by unfold noEmpty; exact inferInstance
end Root

/-! ## `prepareSegment`: optimistic obsoletes (a Go `map[uint64]*roaring.Bitmap`) -/

/-- association list; the entry inserted last is found first (= Go map overwrite) -/
abbrev Obs := List (Nat × Bitmap)

/-- `for _, seg := range root.segment { introduction.obsoletes[seg.id] = seg.DocsMatchingTerms(idTerms) }`
against whatever root `currentSnapshot()` returned at that moment -/
def prepareObs (seen : Root) (ids : List Id) : Obs :=
  seen.segs.foldl (fun m ss => (ss.sid, docsMatching ss.docs ids) :: m) []

/-! ## `introduceSegment` -/

/-- one iteration of the loop over `root.segment` in `introduceSegment`, up to the liveness test -/
def introSegStep (obs : Obs) (ids : List Id) (ss : SegSnap) : SegSnap :=
  -- delta, ok := next.obsoletes[root.segment[i].id]; if !ok { delta = segment.DocsMatchingTerms(next.idTerms) }
  let delta := match obs.lookup ss.sid with
    | some d => d
    | none => docsMatching ss.docs ids
  -- if deleted == nil { newss.deleted = delta } else { newss.deleted = roaring.Or(deleted, delta) }
  { ss with deleted := if ss.deleted.isEmpty then delta else Bitmap.or ss.deleted delta }

/-- `introduceSegment(next, epoch)`: `b` is the batch, `sid = next.id`, `obs = next.obsoletes` -/
def introduceSegment (r : Root) (epoch : Nat) (b : Batch) (sid : Nat) (obs : Obs) : Root :=
  -- if newss.LiveSize() > 0 { newSnapshot.segment = append(newSnapshot.segment, newss) }
  let kept := (r.segs.map (introSegStep obs b.ids)).filter (fun ss => 0 < ss.liveSize)
  -- if next.data != nil { append new segment last }   (next.data != nil ⇔ len(batch.documents) > 0, Writer.Batch)
  let new : List SegSnap :=
    if b.docs.isEmpty then [] else [{ sid := sid, docs := b.docs, deleted := [], persisted := false }]
  { epoch := epoch, segs := kept ++ new }

/-- hypothesis on an obsoletes map used against root `r`: whatever entry it has for a segment of `r` is what
`DocsMatchingTerms` answers for that (immutable) segment — true of every map `prepareSegment` computed from
any earlier root of the same history, however stale or partial (`prepareObs_ok` in BlugeProofs.C01.Lemmas) -/
def ObsOK (r : Root) (ids : List Id) (obs : Obs) : Prop :=
  ∀ ss ∈ r.segs, obs.lookup ss.sid = none ∨ obs.lookup ss.sid = some (docsMatching ss.docs ids)
instance (r : Root) (ids : List Id) (obs : Obs) : Decidable (ObsOK r ids obs) := by
  unfold ObsOK; exact inferInstance

/-- two roots of one history agree on the documents of every segment id they share (segments are immutable) -/
def SidConsistent (r0 r : Root) : Prop :=
  ∀ s0 ∈ r0.segs, ∀ s ∈ r.segs, s0.sid = s.sid → s0.docs = s.docs
instance (r0 r : Root) : Decidable (SidConsistent r0 r) := by unfold SidConsistent; exact inferInstance

/-- branch report for the driver: (segments whose obsoletes were recomputed (`!ok`), segments dropped, new segment appended) -/
def introduceSegmentBranches (r : Root) (b : Batch) (obs : Obs) : Nat × Nat × Bool :=
  let rec_ := (r.segs.filter (fun ss => (obs.lookup ss.sid).isNone)).length
  let dropped := ((r.segs.map (introSegStep obs b.ids)).filter (fun ss => !(0 < ss.liveSize))).length
  (rec_, dropped, !b.docs.isEmpty)

/-! ## `introducePersist` -/

/-- `persist.persisted : map[uint64]*segmentWrapper` — the segments re-loaded from the directory (sid ↦ their documents) -/
abbrev Persisted := List (Nat × List Doc)

def persistLoop : List SegSnap → Persisted → List SegSnap
  | [], _ => []
  | ss :: rest, p =>
    match p.lookup ss.sid with
    | some docs' =>
      -- replacement: keep id and deleted, swap the segment; delete(persist.persisted, id)
      { sid := ss.sid, docs := docs', deleted := ss.deleted, persisted := true }
        :: persistLoop rest (p.filter (fun e => e.1 != ss.sid))
    | none => ss :: persistLoop rest p

def introducePersist (r : Root) (epoch : Nat) (p : Persisted) : Root :=
  { epoch := epoch, segs := persistLoop r.segs p }

/-- environment well-formedness of a persist introduction: a re-loaded segment has the documents that were written -/
def PersistWF (r : Root) (p : Persisted) : Prop :=
  ∀ e ∈ p, ∀ ss ∈ r.segs, ss.sid = e.1 → e.2 = ss.docs
instance (r : Root) (p : Persisted) : Decidable (PersistWF r p) := by unfold PersistWF; exact inferInstance

/-! ## merges -/

/-- `docDropped` of the segment plugins (`math.MaxUint64`) -/
def docDropped : Nat := 2 ^ 64 - 1

/-- `segmentMerge` -/
structure MergeTask where
  /-- id of the merged segment -/
  id : Nat
  /-- `old`: sid ↦ snapshot of that segment when the merge was planned; `none` = `oldMap[id] = nil`
  (file merge: the segment was already completely deleted at planning) -/
  old : List (Nat × Option SegSnap)
  /-- `oldNewDocNums`: sid ↦ (old doc number ↦ new doc number, `docDropped` for documents dropped by the merge) -/
  oldNew : List (Nat × List Nat)
  /-- documents of the merged segment; `none` = nothing was merged (`nextMerge.new == nil`) -/
  new : Option (List Doc)
deriving DecidableEq, Repr

/-- `s.oldNewDocNums[segmentID][oldDocNum]`; the following `uint32(·)` is the identity on doc numbers `< 2^32`
(roaring's domain — part of the bitmap assumption). An index out of range (a Go panic) yields `docDropped` here;
it does not happen for tasks built by `MergeTask.plan` (the table of a merged segment has one entry per document). -/
def newDocNum (oldNew : List (Nat × List Nat)) (sid o : Nat) : Nat :=
  ((oldNew.lookup sid).getD [])[o]?.getD docDropped

/-- `segmentMerge.ProcessSegmentNow(segmentID, segSnapNow, newSegmentDeleted)`:
returns (segment is going away, `s.old` after the `delete`, `newSegmentDeleted`) -/
def processSegmentNow (old : List (Nat × Option SegSnap)) (oldNew : List (Nat × List Nat))
    (now : SegSnap) (nd : Bitmap) : Bool × List (Nat × Option SegSnap) × Bitmap :=
  match old.lookup now.sid with
  | some atMerge? =>
    let nd' := match atMerge? with
      | some atMerge =>
        if !now.deleted.isEmpty then
          -- deletedSince := now.deleted, or AndNot(now.deleted, atMerge.deleted) when we knew some already
          let since := if !atMerge.deleted.isEmpty then Bitmap.andNot now.deleted atMerge.deleted else now.deleted
          since.foldl (fun acc o => acc.add (newDocNum oldNew now.sid o)) nd
        else nd
      | none => nd
    (true, old.filter (fun e => e.1 != now.sid), nd')
  | none => (false, old, nd)

/-- the loop over `root.segment` in `introduceMerge`: (segments staying, what is left in `old`, `newSegmentDeleted`) -/
def mergeLoop (oldNew : List (Nat × List Nat)) :
    List SegSnap → List (Nat × Option SegSnap) → Bitmap → List SegSnap × List (Nat × Option SegSnap) × Bitmap
  | [], old, nd => ([], old, nd)
  | ss :: rest, old, nd =>
    let (away, old', nd') := processSegmentNow old oldNew ss nd
    let (kept, old'', nd'') := mergeLoop oldNew rest old' nd'
    (if !away && 0 < ss.liveSize then ss :: kept else kept, old'', nd'')

/-- the loop over what is left behind in `nextMerge.old` (segments that left the root while the merge ran):
every document they contributed is obsolete in the merged segment -/
def leftBehind (oldNew : List (Nat × List Nat)) (left : List (Nat × Option SegSnap)) (nd : Bitmap) : Bitmap :=
  left.foldl (fun acc e => match e.2 with
    | some ss => ss.docNumbersLive.foldl (fun acc o => acc.add (newDocNum oldNew e.1 o)) acc
    | none => acc   -- Go: nil receiver in `ss.DocNumbersLive()` → panic; reported by `mergeFaults`
    ) nd

/-- `introduceMerge(nextMerge, epoch)` -/
def introduceMerge (r : Root) (epoch : Nat) (m : MergeTask) : Root :=
  let (kept, left, nd) := mergeLoop m.oldNew r.segs m.old []
  let nd := leftBehind m.oldNew left nd
  -- if nextMerge.new != nil && nextMerge.new.Count() > newSegmentDeleted.GetCardinality() { put new segment at end }
  let new : List SegSnap := match m.new with
    | some docs => if nd.card < docs.length then [{ sid := m.id, docs := docs, deleted := nd, persisted := true }] else []
    | none => []
  { epoch := epoch, segs := kept ++ new }

/-- `true` when the real `introduceMerge` would panic where the model is total: a `nil` entry left behind in `old` -/
def mergeFaults (r : Root) (m : MergeTask) : Bool :=
  let (_, left, _) := mergeLoop m.oldNew r.segs m.old []
  left.any (fun e => e.2.isNone)

/-- what the segment plugin's `Merge(segments, drops)` is assumed to produce for the inputs `olds` (in this order):
the live documents in order, and for every input the table old doc number ↦ new doc number -/
def mergeTable (ss : SegSnap) (base : Nat) : List Nat :=
  -- old doc number o ↦ docDropped if dropped, else base + number of live doc numbers below o
  (List.range ss.docs.length).map (fun o =>
    if ss.deleted.contains o then docDropped
    else base + ((List.range o).filter (fun i => !ss.deleted.contains i)).length)

def mergeSpecAux : List SegSnap → Nat → List Doc × List (Nat × List Nat)
  | [], _ => ([], [])
  | ss :: rest, base =>
    let lv := ss.live
    let (docs, tbls) := mergeSpecAux rest (base + lv.length)
    (lv ++ docs, (ss.sid, mergeTable ss base) :: tbls)

def mergeSpec (olds : List SegSnap) : List Doc × List (Nat × List Nat) := mergeSpecAux olds 0

/-- the task that `persistSnapshotMaybeMerge`/`mergeSegmentBases` (in-memory merge: every input is recorded in `old`)
or `executeMergeTask`/`planSegmentsToMerge` (file merge: an input without live documents is recorded as `nil`
and not merged) build from the segment snapshots `picked` of the root they looked at -/
def MergeTask.plan (picked : List SegSnap) (id : Nat) (fileMerge : Bool) : MergeTask :=
  let toMerge := if fileMerge then picked.filter (fun ss => 0 < ss.liveSize) else picked
  let old := picked.map (fun ss => (ss.sid, if fileMerge && !(0 < ss.liveSize) then none else some ss))
  if toMerge.isEmpty then { id := id, old := old, oldNew := [], new := none }
  else
    let (docs, tbls) := mergeSpec toMerge
    { id := id, old := old, oldNew := tbls, new := some docs }

/-- environment well-formedness of a merge introduction (decidable; checked by the harness on real events):
the task is what the plugin assumption says it is for segment snapshots `picked` that all stood in the
earlier root `r0` -/
def MergeWF (r0 : Root) (picked : List SegSnap) (fileMerge : Bool) (m : MergeTask) : Prop :=
  (∀ ss ∈ picked, ss ∈ r0.segs) ∧ (picked.map (·.sid)).Nodup ∧ m = MergeTask.plan picked m.id fileMerge
instance (r0 : Root) (picked : List SegSnap) (f : Bool) (m : MergeTask) : Decidable (MergeWF r0 picked f m) := by
  unfold MergeWF; exact inferInstance

/-! ## Histories: the writer as a state machine

Segment ids are handed out by `atomic.AddUint64(&s.nextSegmentID, 1)` when a batch is prepared / a merge is executed,
i.e. *before* and not necessarily in the order of the introductions. An event therefore carries the id it was
given, and the only thing the model asks of it (`EventWF`) is what the counter guarantees: it is not the id of any
segment that ever stood in a root. -/

structure State where
  root : Root
  /-- every root installed earlier, most recent first -/
  past : List Root
  /-- `nextSnapshotEpoch` of the introducer loop -/
  nextEpoch : Nat
  /-- ghost: the batches in introduction order -/
  applied : List Batch
deriving Repr

def State.init : State := ⟨Root.empty, [], 1, []⟩

/-- every root a concurrent observer may have seen, most recent first -/
def State.history (s : State) : List Root := s.root :: s.past

/-- ids of all segments that ever stood in a root -/
def State.usedSids (s : State) : List Nat := s.history.flatMap Root.sids

inductive Event where
  /-- `Writer.Batch(b)`: `prepareSegment` took segment id `sid`, looked at `history[seen]` (a stale root when
  `seen > 0`), then the introducer ran `introduceSegment` -/
  | batch (b : Batch) (seen : Nat) (sid : Nat)
  /-- the persister wrote the segments `p` and the introducer ran `introducePersist` -/
  | persist (p : Persisted)
  /-- a merge planned against `history[seen]` over the segments with ids `pick` (in-memory merge of the persister
  or file merge of the merger) was written as segment `id` and introduced -/
  | merge (seen : Nat) (pick : List Nat) (fileMerge : Bool) (id : Nat)
deriving Repr

/-- the root an event looked at -/
def State.seen (s : State) (k : Nat) : Root := s.history[k]?.getD s.root

def step (s : State) : Event → State
  | .batch b k sid =>
    let obs := prepareObs (s.seen k) b.ids
    { root := introduceSegment s.root s.nextEpoch b sid obs, past := s.history,
      nextEpoch := s.nextEpoch + 1, applied := s.applied ++ [b] }
  | .persist p =>
    { s with root := introducePersist s.root s.nextEpoch p, past := s.history, nextEpoch := s.nextEpoch + 1 }
  | .merge k pick fileMerge id =>
    let r0 := s.seen k
    let picked := r0.segs.filter (fun ss => pick.contains ss.sid)
    { s with root := introduceMerge s.root s.nextEpoch (MergeTask.plan picked id fileMerge), past := s.history,
             nextEpoch := s.nextEpoch + 1 }

def run (evs : List Event) : State := evs.foldl step State.init

/-- the batches of a history, in introduction order -/
def batchesOf : List Event → List Batch
  | [] => []
  | .batch b _ _ :: evs => b :: batchesOf evs
  | _ :: evs => batchesOf evs

/-- event well-formedness in a state (decidable): segment ids are fresh, persists re-load what was written -/
def EventWF (s : State) : Event → Prop
  | .batch _ _ sid => sid ∉ s.usedSids
  | .persist p => PersistWF s.root p
  | .merge _ _ _ id => id ∉ s.usedSids
instance (s : State) (e : Event) : Decidable (EventWF s e) := by
  cases e <;> unfold EventWF <;> exact inferInstance

/-- all events of a history are well-formed in the state they occur in -/
def HistoryWF : State → List Event → Prop
  | _, [] => True
  | s, e :: evs => EventWF s e ∧ HistoryWF (step s e) evs
instance : (s : State) → (evs : List Event) → Decidable (HistoryWF s evs)
  | _, [] => isTrue trivial
  | s, e :: evs => by
    unfold HistoryWF
    have := instDecidableHistoryWF (step s e) evs
    exact inferInstance

end Bluge.Index

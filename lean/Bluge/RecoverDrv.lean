import Bluge.Basic
import Bluge.Persist
import Bluge.PersistDrv
import Bluge.Faults
import Bluge.Index
/-! Shared model driver of C03 (stream `recover`) and C14 (stream `faults`); see go/harness/persistlib/recover.go, faults.go.

The protocol records of a writer lifetime are replayed through `Bluge.Persist.step` by `Bluge.Persist.Drv.stepLine`
(enabledness + directory listing after every record). This driver adds

* `batch c tok dels keys` — what batch `c` does; the abstract index after `k` batches is `Bluge.Index.absOf` of the first `k`;
* `image <snap> <segs> <desc>` — a crash image (each file in flight absent / torn / full, `Bluge.Persist.crashTo`) opened by
  the real OpenReader and OpenWriter: the model answers with the content `recover` gives, and the SPECIFICATION is evaluated on the
  implementation's own answer: no fault, the content is the abstract index after some prefix `k` of the batches, `k ≥` every
  acknowledged batch, opening succeeds once a snapshot was completed, the recovered writer accepts a batch;
* `crash <snap> <segs> <desc>` — the same crash taken as an event: the next records belong to a new writer on that image;
* `replay …` — a fresh chain (the records that led to a crash point follow);
* `asyncerr`, `nackobs`, `fstart/fclear`, `rdobs` — the observations of C14. -/
namespace Bluge.Persist.RDrv
open Bluge Bluge.Persist Bluge.Persist.Drv

structure RState where
  d : DState := {}
  batches : List Index.Batch := []     -- batch c at position c-1 (of the current chain)
  inexact : Bool := false              -- a Persist returned nil without leaving the exact bytes (C13's hypothesis broke) in this chain
  reissued : List Nat := []            -- snapshot epochs written over an existing (torn) file of that epoch
  everComplete : Bool := false         -- a snapshot Persist returned nil in this chain
  pendingAsync : Nat := 0              -- failed persists whose asynchronous error has not been seen yet
  maybeAsync : Nat := 0                -- failures reported while the writer was closing: the error may have been ErrClosed (no asynchronous error) or not
  asyncSeen : Nat := 0
  expectNack : List Nat := []          -- safe batches the model says received the error, not yet observed
  faultOn : Bool := false              -- C14: a directory fault is armed
  appliedAtFault : Nat := 0
  needCover : Option Nat := none       -- C14: after the fault cleared, the next acknowledgement must cover this many batches
  crashed : Bool := false              -- the chain contains a crash
  pendingOpen : Option (List Nat) := none   -- `open` seen (Lock succeeded); the snapshot epochs whose Load failed since
  floorK : Nat := 0                    -- C14: batches a successful persist after a failure has covered: every later recovery must hold them
  mustCover : Nat := 0                 -- C14: batches applied when the last persist failure was reported
  loadFallback : Bool := false         -- C14: OpenWriter skipped a loadable snapshot newer than the one it ended with (Load fault)

/-! ## contents -/

def markerId (t : Nat) : Nat := 2 * t
def keyedId (k : Nat) : Nat := 2 * k + 1

def mkBatch (tok : Nat) (dels keys : List Nat) : Index.Batch :=
  { docs := (if tok > 0 then [⟨markerId tok, tok⟩] else []) ++ keys.map (fun k => ⟨keyedId k, tok⟩),
    ids := dels.map markerId ++ keys.map keyedId }

/-- the abstract index after the first `k` batches -/
def absAfter (r : RState) (k : Nat) : List Index.Doc := Index.absOf (r.batches.take k)

def docLt (a b : Index.Doc) : Bool :=
  if a.id % 2 != b.id % 2 then a.id % 2 < b.id % 2
  else if a.id != b.id then a.id < b.id
  else a.body < b.body

def insertDoc (x : Index.Doc) : List Index.Doc → List Index.Doc
  | [] => [x]
  | y :: r => if docLt x y then x :: y :: r else y :: insertDoc x r

def sortDocs (l : List Index.Doc) : List Index.Doc := l.foldr insertDoc []

def showDoc (d : Index.Doc) : String :=
  (if d.id % 2 == 0 then s!"m{d.id / 2}" else s!"u{d.id / 2}") ++ s!":{d.body}"

def showContent (l : List Index.Doc) : String :=
  if l.isEmpty then "-" else ",".intercalate ((sortDocs l).map showDoc)

def parseDoc (w : String) : Option Index.Doc :=
  match w.splitOn ":" with
  | [i, b] =>
      let num := (i.drop 1).toString.toNat?
      match num, b.toNat? with
      | some n, some b =>
          if i.startsWith "m" then some ⟨markerId n, b⟩
          else if i.startsWith "u" then some ⟨keyedId n, b⟩ else none
      | _, _ => none
  | _ => none

/-- "-" | "m3:3,u1:7" -/
def parseContent (s : String) : Option (List Index.Doc) :=
  if s == "-" then some [] else (s.splitOn ",").mapM parseDoc

/-- the prefix lengths `k ≤ applied` whose abstract index is `c` (largest first) -/
def findK (r : RState) (c : List Index.Doc) : Option Nat :=
  let want := sortDocs c
  ((List.range (r.batches.length + 1)).reverse).find? fun k => sortDocs (absAfter r k) == want

/-! ## crash specifications -/

def parseTorn (c : String) : Option Torn :=
  if c == "a" then some .absent else if c == "t" then some .torn else if c == "f" then some .full else none

def parseSegSpec (s : String) : Option (List (Nat × Torn)) :=
  if s == "-" then some [] else
  (s.splitOn ",").mapM fun w => match w.splitOn ":" with
    | [a, b] => do
        let x ← a.toNat?
        let t ← parseTorn b
        pure (x, t)
    | _ => none

/-- `snap` is "-" when no snapshot file is in flight -/
def parseSnapSpec (s : String) : Option (Option Torn) :=
  if s == "-" then some none else (parseTorn s).map some

/-! ## the image oracle -/

/-- the model's answer for a crash image: what OpenReader and OpenWriter (+ one more batch) return -/
def expectImage (r : RState) (s' : State) (probe : Bool) : String :=
  let p := if probe then ";p=1" else ""
  match s'.disk.recover with
  | some f => let c := showContent (absAfter r f.k); s!"rd=ok:{c} wr=ok:{c}{p}"
  | none => if s'.disk.snaps.isEmpty then s!"rd=err wr=ok:-{p}" else "rd=err wr=err"

/-- one side (`rd=…` / `wr=…`) of the implementation's answer -/
inductive Side
  | crashed (how : String)
  | err
  | content (c : List Index.Doc) (probe : Bool)
  | garbled

def parseSide (s : String) : Side :=
  if s.startsWith "fault" then .crashed "fault"
  else if s.startsWith "hang" then .crashed "hang"
  else if s.startsWith "err" then .err
  else if s.startsWith "ok:" then
    let body := (s.drop 3).toString
    match body.splitOn ";p=" with
    | [c] => match parseContent c with | some l => .content l true | none => .garbled
    | [c, p] => match parseContent c with | some l => .content l (p == "1") | none => .garbled
    | _ => .garbled
  else .garbled

def maxObs (l : List Nat) : Nat := l.foldl max 0

/-- the specification on ONE side of the implementation's answer; `none` = satisfied -/
def sideBad (r : RState) (name : String) (sd : Side) : Option String :=
  let tag := (if r.inexact then " after-inexact-persist" else "") ++ (if r.loadFallback then " after-load-fault-at-open" else "")
  let re := if r.reissued.isEmpty then "" else " reissued-over-torn"
  match sd with
  | .crashed how => some s!"bad:open-crashed side={name} how={how}"
  | .garbled => some s!"bad:not-a-prefix side={name} unreadable-content"
  | .err =>
      if !r.d.obs.isEmpty then some s!"bad:acked-batch-lost side={name} nothing-recovered batch={maxObs r.d.obs}{tag}{re}"
      else if r.everComplete then some s!"bad:open-failed-after-completed-snapshot side={name}{tag}{re}"
      else none
  | .content c probe =>
      match findK r c with
      | none => some s!"bad:not-a-prefix side={name} content={showContent c}{tag}"
      | some k =>
          match r.d.obs.find? (fun c => decide (k < c)) with
          | some c => some s!"bad:acked-batch-lost side={name} batch={c} recovered-prefix={k}{tag}{re}"
          | none =>
              if k < r.floorK then some s!"bad:retried-batch-lost side={name} recovered-prefix={k} covered-by-the-acknowledgement-after-the-failure={r.floorK}"
              else if probe then none else some s!"bad:recovered-writer-rejects-batch side={name}"

def splitImpl (impl : String) : String × String :=
  match impl.splitOn " wr=" with
  | [a, b] => ((a.drop 3).toString, b)
  | _ => (impl, "")

def imageVerdict (r : RState) (accepted : Bool) (impl : String) : Option String :=
  let (rd, wr) := splitImpl impl
  let sr := parseSide rd
  let sw := parseSide wr
  match sideBad r "reader" sr with
  | some b => some b
  | none => match sideBad r "writer" sw with
    | some b => some b
    | none =>
      if accepted then some "bad:assumption-torn-rejected a torn variant of a snapshot encoding is accepted by the decoder"
      else match sr, sw with
        | .content a _, .content b _ => if sortDocs a == sortDocs b then none else some "bad:reader-and-writer-recover-different-contents"
        | _, _ => none

/-! ## lines -/

def setAns (ans res verdict : String) : String :=
  -- replace result and verdict of an answer produced by `Drv.answer`, keeping the branch list
  match ans.splitOn " br=" with
  | [_, br] => res ++ sep ++ verdict ++ " br=" ++ br
  | _ => res ++ sep ++ verdict

def ansVerdict (ans : String) : String :=
  let v := (splitSep ans).2
  match v.splitOn " br=" with
  | a :: _ => a
  | [] => v

def ansResult (ans : String) : String := (splitSep ans).1

/-- add a branch name to an answer -/
def addBr (ans b : String) : String :=
  match ans.splitOn " br=" with
  | [_, _] => ans ++ "," ++ b
  | _ => ans ++ " br=" ++ b

def hasFlag (ws : List String) (f : String) : Bool := ws.contains f

def stepLine1 (r : RState) (op impl : String) : RState × String :=
  let ws := (op.splitOn " ").filter (· != "")
  match ws with
  | "case" :: _ =>
      let (d, a) := Drv.stepLine {} op impl
      ({ d := d }, a)
  | "replay" :: rest =>
      let n := match rest.find? (·.startsWith "n=") with
        | some w => ((w.drop 2).toString.toNat?).getD 1
        | none => 1
      ({ d := { s := init n, n := n } }, answer "replay" "na" ["replay"])
  | ["batch", c, tok, dels, keys] =>
      match c.toNat?, tok.toNat?, parseList dels, parseList keys with
      | some c, some tok, some dels, some keys =>
          if !r.d.sync then ({ r with batches := r.batches.take (c - 1) ++ [mkBatch tok dels keys] }, answer impl "na" ["desync"]) else
          if c != r.d.s.applied + 1 then
            ({ r with d := { r.d with sync := false } }, answer s!"REJECT:batch-number model={r.d.s.applied + 1}" "ok" [])
          else ({ r with batches := r.batches.take (c - 1) ++ [mkBatch tok dels keys] }, answer "batch" "na" ["batch"])
      | _, _, _, _ => (r, answer "bad-op" "na" [])
  | "image" :: snap :: segs :: rest =>
      let accepted := hasFlag rest "accepted=1"
      let spec := imageVerdict r accepted impl
      if !r.d.sync then (r, answer impl (spec.getD "na") ["desync"]) else
      match parseSnapSpec snap, parseSegSpec segs with
      | some sn, some sg =>
          match crashTo r.d.s sn sg with
          | none => (r, answer "REJECT:crash-image-not-possible-in-the-model" (spec.getD "ok") [])
          | some s' =>
              let m := expectImage r s' (hasFlag rest "probe=1")
              let brs := ["image", if r.d.obs.isEmpty then "image-before-ack" else "image-after-ack", s!"img-snap-{snap}"] ++
                (if sg.any (·.2 == .torn) then ["img-seg-torn"] else []) ++
                (if sg.any (·.2 == .full) then ["img-seg-full"] else []) ++
                (match s'.disk.recover with
                 | some f => (if f.k > maxObs r.d.obs then ["img-recovers-unacked"] else []) ++
                             (if sn == some .full && f.k == (match r.d.s.job with | some j => j.k | none => 0) then ["img-full-snapshot-recovered"] else [])
                 | none => if s'.disk.snaps.isEmpty then ["img-no-snapshot"] else ["img-none-loadable"])
              (r, answer m (spec.getD "ok") brs)
      | _, _ => (r, answer "bad-op" (spec.getD "na") [])
  | "crash" :: snap :: segs :: _ =>
      if !r.d.sync then (r, answer impl "na" ["desync"]) else
      match parseSnapSpec snap, parseSegSpec segs with
      | some sn, some sg =>
          match crashTo r.d.s sn sg with
          | none => ({ r with d := { r.d with sync := false } }, answer "REJECT:crash-not-possible-in-the-model" "ok" [])
          | some s' =>
              ({ r with d := { r.d with s := s', commits := [] }, pendingAsync := 0, maybeAsync := 0, asyncSeen := 0, expectNack := [], faultOn := false, needCover := none, crashed := true },
               answer (showState s') "ok" ["crash", s!"crash-snap-{snap}"] )
      | _, _ => (r, answer "bad-op" "na" [])
  | ["asyncerr", "persister"] =>
      if !r.d.sync then (r, answer impl "na" ["desync"]) else
      if r.pendingAsync == 0 && r.maybeAsync > 0 then
        ({ r with maybeAsync := r.maybeAsync - 1, asyncSeen := r.asyncSeen + 1 }, answer (showState r.d.s) "ok" ["asyncerr-persister", "asyncerr-while-closing"])
      else if r.pendingAsync == 0 then (r, answer "REJECT:async-error-without-failed-persist" "ok" [])
      else ({ r with pendingAsync := r.pendingAsync - 1, asyncSeen := r.asyncSeen + 1 }, answer (showState r.d.s) "ok" ["asyncerr-persister"])
  | ["asyncerr", "merger"] =>
      if !r.d.sync then (r, answer impl "na" ["desync"]) else
      (match step r.d.s (.fault .merger) with
       | some s' => ({ r with d := { r.d with s := s' }, asyncSeen := r.asyncSeen + 1 }, answer (showState s') "ok" ["asyncerr-merger"])
       | none => (r, answer "REJECT:merger-fault" "ok" []))
  | ["nackobs", c] =>
      -- a safe Batch returned the persist error / a callback was invoked with an error
      match c.toNat? with
      | some c =>
          if !r.d.sync then (r, answer impl "na" ["desync"]) else
          if r.expectNack.contains c then
            ({ r with expectNack := r.expectNack.filter (· != c) }, answer (showState r.d.s) "ok" ["nackobs"])
          else (r, answer "REJECT:error-returned-without-failed-persist" "ok" [])
      | none => (r, answer "bad-op" "na" [])
  | ["fstart", _] =>
      ({ r with faultOn := true, appliedAtFault := r.d.s.applied }, answer (if r.d.sync then showState r.d.s else impl) "na" ["fstart"])
  | ["fclear"] =>
      ({ r with faultOn := false }, answer (if r.d.sync then showState r.d.s else impl) "na" ["fclear"])
  | ["rdobs", _] =>
      -- C14: what a reader opened from the writer shows while a fault is armed: the batches applied so far
      if !r.d.sync then (r, answer impl "na" ["desync"]) else
      let m := "ok:" ++ showContent (absAfter r r.d.s.applied)
      let v := match parseSide impl with
        | .content c _ => (match findK r c with
            | some k =>
                if k < maxObs r.d.obs then s!"bad:reader-misses-acknowledged-batch shows-prefix={k} acknowledged={maxObs r.d.obs}" ++ (if r.loadFallback then " after-load-fault-at-open" else "")
                else if k == r.d.s.applied then "ok" else s!"bad:reader-not-at-applied-batches shows-prefix={k} applied={r.d.s.applied}"
            | none => s!"bad:reader-content-not-a-prefix content={showContent c}")
        | .crashed how => s!"bad:reader-crashed how={how}"
        | _ => "bad:reader-failed-during-fault"
      (r, answer m v ["rdobs", if r.faultOn then "rdobs-during-fault" else "rdobs-no-fault"])
  | ["hang", what] =>
      (r, answer "no-hang" s!"bad:hang {what}" [])
  | "final" :: _ =>
      -- impl: acked=… handles=… [asyncerrs=N]
      let (base, extra) := match impl.splitOn " asyncerrs=" with
        | [a, b] => (a, some b)
        | _ => (impl, none)
      let (d, a) := Drv.stepLine r.d op base
      let r := { r with d := d }
      -- after a crash the clients of the dead writer may not have SEEN an acknowledgement the persister had released:
      -- what was observed must be among what the model released
      let implAcked := match ((base.splitOn " ").find? (·.startsWith "acked=")) with
        | some w => parseList (w.drop 6).toString
        | none => none
      let res := ansResult a
      let res := match r.crashed, implAcked with
        | true, some l => if l.all (sortDedup r.d.s.acked).contains then res.replace s!"acked={showList (sortDedup r.d.s.acked)}" s!"acked={showList l}" else res
        | _, _ => res
      let res := match extra with
        | some _ => res ++ s!" asyncerrs={r.asyncSeen + r.pendingAsync}"
        | none => res
      let v := ansVerdict a
      -- a persisted callback the model says was invoked with nil (`observe … .ack`) and the run never saw, in a lifetime that ended with a clean close
      let missing : Option Nat := match r.crashed, implAcked with
        | false, some l => (sortDedup r.d.s.acked).find? fun c => !l.contains c
        | _, _ => none
      let v := if v.startsWith "bad" then v
        else if missing.isSome && r.d.sync then s!"bad:acknowledgement-never-delivered batch={missing.getD 0} the persist it waited for succeeded; its callback was not invoked / its Batch call did not return nil"
        else if r.pendingAsync > 0 then "bad:async-error-not-fired a persist failed and the asynchronous error callback was not invoked"
        else if !r.expectNack.isEmpty then s!"bad:error-not-surfaced safe batch {r.expectNack.headD 0} waited on a failed persist and its Batch call did not return the error"
        else v
      (r, setAns a res v)
  | _ =>
      -- a protocol record: replay through the model
      let pre := r.d.s
      let wasSync := r.d.sync
      let (d, a) := Drv.stepLine r.d op impl
      let r := { r with d := d }
      -- every violation that follows a Persist which returned nil without leaving the exact bytes is a consequence of that
      let a := if r.inexact && (ansVerdict a).startsWith "bad" && !((ansVerdict a).startsWith "bad:assumption-persist-exact") then
          setAns a (ansResult a) (ansVerdict a ++ " after-inexact-persist" ++ (if r.reissued.isEmpty then "" else " reissued-over-torn"))
        else a
      let a := if r.loadFallback && (ansVerdict a).startsWith "bad" then setAns a (ansResult a) (ansVerdict a ++ " after-load-fault-at-open") else a
      -- WF of environment-supplied data, evaluated on the real event: a new segment id must not be taken already
      -- (below `List(segment)[0] + 2` as seen by OpenWriter, or handed out since)
      let fresh? (x : String) : Option String := match parseList x with
        | some l => (l.find? fun y => wasSync && decide (isUsed pre y)).map fun y => s!"bad:segment-id-not-fresh id={y}"
        | none => none
      let a := match ws with
        | ["intro", _, added, _, _, _] => (match fresh? added with | some b => if (ansVerdict a).startsWith "bad" then a else setAns a (ansResult a) b | none => a)
        | ["msegbegin", sid] => (match fresh? sid with | some b => if (ansVerdict a).startsWith "bad" then a else setAns a (ansResult a) b | none => a)
        | _ => a
      match ws with
      | ["snapbegin", e, _, _] =>
          (match e.toNat? with
           | some e => if pre.disk.snaps.any (·.epoch == e) then ({ r with reissued := e :: r.reissued }, addBr a "snapbegin-over-existing-file") else (r, a)
           | none => (r, a))
      | ["snapend", e, "1", "0"] =>
          let v := ansVerdict a
          let re := match e.toNat? with | some e => r.reissued.contains e | none => false
          ({ r with inexact := true }, setAns a (ansResult a) (if re then v ++ " reissued-over-torn" else v))
      | ["segend", _, "1", "0"] => ({ r with inexact := true }, a)
      | ["msegend", _, "1", "0"] => ({ r with inexact := true }, a)
      | ["snapend", _, "1", "1"] => ({ r with everComplete := true }, a)
      | ["pfail", cl] =>
          -- what the persister must SAY now (`Bluge.Persist.observe`): the error to every safe batch of the failed grab,
          -- the asynchronous error unless the writer is closing
          let o := observe pre (.persistFail (cl == "1"))
          ({ r with pendingAsync := if o.asyncErr then r.pendingAsync + 1 else r.pendingAsync,
                    maybeAsync := if o.asyncErr then r.maybeAsync else r.maybeAsync + 1, expectNack := r.expectNack ++ o.errTo,
                    mustCover := max r.mustCover pre.applied }, a)
      | ["ack", _] =>
          -- C14 (failed_job_never_acks): an acknowledgement released for a job whose persist FAILED
          if wasSync && (match pre.job with | some j => j.phase == .failed | none => false) then
            (r, setAns a (ansResult a) "bad:acknowledgement-released-after-failed-persist the grabbed root's persist failed and persistSnapshot still returned nil")
          else
          -- C14 (retry_covers): the acknowledgement that follows a failed persist covers everything applied when the
          -- failure was reported, including the batches whose own call returned the error
          (match pre.job with
           | some j =>
               if r.mustCover == 0 then (r, a)
               else if j.k ≥ r.mustCover then ({ r with floorK := max r.floorK r.mustCover, mustCover := 0 }, addBr a "ack-after-failure-covers")
               else ({ r with mustCover := 0 }, setAns a (ansResult a) s!"bad:retry-does-not-cover acknowledged-content={j.k} applied-at-failure={r.mustCover}")
           | none => (r, a))
      | ["opened", _] => ({ r with pendingAsync := 0, maybeAsync := 0, expectNack := [], mustCover := 0 }, a)
      | _ => (r, a)

/-- `OpenWriter` is ONE event of the model but several records of the run: `open` (Lock succeeded), then `loadfail e` for
every snapshot whose Load was made to fail (C14), then either `openfail`, or the records of the clean-up and `opened`.
The model's event is taken when the first record after them arrives. -/
def stepLine (r : RState) (op impl : String) : RState × String :=
  let ws := (op.splitOn " ").filter (· != "")
  match r.pendingOpen, ws with
  | _, "case" :: _ => stepLine1 { r with pendingOpen := none } op impl
  | _, "replay" :: _ => stepLine1 { r with pendingOpen := none } op impl
  | none, ["open"] =>
      if !r.d.sync then (r, answer impl "na" ["desync"]) else
      if r.d.s.lock then stepLine1 r op impl      -- a second writer: refused by Lock, not this path
      else ({ r with pendingOpen := some [], d := { r.d with commits := [] } }, answer (showState r.d.s) "ok" ["open"])
  | some skip, ["loadfail", e] =>
      match e.toNat? with
      | some e => ({ r with pendingOpen := some (e :: skip) }, answer (showState r.d.s) "ok" ["loadfail"])
      | none => (r, answer "bad-op" "na" [])
  | some skip, "image" :: _ => let (r', a) := stepLine1 { r with pendingOpen := none } op impl; ({ r' with pendingOpen := some skip }, a)
  | some _, "crash" :: _ => stepLine1 { r with pendingOpen := none } op impl   -- the process died while OpenWriter ran: nothing was opened
  | some skip, ["fstart", _] => let (r', a) := stepLine1 { r with pendingOpen := none } op impl; ({ r' with pendingOpen := some skip }, a)
  | some skip, ["fclear"] => let (r', a) := stepLine1 { r with pendingOpen := none } op impl; ({ r' with pendingOpen := some skip }, a)
  | some skip, ["openfail"] =>
      let r := { r with pendingOpen := none }
      (match stepOpenSkip skip r.d.s with
       | none => (r, answer (showState r.d.s) "ok" ["openfail", "open-refused"])
       | some _ =>
           if r.faultOn || !skip.isEmpty then (r, answer (showState r.d.s) "ok" ["openfail", "openfail-by-fault"])
           else ({ r with d := { r.d with sync := false } }, answer "REJECT:open-should-succeed" "ok" []))
  | some skip, _ =>
      let r := { r with pendingOpen := none }
      (match stepOpenSkip skip r.d.s with
       | some s' =>
           let fell := r.d.s.disk.snaps.any fun f => skip.contains f.epoch && r.d.s.disk.loadable f && decide (s'.rootEpoch < f.epoch)
           let r := { r with d := { r.d with s := s' }, loadFallback := r.loadFallback || fell }
           let (r', a) := stepLine1 r op impl
           (r', if skip.isEmpty then a else addBr a "open-after-loadfail")
       | none => ({ r with d := { r.d with sync := false } }, answer "REJECT:not-enabled:open" "ok" []))
  | none, _ => stepLine1 r op impl

end Bluge.Persist.RDrv

import BlugeGen.C12
/-! # Bluge.Codec — the snapshot file codec of `index/snapshot.go` and `loadSnapshot` of `index/writer.go`

Core Lean only. Byte strings are `List (BitVec 8)`.

What is modelled, line by line for the logic that matters:

* `encoding/binary`: `PutUvarint`, `Uvarint` (over-long, overflowing and unterminated inputs included);
* `hash/crc32` (IEEE, reflected polynomial `0xEDB88320`), bit by bit;
* `bufio.Reader` (4096-byte buffer) for exactly the calls the decoder makes — `Peek(10)`, `Discard(n)`,
  `Read(p)`, `io.ReadFull` — over an underlying reader that hands out `min(len p, remaining)` bytes and then
  `(0, io.EOF)` (that is what `bytes.Reader`, `segment.DataReader` and `io.LimitReader` over them do),
  wrapped by `countHashReader` (the CRC covers the bytes *pulled* by bufio, not the bytes consumed);
* `(*Snapshot).WriteTo / recordSegment / writeVarLenString` — the encoder;
* `(*Snapshot).ReadFrom / readFromVersion1 / readSegmentSnapshot / readVarLenString` — the decoder, with the
  outcome type `ok | error | panic | alloc n`: `panic` where Go panics (`makeslice: len out of range`),
  `alloc n` where Go executes `make([]byte, n)` with `n` above the allocation budget `lim`;
* `(*Writer).loadSnapshot`: body = all but the last 4 bytes, CRC comparison, and the order
  "close (unmap) — then format the CRC bytes of the mapping" (`fault`);
* roaring (de)serialisation is a parameter `Roar` (opaque payload bytes per segment).

* `sDecode`: the same decoder as a plain function of the remaining bytes (no buffer, no reader state) — the
  grammar of the file format as the repaired code reads it; `BlugeProofs.C12.readFrom_eq_sDecode` proves the
  buffered model computes it on every input.

`Cfg` selects between the code as pinned (`Cfg.pinned`) and the code with the repairs (`Cfg.guarded`: bounded
full reads, `uint64` loop, CRC bytes copied before the unmap, and — fix 7033aea — every `Uvarint` result checked
for `n <= 0` plus the byte count of `ReadFrom` compared with the body length in `loadSnapshot`); `currentCfg`
is read off /repo's source by `go/extract/c12.go` on every run, together with the call scripts of the eleven
codec/loader functions that `Bluge.Codec.Script` (lean/Bluge/C12/Script.lean) relates to the definitions below. -/
namespace Bluge.Codec

abbrev Byte := BitVec 8
abbrev Bytes := List Byte

/-! ## encoding/binary -/

/-- loop of `binary.PutUvarint`: `for x >= 0x80 { buf[i] = byte(x) | 0x80; x >>= 7; i++ }; buf[i] = byte(x)`.
Structural in the fuel so that the kernel can evaluate it. -/
def putUvarintFuel : Nat → Nat → Bytes
  | 0, x => [BitVec.ofNat 8 x]
  | fuel + 1, x =>
    if x < 128 then [BitVec.ofNat 8 x] else BitVec.ofNat 8 (x % 128 + 128) :: putUvarintFuel fuel (x / 128)

/-- `binary.PutUvarint` (fuel `x` is never used up: the value shrinks by a factor 128 per byte;
`putUvarint_small`, `putUvarint_big` in BlugeProofs.C12.Uvarint are the two equations of the loop) -/
def putUvarint (x : Nat) : Bytes := putUvarintFuel x x

/-- loop of `binary.Uvarint`: `i` index, `x` accumulated value, `s` shift. Result `(value, n)`:
`n > 0` bytes read; `n = 0` buffer too small; `n < 0` overflow (`-n` bytes read).
`x | b<<s` is written `x + b*2^s` (the bit ranges are disjoint); no intermediate value that is
returned exceeds 64 bits (`uvarint_lt`). -/
def uvarintAux : Bytes → Nat → Nat → Nat → Nat × Int
  | [], _, _, _ => (0, 0)
  | b :: rest, i, x, s =>
    if i = 10 then (0, -((i : Int) + 1))
    else if b.toNat < 128 then
      if i = 9 ∧ b.toNat > 1 then (0, -((i : Int) + 1)) else (x + b.toNat * 2 ^ s, (i : Int) + 1)
    else uvarintAux rest (i + 1) (x + (b.toNat % 128) * 2 ^ s) (s + 7)

/-- `binary.Uvarint` -/
def uvarint (buf : Bytes) : Nat × Int := uvarintAux buf 0 0 0

/-- `binary.BigEndian.PutUint32` -/
def be32 (v : BitVec 32) : Bytes :=
  [(v >>> 24).setWidth 8, (v >>> 16).setWidth 8, (v >>> 8).setWidth 8, v.setWidth 8]

/-- `binary.BigEndian.Uint32` of a 4-byte buffer that was zero-initialised and then filled with `bs`
(a short `Read` leaves the tail zero) -/
def be32get (bs : Bytes) : BitVec 32 :=
  let g (i : Nat) : BitVec 32 := (bs.getD i 0).setWidth 32
  (g 0 <<< 24) ||| (g 1 <<< 16) ||| (g 2 <<< 8) ||| g 3

/-! ## hash/crc32 (IEEE) -/

def crcPoly : BitVec 32 := 0xEDB88320#32

def crcBit (c : BitVec 32) : BitVec 32 :=
  if c.getLsbD 0 then (c >>> 1) ^^^ crcPoly else c >>> 1

def crcByte (c : BitVec 32) (b : Byte) : BitVec 32 :=
  let c := c ^^^ b.setWidth 32
  crcBit (crcBit (crcBit (crcBit (crcBit (crcBit (crcBit (crcBit c)))))))

/-- `crc32.Update(crc, crc32.IEEETable, p)` -/
def crcUpdate (crc : BitVec 32) (p : Bytes) : BitVec 32 := ~~~ (p.foldl crcByte (~~~ crc))

/-- `crc32.ChecksumIEEE` -/
def crc32 (p : Bytes) : BitVec 32 := crcUpdate 0 p

/-! ## bufio.Reader over the counting hash reader -/

def bufSize : Nat := 4096

/-- State of `bufio.Reader` + `countHashReader` + underlying reader while decoding the fixed input `inp`
(passed as a parameter to every operation):
`alloc` is bookkeeping of the decoder, kept here because it is threaded the same way;
`pos` = number of bytes the underlying reader has handed out (= `countHashReader.n`; the hash reader's
crc is `crc32 (inp.take pos)` by `crcUpdate_append`); `buf` = `b.buf[b.r:b.w]`; `eof` = `b.err == io.EOF`. -/
structure Rd where
  pos : Nat := 0
  buf : Bytes := []
  eof : Bool := false
  /-- bytes claimed so far by `make([]byte, n)` with `n` taken from the file -/
  alloc : Nat := 0
deriving Repr, DecidableEq

/-- `(*Reader).fill` (called only with `buf.length < bufSize`): one underlying `Read(b.buf[b.w:])` -/
def fill (inp : Bytes) (r : Rd) : Rd :=
  let avail := inp.length - r.pos
  if avail = 0 then { r with eof := true }
  else
    let k := min (bufSize - r.buf.length) avail
    { r with buf := r.buf ++ (inp.drop r.pos).take k, pos := r.pos + k }

/-- the loop of `Peek(10)`: `for b.w-b.r < n && b.w-b.r < len(b.buf) && b.err == nil { b.fill() }` -/
def peekLoop (inp : Bytes) : Nat → Rd → Rd
  | 0, r => r
  | fuel + 1, r =>
    if r.buf.length < 10 ∧ r.buf.length < bufSize ∧ r.eof = false then peekLoop inp fuel (fill inp r) else r

/-- `Peek(binary.MaxVarintLen64)`: the peeked bytes, whether the error is `io.EOF` (the only error
possible: `ErrBufferFull` needs `10 > 4096`), the reader (`readErr` clears the pending error) -/
def peek10 (inp : Bytes) (r : Rd) : Bytes × Bool × Rd :=
  let r := peekLoop inp 11 r
  if r.buf.length < 10 then (r.buf, true, { r with eof := false })
  else (r.buf.take 10, false, r)

/-- loop of `Discard`; result: error?, bytes still to skip, reader -/
def discardLoop (inp : Bytes) : Nat → Nat → Rd → Bool × Nat × Rd
  | 0, remain, r => (false, remain, r)
  | fuel + 1, remain, r =>
    let r := if r.buf.length = 0 then fill inp r else r
    let skip := min r.buf.length remain
    let r := { r with buf := r.buf.drop skip }
    let remain := remain - skip
    if remain = 0 then (false, 0, r)
    else if r.eof then (true, remain, { r with eof := false })
    else discardLoop inp fuel remain r

/-- `Discard(n)` for `n ≥ 0` (negative `n` is handled by the caller): discarded count, error?, reader -/
def discard (inp : Bytes) (n : Nat) (r : Rd) : Nat × Bool × Rd :=
  if n = 0 then (0, false, r)
  else
    let (e, rem, r) := discardLoop inp (n + 1) n r
    (n - rem, e, r)

/-- `(*Reader).Read(p)` with `len(p) = n`: bytes copied into `p`, error (`io.EOF`)?, reader -/
def read (inp : Bytes) (n : Nat) (r : Rd) : Bytes × Bool × Rd :=
  if n = 0 then
    if r.buf.length > 0 then ([], false, r) else ([], r.eof, { r with eof := false })
  else if r.buf.length = 0 then
    if r.eof then ([], true, { r with eof := false })
    else
      let avail := inp.length - r.pos
      if avail = 0 then ([], true, r)   -- b.err = EOF; return 0, b.readErr()
      else if n ≥ bufSize then
        -- large read, empty buffer: read directly into p
        let k := min n avail
        ((inp.drop r.pos).take k, false, { r with pos := r.pos + k })
      else
        -- one read into the buffer, then copy
        let k := min bufSize avail
        let buf := (inp.drop r.pos).take k
        let m := min n buf.length
        (buf.take m, false, { r with buf := buf.drop m, pos := r.pos + k })
  else
    let m := min n r.buf.length
    (r.buf.take m, false, { r with buf := r.buf.drop m })

/-- `io.ReadFull(br, p)` with `len(p) = need`: `for n < min && err == nil { nn, err = r.Read(buf[n:]) }`.
`none` = error (`io.EOF` / `io.ErrUnexpectedEOF`). Every `Read` returns ≥ 1 byte or an error, so
`need + 1` units of fuel are enough (`readFullLoop_fuel`). -/
def readFullLoop (inp : Bytes) : Nat → Nat → Bytes → Rd → Option Bytes × Rd
  | 0, _, _, r => (none, r)
  | fuel + 1, need, acc, r =>
    if need = 0 then (some acc, r)
    else
      let (bs, e, r) := read inp need r
      if e then (none, r)
      else readFullLoop inp fuel (need - bs.length) (acc ++ bs) r

def readFull (inp : Bytes) (n : Nat) (r : Rd) : Option Bytes × Rd := readFullLoop inp (n + 1) n [] r

/-- the proposed repair `readN`: exactly `n` bytes, claimed in steps of at most `bufSize` bytes as the
data arrives (`for n > 0 { step := min(n, 4096); rv = append(rv, make([]byte, step)...); io.ReadFull(r, rv[start:]) }`) -/
def readChunked (inp : Bytes) : Nat → Nat → Bytes → Rd → Option Bytes × Rd
  | 0, _, _, r => (none, r)
  | fuel + 1, need, acc, r =>
    if need = 0 then (some acc, r)
    else
      let step := min need bufSize
      match readFull inp step r with
      | (none, r) => (none, r)
      | (some bs, r) => readChunked inp fuel (need - step) (acc ++ bs) r

/-! ## outcomes -/

inductive Err where
  | version    -- unsupported snapshot format version
  | negCount   -- bufio: negative count (Uvarint overflow → Discard(n<0))
  | eof        -- io.EOF / io.ErrUnexpectedEOF from Peek (strict), Read, ReadFull
  | roaring    -- roaring.ReadFrom rejected the deleted bitmap
  | crc        -- CRC mismatch in loadSnapshot
  | plugin     -- loadSegmentPlugin: unsupported type/version
  | segment    -- segment file cannot be loaded
  | noSnapshot -- OpenReader: unable to find a usable snapshot
  | length     -- loadSnapshot: the decoder did not account for every byte in front of the CRC
deriving DecidableEq, Repr

/-- the statement at which an unsafe outcome arises -/
inductive Site where
  | str       -- `strBytes := make([]byte, strLen)` in readVarLenString
  | del       -- `deletedBytes := make([]byte, int(delLen))` in readSegmentSnapshot
  | crcBytes  -- `data.Read(data.Len()-crcWidth, data.Len())` / formatting `fileCRCBytes` in loadSnapshot
deriving DecidableEq, Repr

/-- what running the Go code on an input does -/
inductive Outcome (α : Type) where
  | ok (a : α)
  | error (e : Err)
  | panic (s : Site)              -- a Go panic (makeslice: len out of range, slice bounds out of range)
  | alloc (s : Site) (n : Nat)    -- `make([]byte, …)` brings the bytes claimed by this decode to `n`, above the budget
  | fault (s : Site)              -- access to unmapped memory (SIGSEGV)
deriving DecidableEq, Repr

namespace Outcome
@[inline] def bind {α β : Type} : Outcome α → (α → Outcome β) → Outcome β
  | ok a, f => f a
  | error e, _ => error e
  | panic s, _ => panic s
  | alloc s n, _ => alloc s n
  | fault s, _ => fault s
instance : Monad Outcome where
  pure := ok
  bind := bind
def isOk {α : Type} : Outcome α → Bool | ok _ => true | _ => false
def isError {α : Type} : Outcome α → Bool | error _ => true | _ => false
/-- the property's notion of a safe reaction to an input: a result or an error -/
def safe {α : Type} : Outcome α → Bool | ok _ => true | error _ => true | _ => false
end Outcome
open Outcome

/-! ## configuration: pinned code vs proposed repairs -/

structure Cfg where
  /-- `readVarLenString` and the deleted bytes are read by `readN` (bounded steps, full reads) instead of
      `make([]byte, n)` + `Read` / `io.ReadFull`; the version is read with `io.ReadFull`; `readVarLenString`
      tolerates `io.EOF` from `Peek` like the other three peeks -/
  boundedReads : Bool
  /-- the segment loop counts in `uint64` instead of `int(numSegments)` -/
  uintLoop : Bool
  /-- `loadSnapshot` copies the 4 CRC bytes before `closer.Close()` -/
  crcCopy : Bool
  /-- every `binary.Uvarint` result is checked (`if n <= 0 { return error }`: a field that is missing or
      unterminated at the end of the input is an error instead of the value 0), and `loadSnapshot` compares the
      byte count `ReadFrom` reports with the body length (`data.Len() - crcWidth`) -/
  lengthChecked : Bool
deriving DecidableEq, Repr

def Cfg.pinned : Cfg := { boundedReads := false, uintLoop := false, crcCopy := false, lengthChecked := false }
def Cfg.guarded : Cfg := { boundedReads := true, uintLoop := true, crcCopy := true, lengthChecked := true }

/-- The configuration that matches /repo's current source: `BlugeGen.C12` is regenerated by
`go/extract/c12.go` from `index/snapshot.go` and `index/writer.go` on every run of `./check C12`, and the
correspondence run compares this model with the real code. -/
def currentCfg : Cfg :=
  { boundedReads := BlugeGen.C12.boundedReads, uintLoop := BlugeGen.C12.uintLoop, crcCopy := BlugeGen.C12.crcCopy,
    lengthChecked := BlugeGen.C12.lengthChecked }

/-- `maxAlloc` of the Go runtime on linux/amd64 (`1 << heapAddrBits`): a larger `make` panics -/
def maxAlloc : Nat := 2 ^ 48

/-- `make([]byte, n)` for an `n` taken from the file (`int(n)` conversions included: `n ≥ 2^63` is
negative as `int` and panics like any `n > maxAlloc`). The claims of one decode are summed: when the
sum passes the budget `lim` the outcome is `alloc`. -/
def makeBytes (site : Site) (lim : Nat) (n : Nat) (r : Rd) : Outcome Rd :=
  if n > maxAlloc then .panic site
  else if r.alloc + n > lim then alloc site (r.alloc + n)
  else ok { r with alloc := r.alloc + n }

/-! ## roaring as a parameter -/

/-- serialisation of deleted sets: `enc` = `Bitmap.ToBytes`, `dec` = `Bitmap.ReadFrom` on exactly the
payload bytes (`none` = error), `isEmpty` = `Bitmap.IsEmpty` -/
structure Roar (R : Type) where
  enc : R → Bytes
  dec : Bytes → Option R
  isEmpty : R → Bool

/-- what the theorems assume about the roaring library: reading back a serialisation gives the set,
and a serialisation is never empty (the format starts with a cookie) -/
structure Roar.Lawful {R : Type} (ro : Roar R) : Prop where
  dec_enc : ∀ d, ro.dec (ro.enc d) = some d
  enc_ne : ∀ d, ro.enc d ≠ []

/-- opaque payloads: the driver's instance when no oracle is needed -/
def Roar.opaque (isEmpty : Bytes → Bool) : Roar Bytes := { enc := id, dec := some, isEmpty := isEmpty }

/-! ## the snapshot -/

structure Seg (R : Type) where
  id : BitVec 64
  typ : Bytes
  ver : BitVec 32
  deleted : Option R
deriving Repr, DecidableEq

/-! ## encoder -/
section
variable {R : Type} (ro : Roar R)

/-- `writeVarLenString` -/
def encStr (s : Bytes) : Bytes := putUvarint s.length ++ s

/-- `recordSegment` -/
def encSeg (s : Seg R) : Bytes :=
  encStr s.typ ++ be32 s.ver ++ putUvarint s.id.toNat ++
    (match s.deleted with
     | some d => putUvarint (ro.enc d).length ++ ro.enc d
     | none => putUvarint 0)

/-- everything `WriteTo` writes before the CRC -/
def encBody (segs : List (Seg R)) : Bytes :=
  putUvarint 1 ++ putUvarint segs.length ++ (segs.map (encSeg ro)).flatten

/-- `(*Snapshot).WriteTo`: body, then `crc32(body)` big-endian -/
def encFile (segs : List (Seg R)) : Bytes :=
  let b := encBody ro segs
  b ++ be32 (crc32 b)

/-- what reading back gives: a deleted set that is present but empty comes back absent
(`if !deletedBitmap.IsEmpty() { ss.deleted = deletedBitmap }`) -/
def normSeg (s : Seg R) : Seg R :=
  match s.deleted with
  | some d => if ro.isEmpty d then { s with deleted := none } else s
  | none => s

/-! ## decoder -/

/-- `Peek(10)`, `binary.Uvarint`, `Discard(n)` — the idiom used five times. `strict`: the caller
treats any error of `Peek`, `io.EOF` included, as an error (`readVarLenString`).
Result: value, bytes discarded, reader. -/
def peekUvarint (inp : Bytes) (strict : Bool) (r : Rd) : Outcome (Nat × Nat × Rd) :=
  let (pk, e, r) := peek10 inp r
  if strict && e then error .eof
  else
    let (v, n) := uvarint pk
    if n < 0 then error .negCount
    else
      let (k, e, r) := discard inp n.toNat r
      if e then error .eof else ok (v, k, r)

/-- the same idiom in the configured code: with `cfg.lengthChecked` an `if n <= 0 { return error }` stands
between `binary.Uvarint` and `Discard` (`n < 0`: overflow, as before; `n = 0`: fewer than 10 bytes are left
and none of them ends a uvarint — without the check the decoder goes on with the value 0 and discards nothing) -/
def peekUvarintC (cfg : Cfg) (inp : Bytes) (strict : Bool) (r : Rd) : Outcome (Nat × Nat × Rd) :=
  let (pk, e, r) := peek10 inp r
  if strict && e then error .eof
  else
    let (v, n) := uvarint pk
    if n < 0 then error .negCount
    else if cfg.lengthChecked && n == 0 then error .eof
    else
      let (k, e, r) := discard inp n.toNat r
      if e then error .eof else ok (v, k, r)

/-- read `n` bytes whose count came from the file, as the configured code does it for the *type string*:
pinned: `make([]byte, n)` then ONE `Read` (short reads leave the tail zero);
repaired: `readN`. Result: the `n`-byte buffer, count reported, reader. -/
def readStrBytes (cfg : Cfg) (inp : Bytes) (lim n : Nat) (r : Rd) : Outcome (Bytes × Nat × Rd) :=
  if cfg.boundedReads then
    match readChunked inp (n + 1) n [] r with
    | (some bs, r) => ok (bs, bs.length, r)
    | (none, _) => error .eof
  else do
    let r ← makeBytes .str lim n r
    let (bs, e, r) := read inp n r
    if e then error .eof
    else ok (bs ++ List.replicate (n - bs.length) 0, bs.length, r)

/-- `readVarLenString` -/
def readVarLenString (cfg : Cfg) (inp : Bytes) (lim : Nat) (r : Rd) : Outcome (Bytes × Nat × Rd) := do
  let (strLen, k, r) ← peekUvarintC cfg inp (!cfg.boundedReads) r
  let (s, k2, r) ← readStrBytes cfg inp lim strLen r
  ok (s, k + k2, r)

/-- the deleted bytes: pinned `make([]byte, int(delLen))` + `io.ReadFull`; repaired `readN` -/
def readDelBytes (cfg : Cfg) (inp : Bytes) (lim n : Nat) (r : Rd) : Outcome (Bytes × Rd) :=
  if cfg.boundedReads then
    match readChunked inp (n + 1) n [] r with
    | (some bs, r) => ok (bs, r)
    | (none, _) => error .eof
  else do
    let r ← makeBytes .del lim n r
    match readFull inp n r with
    | (some bs, r) => ok (bs, r)
    | (none, _) => error .eof

/-- `readSegmentSnapshot`: segment, bytes read, reader -/
def readSegment (cfg : Cfg) (inp : Bytes) (lim : Nat) (r : Rd) : Outcome (Seg R × Nat × Rd) := do
  let (typ, n1, r) ← readVarLenString cfg inp lim r
  -- verBuf := make([]byte, 4); sz, err = br.Read(verBuf)      (repaired: io.ReadFull(br, verBuf))
  let (vb, e, r) := if cfg.boundedReads then
      (match readFull inp 4 r with | (some bs, r) => (bs, false, r) | (none, r) => ([], true, r))
    else read inp 4 r
  if e then error .eof
  else do
    let ver := be32get vb
    let (id, n3, r) ← peekUvarintC cfg inp false r
    let (delLen, n4, r) ← peekUvarintC cfg inp false r
    if delLen > 0 then do
      let (db, r) ← readDelBytes cfg inp lim delLen r
      match ro.dec db with
      | none => error .roaring
      | some d =>
        ok ({ id := BitVec.ofNat 64 id, typ := typ, ver := ver, deleted := if ro.isEmpty d then none else some d },
            n1 + vb.length + n3 + n4 + db.length, r)
    else
      ok ({ id := BitVec.ofNat 64 id, typ := typ, ver := ver, deleted := none }, n1 + vb.length + n3 + n4, r)

/-- the loop of `readFromVersion1`: `cnt` iterations or the first error -/
def readSegments (cfg : Cfg) (inp : Bytes) (lim : Nat) : Nat → Rd → Outcome (List (Seg R) × Nat × Rd)
  | 0, r => ok ([], 0, r)
  | cnt + 1, r => do
    let (s, n, r) ← readSegment ro cfg inp lim r
    let (ss, m, r) ← readSegments cfg inp lim cnt r
    ok (s :: ss, n + m, r)

/-- number of iterations of `for j := 0; j < int(numSegments); j++` (pinned: a count ≥ 2^63 is negative
as `int` and the loop body never runs) resp. `for j := uint64(0); j < numSegments; j++` -/
def loopCount (cfg : Cfg) (numSegments : Nat) : Nat :=
  if cfg.uintLoop then numSegments else if numSegments < 2 ^ 63 then numSegments else 0

/-- `(*Snapshot).ReadFrom` on the reader state `r`: segments, byte count reported, final reader -/
def readFromRd (cfg : Cfg) (inp : Bytes) (lim : Nat) (r : Rd) : Outcome (List (Seg R) × Nat × Rd) := do
  let (v, n0, r) ← peekUvarintC cfg inp false r
  if v = 1 then do
    let (numSegments, n1, r) ← peekUvarintC cfg inp false r
    let (ss, m, r) ← readSegments ro cfg inp lim (loopCount cfg numSegments) r
    ok (ss, n0 + n1 + m, r)
  else error .version

/-- the allocation budget granted to an input of `len` bytes (the harness measures the real code
against the same bound) -/
def allocLimit (len : Nat) : Nat := 64 * len + 2 ^ 20

/-- `(*Snapshot).ReadFrom(bytes.NewReader(inp))` -/
def readFrom (cfg : Cfg) (inp : Bytes) : Outcome (List (Seg R) × Nat × Rd) :=
  readFromRd ro cfg inp (allocLimit inp.length) {}

/-- segments only -/
def decode (cfg : Cfg) (inp : Bytes) : Outcome (List (Seg R)) :=
  match readFrom ro cfg inp with
  | ok (ss, _, _) => ok ss
  | error e => error e
  | .panic s => .panic s
  | alloc s n => alloc s n
  | fault s => fault s


/-! ## the decoder without the buffer: what it reads as a function of the remaining bytes alone

`sDecode` is the grammar the repaired decoder implements (`cfg.boundedReads`: full reads), as a plain function on
byte lists: no `bufio`, no reader state. `BlugeProofs.C12.readFrom_eq_sDecode` proves that the byte-exact model
`readFrom` computes exactly this, wherever the 4096-byte buffer edges fall, and reports as its byte count the
number of bytes consumed. `lc` = `cfg.lengthChecked`. -/

/-- one uvarint field at the front of the remaining bytes `s`: value and bytes consumed.
`n = 0` (fewer than 10 bytes left, none of them final): value 0, nothing consumed — unless `lc`. -/
def sUvarint (lc : Bool) (s : Bytes) : Outcome (Nat × Nat) :=
  let (v, n) := uvarint (s.take 10)
  if n < 0 then error .negCount
  else if lc && n == 0 then error .eof
  else ok (v, n.toNat)

/-- a length-prefixed string at the front of `s` -/
def sStr (lc : Bool) (s : Bytes) : Outcome (Bytes × Nat) := do
  let (len, k) ← sUvarint lc s
  if (s.drop k).length < len then error .eof else ok ((s.drop k).take len, k + len)

/-- one segment record at the front of `s`: the segment and the bytes consumed -/
def sSegment (lc : Bool) (s : Bytes) : Outcome (Seg R × Nat) := do
  let (typ, n1) ← sStr lc s
  let s2 := s.drop n1
  if s2.length < 4 then error .eof
  else do
    let (id, n3) ← sUvarint lc (s2.drop 4)
    let s4 := (s2.drop 4).drop n3
    let (dlen, n4) ← sUvarint lc s4
    let s5 := s4.drop n4
    if dlen > 0 then
      if s5.length < dlen then error .eof
      else
        match ro.dec (s5.take dlen) with
        | none => error .roaring
        | some d =>
          ok ({ id := BitVec.ofNat 64 id, typ := typ, ver := be32get (s2.take 4),
                deleted := if ro.isEmpty d then none else some d }, n1 + 4 + n3 + n4 + dlen)
    else
      ok ({ id := BitVec.ofNat 64 id, typ := typ, ver := be32get (s2.take 4), deleted := none }, n1 + 4 + n3 + n4)

def sSegments (lc : Bool) : Nat → Bytes → Outcome (List (Seg R) × Nat)
  | 0, _ => ok ([], 0)
  | cnt + 1, s => do
    let (x, n) ← sSegment ro lc s
    let (xs, m) ← sSegments lc cnt (s.drop n)
    ok (x :: xs, n + m)

/-- the whole body: segments and bytes consumed (what follows them is not looked at) -/
def sDecode (lc : Bool) (s : Bytes) : Outcome (List (Seg R) × Nat) := do
  let (v, k0) ← sUvarint lc s
  if v = 1 then do
    let (cnt, k1) ← sUvarint lc (s.drop k0)
    let (ss, m) ← sSegments ro lc cnt ((s.drop k0).drop k1)
    ok (ss, k0 + k1 + m)
  else error .version

/-! ## loadSnapshot -/

/-- the bytes `loadSnapshot` lets the decoder see: `io.LimitReader(data.Reader(), int64(data.Len()-4))`
(a negative limit reads as empty) -/
def bodyOf (file : Bytes) : Bytes := file.take (file.length - 4)

/-- `data.Read(data.Len()-4, data.Len())` -/
def trailerOf (file : Bytes) : Bytes := file.drop (file.length - 4)

/-- `loadSnapshot` up to and including the CRC comparison (`ValidateSnapshotCRC = true`).
`mmap`: the item was loaded by `LoadMMapAlways` (the CRC bytes are a slice of the mapping). -/
def loadSnapshot (cfg : Cfg) (mmap : Bool) (file : Bytes) : Outcome (List (Seg R)) :=
  let body := bodyOf file
  match readFrom ro cfg body with
  | ok (ss, n, r) =>
    -- repaired: `if bytesRead != int64(data.Len()-crcWidth) { close; return error }`
    if cfg.lengthChecked && n != body.length then error .length
    else if file.length < 4 then .panic .crcBytes    -- d.mem[start:end] with start < 0 (not reachable: see `short_file_rejected`)
    else
      let computed := be32 (crc32 (body.take r.pos))
      if computed = trailerOf file then ok ss
      else if mmap && !cfg.crcCopy then fault .crcBytes   -- closer.Close() unmapped fileCRCBytes, then "%x" reads it
      else error .crc
  | error e => error e
  | .panic s => .panic s
  | alloc s n => alloc s n
  | fault s => fault s

/-- the rest of `loadSnapshot`: every decoded segment needs a registered plugin and a loadable file.
`plugin typ ver`, `exists id` describe the configuration and the directory. -/
def loadSegments (plugin : Bytes → BitVec 32 → Bool) (segExists : BitVec 64 → Bool) : List (Seg R) → Outcome Unit
  | [] => ok ()
  | s :: rest =>
    if !plugin s.typ s.ver then error .plugin
    else if !segExists s.id then error .segment
    else loadSegments plugin segExists rest

def loadFull (cfg : Cfg) (mmap : Bool) (plugin : Bytes → BitVec 32 → Bool) (segExists : BitVec 64 → Bool)
    (file : Bytes) : Outcome (List (Seg R)) := do
  let ss ← loadSnapshot ro cfg mmap file
  loadSegments plugin segExists ss
  ok ss

/-- `OpenReader`: snapshot files newest first; an error moves on to the next older file, anything else
(a result, a panic, a fault) ends the walk. Result: index of the file used and its segments. -/
def openReader (cfg : Cfg) (mmap : Bool) (plugin : Bytes → BitVec 32 → Bool) (segExists : BitVec 64 → Bool) :
    List Bytes → Nat → Outcome (Nat × List (Seg R))
  | [], _ => error .noSnapshot
  | f :: older, i =>
    match loadFull ro cfg mmap plugin segExists f with
    | ok ss => ok (i, ss)
    | error _ => openReader cfg mmap plugin segExists older (i + 1)
    | .panic s => .panic s
    | alloc s n => alloc s n
    | fault s => fault s

/-- the loop of `(*Writer).loadSnapshots`: snapshot files OLDEST first; an error moves on and keeps what was
loaded so far, a file that loads replaces it, anything else (a panic, a fault) ends the walk.
Result: index (from the oldest) and segments of the last file that loaded, if any. -/
def writerWalk (cfg : Cfg) (mmap : Bool) (plugin : Bytes → BitVec 32 → Bool) (segExists : BitVec 64 → Bool) :
    List Bytes → Nat → Option (Nat × List (Seg R)) → Outcome (Option (Nat × List (Seg R)))
  | [], _, acc => ok acc
  | f :: newer, i, acc =>
    match loadFull ro cfg mmap plugin segExists f with
    | ok ss => writerWalk cfg mmap plugin segExists newer (i + 1) (some (i, ss))
    | error _ => writerWalk cfg mmap plugin segExists newer (i + 1) acc
    | .panic s => .panic s
    | alloc s n => alloc s n
    | fault s => fault s

/-- `loadSnapshots` as `OpenWriter` uses it: `none` = a new index (no snapshot file at all);
`snapshotsFound && !snapshotLoaded` is the only error -/
def openWriterSnap (cfg : Cfg) (mmap : Bool) (plugin : Bytes → BitVec 32 → Bool) (segExists : BitVec 64 → Bool)
    (oldestFirst : List Bytes) : Outcome (Option (Nat × List (Seg R))) :=
  match writerWalk ro cfg mmap plugin segExists oldestFirst 0 none with
  | ok none => if oldestFirst.isEmpty then ok none else error .noSnapshot
  | o => o

end

/-! ## specification-level definitions used by the C12 theorems -/

section
variable {R : Type} (ro : Roar R)

/-- what the pinned decoder needs of a snapshot: every segment type name has 3..5 bytes — `Peek(10)` at the
start of a segment must find 10 bytes (a shorter name makes the last segment of a file shorter than that),
and `Read` is only guaranteed the 9 bytes that remain buffered after it (`typ.length + 5 ≤ 10`, name + 4
version bytes); and the body is no larger than the largest Go allocation -/
def PinnedHyp (segs : List (Seg R)) : Prop :=
  (∀ s ∈ segs, 3 ≤ s.typ.length ∧ s.typ.length + 5 ≤ 10) ∧ (encBody ro segs).length ≤ 2 ^ 48

end

/-- The safety half of the property, for a configuration of the code: whatever the bytes, decoding and
loading answer `ok` or `error` — no panic, no fault, and the memory claimed through length fields of the
file stays within `64·|input| + 2^20` bytes. -/
def SafeStatement (cfg : Cfg) : Prop :=
  ∀ {R : Type} (ro : Roar R) (b : Bytes) (mmap : Bool),
    (readFrom ro cfg b).safe = true ∧ (loadSnapshot ro cfg mmap b).safe = true

/-- opaque payloads: the serialisation of a deleted set is the set; "empty" = the 8-byte empty roaring bitmap -/
def opaqueRoar : Roar Bytes := Roar.opaque (fun b => b == [0x3a, 0x30, 0, 0, 0, 0, 0, 0])

def iceT : Bytes := [0x69, 0x63, 0x65]

end Bluge.Codec

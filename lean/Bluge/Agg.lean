import Bluge.Basic
import Bluge.Numeric
/-! # Model of bluge's aggregations (C16)

Transcribed from `search/aggregations.go` (Bucket), `search/aggregations/*.go` (calculators),
`search/collector/topn.go` + `all.go` (where `bucket.Consume` sits relative to paging), and
`search/search.go` (`LoadDocumentValues` / `addDocValue`).

* A calculator (`search.Calculator`) is a fold: `init`, `consume`, `finish` (Go's `Finish()`), `value`
  (the accessors `Value()/Buckets()/Other()` read after the search).
* The numeric carrier `α` is arbitrary: the definitions only use `+ * / < ≤ 0 1`, so the driver runs them at
  `Float` (bit-identical to Go's float64 on the same operation order) and the theorems are about the same
  definitions over ordered fields / monoids.
* A match as a calculator sees it is `μ`; sources (`search.NumericValuesSource` …) are functions `μ → List β`.

Core Lean only. -/
namespace Bluge.Agg

abbrev Field := String
abbrev Term := String

/-! ## Calculators as folds -/

structure Calc (μ σ ρ : Type) where
  init : σ
  consume : σ → μ → σ
  /-- Go's `Finish()` -/
  finish : σ → σ
  /-- the result accessors (`Value()`, `Buckets()`, `Other()`, `Quantile`) -/
  value : σ → ρ

namespace Calc
variable {μ σ ρ τ : Type}

/-- state after `Consume` of every match, in match order -/
def feed (c : Calc μ σ ρ) (ms : List μ) : σ := ms.foldl c.consume c.init

/-- what the caller reads after the collector called `Finish()` -/
def run (c : Calc μ σ ρ) (ms : List μ) : ρ := c.value (c.finish (c.feed ms))

/-- `search.Bucket`: a named set of calculators, `Consume`/`Finish` call every member
(the Go map's iteration order does not matter: members do not share state). -/
def all (cs : List (Calc μ σ ρ)) : Calc μ (List σ) (List ρ) where
  init := cs.map (·.init)
  consume ss m := List.zipWith (fun c s => c.consume s m) cs ss
  finish ss := List.zipWith (fun c s => c.finish s) cs ss
  value ss := List.zipWith (fun c s => c.value s) cs ss

/-- run a calculator inside a larger (universal) state type; used only to put calculators with different
state types into one `Calc.all` in the driver. `embed_run` (BlugeProofs.C16) shows it changes nothing. -/
def embed (inj : σ → τ) (prj : τ → Option σ) (dflt : ρ) (c : Calc μ σ ρ) : Calc μ τ ρ where
  init := inj c.init
  consume t m := match prj t with | some s => inj (c.consume s m) | none => t
  finish t := match prj t with | some s => inj (c.finish s) | none => t
  value t := match prj t with | some s => c.value s | none => dflt

/-- post-process what is read out; the fold is untouched -/
def mapVal {ρ' : Type} (g : ρ → ρ') (c : Calc μ σ ρ) : Calc μ σ ρ' :=
  { init := c.init, consume := c.consume, finish := c.finish, value := fun s => g (c.value s) }

/-- look at the match through `g` (the driver's hits carry an id and a sort key besides the doc values) -/
def comap {μ' : Type} (g : μ' → μ) (c : Calc μ σ ρ) : Calc μ' σ ρ :=
  { init := c.init, consume := fun s m => c.consume s (g m), finish := c.finish, value := c.value }
end Calc

/-! ## metric.go / count.go -/
section Metrics
variable {μ α : Type}

/-- `SingleValueCalculator`: `for _, val := range s.src.Numbers(d) { s.compute(s, val) }`; `Finish` is empty -/
def svm (init : α) (compute : α → α → α) (src : μ → List α) : Calc μ α α where
  init := init
  consume s m := (src m).foldl compute s
  finish := id
  value := id

/-- `Sum`: `s.val += val` -/
def sumStep [Add α] (s v : α) : α := s + v
/-- `Min`: `if val < s.val { s.val = val }` -/
def minStep [LT α] [DecidableLT α] (s v : α) : α := if v < s then v else s
/-- `Max`: `if val > s.val { s.val = val }` -/
def maxStep [LT α] [DecidableLT α] (s v : α) : α := if s < v then v else s

/-- `countingSource.Numbers` = `staticCount` = `[]float64{1}` -/
def countSrc [OfNat α 1] : μ → List α := fun _ => [1]

/-- `Sum(src)`: init is the zero value of float64 -/
def sumCalc [Add α] [OfNat α 0] (src : μ → List α) : Calc μ α α := svm 0 sumStep src
/-- `CountMatches() = Sum(countSource)` -/
def countCalc [Add α] [OfNat α 0] [OfNat α 1] : Calc μ α α := sumCalc countSrc
/-- `Min(src)`; Go's init is `math.Inf(1)`, passed in as `inf` -/
def minCalc [LT α] [DecidableLT α] (inf : α) (src : μ → List α) : Calc μ α α := svm inf minStep src
/-- `MaxStartingAt(src, initial)`; `Max(src)` is `initial = math.Inf(-1)` -/
def maxCalc [LT α] [DecidableLT α] (initial : α) (src : μ → List α) : Calc μ α α := svm initial maxStep src

/-- `WeightedAvgCalculator{val, weights}` -/
structure WAvg (α : Type) where
  val : α
  weights : α
deriving Repr

/-- `weight := 1.0; if a.weight != nil { wv := a.weight.Numbers(d); if len(wv) > 0 { weight = wv[0] } }` -/
def weightOf [OfNat α 1] (weight : Option (μ → List α)) (m : μ) : α :=
  match weight with
  | none => 1
  | some ws => match ws m with
    | w :: _ => w
    | [] => 1

/-- `a.val += val * weight; a.weights += weight` -/
def wavgStep [Add α] [Mul α] (w : α) (s : WAvg α) (v : α) : WAvg α := ⟨s.val + v * w, s.weights + w⟩

/-- `WeightedAvg(src, weight)`; `Avg(src)` is `weight = nil`. `Value() = a.val / a.weights`. -/
def wavgCalc [Add α] [Mul α] [Div α] [OfNat α 0] [OfNat α 1]
    (src : μ → List α) (weight : Option (μ → List α)) : Calc μ (WAvg α) α where
  init := ⟨0, 0⟩
  consume s m := (src m).foldl (wavgStep (weightOf weight m)) s
  finish := id
  value s := s.val / s.weights

def avgCalc [Add α] [Mul α] [Div α] [OfNat α 0] [OfNat α 1] (src : μ → List α) : Calc μ (WAvg α) α :=
  wavgCalc src none
end Metrics

/-! ## cardinality.go / percentiles.go: any sketch with an insert operation -/

/-- `CardinalityCalculator` (`sketch.Insert(val)` for every value) and `QuantilesCalculator`
(`tdigest.Add(val)`), for an arbitrary sketch type `S` -/
def sketchCalc {μ β S : Type} (empty : S) (insert : S → β → S) (src : μ → List β) : Calc μ S S where
  init := empty
  consume s m := (src m).foldl insert s
  finish := id
  value := id

/-! ## terms.go -/

/-- `bucketsList` with `bucketsMap` as its index: update the bucket named `t`, or append a new one -/
def upsert {σ : Type} (f : σ → σ) (z : σ) (t : Term) : List (Term × σ) → List (Term × σ)
  | [] => [(t, f z)]
  | (k, s) :: bs => if k = t then (k, f s) :: bs else (k, s) :: upsert f z t bs

/-- `bucketsMap[t]` -/
def getB {σ : Type} (t : Term) : List (Term × σ) → Option σ
  | [] => none
  | (k, s) :: bs => if k = t then some s else getB t bs

structure TermsSt (σ : Type) where
  total : Nat
  buckets : List (Term × σ)     -- first-seen order
  /-- set by `Finish` -/
  other : Int := 0

/-- Go's `insertionSort` (what `sort.Sort` runs for ≤ 12 elements) under `sort.Reverse` of
`Less(a,b) = count a < count b`: an element moves left past every predecessor with a strictly smaller count.
On an already sorted prefix that is insertion before the first strictly smaller element. -/
def insDesc {σ : Type} (cnt : σ → Nat) (x : Term × σ) : List (Term × σ) → List (Term × σ)
  | [] => [x]
  | y :: ys => if cnt y.2 < cnt x.2 then x :: y :: ys else y :: insDesc cnt x ys

def isortDesc {σ : Type} (cnt : σ → Nat) (l : List (Term × σ)) : List (Term × σ) :=
  l.foldl (fun acc x => insDesc cnt x acc) []

def sumCounts {σ : Type} (cnt : σ → Nat) (l : List (Term × σ)) : Nat := (l.map fun b => cnt b.2).sum

/-- what is assumed of `sort.Sort` under `sort.Reverse(byCount)`: a permutation, in non-increasing count order
(nothing about the order of equal counts). `isortDesc` is one such sort (BlugeProofs.C16 `isortDesc_spec`). -/
structure SortSpec {σ : Type} (cnt : σ → Nat) (sort : List (Term × σ) → List (Term × σ)) : Prop where
  perm : ∀ l, (sort l).Perm l
  sorted : ∀ l, (sort l).Pairwise (fun a b => cnt b.2 ≤ cnt a.2)

structure TermsRes (ρ : Type) where
  /-- `Buckets()`: name, `Count()`, nested results — in the order returned -/
  buckets : List (Term × Nat × ρ)
  /-- `Other()` -/
  other : Int

/-- `TermsAggregation`/`TermsCalculator`. `sub` is the bucket of nested aggregations (it always contains
"count"), `cnt` reads `bucket.Aggregations()["count"].Value()` as an integer, `sort` is `sort.Sort` under
`sort.Reverse` (modelled, not verified: any stable or unstable sort by descending count; `isortDesc` is
what Go runs for at most 12 buckets).
`Finish` does NOT call `Finish` on the nested buckets (as in the code). -/
def termsCalc {μ σ ρ : Type} (src : μ → List Term) (size : Nat) (sub : Calc μ σ ρ) (cnt : σ → Nat)
    (sort : List (Term × σ) → List (Term × σ)) : Calc μ (TermsSt σ) (TermsRes ρ) where
  init := { total := 0, buckets := [] }
  consume st m :=
    { st with total := st.total + 1,
              buckets := (src m).foldl (fun bs t => upsert (fun s => sub.consume s m) sub.init t bs) st.buckets }
  finish st :=
    let kept := (sort st.buckets).take size     -- trimTopN = min(size, len)
    { st with buckets := kept, other := (st.total : Int) - (sumCounts cnt kept : Int) }
  value st := { buckets := st.buckets.map (fun b => (b.1, cnt b.2, sub.value b.2)), other := st.other }

/-! ## range.go / range_date.go -/

/-- `val >= rang.low && val < rang.high` -/
def inNumRange {α : Type} [LT α] [LE α] [DecidableLT α] [DecidableLE α] (r : α × α) (v : α) : Bool :=
  decide (r.1 ≤ v) && decide (v < r.2)

/-- date values are nanoseconds since the epoch (`time.Unix(0, i64)`); a bound is `none` when
`IsZero()`:
`if !start.IsZero() && val.Before(start) {continue}; if !end.IsZero() && (val.Equal(end) || val.After(end)) {continue}` -/
def inDateRange (r : Option Int × Option Int) (v : Int) : Bool :=
  (match r.1 with | some s => !decide (v < s) | none => true) &&
  (match r.2 with | some e => !(decide (v = e) || decide (e < v)) | none => true)

/-- `RangeCalculator` / `DateRangeCalculator`: one bucket per range, fed the match once per value in range;
`Finish` finishes every bucket. -/
def rangeCalc {μ β R σ ρ : Type} (src : μ → List β) (ranges : List R) (mem : R → β → Bool)
    (sub : Calc μ σ ρ) : Calc μ (List σ) (List ρ) where
  init := ranges.map fun _ => sub.init
  consume st m := (src m).foldl (fun st v =>
      List.zipWith (fun r s => if mem r v then sub.consume s m else s) ranges st) st
  finish st := st.map sub.finish
  value st := st.map sub.value

/-! ## Loading document values (search.go `LoadDocumentValues`, `addDocValue`; index/snapshot.go and the
segment's `visitDocumentFieldTerms`)

`for _, field := range fields { … dvr.visitDocValues(localDocNum, visitor) }` with
`visitor = dm.addDocValue` which APPENDS to `dm.docValues[name]`: a field listed k times in `neededFields`
has its values loaded k times. -/

/-- values repeated once per listing of the field -/
def rep {β : Type} (k : Nat) (vs : List β) : List β := (List.replicate k vs).flatten

/-- the doc values of a document, per field, as the index holds them -/
structure DocVals (α : Type) where
  num : Field → List α       -- FieldSource.Numbers: the shift-0 terms decoded
  txt : Field → List Term    -- FieldSource.Values
  date : Field → List Int    -- FieldSource.Dates (nanoseconds)

def load {α : Type} (needed : List Field) (d : DocVals α) : DocVals α where
  num f := rep (needed.count f) (d.num f)
  txt f := rep (needed.count f) (d.txt f)
  date f := rep (needed.count f) (d.date f)

/-! ## search/source.go: `FieldSource.Numbers` / `Dates` decode the shift-0 prefix-coded doc-value terms -/

/-- `for _, term := range f.Values(match) { shift, err := Shift(); if err == nil && shift == 0 { i64, err := Int64();
if err == nil { rv = append(rv, numeric.Int64ToFloat64(i64)) } } }` — floats as bit patterns -/
def numbersOf (terms : List (List Numeric.Byte)) : List Numeric.I64 :=
  terms.filterMap fun t =>
    match Numeric.shiftOf t with
    | some 0 => (Numeric.decode t).map Numeric.i2f
    | _ => none

/-- `FieldSource.Dates`: the same with `time.Unix(0, i64)` (nanoseconds kept as the int64) -/
def datesOf (terms : List (List Numeric.Byte)) : List Numeric.I64 :=
  terms.filterMap fun t =>
    match Numeric.shiftOf t with
    | some 0 => Numeric.decode t
    | _ => none

/-! ## Which fields an aggregation asks for (`Fields()` of each aggregation type) -/

/-! ### value sources: a field, or a filtering source over a field (search/aggregations/filter.go)

The predicates are first-order so that a request can be printed and parsed. -/

inductive NumPred (α : Type) where
  | ge (t : α)        -- keep v with t ≤ v
  | lt (t : α)        -- keep v with v < t
deriving Repr

inductive TxtPred where
  | isIn (vs : List Term)
  | notIn (vs : List Term)
deriving Repr

inductive DatePred where
  | ge (t : Int)
  | lt (t : Int)
deriving Repr

/-- `search.Field(f)` (`pred = none`) or `aggregations.FilterText/FilterNumeric/FilterDate(search.Field(f), pred)` -/
structure Src (π : Type) where
  field : Field
  pred : Option π := none
deriving Repr

instance {π : Type} : Coe Field (Src π) := ⟨fun f => { field := f }⟩

abbrev NSrc (α : Type) := Src (NumPred α)
abbrev TSrc := Src TxtPred
abbrev DSrc := Src DatePred

/-- `FilteringTextSource.Values` / `FilteringNumericSource.Numbers` / `FilteringDateSource.Dates`:
`values := f.source.X(match); for _, val := range values { if f.filter(val) { rv = append(rv, val) } }; return rv`
with `rv` a NEW slice: a source is a function of the match and never changes it. -/
def filterSrc {μ β : Type} (p : β → Bool) (src : μ → List β) : μ → List β := fun m => (src m).filter p

def TxtPred.keep : TxtPred → Term → Bool
  | .isIn vs => fun v => vs.contains v
  | .notIn vs => fun v => !vs.contains v

def DatePred.keep : DatePred → Int → Bool
  | .ge t => fun v => decide (t ≤ v)
  | .lt t => fun v => decide (v < t)

def NumPred.keep {α : Type} [LT α] [LE α] [DecidableLT α] [DecidableLE α] : NumPred α → α → Bool
  | .ge t => fun v => decide (t ≤ v)
  | .lt t => fun v => decide (v < t)

inductive Metric (α : Type) where
  | count
  | sum (f : NSrc α) | min (f : NSrc α) | max (f : NSrc α) | maxFrom (f : NSrc α) (init : α)
  | avg (f : NSrc α) | wavg (f w : NSrc α)
deriving Repr

/-- an aggregation nested inside the buckets of a terms / range aggregation: a metric or a sketch -/
inductive SubAgg (α : Type) where
  | metric (m : Metric α)
  | card (f : TSrc)
  | quant (f : NSrc α)
deriving Repr

inductive Agg (α : Type) where
  | metric (m : Metric α)
  | card (f : TSrc)
  | quant (f : NSrc α)
  | terms (f : TSrc) (size : Nat) (subs : List (SubAgg α))       -- "count" is always present
  | ranges (f : NSrc α) (rs : List (α × α)) (subs : List (SubAgg α))
  | dranges (f : DSrc) (rs : List (Option Int × Option Int)) (subs : List (SubAgg α))
deriving Repr

/-- `SingleValueMetric.Fields` / `WeightedAvgMetric.Fields` (`countSource.Fields()` is nil) -/
def Metric.fields {α : Type} : Metric α → List Field
  | .count => []
  | .sum f | .min f | .max f | .maxFrom f _ | .avg f => [f.field]   -- `FilteringXSource.Fields() = source.Fields()`
  | .wavg f w => [f.field, w.field]

/-- `CardinalityMetric.Fields` / `QuantilesMetric.Fields` = the source's fields -/
def SubAgg.fields {α : Type} : SubAgg α → List Field
  | .metric m => m.fields
  | .card f => [f.field]
  | .quant f => [f.field]

/-- Two facts about the code that decide which fields get loaded, and how often. The facts of the tree under
check are regenerated from its source on every run (`go/extract/c16.go` → `BlugeGen.C16` →
`Bluge.Agg.codeFacts` in `Bluge/C16/Code.lean`). -/
structure CodeFacts where
  /-- the list of needed fields is de-duplicated before the document values are loaded -/
  dedupNeeded : Bool
  /-- `RangeAggregation.Fields` / `DateRangeAggregation.Fields` include the nested aggregations' fields -/
  rangeFieldsNested : Bool
deriving DecidableEq, Repr

/-- the tree as first pinned (before the repairs 3f12f0c, 527db82): `neededFields = append(sort.Fields(), aggs.Fields()...)` is used as is, and
`RangeAggregation.Fields()` returns only `a.src.Fields()` -/
def pinnedFacts : CodeFacts := { dedupNeeded := false, rangeFieldsNested := false }

/-- the code with both repairs -/
def fixedFacts : CodeFacts := { dedupNeeded := true, rangeFieldsNested := true }

/-- `Fields()` of each aggregation. NOTE with `rangeFieldsNested = false` (the tree as first pinned) `RangeAggregation.Fields` and
`DateRangeAggregation.Fields` return only `a.src.Fields()` — the nested aggregations' fields are not
included; `TermsAggregation.Fields` does include them. -/
def Agg.fields {α : Type} (cf : CodeFacts) : Agg α → List Field
  | .metric m => m.fields
  | .card f => [f.field]
  | .quant f => [f.field]
  | .terms f _ subs => f.field :: subs.flatMap SubAgg.fields
  | .ranges f _ subs =>
    if cf.rangeFieldsNested then f.field :: subs.flatMap SubAgg.fields else [f.field]
  | .dranges f _ subs =>
    if cf.rangeFieldsNested then f.field :: subs.flatMap SubAgg.fields else [f.field]

/-- the fields an aggregation READS when it consumes a match -/
def Agg.reads {α : Type} : Agg α → List Field
  | .metric m => m.fields
  | .card f => [f.field]
  | .quant f => [f.field]
  | .terms f _ subs => f.field :: subs.flatMap SubAgg.fields
  | .ranges f _ subs => f.field :: subs.flatMap SubAgg.fields
  | .dranges f _ subs => f.field :: subs.flatMap SubAgg.fields

/-- keep one occurrence of every field -/
def dedup : List Field → List Field
  | [] => []
  | f :: l => if f ∈ dedup l then dedup l else f :: dedup l

/-- `hc.neededFields = append(sort.Fields(), aggs.Fields()...)` (TopN); `aggs.Fields()` (AllMatches: `sortFields = []`).
Only multiplicities matter, so the Go map's iteration order is irrelevant. -/
def neededFields {α : Type} (cf : CodeFacts) (sortFields : List Field) (aggs : List (Agg α)) : List Field :=
  let l := sortFields ++ aggs.flatMap (Agg.fields cf)
  if cf.dedupNeeded then dedup l else l

/-- every field the aggregations read is listed exactly once: then `load` is the identity on what they read -/
def LoadedOnce {α : Type} (cf : CodeFacts) (sortFields : List Field) (aggs : List (Agg α)) : Prop :=
  ∀ f ∈ aggs.flatMap Agg.reads, (neededFields cf sortFields aggs).count f = 1

instance {α : Type} (cf : CodeFacts) (sf : List Field) (aggs : List (Agg α)) : Decidable (LoadedOnce cf sf aggs) := by
  unfold LoadedOnce; exact List.decidableBAll _ _

/-- two documents agree on the fields `F` -/
def SameOn {α : Type} (F : List Field) (d d' : DocVals α) : Prop :=
  ∀ f ∈ F, d.num f = d'.num f ∧ d.txt f = d'.txt f ∧ d.date f = d'.date f

/-- the calculator looks at a match only through the fields `F` -/
def ReadsOnly {α σ ρ : Type} (c : Calc (DocVals α) σ ρ) (F : List Field) : Prop :=
  ∀ s d d', SameOn F d d' → c.consume s d = c.consume s d'

/-! ## The collectors: where `bucket.Consume` sits (collector/topn.go `collectSingle`, all.go) -/

structure Entry (μ κ : Type) where
  m : μ
  key : κ        -- SortValue
  hit : Nat      -- HitNumber

structure TopNCfg (κ : Type) where
  size : Nat
  skip : Nat
  /-- `searchAfter.SortValue` -/
  after : Option κ
  reverse : Bool
  /-- `SortOrder.Compare` on the sort values alone -/
  cmpKey : κ → κ → Ordering

/-- `SortOrder.Compare(i, j)`: sort values, then hit number -/
def cmpE {μ κ : Type} (cfg : TopNCfg κ) (a b : Entry μ κ) : Ordering :=
  match cfg.cmpKey a.key b.key with
  | .eq => compare a.hit b.hit
  | o => o

/-- `collectStoreSlice.add`: from the end, stop at the first element that `doc` is not below -/
def storeAdd {μ κ : Type} (cfg : TopNCfg κ) (e : Entry μ κ) (store : List (Entry μ κ)) : List (Entry μ κ) :=
  let rec go : List (Entry μ κ) → List (Entry μ κ)   -- on the reversed store
    | [] => [e]
    | x :: xs => if cmpE cfg e x != Ordering.lt then e :: x :: xs else x :: go xs
  (go store.reverse).reverse

/-- `AddNotExceedingSize` -/
def addNotExceeding {μ κ : Type} (cfg : TopNCfg κ) (e : Entry μ κ) (store : List (Entry μ κ)) (size : Nat) :
    List (Entry μ κ) × Option (Entry μ κ) :=
  let s := storeAdd cfg e store
  if s.length > size then (s.dropLast, s.getLast?) else (s, none)

/-- instrumentation only (not in the Go code): how often each way out of `collectSingle` was taken -/
structure Exits where
  afterSkip : Nat := 0
  shortcut : Nat := 0
  stored : Nat := 0
  evicted : Nat := 0

structure TopN (μ κ σ : Type) where
  bucket : σ
  store : List (Entry μ κ)
  /-- lowestMatchOutsideResults -/
  lowest : Option (Entry μ κ)
  hitNumber : Nat
  exits : Exits := {}

/-- the order of the statements of `collectSingle` that the model below transcribes; `BlugeGen.C16.collectSingleOrder`
is the same list regenerated from the source (obligation `collect_single_order`) -/
def collectSingleSteps : List String := ["load", "sort", "consume", "after", "shortcut", "store"]

/-- … and of `AllIterator.Next` (obligation `all_next_order`) -/
def allNextSteps : List String := ["done-guard", "next", "end-of-matches", "load", "consume", "return-match"]

/-- `collectSingle` in statement order: load doc values → compute sort → `bucket.Consume` → paging key →
shortcut → store. `δ` is the hit as the searcher delivers it. Returns the new state and which way out was taken. -/
def collectSingle {δ μ κ σ ρ : Type} (cfg : TopNCfg κ) (load : δ → μ) (key : μ → κ) (c : Calc μ σ ρ)
    (st : TopN μ κ σ) (d : δ) : TopN μ κ σ :=
  let hit := st.hitNumber + 1                       -- hitNumber++ (in Collect)
  let m := load d                                   -- d.LoadDocumentValues(ctx, hc.neededFields)
  let e : Entry μ κ := ⟨m, key m, hit⟩              -- hc.sort.Compute(d)
  let st := { st with bucket := c.consume st.bucket m, hitNumber := hit }   -- bucket.Consume(d)
  -- searchAfter: `hc.searchAfter.HitNumber = d.HitNumber; if Compare(d, searchAfter) <= 0 { return }`
  if (match cfg.after with | some a => cmpE cfg e ⟨m, a, hit⟩ != Ordering.gt | none => false) then
    { st with exits := { st.exits with afterSkip := st.exits.afterSkip + 1 } }
  -- `if lowestMatchOutsideResults != nil && Compare(d, lowest) >= 0 { return }`
  else if (match st.lowest with | some l => cmpE cfg e l != Ordering.lt | none => false) then
    { st with exits := { st.exits with shortcut := st.exits.shortcut + 1 } }
  else
    let r := addNotExceeding cfg e st.store (cfg.size + cfg.skip)
    let lowest := match r.2, st.lowest with
      | none, l => l
      | some x, none => some x
      | some x, some l => if cmpE cfg x l == Ordering.lt then some x else some l
    { st with store := r.1, lowest := lowest,
              exits := { st.exits with stored := st.exits.stored + 1,
                                       evicted := st.exits.evicted + (if r.2.isSome then 1 else 0) } }

structure TopNResult (μ κ σ : Type) where
  /-- the bucket handed back by the iterator's `Aggregations()` (after `bucket.Finish()`) -/
  bucket : σ
  hits : List (Entry μ κ)
  exits : Exits := {}

/-- `TopNCollector.Collect` -/
def collectTopN {δ μ κ σ ρ : Type} (cfg : TopNCfg κ) (load : δ → μ) (key : μ → κ) (c : Calc μ σ ρ)
    (ds : List δ) : TopNResult μ κ σ :=
  let st := ds.foldl (collectSingle cfg load key c) { bucket := c.init, store := [], lowest := none, hitNumber := 0 }
  let res := st.store.drop cfg.skip                 -- store.Final(skip)
  { bucket := c.finish st.bucket, hits := if cfg.reverse then res.reverse else res, exits := st.exits }

/-- `AllIterator` -/
structure AllIt (δ σ : Type) where
  bucket : σ
  rest : List δ
  hitNumber : Nat
  done : Bool

def AllIt.start {δ μ σ ρ : Type} (c : Calc μ σ ρ) (ds : List δ) : AllIt δ σ := ⟨c.init, ds, 0, false⟩

/-- `AllIterator.Next` -/
def AllIt.next {δ μ σ ρ : Type} (load : δ → μ) (c : Calc μ σ ρ) (it : AllIt δ σ) : AllIt δ σ × Option μ :=
  if it.done then (it, none) else
  match it.rest with
  | [] => ({ it with bucket := c.finish it.bucket, done := true }, none)
  | d :: r =>
    let m := load d
    ({ it with bucket := c.consume it.bucket m, rest := r, hitNumber := it.hitNumber + 1 }, some m)

/-- call `Next` `k` times, collecting what it returned -/
def AllIt.nexts {δ μ σ ρ : Type} (load : δ → μ) (c : Calc μ σ ρ) : Nat → AllIt δ σ → AllIt δ σ × List μ
  | 0, it => (it, [])
  | k + 1, it =>
    let r := AllIt.next load c it
    let r2 := AllIt.nexts load c k r.1
    (r2.1, (match r.2 with | some m => [m] | none => []) ++ r2.2)

/-! ## Specifications: direct counting over the matched documents' values -/
section Spec
variable {μ α β : Type}

/-- all values of the matches, in match order -/
def allVals (src : μ → List β) (ms : List μ) : List β := ms.flatMap src

/-- left-to-right sum (the order matters only at `Float`) -/
def lsum [Add α] [OfNat α 0] (vs : List α) : α := vs.foldl (· + ·) 0

def specSum [Add α] [OfNat α 0] (src : μ → List α) (ms : List μ) : α := lsum (allVals src ms)
def specMin [LT α] [DecidableLT α] (inf : α) (src : μ → List α) (ms : List μ) : α :=
  (allVals src ms).foldl minStep inf
def specMax [LT α] [DecidableLT α] (initial : α) (src : μ → List α) (ms : List μ) : α :=
  (allVals src ms).foldl maxStep initial
/-- Σ v·w / Σ w over (value, weight of its document) pairs -/
def specWAvg [Add α] [Mul α] [Div α] [OfNat α 0] [OfNat α 1] (src : μ → List α) (weight : Option (μ → List α))
    (ms : List μ) : α :=
  let ps := ms.flatMap fun m => (src m).map fun v => (v, weightOf weight m)
  lsum (ps.map fun p => p.1 * p.2) / lsum (ps.map fun p => p.2)

/-- the matches having value `t` (once per occurrence; doc values of a document are distinct, so once) -/
def occ (src : μ → List Term) (t : Term) (ms : List μ) : List μ :=
  ms.flatMap fun m => List.replicate ((src m).count t) m

/-- matches having `t` among their values -/
def having (src : μ → List Term) (t : Term) (ms : List μ) : List μ := ms.filter fun m => (src m).contains t

/-- the match fed to range bucket `r`: once per value inside the range -/
def occR {R : Type} (src : μ → List β) (mem : R → β → Bool) (r : R) (ms : List μ) : List μ :=
  ms.flatMap fun m => List.replicate ((src m).countP (mem r)) m

/-- number of values inside the range -/
def valuesIn {R : Type} (src : μ → List β) (mem : R → β → Bool) (r : R) (ms : List μ) : Nat :=
  (allVals src ms).countP (mem r)
end Spec

/-! ## From the request to calculators: what `Aggregation.Calculator()` builds

One universal state type per level so that a bucket (`Calc.all`) can hold calculators of different kinds;
`embed_run` (BlugeProofs.C16) shows the embedding changes nothing. -/
section Interp

inductive MSt (α : Type) where
  | one (v : α)            -- SingleValueCalculator.val
  | two (w : WAvg α)       -- WeightedAvgCalculator{val, weights}

/-- state of one nested aggregation of a bucket -/
inductive SSt (α S Q : Type) where
  | m (s : MSt α)
  | card (s : S)
  | quant (q : Q)

/-- what is read from one nested aggregation of a bucket -/
inductive SRes (α S Q : Type) where
  | m (v : α)
  | card (s : S)
  | quant (q : Q)

/-- what is not in the request: the two infinities, `uint64(x)`, `float64(n)` (specification only), the sort used
by `TermsCalculator.Finish`, and the two sketch types -/
structure Env (α S Q : Type) where
  posInf : α
  negInf : α
  toNat : α → Nat
  ofNat : Nat → α
  sort : List (Term × List (SSt α S Q)) → List (Term × List (SSt α S Q))
  hll : S
  hllInsert : S → Term → S
  td : Q
  tdAdd : Q → α → Q

inductive ASt (α S Q : Type) where
  | m (s : MSt α)
  | t (s : TermsSt (List (SSt α S Q)))
  | r (s : List (List (SSt α S Q)))
  | card (s : S)
  | quant (q : Q)

inductive ARes (α S Q : Type) where
  | m (v : α)
  /-- nested results: "count" first, then the nested metrics in request order -/
  | t (res : TermsRes (List (SRes α S Q)))
  | r (bs : List (List (SRes α S Q)))
  | card (s : S)
  | quant (q : Q)

variable {α S Q : Type} [Add α] [Mul α] [Div α] [OfNat α 0] [OfNat α 1] [LT α] [LE α] [DecidableLT α] [DecidableLE α]

/-- `FieldSource.Numbers` of the field, through the filter when the source is a `FilteringNumericSource` -/
def numSrc (s : NSrc α) : DocVals α → List α :=
  match s.pred with
  | none => fun d => d.num s.field
  | some p => filterSrc p.keep fun d => d.num s.field
/-- `FieldSource.Values`, through the filter when the source is a `FilteringTextSource` -/
def txtSrc (s : TSrc) : DocVals α → List Term :=
  match s.pred with
  | none => fun d => d.txt s.field
  | some p => filterSrc p.keep fun d => d.txt s.field
/-- `FieldSource.Dates`, through the filter when the source is a `FilteringDateSource` -/
def dateSrc (s : DSrc) : DocVals α → List Int :=
  match s.pred with
  | none => fun d => d.date s.field
  | some p => filterSrc p.keep fun d => d.date s.field

def MSt.one? : MSt α → Option α | .one v => some v | _ => none
def MSt.two? : MSt α → Option (WAvg α) | .two w => some w | _ => none

def metricCalc (env : Env α S Q) : Metric α → Calc (DocVals α) (MSt α) α
  | .count => (countCalc).embed MSt.one MSt.one? 0
  | .sum f => (sumCalc (numSrc f)).embed MSt.one MSt.one? 0
  | .min f => (minCalc env.posInf (numSrc f)).embed MSt.one MSt.one? 0
  | .max f => (maxCalc env.negInf (numSrc f)).embed MSt.one MSt.one? 0
  | .maxFrom f i => (maxCalc i (numSrc f)).embed MSt.one MSt.one? 0
  | .avg f => (avgCalc (numSrc f)).embed MSt.two MSt.two? 0
  | .wavg f w => (wavgCalc (numSrc f) (some (numSrc w))).embed MSt.two MSt.two? 0

def SSt.m? : SSt α S Q → Option (MSt α) | .m s => some s | _ => none
def SSt.card? : SSt α S Q → Option S | .card s => some s | _ => none
def SSt.quant? : SSt α S Q → Option Q | .quant s => some s | _ => none

/-- one nested aggregation: a metric, or a sketch fed by `CardinalityCalculator.Consume` / `QuantilesCalculator.Consume` -/
def subCalc1 (env : Env α S Q) : SubAgg α → Calc (DocVals α) (SSt α S Q) (SRes α S Q)
  | .metric m => ((metricCalc env m).mapVal SRes.m).embed SSt.m SSt.m? (.m 0)
  | .card f => ((sketchCalc env.hll env.hllInsert (txtSrc f)).mapVal SRes.card).embed SSt.card SSt.card? (.m 0)
  | .quant f => ((sketchCalc env.td env.tdAdd (numSrc f)).mapVal SRes.quant).embed SSt.quant SSt.quant? (.m 0)

/-- the bucket of nested aggregations of a terms / range bucket: "count" first, then the requested ones.
Every bucket gets its OWN calculators (`search.NewBucket` calls `Calculator()` of every definition; that each call
builds fresh state is the regenerated fact `BlugeGen.C16.sharedMutable = []`). -/
def subCalc (env : Env α S Q) (subs : List (SubAgg α)) : Calc (DocVals α) (List (SSt α S Q)) (List (SRes α S Q)) :=
  Calc.all ((SubAgg.metric .count :: subs).map (subCalc1 env))

/-- `uint64(bucket.Aggregations()["count"].Value())` -/
def cntOf (env : Env α S Q) : List (SSt α S Q) → Nat
  | .m (.one v) :: _ => env.toNat v
  | _ => 0

def ASt.m? : ASt α S Q → Option (MSt α) | .m s => some s | _ => none
def ASt.t? : ASt α S Q → Option (TermsSt (List (SSt α S Q))) | .t s => some s | _ => none
def ASt.r? : ASt α S Q → Option (List (List (SSt α S Q))) | .r s => some s | _ => none
def ASt.card? : ASt α S Q → Option S | .card s => some s | _ => none
def ASt.quant? : ASt α S Q → Option Q | .quant s => some s | _ => none

def aggCalc (env : Env α S Q) : Agg α → Calc (DocVals α) (ASt α S Q) (ARes α S Q)
  | .metric m => ((metricCalc env m).mapVal ARes.m).embed ASt.m ASt.m? (.m 0)
  | .card f => ((sketchCalc env.hll env.hllInsert (txtSrc f)).mapVal ARes.card).embed ASt.card ASt.card? (.m 0)
  | .quant f => ((sketchCalc env.td env.tdAdd (numSrc f)).mapVal ARes.quant).embed ASt.quant ASt.quant? (.m 0)
  | .terms f size subs =>
      ((termsCalc (txtSrc f) size (subCalc env subs) (cntOf env) env.sort).mapVal ARes.t).embed ASt.t ASt.t? (.m 0)
  | .ranges f rs subs =>
      ((rangeCalc (numSrc f) rs inNumRange (subCalc env subs)).mapVal ARes.r).embed ASt.r ASt.r? (.m 0)
  | .dranges f rs subs =>
      ((rangeCalc (dateSrc f) rs inDateRange (subCalc env subs)).mapVal ARes.r).embed ASt.r ASt.r? (.m 0)

/-- `search.NewBucket("", aggs)`: the top-level bucket of a request -/
def bucketCalc (env : Env α S Q) (aggs : List (Agg α)) : Calc (DocVals α) (List (ASt α S Q)) (List (ARes α S Q)) :=
  Calc.all (aggs.map (aggCalc env))

/-- direct definition of a metric over a list of matches -/
def specMetric (env : Env α S Q) (m : Metric α) (ms : List (DocVals α)) : α :=
  match m with
  | .count => env.ofNat ms.length
  | .sum f => specSum (numSrc f) ms
  | .min f => specMin env.posInf (numSrc f) ms
  | .max f => specMax env.negInf (numSrc f) ms
  | .maxFrom f i => specMax i (numSrc f) ms
  | .avg f => specWAvg (numSrc f) none ms
  | .wavg f w => specWAvg (numSrc f) (some (numSrc w)) ms

/-- direct definition of one nested aggregation: the metric's definition, or the sketch fed the values directly -/
def specSub (env : Env α S Q) (x : SubAgg α) (ms : List (DocVals α)) : SRes α S Q :=
  match x with
  | .metric m => .m (specMetric env m ms)
  | .card f => .card ((allVals (txtSrc f) ms).foldl env.hllInsert env.hll)
  | .quant f => .quant ((allVals (numSrc f) ms).foldl env.tdAdd env.td)

def specSubs (env : Env α S Q) (subs : List (SubAgg α)) (ms : List (DocVals α)) : List (SRes α S Q) :=
  (SubAgg.metric .count :: subs).map fun x => specSub env x ms
end Interp

end Bluge.Agg

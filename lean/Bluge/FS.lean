/-! # Bluge.FS — the small file system (DESIGN 4.4) and the interpreter of extracted FS programs

Core Lean only.  A *program* (`Prog`) is what `go/extract/c13.go` reads off the body of a Go function
such as `FileSystemDirectory.Persist`: the file-system calls in order, and for each one the clean-up
calls of its `if err != nil { …; return err }` branch.  `interp` runs a program against a one-handle
file system in an *environment* `Env` that fixes everything the program does not decide: the bytes the
`WriterTo` produces, how it chunks them, where it stops with an error (failure or cancellation), which
system calls fail, and whether somebody else holds a lock on the file.

Semantics that matter (and that the correspondence stream `fs` of C13 checks against the real code):
* a file is `vol` (what a reader sees now) and `dur` (what survives a crash: the image at the last
  successful `fsync`; `none` = nothing durable yet);
* `open` without `O_TRUNC` keeps the old bytes; a `write` at offset `pos` replaces `data.length` bytes
  and **keeps everything behind them**; only `truncate`/`O_TRUNC` shorten a file;
* `O_CREATE` creates the (empty) file *before* the lock is attempted, so a failed lock leaves it behind;
* `close` always releases the handle, even when it reports an error; a second close fails;
* `unlink` removes the name; a failing `unlink` leaves the file.

The same program type serves `Lock`/`Unlock` (pid file), `Load`, the two loaders and the closers they return
(`write`, `removeAll`, `mmap`, `unmap`, `dataFile`; `FsStep.always` for "run both, return the first error").
Section `World` below is a second, several-actor semantics of the same programs in which `flock` locks are
state (on the inode, per open file description) instead of an assumption of the environment: that is where
`lock_exclusive`, `second_writer_refused`, `unlock_releases`, `load_shared_lock_blocks_remove` are proved.
-/
namespace Bluge.FS

abbrev Bytes := List (BitVec 8)
/-- a file name inside the directory (the item id; the kind only changes the extension) -/
abbrev Name := Nat

structure File where
  vol : Bytes
  dur : Option Bytes
deriving DecidableEq, Repr

inductive OFlag | O_RDONLY | O_WRONLY | O_RDWR | O_APPEND | O_CREATE | O_EXCL | O_SYNC | O_TRUNC
deriving DecidableEq, Repr

inductive LockMode | none | shared | exclusive
deriving DecidableEq, Repr

/-- one file-system call of the program; every call refers to the one path / the one handle of the program -/
inductive FsOp
  | openFile (flags : List OFlag) (perm : Nat) (lock : LockMode)
  | truncate (n : Nat)
  | writeTo                      -- the `WriterTo` callback, writing to the open handle
  | sync
  | close
  | remove                       -- `os.Remove(path)`
  | write                        -- `h.File().Write(bytes)`: the content in ONE write call (the pid line of `Lock`)
  | removeAll                    -- `os.RemoveAll(path)`: no error when the path is absent
  | mmap                         -- `mmap.Map(h.File(), mmap.RDONLY, 0)`
  | unmap                        -- `mm.Unmap()`
  | dataFile                     -- `segment.NewDataFile(h.File())` (a `Stat` of the open file)
deriving DecidableEq, Repr

/-- one statement of the program -/
inductive FsStep
  | act (op : FsOp) (onErr : List FsOp)   -- `err = op; if err != nil { onErr… (results ignored); return err }`
  | ignore (op : FsOp)                    -- `_ = op`
  | deferOps (ops : List FsOp)            -- `defer func() { _ = op … }()`
  | always (op : FsOp)                    -- `errK := op` — the next steps run whatever it returns; the function
                                          -- returns the first error of these calls (`if err == nil { err = errK }`)
deriving DecidableEq, Repr

abbrev Prog := List FsStep

structure Handle where
  name : Name
  pos : Nat
  writable : Bool
  append : Bool
deriving DecidableEq, Repr

structure FSState where
  dir : Name → Option File
  h : Option Handle := none

/-- everything the environment decides -/
structure Env where
  name : Name                          -- the path the program works on
  content : Bytes                      -- the bytes the writer produces
  chunks : List Nat := []              -- sizes of its successive `Write` calls (the rest in one call)
  writerStop : Option Nat := none      -- `some k`: after k bytes the writer returns an error (failure or cancellation)
  openFault : Bool := false            -- `OpenFile` itself fails (nothing is created)
  otherLock : LockMode := .none        -- a lock held on the file by another open file description
  truncFault : Bool := false
  syncFault : Bool := false
  closeFault : Bool := false           -- close reports an error (the handle is released all the same)
  removeFault : Bool := false
  mmapFault : Bool := false            -- `mmap` fails although the file is not empty

inductive Ev
  | open (flags : List OFlag) (perm : Nat) (ok : Bool)
  | flock (excl : Bool) (ok : Bool)
  | trunc (n : Nat) (ok : Bool)
  | write (n : Nat)
  | writerRet (ok : Bool)
  | fsync (ok : Bool)
  | close (ok : Bool)
  | unlink (ok : Bool)
  | ret (ok : Bool)
  | mmap (ok : Bool)
  | munmap
deriving DecidableEq, Repr

abbrev Trace := List Ev

inductive Result | ok | err
deriving DecidableEq, Repr

def upd (d : Name → Option File) (n : Name) (v : Option File) : Name → Option File :=
  fun m => if m = n then v else d m

/-- `pwrite`: replace `data.length` bytes at `pos` (zero-filling a hole), keep what lies behind -/
def overwrite (old : Bytes) (pos : Nat) (data : Bytes) : Bytes :=
  old.take pos ++ List.replicate (pos - old.length) 0 ++ data ++ old.drop (pos + data.length)

/-- split the writer's bytes into its `Write` calls -/
def chunkUp (bs : Bytes) : List Nat → List Bytes
  | [] => if bs.isEmpty then [] else [bs]
  | c :: cs => if bs.isEmpty then [] else bs.take c :: chunkUp (bs.drop c) cs

/-- the successive writes of one writer call: new volatile image, new offset, events -/
def writeChunks (vol : Bytes) (pos : Nat) (app : Bool) : List Bytes → Bytes × Nat × List Ev
  | [] => (vol, pos, [])
  | c :: cs =>
    let p := if app then vol.length else pos
    let r := writeChunks (overwrite vol p c) (p + c.length) app cs
    (r.1, r.2.1, Ev.write c.length :: r.2.2)

/-- the bytes the writer actually hands to `Write` before it returns -/
def written (env : Env) : Bytes :=
  match env.writerStop with
  | some k => env.content.take k
  | none => env.content

def lockBlocked (mine other : LockMode) : Bool :=
  match mine, other with
  | .none, _ => false
  | _, .none => false
  | .shared, .shared => false
  | _, _ => true

def isWritable (flags : List OFlag) : Bool := flags.contains .O_RDWR || flags.contains .O_WRONLY

/-- after `OpenFile` succeeded on directory image `d`: take the lock (as `lock.open` does: non-blocking,
closing the file when the lock is busy) -/
def finishOpen (env : Env) (s : FSState) (d : Name → Option File) (flags : List OFlag) (perm : Nat)
    (lock : LockMode) : Bool × FSState × List Ev :=
  let h : Handle := ⟨env.name, 0, isWritable flags, flags.contains .O_APPEND⟩
  match lock with
  | .none => (true, ⟨d, some h⟩, [.open flags perm true])
  | _ =>
    if lockBlocked lock env.otherLock then
      (false, ⟨d, s.h⟩, [.open flags perm true, .flock (lock == .exclusive) false, .close true])
    else (true, ⟨d, some h⟩, [.open flags perm true, .flock (lock == .exclusive) true])

/-- one call: (succeeded?, new state, events) -/
def runOp (env : Env) (s : FSState) : FsOp → Bool × FSState × List Ev
  | .openFile flags perm lock =>
    if env.openFault then (false, s, [.open flags perm false]) else
    match s.dir env.name with
    | none =>
      if flags.contains .O_CREATE then
        finishOpen env s (upd s.dir env.name (some ⟨[], none⟩)) flags perm lock
      else (false, s, [.open flags perm false])
    | some f =>
      if flags.contains .O_CREATE && flags.contains .O_EXCL then (false, s, [.open flags perm false])
      else if flags.contains .O_TRUNC && isWritable flags then
        finishOpen env s (upd s.dir env.name (some { f with vol := [] })) flags perm lock
      else finishOpen env s s.dir flags perm lock
  | .truncate n =>
    match s.h with
    | none => (false, s, [.trunc n false])
    | some h =>
      if env.truncFault || !h.writable then (false, s, [.trunc n false]) else
      match s.dir h.name with
      | none => (true, s, [.trunc n true])          -- unlinked meanwhile: the orphan inode is not modelled
      | some f =>
        (true, { s with dir := upd s.dir h.name (some { f with vol := f.vol.take n ++ List.replicate (n - f.vol.length) 0 }) },
          [.trunc n true])
  | .writeTo =>
    let cs := chunkUp (written env) env.chunks
    let wok := env.writerStop.isNone
    match s.h with
    | none => (wok && cs.isEmpty, s, [.writerRet (wok && cs.isEmpty)])   -- the first Write fails; an honest writer reports it
    | some h =>
      if !h.writable then (wok && cs.isEmpty, s, [.writerRet (wok && cs.isEmpty)]) else
      match s.dir h.name with
      | none => (wok, s, [.writerRet wok])
      | some f =>
        let r := writeChunks f.vol h.pos h.append cs
        (wok, ⟨upd s.dir h.name (some { f with vol := r.1 }), some { h with pos := r.2.1 }⟩, r.2.2 ++ [.writerRet wok])
  | .sync =>
    match s.h with
    | none => (false, s, [.fsync false])
    | some h =>
      if env.syncFault then (false, s, [.fsync false]) else
      match s.dir h.name with
      | none => (true, s, [.fsync true])
      | some f => (true, { s with dir := upd s.dir h.name (some { f with dur := some f.vol }) }, [.fsync true])
  | .close =>
    match s.h with
    | none => (false, s, [.close false])
    | some _ => (!env.closeFault, { s with h := none }, [.close (!env.closeFault)])
  | .remove =>
    if env.removeFault then (false, s, [.unlink false]) else
    match s.dir env.name with
    | none => (false, s, [.unlink false])
    | some _ => (true, { s with dir := upd s.dir env.name none }, [.unlink true])
  | .write =>
    let data := written env
    let wok := env.writerStop.isNone
    match s.h with
    | none => (false, s, [])
    | some h =>
      if !h.writable then (false, s, []) else
      match s.dir h.name with
      | none => (wok, s, [.write data.length])
      | some f =>
        let p := if h.append then f.vol.length else h.pos
        (wok, ⟨upd s.dir h.name (some { f with vol := overwrite f.vol p data }), some { h with pos := p + data.length }⟩,
          [.write data.length])
  | .removeAll =>
    if env.removeFault then (false, s, [.unlink false]) else
    match s.dir env.name with
    | none => (true, s, [.unlink false])            -- ENOENT is not an error for RemoveAll
    | some _ => (true, { s with dir := upd s.dir env.name none }, [.unlink true])
  | .mmap =>
    match s.h with
    | none => (false, s, [.mmap false])
    | some h =>
      -- a mapping of length 0 is refused by the kernel (EINVAL): an empty file cannot be mapped
      let empty := match s.dir h.name with | some f => f.vol.isEmpty | none => false
      if env.mmapFault || empty then (false, s, [.mmap false]) else (true, s, [.mmap true])
  | .unmap => (true, s, [.munmap])
  | .dataFile =>
    match s.h with
    | none => (false, s, [])
    | some _ => (true, s, [])

/-- calls whose results are ignored (clean-up closures, deferred calls) -/
def runQuiet (env : Env) (s : FSState) : List FsOp → FSState × List Ev
  | [] => (s, [])
  | op :: ops =>
    let r := runOp env s op
    let q := runQuiet env r.2.1 ops
    (q.1, r.2.2 ++ q.2)

/-- the statements in order; `true` = the function returns nil -/
def body (env : Env) (s : FSState) : Prog → Bool × FSState × List Ev
  | [] => (true, s, [])
  | .act op onErr :: rest =>
    let r := runOp env s op
    if r.1 then
      let b := body env r.2.1 rest
      (b.1, b.2.1, r.2.2 ++ b.2.2)
    else
      let q := runQuiet env r.2.1 onErr
      (false, q.1, r.2.2 ++ q.2)
  | .ignore op :: rest =>
    let r := runOp env s op
    let b := body env r.2.1 rest
    (b.1, b.2.1, r.2.2 ++ b.2.2)
  | .deferOps ops :: rest =>
    let b := body env s rest
    let q := runQuiet env b.2.1 ops
    (b.1, q.1, b.2.2 ++ q.2)
  | .always op :: rest =>
    let r := runOp env s op
    let b := body env r.2.1 rest
    (r.1 && b.1, b.2.1, r.2.2 ++ b.2.2)

def interp (prog : Prog) (env : Env) (s : FSState) : Result × FSState × Trace :=
  let b := body env s prog
  (if b.1 then .ok else .err, b.2.1, b.2.2 ++ [.ret b.1])

/-! ## Specification -/

/-- scan a trace: is the image durable (an `fsync` succeeded and nothing modified the file since)? -/
def syncScan : Bool → List Ev → Bool
  | b, [] => b
  | _, .write _ :: t => syncScan false t
  | _, .trunc _ true :: t => syncScan false t
  | _, .fsync true :: t => syncScan true t
  | b, _ :: t => syncScan b t

/-- an `fsync` was issued after the last modification of the file and before the return -/
def syncedAtReturn (t : Trace) : Bool := syncScan false t

/-- success is reported only for an exact, durable file, with the handle released -/
def ExactDurable (prog : Prog) : Prop :=
  ∀ (env : Env) (s : FSState), (interp prog env s).1 = .ok →
    (interp prog env s).2.1.dir env.name = some ⟨env.content, some env.content⟩ ∧
    (interp prog env s).2.1.h = none ∧
    syncedAtReturn (interp prog env s).2.2 = true

/-- the prior file of that name, if any, is not longer than the new content -/
def PriorNotLonger (env : Env) (s : FSState) : Prop :=
  ∀ f, s.dir env.name = some f → f.vol.length ≤ env.content.length

instance (env : Env) (s : FSState) : Decidable (PriorNotLonger env s) := by
  unfold PriorNotLonger
  cases h : s.dir env.name with
  | none => exact isTrue (by intro f hf; cases hf)
  | some g =>
    by_cases hl : g.vol.length ≤ env.content.length
    · exact isTrue (by intro f hf; cases hf; exact hl)
    · exact isFalse (by intro hh; exact hl (hh g rfl))

/-- `ExactDurable` restricted to prior files that are not longer -/
def ExactDurableIfNotLonger (prog : Prog) : Prop :=
  ∀ (env : Env) (s : FSState), PriorNotLonger env s → (interp prog env s).1 = .ok →
    (interp prog env s).2.1.dir env.name = some ⟨env.content, some env.content⟩ ∧
    (interp prog env s).2.1.h = none ∧
    syncedAtReturn (interp prog env s).2.2 = true

/-- the open will succeed: `OpenFile` does not fail and nobody else holds a lock on the file -/
def OpenOk (env : Env) : Bool := !env.openFault && env.otherLock == .none

/-- failure leaves nothing under the name (given that the file could be opened and `unlink` works),
and every writer failure / cancellation / Sync failure / Close failure *is* reported -/
def FailClean (prog : Prog) : Prop :=
  ∀ (env : Env) (s : FSState), OpenOk env = true → env.removeFault = false →
    ((interp prog env s).1 = .err →
        (interp prog env s).2.1.dir env.name = none ∧ (interp prog env s).2.1.h = none) ∧
    ((interp prog env s).1 = .ok →
        env.writerStop = none ∧ env.syncFault = false ∧ env.closeFault = false)

/-- no other name is touched -/
def Frame (prog : Prog) : Prop :=
  ∀ (env : Env) (s : FSState) (n : Name), n ≠ env.name → (interp prog env s).2.1.dir n = s.dir n

/-! ## The shape of a persist routine

The theorems of C13 are proved for every program of the family `canon p` and transported to the
generated program by a `decide`-checked equality (`BlugeProofs.C13.persist_shape`). -/

structure PersistShape where
  flags : List OFlag
  perm : Nat
  lock : LockMode
  trunc : Bool          -- a `Truncate(0)` step between the open and the writer call
deriving DecidableEq, Repr

def cleanupOps : List FsOp := [.close, .remove]

def canon (p : PersistShape) : Prog :=
  .act (.openFile p.flags p.perm p.lock) [] ::
  ((if p.trunc then [FsStep.act (.truncate 0) cleanupOps] else []) ++
   [.act .writeTo cleanupOps, .act .sync cleanupOps, .act .close cleanupOps])

/-- flags with which the routine can work at all: creates, writable, writes at the offset, no `O_EXCL` -/
def Good (p : PersistShape) : Bool :=
  p.flags.contains .O_CREATE && isWritable p.flags && !p.flags.contains .O_APPEND && !p.flags.contains .O_EXCL

def shapeOf : Prog → PersistShape
  | .act (.openFile fl pm lk) _ :: .act (.truncate 0) _ :: _ => ⟨fl, pm, lk, true⟩
  | .act (.openFile fl pm lk) _ :: _ => ⟨fl, pm, lk, false⟩
  | _ => ⟨[], 0, .none, false⟩

/-- does the open truncate (before the lock is known to be ours)? -/
def openTruncates : Prog → Bool
  | .act (.openFile fl _ _) _ :: _ => fl.contains .O_TRUNC
  | _ => false

/-- is the file emptied between the open and the first write? (`O_TRUNC`, or a `Truncate(0)` step) -/
def HasTruncate (prog : Prog) : Bool :=
  openTruncates prog || (shapeOf prog).trunc

/-- the shape of `remove`: exclusive open, deferred close, unlink -/
def canonRemove (flags : List OFlag) (perm : Nat) (lock : LockMode) : Prog :=
  [.act (.openFile flags perm lock) [], .deferOps [.close], .act .remove []]

def removeShapeOf : Prog → List OFlag × Nat × LockMode
  | .act (.openFile fl pm lk) _ :: _ => (fl, pm, lk)
  | _ => ([], 0, .none)


/-! ## Several actors on one path: locks as state (`Lock`/`Unlock` on `bluge.pid`, items held by readers)

`interp` above has one handle and takes "somebody else holds a lock" from the environment.  Here the
locks are state.  One path; the directory entry (`link`) names an inode; every actor (a
`FileSystemDirectory` object of some process: a writer, a second writer, a reader, the deletion policy)
has at most one open file description on the path.  `flock` locks belong to the open file description
and sit on the INODE, not on the name: unlinking the name while somebody holds a lock on the inode and
creating the name again yields a fresh inode with no lock on it — which is why a refused second writer
must not remove `bluge.pid` (`refused_unlock_admits_third` in `BlugeProofs.C13`).

The same extracted programs (`Prog`) run here as in `interp`; no faults are injected (they are `interp`'s
business), the writer's bytes are the parameter `data`. -/
namespace World

abbrev Actor := Nat

structure Inode where
  vol : Bytes := []
  dur : Option Bytes := none
  /-- the `flock`s held on this inode: (actor whose open file description holds it, exclusive?) -/
  locks : List (Actor × Bool) := []
deriving DecidableEq, Repr

structure Fd where
  ino : Nat
  writable : Bool
  pos : Nat
  lock : LockMode
deriving DecidableEq, Repr

structure W where
  /-- the inode the path names, if the name exists -/
  link : Option Nat := none
  /-- inodes `0 .. next-1` have been created -/
  next : Nat := 0
  ino : Nat → Inode := fun _ => {}
  fd : Actor → Option Fd := fun _ => none

def setIno (w : W) (i : Nat) (x : Inode) : W := { w with ino := fun j => if j = i then x else w.ino j }
def setFd (w : W) (a : Actor) (f : Option Fd) : W := { w with fd := fun b => if b = a then f else w.fd b }

/-- `flock(fd, LOCK_EX|LOCK_NB)` resp. `LOCK_SH|LOCK_NB` on a NEW open file description: refused when any
other description holds a conflicting lock (every existing entry is another description) -/
def conflicts (excl : Bool) (locks : List (Actor × Bool)) : Bool := locks.any fun l => excl || l.2

/-- would `Lock()` be refused now?  (the abstraction to the `lock` bit of `Bluge.Persist`) -/
def lockAbs (w : W) : Bool :=
  match w.link with
  | some i => !(w.ino i).locks.isEmpty
  | none => false

def runOp (a : Actor) (data : Bytes) (w : W) : FsOp → Bool × W
  | .openFile flags _ lock =>
    match w.link with
    | none =>
      if flags.contains .O_CREATE then
        -- a fresh inode: nobody can hold a lock on it
        let i := w.next
        let w1 : W := { setIno w i {} with link := some i, next := i + 1 }
        match lock with
        | .none => (true, setFd w1 a (some ⟨i, isWritable flags, 0, .none⟩))
        | l => (true, setFd (setIno w1 i { locks := [(a, l == .exclusive)] }) a (some ⟨i, isWritable flags, 0, l⟩))
      else (false, w)
    | some i =>
      if flags.contains .O_CREATE && flags.contains .O_EXCL then (false, w) else
      let w1 := if flags.contains .O_TRUNC && isWritable flags then setIno w i { w.ino i with vol := [] } else w
      match lock with
      | .none => (true, setFd w1 a (some ⟨i, isWritable flags, 0, .none⟩))
      | l =>
        if conflicts (l == .exclusive) (w1.ino i).locks then (false, w1)    -- the description is closed again
        else (true, setFd (setIno w1 i { w1.ino i with locks := (a, l == .exclusive) :: (w1.ino i).locks }) a
                      (some ⟨i, isWritable flags, 0, l⟩))
  | .truncate n =>
    match w.fd a with
    | none => (false, w)
    | some f =>
      if !f.writable then (false, w) else
      let x := w.ino f.ino
      (true, setIno w f.ino { x with vol := x.vol.take n ++ List.replicate (n - x.vol.length) 0 })
  | .writeTo | .write =>
    match w.fd a with
    | none => (false, w)
    | some f =>
      if !f.writable then (false, w) else
      let x := w.ino f.ino
      (true, setFd (setIno w f.ino { x with vol := overwrite x.vol f.pos data }) a (some { f with pos := f.pos + data.length }))
  | .sync =>
    match w.fd a with
    | none => (false, w)
    | some f => let x := w.ino f.ino; (true, setIno w f.ino { x with dur := some x.vol })
  | .close =>
    match w.fd a with
    | none => (false, w)
    | some f =>
      let x := w.ino f.ino
      let x' := match f.lock with
        | .none => x
        | l => { x with locks := x.locks.erase (a, l == .exclusive) }
      (true, setFd (setIno w f.ino x') a none)
  | .remove =>
    match w.link with
    | none => (false, w)
    | some _ => (true, { w with link := none })     -- the inode lives on while descriptions are open
  | .removeAll => (true, { w with link := none })
  | .mmap =>
    match w.fd a with
    | none => (false, w)
    | some f => (!(w.ino f.ino).vol.isEmpty, w)
  | .unmap => (true, w)
  | .dataFile => ((w.fd a).isSome, w)

def runQuiet (a : Actor) (data : Bytes) (w : W) : List FsOp → W
  | [] => w
  | op :: ops => runQuiet a data (runOp a data w op).2 ops

def body (a : Actor) (data : Bytes) (w : W) : Prog → Bool × W
  | [] => (true, w)
  | .act op onErr :: rest =>
    let r := runOp a data w op
    if r.1 then body a data r.2 rest else (false, runQuiet a data r.2 onErr)
  | .ignore op :: rest => body a data (runOp a data w op).2 rest
  | .deferOps ops :: rest =>
    let b := body a data w rest
    (b.1, runQuiet a data b.2 ops)
  | .always op :: rest =>
    let r := runOp a data w op
    let b := body a data r.2 rest
    (r.1 && b.1, b.2)

/-- actor `a` runs the program -/
def run (a : Actor) (data : Bytes) (prog : Prog) (w : W) : Bool × W := body a data w prog

end World

/-! ## The witness of the missing truncation (`new` written over `OLDOLDOLDOLDOLDOLD`) -/

def bNew : Bytes := [0x6e, 0x65, 0x77]
def bOld : Bytes := [0x4f, 0x4c, 0x44, 0x4f, 0x4c, 0x44, 0x4f, 0x4c, 0x44, 0x4f, 0x4c, 0x44, 0x4f, 0x4c, 0x44, 0x4f, 0x4c, 0x44]
def witnessEnv : Env := { name := 10, content := bNew }
def witnessState : FSState := { dir := fun n => if n = 10 then some ⟨bOld, some bOld⟩ else none }

end Bluge.FS

import Bluge.Index
/-! # Bluge.Lin — concurrent `Writer.Batch` calls and readers on top of the writer-protocol model (C05), core Lean only

Transcribed from /repo:
* `index/writer.go` `Writer.Batch` → `prepareSegment`: take a segment id (`atomic.AddUint64(&s.nextSegmentID, 1)`), read the
  current root (`currentSnapshot`, under `rootLock.RLock`), compute the optimistic obsoletes against THAT root outside any
  lock, send the introduction on `s.introductions`, block on `introduction.applied`, and — unless `UnsafeBatch` — on
  `introduction.persisted`; `Writer.Reader` = `currentSnapshot`.
* `index/introducer.go` `introducerLoop`: the only goroutine that swaps the root (`replaceRoot`, under `rootLock.Lock`); one
  introduction (segment / persist / merge) per iteration; `introduceSegment` closes `applied` after the swap.
* `index/persister.go` `persisterLoop`: closes the `persisted` channels it grabbed together with a root (`rootPersisted`, which
  `replaceRoot` appends to in the same critical section as the swap), i.e. only those of batches already introduced.

The model is a thin layer over `Bluge.Index` (`Index.step` does the introductions): it adds the clients. A *client* `c` is one
`Batch` call (a goroutine that issues several batches is several clients, each invoked after the previous one returned).
Every event is atomic exactly where the code makes it atomic; any interleaving of the events of any number of clients,
readers, persists and merges is an execution. A logical clock (= position in the event list) stamps every event; the
stamps are ghost state that the theorems talk about and that the harness records on the real system (atomic counter).

Second half: recorded histories (`History`), the specification of an explained history (`Accepts`: one total order of the
calls, consistent with the recorded stamps and introductions, that explains every reader and the final content) and the
decision procedure `explains`/`judge` the driver runs on the histories recorded from the REAL writer. -/
namespace Bluge.Lin
open Bluge.Index

/-! ## events -/

inductive Ev where
  /-- client `c` calls `Writer.Batch(b)` -/
  | invoke (c : Nat) (b : Batch)
  /-- `prepareSegment` of client `c` took segment id `sid`, then read `history[seen]` (a stale root when `seen > 0`)
  and computed its optimistic obsoletes against it -/
  | prepare (c : Nat) (sid : Nat) (seen : Nat)
  /-- the introducer took `c`'s introduction off the channel and ran `introduceSegment` (root swap under `rootLock`) -/
  | intro (c : Nat)
  /-- the persister closes the `persisted` channels of the clients `cs` (safe mode) -/
  | ack (cs : List Nat)
  /-- `Batch` returns to client `c` -/
  | ret (c : Nat)
  /-- `Writer.Reader()`: reader `r` obtains the current root -/
  | reader (r : Nat)
  /-- content-preserving introductions, as in `Bluge.Index` -/
  | persist (p : Persisted)
  | merge (seen : Nat) (pick : List Nat) (fileMerge : Bool) (id : Nat)
deriving Repr

/-- where one `Batch` call stands; the constructor order IS the program order of `Batch`/`prepareSegment`.
`seenNo` = publication number of the root `prepareSegment` looked at (0 = the root of the empty index). -/
inductive Phase where
  | invoked (b : Batch) (tInv : Nat)
  | prepared (b : Batch) (tInv : Nat) (sid : Nat) (seenNo : Nat) (tPrep : Nat)
  | introduced (b : Batch) (tInv tPrep : Nat) (idx : Nat) (tIntro : Nat) (acked : Bool)
  | returned (b : Batch) (tInv tPrep : Nat) (idx : Nat) (tIntro : Nat) (tRet : Nat)
deriving Repr, DecidableEq

namespace Phase
def batch : Phase → Batch
  | invoked b _ | prepared b _ _ _ _ | introduced b _ _ _ _ _ | returned b _ _ _ _ _ => b
def tInv : Phase → Nat
  | invoked _ t | prepared _ t _ _ _ | introduced _ t _ _ _ _ | returned _ t _ _ _ _ => t
/-- position in the linearisation and stamp of the introduction, once introduced -/
def intro? : Phase → Option (Nat × Nat)
  | introduced _ _ _ i t _ | returned _ _ _ i t _ => some (i, t)
  | _ => none
def tRet? : Phase → Option Nat
  | returned _ _ _ _ _ t => some t
  | _ => none
def tPrep? : Phase → Option Nat
  | invoked _ _ => none
  | prepared _ _ _ _ t | introduced _ _ t _ _ _ | returned _ _ t _ _ _ => some t
def isInvoked : Phase → Bool
  | invoked _ _ => true
  | _ => false
def isIntroduced (p : Phase) : Bool := p.intro?.isSome
/-- the persister closes this call's `persisted` channel (only a call that waits on it notices) -/
def ack (p : Phase) (hit : Bool) : Phase :=
  match p with
  | introduced b t0 tp i ti a => introduced b t0 tp i ti (a || hit)
  | p => p
end Phase

/-- ghost data of one published root -/
structure Meta where
  /-- number of batches applied in this root -/
  k : Nat
  /-- stamp of the root swap -/
  t : Nat
deriving Repr, DecidableEq

/-- one root swap by `introduceSegment` as the trace hook records it (under `rootLock`) -/
structure Slot where
  epoch : Nat
  t : Nat
  /-- whose batch it introduced, where that was observed (the new segment's documents carry the call number);
  `none` for a batch without documents (delete-only / empty: no new segment) -/
  who : Option Nat
  /-- the live documents of the root installed (what a reader obtained right then shows) -/
  content : List Doc
deriving Repr, DecidableEq

/-- what a reader got: the root's epoch and content, when, and (ghost) how many batches that root had applied -/
structure Read where
  r : Nat
  t : Nat
  epoch : Nat
  content : List Doc
  k : Nat
deriving Repr, DecidableEq

structure State where
  /-- the writer: root, all earlier roots, next epoch, ghost list of applied batches (`Bluge.Index`) -/
  core : Index.State
  /-- `!config.UnsafeBatch` -/
  safe : Bool
  /-- logical clock = number of events so far -/
  clock : Nat
  phase : Nat → Option Phase
  /-- the clients that invoked, oldest first -/
  ids : List Nat
  /-- ghost: the clients in introduction order — the linearisation -/
  lin : List Nat
  /-- ghost data of `core.history`, most recent first (same length) -/
  pubs : List Meta
  /-- ghost: what the trace hook records of every `introduceSegment` root swap, oldest first -/
  slots : List Slot
  /-- reader observations, most recent first -/
  reads : List Read

def State.init (safe : Bool) : State :=
  { core := Index.State.init, safe := safe, clock := 0, phase := fun _ => none, ids := [], lin := [],
    pubs := [⟨0, 0⟩], slots := [], reads := [] }

def upd (f : Nat → Option Phase) (c : Nat) (p : Phase) : Nat → Option Phase := fun x => if x = c then some p else f x

/-- the root with publication number `n` is `history[length - 1 - n]` -/
def State.seenIdx (s : State) (seenNo : Nat) : Nat := s.core.history.length - 1 - seenNo

/-- one event, without the clock tick. An event that is not enabled leaves the state alone. -/
def stepCore (s : State) : Ev → State
  | .invoke c b =>
    match s.phase c with
    | none => { s with phase := upd s.phase c (.invoked b s.clock), ids := s.ids ++ [c] }
    | some _ => s
  | .prepare c sid k =>
    match s.phase c with
    | some (.invoked b t0) =>
      -- root := s.currentSnapshot(): whichever published root `k` names (the current one when `k` is out of range)
      let n := s.core.history.length
      { s with phase := upd s.phase c (.prepared b t0 sid (if k < n then n - 1 - k else n - 1) s.clock) }
    | _ => s
  | .intro c =>
    match s.phase c with
    | some (.prepared b t0 sid seenNo tp) =>
      -- introduceSegment with the obsoletes prepared against the root seen then; replaceRoot; close(applied)
      { s with core := Index.step s.core (.batch b (s.seenIdx seenNo) sid),
               phase := upd s.phase c (.introduced b t0 tp s.lin.length s.clock false),
               lin := s.lin ++ [c],
               pubs := ⟨s.core.applied.length + 1, s.clock⟩ :: s.pubs,
               -- the new root carries epoch `nextEpoch`
               slots := s.slots ++ [⟨s.core.nextEpoch, s.clock, some c,
                                     (Index.step s.core (.batch b (s.seenIdx seenNo) sid)).root.abs⟩] }
    | _ => s
  | .ack cs =>
    { s with phase := fun x => (s.phase x).map (fun p => p.ack (cs.contains x)) }
  | .ret c =>
    match s.phase c with
    | some (.introduced b t0 tp i ti _) => { s with phase := upd s.phase c (.returned b t0 tp i ti s.clock) }
    | _ => s
  | .reader r =>
    { s with reads := ⟨r, s.clock, s.core.root.epoch, s.core.root.abs, s.core.applied.length⟩ :: s.reads }
  | .persist p =>
    { s with core := Index.step s.core (.persist p), pubs := ⟨s.core.applied.length, s.clock⟩ :: s.pubs }
  | .merge k pick fm id =>
    { s with core := Index.step s.core (.merge k pick fm id), pubs := ⟨s.core.applied.length, s.clock⟩ :: s.pubs }

def step (s : State) (e : Ev) : State := { stepCore s e with clock := s.clock + 1 }

def run (safe : Bool) (evs : List Ev) : State := evs.foldl step (State.init safe)

/-- when the code can take the step (the driver evaluates it on every recorded event of the real writer) -/
def enabled (s : State) : Ev → Bool
  | .invoke c _ => (s.phase c).isNone
  | .prepare c _ _ => (s.phase c).any Phase.isInvoked
  | .intro c =>
    match s.phase c with
    -- the segment id is what the atomic counter guarantees: not the id of any segment that ever stood in a root
    | some (.prepared _ _ sid _ _) => decide (sid ∉ s.core.usedSids)
    | _ => false
  | .ack cs => cs.all fun c => (s.phase c).any Phase.isIntroduced
  | .ret c =>
    match s.phase c with
    -- unsafe mode: after `applied`; safe mode: also after `persisted`
    | some (.introduced _ _ _ _ _ acked) => !s.safe || acked
    | _ => false
  | .reader _ => true
  | .persist p => decide (PersistWF s.core.root p)
  | .merge _ _ _ id => decide (id ∉ s.core.usedSids)

def Enabled (s : State) (e : Ev) : Prop := enabled s e = true
instance (s : State) (e : Ev) : Decidable (Enabled s e) := by unfold Enabled; exact inferInstance

/-- a well-formed execution: every event is enabled in the state it occurs in -/
def WF : State → List Ev → Prop
  | _, [] => True
  | s, e :: evs => Enabled s e ∧ WF (step s e) evs
instance : (s : State) → (evs : List Ev) → Decidable (WF s evs)
  | _, [] => isTrue trivial
  | s, e :: evs => by
    unfold WF
    have := instDecidableWF (step s e) evs
    exact inferInstance

/-- the derived linearisation: the clients in the order of their `IntroSegment` events -/
def introOrder : List Ev → List Nat
  | [] => []
  | .intro c :: evs => c :: introOrder evs
  | _ :: evs => introOrder evs

/-- the batch of the (first) `Invoke c` event of an execution (`Batch.empty` if there is none) -/
def invokeOf (c : Nat) : Ev → Option Batch
  | .invoke c' b => if c' = c then some b else none
  | _ => none
def batchIn (evs : List Ev) (c : Nat) : Batch := (evs.findSome? (invokeOf c)).getD Batch.empty

/-- `c` stands before `c'` in the order `l` -/
def Before (l : List Nat) (c c' : Nat) : Prop := ∃ p q : Nat, p < q ∧ l[p]? = some c ∧ l[q]? = some c'

/-- the batch client `c` invoked (`Batch.empty` if it never did) -/
def State.batchOf (s : State) (c : Nat) : Batch := ((s.phase c).map Phase.batch).getD Batch.empty

/-- the abstract index after the first `k` batches of the linearisation -/
def State.absAfter (s : State) (k : Nat) : List Doc := absOf ((s.lin.take k).map s.batchOf)

/-! ## recorded histories and what it means to explain one -/

/-- one `Batch` call as the harness records it: stamps taken just before the call and just after it returned -/
structure Call where
  c : Nat
  tInv : Nat
  /-- `none`: the call has not returned -/
  tRet : Option Nat
  b : Batch
  /-- stamp taken when `prepareSegment` of this call was first seen computing obsoletes (after it read the root);
  `none`: not observed -/
  tPrep : Option Nat := none
deriving Repr, DecidableEq

/-- one reader: stamps before `Writer.Reader()` was called and after it returned, the epoch and content of what it got -/
structure Obs where
  tReq : Nat
  tGot : Nat
  epoch : Nat
  content : List Doc
deriving Repr, DecidableEq

structure History where
  calls : List Call
  slots : List Slot
  reads : List Obs
  /-- content of the index after everything returned -/
  final : List Doc
deriving Repr, DecidableEq

namespace History
def batchOf (h : History) (c : Nat) : Batch := ((h.calls.find? (fun a => a.c == c)).map (·.b)).getD Batch.empty
/-- number of batches introduced up to (and including) the root with this epoch -/
def kAt (h : History) (epoch : Nat) : Nat := (h.slots.filter (fun s => s.epoch ≤ epoch)).length
/-- the abstract index after the first `k` batches of `order` -/
def absAfter (h : History) (order : List Nat) (k : Nat) : List Doc := absOf ((order.take k).map h.batchOf)
end History

/-- the recording itself is sane: root swaps carry increasing epochs and stamps; call ids are unique and every
call returned after it was invoked -/
def RecordingWF (h : History) : Prop :=
  h.slots.Pairwise (fun a b => a.epoch < b.epoch ∧ a.t < b.t) ∧ (h.calls.map (·.c)).Nodup ∧
  ∀ a ∈ h.calls, ∀ tr, a.tRet = some tr → a.tInv < tr

/-- `order` (one client per recorded introduction, in that order) is a total order of the calls that took effect:
no call twice, only calls that were made, every returned call among them, and it agrees with what was observed -/
def OrderOK (h : History) (order : List Nat) : Prop :=
  order.length = h.slots.length ∧ order.Nodup ∧ (∀ c ∈ order, ∃ a ∈ h.calls, a.c = c) ∧
  (∀ a ∈ h.calls, a.tRet.isSome = true → a.c ∈ order) ∧
  ∀ p ∈ order.zip h.slots, ∀ w, p.2.who = some w → w = p.1

/-- every call takes effect (its introduction is stamped) between its invocation — and its prepare, where that was
observed — and its return -/
def RealTime (h : History) (order : List Nat) : Prop :=
  ∀ p ∈ order.zip h.slots, ∃ a ∈ h.calls, a.c = p.1 ∧ a.tInv < p.2.t ∧ (∀ tr, a.tRet = some tr → p.2.t < tr) ∧
    ∀ tp, a.tPrep = some tp → a.tInv < tp ∧ tp < p.2.t

/-- the root installed by the i-th introduction holds the abstract index after the first i+1 batches of `order` -/
def SlotsOK (h : History) (order : List Nat) : Prop :=
  ∀ p ∈ h.slots.zipIdx, p.1.content.Perm (h.absAfter order (p.2 + 1))

/-- every reader shows the abstract index after a prefix of `order` — the prefix its epoch names —, it has seen every
root published before it was requested and none published after it was obtained, and later readers see later roots -/
def ReadersOK (h : History) (order : List Nat) : Prop :=
  (∀ r ∈ h.reads, r.content.Perm (h.absAfter order (h.kAt r.epoch)) ∧
     (∀ s ∈ h.slots, s.t < r.tReq → s.epoch ≤ r.epoch) ∧ (∀ s ∈ h.slots, r.tGot < s.t → r.epoch < s.epoch)) ∧
  ∀ r₁ ∈ h.reads, ∀ r₂ ∈ h.reads, r₁.tGot < r₂.tReq → r₁.epoch ≤ r₂.epoch

def FinalOK (h : History) (order : List Nat) : Prop := h.final.Perm (h.absAfter order order.length)

/-- **the specification of a recorded history**: `order` explains it -/
def Accepts (h : History) (order : List Nat) : Prop :=
  RecordingWF h ∧ OrderOK h order ∧ RealTime h order ∧ SlotsOK h order ∧ ReadersOK h order ∧ FinalOK h order

instance (h : History) : Decidable (RecordingWF h) := by unfold RecordingWF; exact inferInstance
instance (h : History) (o : List Nat) : Decidable (OrderOK h o) := by unfold OrderOK; exact inferInstance
instance (h : History) (o : List Nat) : Decidable (RealTime h o) := by unfold RealTime; exact inferInstance
instance (h : History) (o : List Nat) : Decidable (SlotsOK h o) := by unfold SlotsOK; exact inferInstance
instance (h : History) (o : List Nat) : Decidable (ReadersOK h o) := by unfold ReadersOK; exact inferInstance
instance (h : History) (o : List Nat) : Decidable (FinalOK h o) := by unfold FinalOK; exact inferInstance
instance (h : History) (o : List Nat) : Decidable (Accepts h o) := by unfold Accepts; exact inferInstance

/-- some total order explains the history -/
def Explained (h : History) : Prop := ∃ order, Accepts h order

/-! ### the decision procedure: bounded search over the placements of the unobserved batches -/

/-- the calls whose introduction was not observed: those named by no slot -/
def History.unobserved (h : History) : List Call :=
  h.calls.filter (fun a => !(h.slots.any (fun s => s.who == some a.c)))

/-- a call may stand in a slot only if the slot's stamp lies in the call's interval -/
def fits (a : Call) (s : Slot) : Bool :=
  a.tInv < s.t && (match a.tRet with | some tr => s.t < tr | none => true) &&
    (match a.tPrep with | some tp => tp < s.t | none => true)

/-- all ways to fill the slots, in order: an observed slot keeps its client; an unobserved one takes any remaining
unobserved call whose interval contains the slot's stamp -/
def fills : List Slot → List Call → List (List Nat)
  | [], _ => [[]]
  | s :: rest, pool =>
    match s.who with
    | some c => (fills rest pool).map (c :: ·)
    | none => (pool.filter (fits · s)).flatMap fun a => (fills rest (pool.filter (fun x => x.c != a.c))).map (a.c :: ·)

/-- the same without the interval test (used only to name what went wrong when `fills` finds nothing) -/
def fillsAny : List Slot → List Call → List (List Nat)
  | [], _ => [[]]
  | s :: rest, pool =>
    match s.who with
    | some c => (fillsAny rest pool).map (c :: ·)
    | none => pool.flatMap fun a => (fillsAny rest (pool.filter (fun x => x.c != a.c))).map (a.c :: ·)

def History.candidates (h : History) : List (List Nat) := fills h.slots h.unobserved

/-- **the checker**: does some placement of the unobserved batches explain the history? -/
def explains (h : History) : Bool := h.candidates.any (fun o => decide (Accepts h o))

inductive Verdict where
  | ok (order : List Nat)
  | assumption (what : String)
  | realtime (what : String)
  | notLinearizable (what : String)
  | readerNotPrefix (what : String)
deriving Repr

/-- the verdict the driver prints; `ok order` exactly when `explains` (see `judge_ok_iff` in BlugeProofs.C05) -/
def judge (h : History) : Verdict :=
  match h.candidates.find? (fun o => decide (Accepts h o)) with
  | some o => .ok o
  | none =>
    if !decide (RecordingWF h) then .assumption "recording-not-well-formed"
    else
      -- name the first thing that fails for the most promising placement
      let cands := h.candidates
      let loose := fillsAny h.slots h.unobserved
      if h.slots.length < (h.calls.filter (·.tRet.isSome)).length then
        .realtime "a-call-returned-without-an-introduction"
      else
        let good := cands.filter (fun o => decide (OrderOK h o ∧ RealTime h o))
        if good.isEmpty then
          if loose.any (fun o => decide (OrderOK h o)) then .realtime "an-introduction-lies-outside-its-call"
          else .notLinearizable "introductions-do-not-match-the-calls"
        -- some placement respects real time: is it a published root, the final content or a reader that no placement explains?
        else
          let good' := good.filter (fun o => decide (SlotsOK h o))
          if good'.isEmpty then .notLinearizable "a-published-root-is-not-the-state-after-a-prefix"
          else if good'.any (fun o => decide (FinalOK h o)) then .readerNotPrefix "a-reader-is-not-explained"
          else if good'.any (fun o => decide (ReadersOK h o)) then .notLinearizable "final-content-not-explained"
          else .notLinearizable "final-content-and-a-reader-not-explained"

/-! ## the history a model execution records -/

def Phase.toCall (c : Nat) (p : Phase) : Call := ⟨c, p.tInv, p.tRet?, p.batch, p.tPrep?⟩

def State.history (s : State) : History :=
  { calls := s.ids.filterMap (fun c => (s.phase c).map (Phase.toCall c)),
    slots := s.slots,
    reads := s.reads.reverse.map (fun r => ⟨r.t, r.t, r.epoch, r.content⟩),
    final := s.core.root.abs }

end Bluge.Lin

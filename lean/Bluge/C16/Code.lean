import Bluge.Agg
import BlugeGen.C16
/-! The code as it is now: the two facts of `Bluge.Agg.CodeFacts` as REGENERATED from /repo's working tree by
`go/extract/c16.go` on every run of `./check C16` (`lean/BlugeGen/C16.lean`). -/
namespace Bluge.Agg

/-- THE CODE AS IT IS NOW. `BlugeProofs.C16.agg_exact` (= `AggExact Int codeFacts`) is provable iff both facts are
true (`agg_exact_iff`), and the correspondence run executes the model with these facts against the real code. -/
def codeFacts : CodeFacts :=
  { dedupNeeded := BlugeGen.C16.dedupNeeded, rangeFieldsNested := BlugeGen.C16.rangeFieldsNested }

end Bluge.Agg

/-! # Bluge.Refs — the reference-count protocol of package `index` (model for C04; core Lean only)

Transcribed from `/repo/index`:

* `segment_plugin.go`  `closeOnLastRefCounter{closer, refs}` — `AddRef` (`refs++`), `DecRef`
  (`refs--; if refs == 0 { closer.Close() }`), created by `writer.go loadSegment` with `refs: 1`.
  (`noOpRefCounter`, the wrapper of a not yet persisted in-memory segment, has no state at all and is
  therefore not part of the table: it can neither be closed nor counted.)
* `snapshot.go`        `Snapshot{segment, refs}` — `addRef` (`refs++`), `decRef`
  (`refs--; if refs == 0 { for each segment: s.segment.DecRef() }`), `Close = decRef`.
* `introducer.go`      a new root is built copy-on-write: `&Snapshot{refs: 1}`; a segment kept from the
  old root is appended **and** `AddRef`ed (introduceSegment l.138-139, introducePersist l.216-217,
  introduceMerge l.264-270); a freshly loaded segment (`next.data`, `nextMerge.new`, a persisted
  `replacement`) is appended and its single reference changes owner; `replaceRoot` swaps the pointer under
  `rootLock` and then closes `rootPrev`.
* `writer.go`          `currentSnapshot()` = `root.addRef()` under `rootLock` (used by `Reader()`, by the
  three introductions, by `prepareSegment`, the merger, `currentEpoch`); the persister's grab is the same
  operation inlined; `close()` ends with `replaceRoot(nil)`.

The alphabet below is *finer* than the functions of the code: every single reference operation is its own
event, so the theorems (which quantify over all event sequences) cover every interleaving of the
introducer, persister, merger, readers and `Close`, including the error paths that release a half built
snapshot. The composite steps of the code (`introSegment`, `introMerge`, `introPersist`, …) are given at
the end as lists of primitive events; the correspondence driver replays real traces through them. -/
namespace Bluge.Refs

/-- point update of a table -/
def upd {α : Type} (f : Nat → α) (k : Nat) (v : α) : Nat → α := fun x => if x = k then v else f x

/-- the table of `closeOnLastRefCounter` objects: `refs` is Go's `int64` counter, `closes` counts how
often `closer.Close()` (unmap + close + release of the shared flock) ran. -/
structure WT where
  refs   : Nat → Int
  closes : Nat → Nat

/-- `closeOnLastRefCounter.AddRef` -/
def WT.addRef (t : WT) (w : Nat) : WT := { t with refs := upd t.refs w (t.refs w + 1) }

/-- `closeOnLastRefCounter.DecRef`: `refs--; if refs == 0 { closer.Close() }` -/
def WT.decRef (t : WT) (w : Nat) : WT :=
  let r := t.refs w - 1
  { refs := upd t.refs w r
    closes := if r = 0 then upd t.closes w (t.closes w + 1) else t.closes }

structure State where
  nW       : Nat               -- wrappers created so far (ids `0 … nW-1`)
  wt       : WT
  nS       : Nat               -- snapshots created so far
  sRefs    : Nat → Int         -- `Snapshot.refs`
  sSegs    : Nat → List Nat    -- `Snapshot.segment` (counted wrappers only, in order)
  root     : Option Nat        -- `Writer.root`
  readers  : List Nat          -- one entry per open `Reader` (the snapshot it holds)
  tempS    : List Nat          -- one entry per reference on a snapshot held by a local variable
                               -- (introducer's `root`/`newSnapshot`/`rootPrev`, persister's `ourSnapshot`,
                               --  merger's `ourSnapshot`, the merge notification, `prepareSegment`'s `root`)
  tempW    : List Nat          -- one entry per loaded wrapper still owned by the goroutine that loaded it
  building : List Nat          -- snapshots under construction (not yet published by `replaceRoot`)

def init : State :=
  { nW := 0, wt := ⟨fun _ => 0, fun _ => 0⟩, nS := 0, sRefs := fun _ => 0, sSegs := fun _ => [],
    root := none, readers := [], tempS := [], tempW := [], building := [] }

/-- `Snapshot.addRef` -/
def addRefS (st : State) (i : Nat) : State := { st with sRefs := upd st.sRefs i (st.sRefs i + 1) }

/-- `Snapshot.decRef`: `refs--; if refs == 0 { for _, s := range i.segment { s.segment.DecRef() } }` -/
def decRefS (st : State) (i : Nat) : State :=
  let r := st.sRefs i - 1
  if r = 0 then { st with sRefs := upd st.sRefs i r, wt := (st.sSegs i).foldl WT.decRef st.wt }
  else { st with sRefs := upd st.sRefs i r }

inductive Event where
  /-- `loadSegment`: a new counted wrapper, `refs: 1`, owned by the caller -/
  | loadSeg
  /-- the owner of a loaded wrapper gives it up (`seg.Close()` / `seg.DecRef()` on the skip, error and
      close paths; left-over replacements in `prepareIntroducePersist`) -/
  | dropSeg (w : Nat)
  /-- `&Snapshot{refs: 1}` held by the constructing goroutine -/
  | newSnap
  /-- `n.segment = append(n.segment, ss); r.segment[j].segment.AddRef()` for a wrapper listed by a
      snapshot `r` the constructor holds -/
  | keep (n r w : Nat)
  /-- `n.segment = append(n.segment, {segment: w})` taking over the caller's reference on `w` -/
  | own (n w : Nat)
  /-- `n.addRef()` by somebody who already holds `n` (`introduceMerge`: "1 ref for the notify response") -/
  | dup (n : Nat)
  /-- `replaceRoot(n)`: under `rootLock` `rootPrev = root; root = n`; `rootPrev` is now held by the local -/
  | publish (n : Nat)
  /-- `replaceRoot(nil)` (end of `Writer.close`) -/
  | unroot
  /-- `Writer.Reader()` = `currentSnapshot()`: read `s.root` and `addRef` it, both under `rootLock.RLock()`.
      ONE event because of that lock region (Gen obligation
      `refs_taken_under_the_lock_that_guards_the_pointer`): the swap in `replaceRoot` needs the write lock
      and `rootPrev.Close()` comes after it, so the root read here still carries the root's own reference. -/
  | readerOpen
  /-- `Reader.Close()` = `Snapshot.decRef` -/
  | readerClose (i : Nat)
  /-- `currentSnapshot()` by the introducer / merger / `prepareSegment` / `currentEpoch`, and the persister's
      inlined grab (`ourSnapshot = s.root; ourSnapshot.addRef()` under `rootLock.Lock()`): atomic for the same
      reason as `readerOpen` -/
  | grab
  /-- `Close()` of a snapshot held by a local variable -/
  | release (i : Nat)
  deriving Repr, DecidableEq

/-- One atomic step; `none` = the event is not enabled (its guard is what the code's control flow
guarantees: one can only close what one holds, only append to a snapshot one is still building …). -/
def step (st : State) : Event → Option State
  | .loadSeg =>
      some { st with nW := st.nW + 1, wt := { st.wt with refs := upd st.wt.refs st.nW 1 },
                     tempW := st.nW :: st.tempW }
  | .dropSeg w =>
      if w ∈ st.tempW then some { st with tempW := st.tempW.erase w, wt := st.wt.decRef w } else none
  | .newSnap =>
      some { st with nS := st.nS + 1, sRefs := upd st.sRefs st.nS 1, sSegs := upd st.sSegs st.nS [],
                     tempS := st.nS :: st.tempS, building := st.nS :: st.building }
  | .keep n r w =>
      if n ∈ st.building ∧ n ∈ st.tempS ∧ r ∈ st.tempS ∧ w ∈ st.sSegs r then
        some { st with sSegs := upd st.sSegs n (st.sSegs n ++ [w]), wt := st.wt.addRef w }
      else none
  | .own n w =>
      if n ∈ st.building ∧ n ∈ st.tempS ∧ w ∈ st.tempW then
        some { st with sSegs := upd st.sSegs n (st.sSegs n ++ [w]), tempW := st.tempW.erase w }
      else none
  | .dup n =>
      if n ∈ st.tempS then some { addRefS st n with tempS := n :: st.tempS } else none
  | .publish n =>
      if n ∈ st.building ∧ n ∈ st.tempS then
        some { st with root := some n, building := st.building.filter (· != n),
                       tempS := (match st.root with | some r => [r] | none => []) ++ st.tempS.erase n }
      else none
  | .unroot =>
      match st.root with
      | some r => some { st with root := none, tempS := r :: st.tempS }
      | none => none
  | .readerOpen =>
      match st.root with
      | some r => some { addRefS st r with readers := r :: st.readers }
      | none => none
  | .readerClose i =>
      if i ∈ st.readers then some (decRefS { st with readers := st.readers.erase i } i) else none
  | .grab =>
      match st.root with
      | some r => some { addRefS st r with tempS := r :: st.tempS }
      | none => none
  | .release i =>
      if i ∈ st.tempS then some (decRefS { st with tempS := st.tempS.erase i } i) else none

/-- run a sequence of events; `none` as soon as one is not enabled -/
def run (st : State) : List Event → Option State
  | [] => some st
  | e :: es => match step st e with
      | some st' => run st' es
      | none => none

/-- the states the protocol can reach -/
def Reachable (st : State) : Prop := ∃ es, run init es = some st

/-! ## the quantities the invariant speaks about -/

/-- `Σ_{i<n} f i` -/
def sumTo : Nat → (Nat → Nat) → Nat
  | 0, _ => 0
  | n + 1, f => sumTo n f + f n

/-- how often a live (`refs > 0`) snapshot `i` lists wrapper `w` -/
def term (st : State) (w i : Nat) : Nat := if st.sRefs i > 0 then (st.sSegs i).count w else 0

/-- number of listings of `w` by live snapshots -/
def listed (st : State) (w : Nat) : Nat := sumTo st.nS (term st w)

/-- number of holders of snapshot `i`: the root pointer, open readers, local variables -/
def holders (st : State) (i : Nat) : Nat :=
  (if st.root = some i then 1 else 0) + st.readers.count i + st.tempS.count i

/-- every holder of anything has let go (a complete run: writer closed, readers closed, background idle) -/
def Quiescent (st : State) : Prop :=
  st.root = none ∧ st.readers = [] ∧ st.tempS = [] ∧ st.tempW = []

/-! ## the composite steps of the code as event lists (used by the correspondence driver)

`keptOf r segs` are the wrappers of the new snapshot that come from the old root `r`, `fresh` those
that were loaded by the caller (`loadSeg` happened earlier, they are in `tempW`). -/

/-- `OpenWriter`: `rv.root = &Snapshot{refs: 1}` -/
def openWriter (st : State) : List Event := [.newSnap, .publish st.nS]

/-- shared body of the three introductions: `root := currentSnapshot()`, build `n` from `(w, isKept)`
in order, `replaceRoot(n)` + `rootPrev.Close()`, deferred `root.Close()`; `extra` = events between the
construction and the swap (`introduceMerge`'s `newSnapshot.addRef()`). -/
def intro (st : State) (segs : List (Nat × Bool)) (extra : List Event) : List Event :=
  match st.root with
  | none => []
  | some r =>
    let n := st.nS
    [.grab, .newSnap]
      ++ segs.map (fun (w, kept) => if kept then Event.keep n r w else Event.own n w)
      ++ extra
      ++ [.publish n, .release r, .release r]

/-- `introduceSegment` (kept = segments of the old root that still have live documents; the new
in-memory segment is a `noOpRefCounter` wrapper, a counted `next.data` would be `(w,false)`). -/
def introSegment (st : State) (segs : List (Nat × Bool)) : List Event := intro st segs []

/-- `introducePersist`: replaced segments are `(replacement,false)`, the others `(w,true)` -/
def introPersist (st : State) (segs : List (Nat × Bool)) : List Event := intro st segs []

/-- `introduceMerge`: staying segments `(w,true)`, the merged one `(new,false)` unless skipped; one more
reference on the new snapshot travels to the requester through `notifyCh` -/
def introMerge (st : State) (segs : List (Nat × Bool)) : List Event := intro st segs [.dup st.nS]

/-- the requester of a merge closes the snapshot it was notified with -/
def mergeRelease (n : Nat) : List Event := [.release n]

/-- persister: `ourSnapshot = s.root; ourSnapshot.addRef()` under `rootLock` … `ourSnapshot.Close()` -/
def persisterGrab : List Event := [.grab]
def persisterRelease (i : Nat) : List Event := [.release i]

/-- `Writer.close`: `replaceRoot(nil)`; `rootPrev.Close()` -/
def closeWriter (st : State) : List Event :=
  match st.root with
  | some r => [.unroot, .release r]
  | none => []

/-! ## postings-iterator recycling (`snapshot.go` `allocPostingsIterator` / `recyclePostingsIterator`)

An iterator caches per-segment dictionaries and postings of the snapshot that built it (`rv.dicts`,
`rv.postings`, `rv.iterators` are reused when non-nil), so it must never be handed to another
snapshot, and never to a second searcher while the first still uses it. `alloc` pops from the pool of
the asking snapshot or makes a fresh iterator and sets `rv.snapshot = i`; `postingsIterator.Close` calls
`i.snapshot.recyclePostingsIterator(i)`, which pushes onto the pool of *that* snapshot if the iterator
is recyclable and the snapshot is still the root (`i.epoch == i.parent.currentEpoch()`).

`restart` is the backward-seek path of `postingsIterator.Advance` (postings.go) as the code has it now:
it builds a replacement `fresh` with `i.snapshot.PostingsIterator(…)`, swaps the two structs
(`*i, *fresh = *fresh, *i`: the caller's object `i` carries the new state, `fresh` the old one, the
`recycle` flags travel with the state) and closes `fresh`. `restartRecycleSelf` is the path as it was
before commit a8a2358 (`_ = i.Close(); *i = *i2`): it recycled the very object the caller goes on using;
it is kept only for the witness `pool_exclusive_violated` and excluded from the code's alphabet by the Gen
obligation `no_close_then_reuse`. -/

structure Pools where
  nI      : Nat                 -- iterators created
  owner   : Nat → Nat           -- `postingsIterator.snapshot`
  recyc   : Nat → Bool          -- `postingsIterator.recycle`
  pool    : Nat → List Nat      -- `Snapshot.fieldTFRs` (one field; the map key is orthogonal)
  users   : Nat → Nat           -- how many searchers currently hold the iterator object

def Pools.init : Pools := ⟨0, fun _ => 0, fun _ => false, fun _ => [], fun _ => 0⟩

inductive PEvent where
  /-- `Snapshot(s).PostingsIterator` → `allocPostingsIterator` + `rv.snapshot = i`; the caller uses it -/
  | alloc (s : Nat)
  /-- `unadornedPostingsIterator`: fresh, `recycle: false` -/
  | allocUnadorned (s : Nat)
  /-- the searcher that uses `it` is done: `postingsIterator(it).Close()` while `cur` is the root -/
  | close (it : Nat) (cur : Nat)
  /-- `postingsIterator(it).Advance(n)` with `currID >= n`: replacement built, structs swapped, the
      replacement object (now holding the old state) closed; the caller keeps using `it` -/
  | restart (it : Nat) (cur : Nat)
  /-- the same path before the fix: `it.Close()`, `*it = *i2`, the caller keeps using `it` -/
  | restartRecycleSelf (it : Nat) (cur : Nat)
  deriving Repr, DecidableEq

def PEvent.isOldRestart : PEvent → Bool
  | .restartRecycleSelf _ _ => true
  | _ => false

/-- `allocPostingsIterator` (+ the fresh case): the new pools and the iterator handed out -/
def Pools.take (p : Pools) (s : Nat) : Pools × Nat :=
  match (p.pool s).reverse with
  | it :: rest => ({ p with pool := upd p.pool s rest.reverse, owner := upd p.owner it s }, it)
  | [] => ({ p with nI := p.nI + 1, owner := upd p.owner p.nI s, recyc := upd p.recyc p.nI true }, p.nI)

/-- `recyclePostingsIterator` -/
def Pools.recycle (p : Pools) (it cur : Nat) : Pools :=
  if p.recyc it && p.owner it == cur then
    { p with pool := upd p.pool (p.owner it) (p.pool (p.owner it) ++ [it]) }
  else p

/-- `*a, *b = *b, *a` as far as the pool cares: the `recycle` flags change places (same snapshot) -/
def Pools.swapRecyc (p : Pools) (a b : Nat) : Pools :=
  { p with recyc := upd (upd p.recyc a (p.recyc b)) b (p.recyc a) }

/-- returns the new pools and (for `alloc`) the iterator handed out -/
def Pools.step (p : Pools) : PEvent → Pools × Option Nat
  | .alloc s =>
      let (p1, it) := p.take s
      ({ p1 with users := upd p1.users it (p1.users it + 1) }, some it)
  | .allocUnadorned s =>
      ({ p with nI := p.nI + 1, owner := upd p.owner p.nI s, recyc := upd p.recyc p.nI false,
                users := upd p.users p.nI (p.users p.nI + 1) }, some p.nI)
  | .close it cur =>
      -- only a searcher that holds `it` closes it
      if p.users it = 0 then (p, none)
      else (({ p with users := upd p.users it (p.users it - 1) } : Pools).recycle it cur, none)
  | .restart it cur =>
      if p.users it = 0 then (p, none)
      else
        let (p1, fresh) := p.take (p.owner it)        -- `i2 := i.snapshot.PostingsIterator(...)`
        ((p1.swapRecyc it fresh).recycle fresh cur, none)  -- `*i, *fresh = *fresh, *i; fresh.Close()`
  | .restartRecycleSelf it cur =>
      if p.users it = 0 then (p, none)
      else
        let (p1, _i2) := p.take (p.owner it)     -- `i2 := i.snapshot.PostingsIterator(...)`
        (p1.recycle it cur, none)                -- `_ = i.Close()`; `*i = *i2`: still used by the caller

def Pools.run (p : Pools) : List PEvent → Pools
  | [] => p
  | e :: es => Pools.run (p.step e).1 es

/-- nobody uses a pooled iterator (so `alloc` never hands an iterator to a second searcher) -/
def Pools.Exclusive (p : Pools) : Prop := ∀ s it, it ∈ p.pool s → p.users it = 0

end Bluge.Refs

import Bluge.Basic
/-! Hand-written model of bluge's merge planner (`index/mergeplan/merge_plan.go`, `sort.go`),
transcribed function by function. Core Lean only.

* `Seg` is what the planner may look at (`Segment` interface: `ID`, `FullSize`, `LiveSize`).
  Sizes are `Int` (Go `int64`; the model assumes no `int64` overflow of the sums, the driver checks it).
* `plan` is **parametric** in the scorer (`score : List Seg → σ`, `lt : σ → σ → Bool`) and in the budget
  function (`calcBudget : Int → Int → Int`), exactly like the Go code is (`Options.ScoreSegments`,
  `Options.CalcBudget`), so nothing that is proved about `plan` depends on floating point.
* `scoreSegmentsF`, `calcBudgetF` are the faithful `Float` transcriptions of the default scorer and
  budget (used by the driver), `calcBudgetNat` is the exact budget staircase for a whole-number growth
  factor (used for `budget_logarithmic`).
* Specification side: `executeTask`, and the decidable well-formedness predicates that the driver
  evaluates on the IMPLEMENTATION's tasks (`wfReason`). -/
namespace Bluge.MergePlan

structure Seg where
  id : Nat
  fullSize : Int
  liveSize : Int
deriving DecidableEq, Repr, Inhabited

/-- the integer fields of `mergeplan.Options`, and which variant of the roster loop /repo has:
`skipNoop = false` is the code as pinned (`if len(roster) > 0` before a roster is scored); `true` is the same
code with the guard of /verif/work/C19/fix-noop-singleton-rosters.diff (a roster of one segment without
deletions is not a candidate). Which one /repo is, is read off the source on every run
(`BlugeGen.C19.skipNoop`); the driver sets the field from it. -/
structure Options where
  maxSegmentsPerTier : Int
  maxSegmentSize : Int
  segmentsPerMergeTask : Int
  floorSegmentSize : Int
  skipNoop : Bool
deriving DecidableEq, Repr, Inhabited

/-- the float fields of `mergeplan.Options` (only the default scorer / budget read them) -/
structure FOptions where
  tierGrowth : Float
  reclaimDeletesWeight : Float

/-- `DefaultMergePlanOptions` -/
def defaultOptions : Options := ⟨10, 5000000, 10, 2000, false⟩

/-! ## sort.go : byLiveSizeDescending -/

/-- `byLiveSizeDescending.Less` -/
def less (a b : Seg) : Bool :=
  if a.liveSize ≠ b.liveSize then decide (a.liveSize > b.liveSize) else decide (a.id < b.id)

/-- insertion into a list sorted by `less` -/
def insertSeg (a : Seg) : List Seg → List Seg
  | [] => [a]
  | b :: l => if less a b then a :: b :: l else b :: insertSeg a l

/-- `sort.Sort(byLiveSizeDescending(segments))`: with pairwise distinct ids `less` is a strict total
order, so the sorted permutation is unique (`BlugeProofs.C19.sorted_perm_unique`) and does not depend on
the sorting algorithm. -/
def sortSegs : List Seg → List Seg
  | [] => []
  | a :: l => insertSeg a (sortSegs l)

/-! ## helpers -/

def liveSum : List Seg → Int
  | [] => 0
  | s :: l => s.liveSize + liveSum l

def fullSum : List Seg → Int
  | [] => 0
  | s :: l => s.fullSize + fullSum l

/-- `Options.RaiseToFloorSegmentSize` -/
def raiseToFloor (o : Options) (s : Int) : Int :=
  if s > o.floorSegmentSize then s else o.floorSegmentSize

def maxInt64 : Int := 9223372036854775807

/-- `minLiveSize` of `findLiveSizesAndEligibles` (starts at `math.MaxInt64`) -/
def minLiveSize (segs : List Seg) : Int :=
  segs.foldl (fun m s => if m > s.liveSize then s.liveSize else m) maxInt64

/-- "Only small-enough segments are eligible": `segment.LiveSize() < o.MaxSegmentSize/2`
(Go's `/` on int64 truncates toward zero: `Int.tdiv`) -/
def isEligible (o : Options) (s : Seg) : Bool := decide (s.liveSize < Int.tdiv o.maxSegmentSize 2)

def eligibles (o : Options) (segs : List Seg) : List Seg := segs.filter (isEligible o)

/-- `eligible.LiveSize() <= 0` -/
def isEmptySeg (s : Seg) : Bool := decide (s.liveSize ≤ 0)

/-- `removeSegments` (stable; Go compares interface values holding pointers — with pairwise distinct
ids that is equality of the `Seg` records) -/
def removeSegments (segments toRemove : List Seg) : List Seg :=
  segments.filter (fun s => !toRemove.contains s)

/-! ## the roster loop -/

/-- the inner loop `for idx := startIdx; idx < len(eligibles) && len(roster) < o.SegmentsPerMergeTask; idx++`
run on the suffix `eligibles[startIdx:]`, with the loop state `len(roster)`, `rosterLiveSize` -/
def buildRoster (o : Options) : List Seg → Nat → Int → List Seg
  | [], _, _ => []
  | e :: rest, n, rosterLive =>
    if (n : Int) < o.segmentsPerMergeTask then
      if rosterLive + e.liveSize < o.maxSegmentSize then
        e :: buildRoster o rest (n + 1) (rosterLive + e.liveSize)
      else buildRoster o rest n rosterLive
    else []

/-- the guard in front of `rosterScore := scoreSegments(roster, o)`: pinned `len(roster) > 0`; repaired
`len(roster) > 1 || (len(roster) == 1 && roster[0].LiveSize() < roster[0].FullSize())` -/
def rosterOk (o : Options) (roster : List Seg) : Bool :=
  if o.skipNoop then
    decide (roster.length > 1) ||
      (match roster with
       | [s] => decide (s.liveSize < s.fullSize)
       | _ => false)
  else decide (roster.length > 0)

/-- the loop over `startIdx`; the state `(bestRoster, bestRosterScore)` is `none` while
`len(bestRoster) == 0` -/
def pickBest {σ : Type} (o : Options) (score : List Seg → σ) (lt : σ → σ → Bool) :
    List Seg → Option (List Seg × σ) → Option (List Seg × σ)
  | [], best => best
  | e :: rest, best =>
    let roster := buildRoster o (e :: rest) 0 0
    let best' :=
      if rosterOk o roster then
        let rosterScore := score roster
        match best with
        | none => some (roster, rosterScore)
        | some (b, bs) => if lt rosterScore bs then some (roster, rosterScore) else some (b, bs)
      else best
    pickBest o score lt rest best'

/-- `pickBest` with the part of the eligible list behind the start indices still to visit made explicit:
the start indices are the positions of `starts`, the roster of a start index is built from the suffix
`starts[i:] ++ tail`. `pickBest o score lt l best = pickBestCtx o score lt l [] best`
(`BlugeProofs.C19.pickBest_eq_ctx`); it splits over `++` (`pickBestCtx_append`), which is what
`noop_singleton_iff` needs to talk about "the best roster before the last start index". -/
def pickBestCtx {σ : Type} (o : Options) (score : List Seg → σ) (lt : σ → σ → Bool) :
    List Seg → List Seg → Option (List Seg × σ) → Option (List Seg × σ)
  | [], _, best => best
  | e :: rest, tail, best =>
    let roster := buildRoster o (e :: rest ++ tail) 0 0
    let best' :=
      if rosterOk o roster then
        let rosterScore := score roster
        match best with
        | none => some (roster, rosterScore)
        | some (b, bs) => if lt rosterScore bs then some (roster, rosterScore) else some (b, bs)
      else best
    pickBestCtx o score lt rest tail best'

/-- the budget loop `for len(eligibles) > 0 && (len(eligibles)+len(rv.Tasks)) > budgetNumSegments`;
returns the tasks appended by the loop. `nTasks` is `len(rv.Tasks)`. `fuel` bounds the number of
iterations; `BlugeProofs.C19.plan_terminates` proves that `eligibles.length` always suffices. -/
def planLoop {σ : Type} (o : Options) (budget : Int) (score : List Seg → σ) (lt : σ → σ → Bool) :
    Nat → List Seg → Nat → List (List Seg)
  | 0, _, _ => []
  | fuel + 1, elig, nTasks =>
    if elig.length > 0 ∧ ((elig.length + nTasks : Nat) : Int) > budget then
      match pickBest o score lt elig none with
      | none => []                                  -- `if len(bestRoster) == 0 { return rv, nil }`
      | some (bestRoster, _) =>
        bestRoster :: planLoop o budget score lt fuel (removeSegments elig bestRoster) (nTasks + 1)
    else []

/-- everything `plan` computes before the loop -/
structure Prep where
  sorted : List Seg
  minLive : Int
  eligiblesLive : Int
  eligibles : List Seg
  budget : Int
  empties : List Seg
  eligibles1 : List Seg       -- after the empties were removed
deriving Repr

def prep (o : Options) (calcBudget : Int → Int → Int) (segmentsIn : List Seg) : Prep :=
  let segments := sortSegs segmentsIn
  let elig := eligibles o segments
  let minLive := raiseToFloor o (minLiveSize segments)
  let eligLive := liveSum elig
  let empties := elig.filter isEmptySeg
  { sorted := segments, minLive := minLive, eligiblesLive := eligLive, eligibles := elig,
    budget := calcBudget eligLive minLive, empties := empties,
    eligibles1 := if empties.length > 0 then removeSegments elig empties else elig }

/-- the tasks of `plan` for an input of at least two segments -/
def planTasks {σ : Type} (o : Options) (calcBudget : Int → Int → Int) (score : List Seg → σ)
    (lt : σ → σ → Bool) (segmentsIn : List Seg) : List (List Seg) :=
  let p := prep o calcBudget segmentsIn
  let tasks0 : List (List Seg) := if p.empties.length > 0 then [p.empties] else []
  tasks0 ++ planLoop o p.budget score lt p.eligibles1.length p.eligibles1 tasks0.length

/-- `plan(segmentsIn, o)`; `none` is Go's `nil, nil` (no plan at all) -/
def plan {σ : Type} (o : Options) (calcBudget : Int → Int → Int) (score : List Seg → σ)
    (lt : σ → σ → Bool) (segmentsIn : List Seg) : Option (List (List Seg)) :=
  if segmentsIn.length ≤ 1 then none else some (planTasks o calcBudget score lt segmentsIn)

/-! ## the default budget and scorer, in `Float` (driver) -/

/-- the loop of `CalcBudget`; `fuel` ≥ number of iterations (each one lowers `totalSize` by
`maxSegmentsPerTier * tierSize ≥ 1`) -/
def calcBudgetLoopF (per : Int) (growth : Float) : Nat → Int → Int → Int → Int
  | 0, _, _, b => b
  | fuel + 1, total, tier, b =>
    if total > 0 then
      let segmentsInTier := Float.ofInt total / Float.ofInt tier
      if segmentsInTier < Float.ofInt per then
        b + (Float.ceil segmentsInTier).toInt64.toInt
      else
        calcBudgetLoopF per growth fuel (total - per * tier) ((Float.ofInt tier * growth).toInt64.toInt) (b + per)
    else b

/-- `CalcBudget(totalSize, firstTierSize, o)` -/
def calcBudgetF (o : Options) (fo : FOptions) (totalSize firstTierSize : Int) : Int :=
  let tierSize := if firstTierSize < 1 then 1 else firstTierSize
  let per := if o.maxSegmentsPerTier < 1 then 1 else o.maxSegmentsPerTier
  let growth := if fo.tierGrowth < 1 then 1 else fo.tierGrowth
  calcBudgetLoopF per growth (totalSize.toNat + 1) totalSize tierSize 0

/-- `0.05` as Go's constant conversion rounds it -/
def c005 : Float := Float.ofBits 0x3FA999999999999A

def flooredSum (o : Options) : List Seg → Int
  | [] => 0
  | s :: l => raiseToFloor o s.liveSize + flooredSum o l

/-- `ScoreSegments(segments, o)` (smaller is better) -/
def scoreSegmentsF (o : Options) (fo : FOptions) (segments : List Seg) : Float :=
  let totBeforeSize := fullSum segments
  let totAfterSize := liveSum segments
  let totAfterSizeFloored := flooredSum o segments
  if totBeforeSize ≤ 0 ∨ totAfterSize ≤ 0 ∨ totAfterSizeFloored ≤ 0 then 0 else
  let first := match segments with | s :: _ => s.liveSize | [] => 0
  let balance := Float.ofInt (raiseToFloor o first) / Float.ofInt totAfterSizeFloored
  let score := balance * Float.pow (Float.ofInt totAfterSize) c005
  let nonDelRatio := Float.ofInt totAfterSize / Float.ofInt totBeforeSize
  score * Float.pow nonDelRatio fo.reclaimDeletesWeight

/-! ## the exact budget staircase for a whole-number growth factor -/

/-- `CalcBudget` over ℕ: `total/tier < per` iff `total < per*tier`; `ceil(total/tier) = (total+tier-1)/tier`;
`tierSize = int64(float64(tierSize)*g) = tierSize*g` when `g` is a whole number. The driver compares it
with the real `CalcBudget` on every `budget` line with whole-number growth. -/
def calcBudgetNat (per g : Nat) : Nat → Nat → Nat → Nat
  | 0, _, _ => 0
  | fuel + 1, total, tier =>
    if total = 0 then 0
    else if total < per * tier then (total + tier - 1) / tier
    else per + calcBudgetNat per g fuel (total - per * tier) (tier * g)

/-- smallest `k ≤ fuel` with `total < per*first*g^k` (the `⌈log_g(total/(per·first))⌉` of the bound) -/
def tiersNeeded (per g first total : Nat) : Nat → Nat → Option Nat
  | 0, _ => none
  | fuel + 1, k => if total < per * first * g ^ k then some k else tiersNeeded per g first total fuel (k + 1)

/-! ## the exact budget staircase for a rational growth factor `num/den`

`CalcBudget` over ℕ with `tierSize = int64(float64(tierSize) * tierGrowth)` read as `⌊tier·num/den⌋`
(Go's conversion truncates; everything is positive). For `den = 1` this is `calcBudgetNat`
(`BlugeProofs.C19.calcBudgetRat_den_one`). It is what the real function computes whenever the float
operations involved are exact: `growth = num/den` is the exact value of the `float64` (every finite
`float64` is such a fraction with `den` a power of two), `tier·num < 2^53` for every tier reached
(the product is then computed without rounding), `total, tier < 2^45` and `per < 2^8` (then the rounded
quotient `float64(total)/float64(tier)` is `< per` exactly when `total < per·tier`, and its ceiling is the
exact one). The harness decides these side conditions in integer arithmetic and, when they hold, prints
the real `CalcBudget` result in the field the driver fills with `calcBudgetRat` — so every such line is a
direct comparison of this definition with the real function. Outside the side conditions (a growth factor
with a 53-bit mantissa such as `3.3`, tiers beyond 2^45) the float computation rounds, the staircase is
only approximately `⌊tier·g⌋`, and nothing is claimed about it beyond the bit-for-bit transcription
`calcBudgetF`. -/
def calcBudgetRat (per num den : Nat) : Nat → Nat → Nat → Nat
  | 0, _, _ => 0
  | fuel + 1, total, tier =>
    if total = 0 then 0
    else if total < per * tier then (total + tier - 1) / tier
    else per + calcBudgetRat per num den fuel (total - per * tier) (tier * num / den)

/-- smallest `k ≤ fuel` with `total·hd^k < per·first·hn^k`, i.e. `⌈log_{hn/hd}(total/(per·first))⌉` -/
def tiersNeededRat (per hn hd first total : Nat) : Nat → Nat → Option Nat
  | 0, _ => none
  | fuel + 1, k =>
    if total * hd ^ k < per * first * hn ^ k then some k else tiersNeededRat per hn hd first total fuel (k + 1)

/-- the decidable side condition of `budget_logarithmic_rat`: from tier size `first` on, one step of the
staircase multiplies the tier by at least `hn/hd ≥ 1` in spite of the truncation -/
def growthAtLeast (num den hn hd first : Nat) : Bool :=
  decide (0 < den ∧ 0 < hd ∧ hd ≤ hn ∧ hn * den ≤ num * hd ∧ hd * (den - 1) ≤ first * (num * hd - hn * den))

/-! ## specification side -/

/-- executing a merge task on sizes only: the task's segments disappear; unless nothing is live, one
new segment holding exactly the live data appears (`index/merge.go executeMergeTask`,
`planSegmentsToMerge`: empty segments are dropped without a merge) -/
def executeTask (newId : Nat) (segs task : List Seg) : List Seg :=
  if liveSum task > 0 then removeSegments segs task ++ [⟨newId, liveSum task, liveSum task⟩]
  else removeSegments segs task

/-- the progress measure of plan/execute histories -/
def mergeMeasure (segs : List Seg) : Int := segs.length + fullSum segs

/-- sizes as the index produces them -/
def sizesSane (segs : List Seg) : Bool := segs.all fun s => decide (0 ≤ s.liveSize ∧ s.liveSize ≤ s.fullSize)

def idsDistinct (segs : List Seg) : Bool := decide (segs.map (·.id)).Nodup

/-- options the theorems are stated for -/
def optionsSane (o : Options) : Bool := decide (2 ≤ o.maxSegmentSize ∧ 1 ≤ o.segmentsPerMergeTask)

/-- a merge that rewrites one deletion-free segment into an identical one -/
def isNoopSingleton (t : List Seg) : Bool :=
  match t with
  | [s] => decide (s.liveSize > 0 ∧ s.liveSize = s.fullSize)
  | _ => false

/-- a plan that only rewrites deletion-free segments one by one (and is not empty) -/
def allNoop (tasks : List (List Seg)) : Bool := !tasks.isEmpty && tasks.all isNoopSingleton

/-- options for which plan/execute histories are generated and judged: the well-formedness options with
`SegmentsPerMergeTask ≥ 2` (with 1 the roster loop can only propose one-segment rewrites: no merge ever
happens, `BlugeProofs.C19.spmt_one_never_merges`) -/
def histOptionsSane (o : Options) : Bool := optionsSane o && decide (2 ≤ o.segmentsPerMergeTask)

/-! ### plan/execute histories on sizes (no further arrivals) -/

/-- the tasks the merger executes: `planMergeAtSnapshot` does nothing when `Plan` returns `nil` -/
def planOf {σ : Type} (o : Options) (calcBudget : Int → Int → Int) (score : List Seg → σ)
    (lt : σ → σ → Bool) (segs : List Seg) : List (List Seg) :=
  (plan o calcBudget score lt segs).getD []

/-- `planMergeAtSnapshot`: the tasks are executed one after the other ("process tasks in serial for now");
every task takes a fresh segment id (`atomic.AddUint64(&s.nextSegmentID, 1)`), also when nothing is merged -/
def executeAll : Nat → List Seg → List (List Seg) → List Seg
  | _, segs, [] => segs
  | next, segs, t :: ts => executeAll (next + 1) (executeTask next segs t) ts

structure HState where
  next : Nat
  segs : List Seg
deriving Repr, DecidableEq

/-- one planning round of the merger on a state without arrivals -/
def round {σ : Type} (o : Options) (calcBudget : Int → Int → Int) (score : List Seg → σ)
    (lt : σ → σ → Bool) (st : HState) : HState :=
  let ts := planOf o calcBudget score lt st.segs
  ⟨st.next + ts.length, executeAll st.next st.segs ts⟩

def rounds {σ : Type} (o : Options) (calcBudget : Int → Int → Int) (score : List Seg → σ)
    (lt : σ → σ → Bool) : Nat → HState → HState
  | 0, st => st
  | k + 1, st => rounds o calcBudget score lt k (round o calcBudget score lt st)

/-- ids come from a counter: every id in use is below the next one -/
def freshIds (st : HState) : Bool := st.segs.all fun s => decide (s.id < st.next)

/-! ### the concrete input of the finding `plan-only-noop-singletons`

`MaxSegmentsPerTier = 1`, `TierGrowth = 100`, everything else as in `DefaultMergePlanOptions`; three
deletion-free segments of 362321, 42807 and 5041 documents. `livelockScores` are the values the real
`ScoreSegments` returns for the six rosters the roster loop can build from them (as `float64` bit
patterns: all positive, so `<` on the patterns is `<` on the floats); the harness line `witness` prints
the real values and the driver answers with this table, so a change of the scorer shows up as a broken
correspondence. -/
def livelockOptions : Options := ⟨1, 5000000, 10, 2000, false⟩
def livelockSegs : List Seg := [⟨1, 362321, 362321⟩, ⟨2, 42807, 42807⟩, ⟨3, 5041, 5041⟩]
def livelockScores : List (List Int × Nat) := [
  ([362321, 42807, 5041], 0x3ffaf89a91bdc621),  -- 1.6856942837733941
  ([42807, 5041], 0x3ff888a4ba6cf1c8),          -- 1.5333602220772367
  ([5041], 0x3ff88126cf12f566),                 -- 1.531531151659999
  ([362321, 42807], 0x3ffb4a3258d2556d),        -- 1.7056144208521247
  ([42807], 0x3ffb454a46b63d0a),                -- 1.7044165384466532
  ([362321], 0x3ffe5818c172bdf5)]               -- 1.8965079838343375

def lookupScore (table : List (List Int × Nat)) (r : List Seg) : Nat :=
  match table.find? (fun e => e.1 == r.map (·.liveSize)) with
  | some e => e.2
  | none => 0

def taskSubset (segs : List Seg) (tasks : List (List Seg)) : Bool :=
  tasks.all fun t => t.all fun s => segs.contains s
def tasksDisjoint (tasks : List (List Seg)) : Bool := decide (tasks.flatten.map (·.id)).Nodup
def tasksNonempty (tasks : List (List Seg)) : Bool := tasks.all fun t => decide (t.length > 0)
def tasksLiveBound (o : Options) (tasks : List (List Seg)) : Bool :=
  tasks.all fun t => decide (liveSum t < o.maxSegmentSize)
def tasksSmallOnly (o : Options) (tasks : List (List Seg)) : Bool :=
  tasks.all fun t => t.all (isEligible o)
def tasksHomogeneous (tasks : List (List Seg)) : Bool :=
  tasks.all fun t => t.all isEmptySeg || t.all (fun s => !isEmptySeg s)
def tasksSizeBound (o : Options) (tasks : List (List Seg)) : Bool :=
  tasks.all fun t => t.all isEmptySeg || decide ((t.length : Int) ≤ o.segmentsPerMergeTask)

/-- the well-formedness oracle: `none` = well-formed, `some reason` otherwise. The driver evaluates it
on the tasks returned by the real `mergeplan.Plan`; `BlugeProofs.C19.plan_passes_oracle` proves it is
`none` on the model's tasks. -/
def wfReason (o : Options) (segs : List Seg) (tasks : List (List Seg)) : Option String :=
  if !taskSubset segs tasks then some "subset"
  else if !tasksNonempty tasks then some "empty-task"
  else if !tasksDisjoint tasks then some "disjoint"
  else if !tasksLiveBound o tasks then some "live-sum"
  else if !tasksSmallOnly o tasks then some "not-small"
  else if !tasksHomogeneous tasks then some "mixed-empties"
  else if !tasksSizeBound o tasks then some "task-too-long"
  else none

end Bluge.MergePlan

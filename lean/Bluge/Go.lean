/-! Run-time support for the definitions that `go/extract` translates from Go source (BlugeGen.*).
`Res α` is the outcome of a translated Go function: a value, a non-nil `error` result, or `crash`: a run-time
panic (index/slice out of range, explicit `panic(...)`, or exhausted loop fuel). Core Lean only. -/
namespace Bluge.Go

inductive Res (α : Type) where
  | ok (a : α)
  | err
  | crash
deriving Repr, DecidableEq

namespace Res
@[inline] def bind {α β : Type} (x : Res α) (f : α → Res β) : Res β :=
  match x with
  | ok a => f a
  | err => err
  | crash => crash
instance : Monad Res where
  pure := ok
  bind := bind
@[simp] theorem pure_eq {α : Type} (a : α) : (pure a : Res α) = ok a := rfl
@[simp] theorem ok_bind {α β : Type} (a : α) (f : α → Res β) : (ok a >>= f) = f a := rfl
@[simp] theorem err_bind {α β : Type} (f : α → Res β) : ((err : Res α) >>= f) = err := rfl
@[simp] theorem crash_bind {α β : Type} (f : α → Res β) : ((crash : Res α) >>= f) = crash := rfl
def toOption {α : Type} : Res α → Option α
  | ok a => some a
  | _ => none
end Res
open Res

/-- `x, err := f(...)`: a Go error result becomes a value the caller inspects; a panic propagates -/
def try_ {α : Type} [Inhabited α] (r : Res α) : Res (α × Bool) :=
  match r with
  | ok a => ok (a, false)
  | err => ok (default, true)
  | crash => crash
@[simp] theorem try_ok {α : Type} [Inhabited α] (a : α) : try_ (ok a) = ok (a, false) := rfl
@[simp] theorem try_err {α : Type} [Inhabited α] : try_ (err : Res α) = ok (default, true) := rfl
@[simp] theorem try_crash {α : Type} [Inhabited α] : try_ (crash : Res α) = crash := rfl

abbrev Bytes := List (BitVec 8)

/-- `xs[i]` (panics when out of range; a negative int index is a huge unsigned one) -/
def getIdx {α : Type} (xs : List α) (i : BitVec 64) : Res α :=
  match xs[i.toNat]? with
  | some a => ok a
  | none => crash

/-- `xs[i] = v` -/
def setIdx {α : Type} (xs : List α) (i : BitVec 64) (v : α) : Res (List α) :=
  if i.toNat < xs.length then ok (xs.set i.toNat v) else crash

/-- `xs[a:b]` for a slice whose capacity equals its length -/
def slice {α : Type} (xs : List α) (a b : BitVec 64) : Res (List α) :=
  if a.toNat ≤ b.toNat ∧ b.toNat ≤ xs.length then ok ((xs.take b.toNat).drop a.toNat) else crash

def len {α : Type} (xs : List α) : BitVec 64 := BitVec.ofNat 64 xs.length

/-- `make([]T, n)` -/
def make {α : Type} (zero : α) (n : BitVec 64) : List α := List.replicate n.toNat zero

/-- `copy(dst, src)`: the new value of dst -/
def copy {α : Type} (dst src : List α) : List α :=
  src.take dst.length ++ dst.drop src.length

end Bluge.Go

import Bluge.Basic
/-! # C17 — the vocabulary of the translated scoring code (core Lean only)

`go/extract/c17.go` translates `/repo/search/similarity/{bm25,composite,constant}.go` into
`BlugeGen/C17.lean` as definitions that are polymorphic in `ScoreField α`: the SAME generated
definition is instantiated at `ℝ` (`BlugeProofs/C17/Real.lean`, Mathlib) for the theorems and at
`Float` (below) in the model driver `Drv/C17.lean`.

Nothing in this file knows a formula; it only fixes what `+ - * / log float64(·) ==` and a decimal
literal mean, the shape of an explanation tree, and the canonical text form of such a tree. -/
namespace Bluge.BM25

/-- What the translated float code needs from its number type. `extends` gives the generated code
ordinary `+ - * /` notation. -/
class ScoreField (α : Type) extends Add α, Sub α, Mul α, Div α where
  /-- `math.Log` -/
  log : α → α
  /-- `float64(x)` of a non-negative integer value (`uint64`, `uint32`, non-negative `int`) -/
  ofNat : Nat → α
  /-- the decimal constant `m · 10^(-e)` converted to float64 (`0.5` is `lit 5 1`, `1` and `1.0` are `lit 1 0`) -/
  lit : Nat → Nat → α
  /-- Go `==` on float64 -/
  beq : α → α → Bool

/-- Go `a - b` on `uint64` (wraps around) -/
def u64sub (a b : Nat) : Nat := (a % 2 ^ 64 + 2 ^ 64 - b % 2 ^ 64) % 2 ^ 64

theorem u64sub_of_le {a b : Nat} (h : b ≤ a) (ha : a < 2 ^ 64) : u64sub a b = a - b := by
  unfold u64sub
  have hb : b < 2 ^ 64 := Nat.lt_of_le_of_lt h ha
  rw [Nat.mod_eq_of_lt ha, Nat.mod_eq_of_lt hb]
  omega

/-- `search.Explanation` -/
inductive Expl (α : Type) where
  | node (value : α) (msg : String) (children : List (Expl α))

def Expl.value {α : Type} : Expl α → α
  | .node v _ _ => v
def Expl.msg {α : Type} : Expl α → String
  | .node _ m _ => m
def Expl.children {α : Type} : Expl α → List (Expl α)
  | .node _ _ c => c

@[simp] theorem Expl.value_node {α : Type} (v : α) (m : String) (c : List (Expl α)) : (Expl.node v m c).value = v := rfl
@[simp] theorem Expl.msg_node {α : Type} (v : α) (m : String) (c : List (Expl α)) : (Expl.node v m c).msg = m := rfl
@[simp] theorem Expl.children_node {α : Type} (v : α) (m : String) (c : List (Expl α)) : (Expl.node v m c).children = c := rfl

/-- the two fields of `search.DocumentMatch` that the composite scorers read -/
structure Match (α : Type) where
  score : α
  explanation : Expl α

/-- `segment.CollectionStats` as read by the similarity (a nil interface is `none`) -/
structure CollStats where
  documentCount : Nat
  sumTotalTermFrequency : Nat
  deriving Inhabited, Repr

/-- `segment.TermStats` -/
structure TermStats where
  documentFrequency : Nat
  deriving Inhabited, Repr

/-- `fmt.Sprintf("%d", n)` -/
def fmtD (n : Nat) : String := toString n

/-! ## where the statistics of a real search come from (phase 2: reachability of the theorems' hypotheses)

`TermSearcher` (search/searcher/search_term.go) asks the index snapshot for `CollectionStats(field)` and for a postings
iterator of `(term, field)`; both are **sums over the same list of segments** (index/snapshot.go `CollectionStats`,
index/postings.go `postingsIterator.Count`; the shape of these loops is re-extracted by `go/extract/c17.go` as
`BlugeGen.C17.statsFacts`). What one segment contributes comes from the segment plugin (ice), which is modelled, not
verified: the per-segment predicate `SegStat.ok` is the assumption, evaluated by the correspondence run on every segment
of every real search (a recording wrapper around the plugin). -/

/-- what ONE segment contributes to the statistics of a term searcher -/
structure SegStat where
  /-- `PostingsList.Count()` of the term, built with the segment's deleted bitmap as `except` (live postings only) -/
  n : Nat
  /-- `CollectionStats(field).DocumentCount()` (ice: documents of the segment that have the field, deleted ones included) -/
  bigN : Nat
  /-- `CollectionStats(field).SumTotalTermFrequency()` -/
  ttf : Nat
  deriving Repr, DecidableEq, Inhabited

/-- `postingsIterator.Count`: `for _, posting := range i.postings { rv += posting.Count() }` -/
def docFreqOf (segs : List SegStat) : Nat := segs.foldl (fun rv s => rv + s.n) 0
/-- `Snapshot.CollectionStats`: `rv = first; rv.Merge(next)…`, `Merge` adds `docCount` -/
def docCountOf (segs : List SegStat) : Nat := segs.foldl (fun rv s => rv + s.bigN) 0
/-- … and `sumTotalTermFreq` -/
def sumTtfOf (segs : List SegStat) : Nat := segs.foldl (fun rv s => rv + s.ttf) 0

/-- the assumption on the segment plugin, per segment: the live postings of a term are documents that have the field,
and a segment that still has a live posting of the term has counted at least one token of the field -/
def SegStat.ok (s : SegStat) : Bool := decide (s.n ≤ s.bigN) && (s.n == 0 || decide (1 ≤ s.ttf))

def segsOk (segs : List SegStat) : Bool := segs.all SegStat.ok

/-- ALL hypotheses of `real_hit_score_pos_bounded` about the index side of one real hit, as one decidable predicate (the
driver evaluates exactly this function on every term node of every hit of the `dhit` stream): every segment obeys
`SegStat.ok`, some segment has a live posting of the term (the hit itself), the `uint64` sums do not wrap, the document
has at least one occurrence, no more occurrences than tokens, and a field length below the float32 `+Inf` pattern -/
def RealHitOk (segs : List SegStat) (f len : Nat) : Bool :=
  segsOk segs && segs.any (fun s => decide (1 ≤ s.n)) && decide (docCountOf segs < 2 ^ 64) &&
    decide (1 ≤ f) && decide (f ≤ len) && decide (len ≤ 0x7f800000)

/-! ### the field length from the indexed document to `docLen` inside `Score`

`ComputeNorm(numTerms) = math.Float32frombits(uint32(numTerms))` (bm25.go, shape checked by the extractor); the plugin
stores `math.Float32bits(norm)` as a uvarint (ice new.go) or, in the 1-hit encoding written by a merge, in 31 bits
(ice posting.go `fSTValEncode1Hit`); a merge re-encodes `math.Float32bits(float32(next.Norm()))`; `Posting.Norm()` is
`float64(float32 value)`; `Score`/`explainTf`/`Explain` read `math.Float32bits(float32(norm))`.

All of it is identity on bit patterns EXCEPT: `uint32(·)` truncates, the 1-hit encoding keeps 31 bits, and
float32 → float64 → float32 quiets a signalling NaN (sets mantissa bit 22; amd64 `CVTSS2SD`). `f32RoundTrip` states that
IEEE fact as a definition — it is an ASSUMPTION of the model (Lean has no provable float32), validated by the
correspondence run's `norm` lines on every length of a contiguous range and on the boundary patterns. -/

/-- Go `uint32(numTerms)` for a non-negative `int` -/
def u32 (n : Nat) : Nat := n % 2 ^ 32

/-- is this float32 bit pattern a NaN -/
def isNaN32 (bits : Nat) : Bool := (bits / 2 ^ 23) % 256 == 255 && bits % 2 ^ 23 != 0

/-- `math.Float32bits(float32(float64(math.Float32frombits(bits))))` for `bits < 2^32` -/
def f32RoundTrip (bits : Nat) : Nat := if isNaN32 bits then bits ||| 0x400000 else bits

def iterN {α : Type} (f : α → α) : Nat → α → α
  | 0, x => x
  | k + 1, x => iterN f k (f x)

/-- the `docLen` that `Score` computes for a posting of a document whose field has `numTerms` tokens, after `merges`
segment merges, read from a 1-hit encoded postings list or not -/
def dlSeen (numTerms : Nat) (merges : Nat) (oneHit : Bool) : Nat :=
  let bits := u32 numTerms
  let merged := iterN f32RoundTrip merges bits
  let stored := if oneHit then merged % 2 ^ 31 else merged
  f32RoundTrip stored

/-- field lengths for which `dlSeen` is the identity: up to the bit pattern of `+Inf` -/
def maxExactLen : Nat := 0x7f800000

/-! ### field length and term frequency of an analysed document

`TermField.Analyze` sets `analyzedLength = len(tokens)` and `analyzedTokenFreqs = TokenFrequency(tokens)` (every token adds
1 to exactly one term); `CompositeField.Consume` adds the consumed field's length and merges its frequencies; ice adds up
`field.Length()` and the frequencies of all fields of the same name (`processDocument`). The shape of the bluge side is
re-extracted as `BlugeGen.C17.lengthFacts`. -/

/-- one analysed field of a document: its name and the terms of its tokens, in order -/
structure AField where
  name : String
  tokens : List String

/-- a composite field `cname` that consumes the fields selected by `inc` behaves like extra fields named `cname` -/
def expandComposite (cname : String) (inc : String → Bool) (doc : List AField) : List AField :=
  doc ++ ((doc.filter fun f => f.name != cname && inc f.name).map fun f => { name := cname, tokens := f.tokens })

/-- ice `processDocument`: `fieldLens[fieldID] += field.Length()` -/
def fieldLength (doc : List AField) (name : String) : Nat :=
  ((doc.filter (·.name == name)).map (·.tokens.length)).sum

/-- ice `processDocument`: `existingTf.frequency += term.Frequency()` -/
def termFreq (doc : List AField) (name term : String) : Nat :=
  ((doc.filter (·.name == name)).map (·.tokens.count term)).sum

/-! ## the per-term boost of a fuzzy query

search/searcher/search_fuzzy.go `boostFromDistance`: `return 1.0 - (float64(termEditDistance) / float64(minTermLen))` where
`termEditDistance` is the edit distance between the query term and the dictionary term (found by probing the smaller
Levenshtein automata) and `minTermLen` the smaller of their lengths in runes; the term searcher of that dictionary term is
built with `boost * thatValue` (search_multi_term.go `makeBatchSearchers`), or `boost * 1.0` for the query term itself.
The shape of these statements is re-extracted as `BlugeGen.C17.fuzzyFacts`. -/

/-- `1.0 - (float64(termEditDistance) / float64(minTermLen))` -/
def boostFromDistance {α : Type} [ScoreField α] (dist minLen : Nat) : α :=
  ScoreField.lit 1 0 - ScoreField.ofNat dist / ScoreField.ofNat minLen

/-- the boost handed to the term searcher of a dictionary term at distance `dist` from a query term of `searchLen` runes -/
def fuzzyTermBoost {α : Type} [ScoreField α] (boost : α) (dist searchLen termLen : Nat) : α :=
  boost * (if dist == 0 then ScoreField.lit 1 0 else boostFromDistance dist (min searchLen termLen))

/-! ## `Float` instance (IEEE-754 binary64, the driver's number type) -/

/-- float64(n) for n < 2^64 is the correctly rounded conversion (C cast), as in Go -/
def floatOfNat (n : Nat) : Float := n.toUInt64.toFloat

/-- IEEE binary64 with a given `log` (the driver passes libm's `Float.log`, or that `log` snapped to the value the
implementation printed when the two are within 4 ulp — Go's `math.Log` is a pure-Go routine and may differ from libm
in the last place; every other operation is required to agree bit for bit). Deliberately NOT a global instance. -/
@[instance_reducible] def floatField (logf : Float → Float) : ScoreField Float where
  add := Float.add
  sub := Float.sub
  mul := Float.mul
  div := Float.div
  log := logf
  ofNat := floatOfNat
  lit m e := if e == 0 then floatOfNat m else OfScientific.ofScientific m true e
  beq a b := a == b

/-! ## bit patterns, ulp distance -/

/-- bit pattern as 16 hex digits; every NaN prints as the canonical quiet NaN (sign and payload of a NaN are not compared) -/
def fbits (x : Float) : String := if x.isNaN then "7ff8000000000000" else toHex 16 x.toBits.toNat
def parseF (s : String) : Option Float := (parseHex s).map fun n => Float.ofBits n.toUInt64

/-- position of a finite/infinite pattern on the number line of representable values -/
def ordBits (b : Nat) : Int := if b < 2 ^ 63 then (b : Int) else -((b - 2 ^ 63 : Nat) : Int)

/-- distance in units in the last place; two NaNs are 0 apart, a NaN and a number 2^64 -/
def ulpDist (a b : Float) : Nat :=
  if a.isNaN && b.isNaN then 0
  else if a.isNaN || b.isNaN then 2 ^ 64
  else (ordBits a.toBits.toNat - ordBits b.toBits.toNat).natAbs

/-! ## canonical text of an explanation tree: `{<16 hex digits of the value>;<message>;<child>…}` -/

partial def Expl.render : Expl Float → String
  | .node v m cs => "{" ++ fbits v ++ ";" ++ m ++ ";" ++ String.join (cs.map Expl.render) ++ "}"

/-- recursive-descent parser of `Expl.render`'s format; returns the tree and the rest -/
partial def parseExplAux (cs : List Char) : Option (Expl Float × List Char) :=
  match cs with
  | '{' :: rest =>
    let (vs, r1) := rest.span (· != ';')
    match r1 with
    | ';' :: r2 =>
      let (ms, r3) := r2.span (· != ';')
      match r3, parseF (String.ofList vs) with
      | ';' :: r4, some v =>
        let rec kids (acc : List (Expl Float)) (r : List Char) : Option (List (Expl Float) × List Char) :=
          match r with
          | '}' :: r' => some (acc.reverse, r')
          | '{' :: _ => match parseExplAux r with
              | some (k, r') => kids (k :: acc) r'
              | none => none
          | _ => none
        match kids [] r4 with
        | some (ks, r5) => some (Expl.node v (String.ofList ms) ks, r5)
        | none => none
      | _, _ => none
    | _ => none
  | _ => none

def parseExpl (s : String) : Option (Expl Float) :=
  match parseExplAux s.toList with
  | some (t, []) => some t
  | _ => none

end Bluge.BM25

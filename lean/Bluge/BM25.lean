import Bluge.Basic
/-! # C17 — the vocabulary of the translated scoring code (core Lean only)

`go/extract/c17.go` translates `/repo/search/similarity/{bm25,composite,constant}.go` into
`BlugeGen/C17.lean` as definitions that are polymorphic in `ScoreField α`: the SAME generated
definition is instantiated at `ℝ` (`BlugeProofs/C17/Real.lean`, Mathlib) for the theorems and at
`Float` (below) in the model driver `Drv/C17.lean`.

Nothing in this file knows a formula; it only fixes what `+ - * / log float64(·) ==` and a decimal
literal mean, the shape of an explanation tree, and the canonical text form of such a tree. -/
namespace Bluge.BM25

/-- What the translated float code needs from its number type. `extends` gives the generated code
ordinary `+ - * /` notation. -/
class ScoreField (α : Type) extends Add α, Sub α, Mul α, Div α where
  /-- `math.Log` -/
  log : α → α
  /-- `float64(x)` of a non-negative integer value (`uint64`, `uint32`, non-negative `int`) -/
  ofNat : Nat → α
  /-- the decimal constant `m · 10^(-e)` converted to float64 (`0.5` is `lit 5 1`, `1` and `1.0` are `lit 1 0`) -/
  lit : Nat → Nat → α
  /-- Go `==` on float64 -/
  beq : α → α → Bool

/-- Go `a - b` on `uint64` (wraps around) -/
def u64sub (a b : Nat) : Nat := (a % 2 ^ 64 + 2 ^ 64 - b % 2 ^ 64) % 2 ^ 64

theorem u64sub_of_le {a b : Nat} (h : b ≤ a) (ha : a < 2 ^ 64) : u64sub a b = a - b := by
  unfold u64sub
  have hb : b < 2 ^ 64 := Nat.lt_of_le_of_lt h ha
  rw [Nat.mod_eq_of_lt ha, Nat.mod_eq_of_lt hb]
  omega

/-- `search.Explanation` -/
inductive Expl (α : Type) where
  | node (value : α) (msg : String) (children : List (Expl α))

def Expl.value {α : Type} : Expl α → α
  | .node v _ _ => v
def Expl.msg {α : Type} : Expl α → String
  | .node _ m _ => m
def Expl.children {α : Type} : Expl α → List (Expl α)
  | .node _ _ c => c

@[simp] theorem Expl.value_node {α : Type} (v : α) (m : String) (c : List (Expl α)) : (Expl.node v m c).value = v := rfl
@[simp] theorem Expl.msg_node {α : Type} (v : α) (m : String) (c : List (Expl α)) : (Expl.node v m c).msg = m := rfl
@[simp] theorem Expl.children_node {α : Type} (v : α) (m : String) (c : List (Expl α)) : (Expl.node v m c).children = c := rfl

/-- the two fields of `search.DocumentMatch` that the composite scorers read -/
structure Match (α : Type) where
  score : α
  explanation : Expl α

/-- `segment.CollectionStats` as read by the similarity (a nil interface is `none`) -/
structure CollStats where
  documentCount : Nat
  sumTotalTermFrequency : Nat
  deriving Inhabited, Repr

/-- `segment.TermStats` -/
structure TermStats where
  documentFrequency : Nat
  deriving Inhabited, Repr

/-- `fmt.Sprintf("%d", n)` -/
def fmtD (n : Nat) : String := toString n

/-! ## `Float` instance (IEEE-754 binary64, the driver's number type) -/

/-- float64(n) for n < 2^64 is the correctly rounded conversion (C cast), as in Go -/
def floatOfNat (n : Nat) : Float := n.toUInt64.toFloat

/-- IEEE binary64 with a given `log` (the driver passes libm's `Float.log`, or that `log` snapped to the value the
implementation printed when the two are within 4 ulp — Go's `math.Log` is a pure-Go routine and may differ from libm
in the last place; every other operation is required to agree bit for bit). Deliberately NOT a global instance. -/
@[instance_reducible] def floatField (logf : Float → Float) : ScoreField Float where
  add := Float.add
  sub := Float.sub
  mul := Float.mul
  div := Float.div
  log := logf
  ofNat := floatOfNat
  lit m e := if e == 0 then floatOfNat m else OfScientific.ofScientific m true e
  beq a b := a == b

/-! ## bit patterns, ulp distance -/

/-- bit pattern as 16 hex digits; every NaN prints as the canonical quiet NaN (sign and payload of a NaN are not compared) -/
def fbits (x : Float) : String := if x.isNaN then "7ff8000000000000" else toHex 16 x.toBits.toNat
def parseF (s : String) : Option Float := (parseHex s).map fun n => Float.ofBits n.toUInt64

/-- position of a finite/infinite pattern on the number line of representable values -/
def ordBits (b : Nat) : Int := if b < 2 ^ 63 then (b : Int) else -((b - 2 ^ 63 : Nat) : Int)

/-- distance in units in the last place; two NaNs are 0 apart, a NaN and a number 2^64 -/
def ulpDist (a b : Float) : Nat :=
  if a.isNaN && b.isNaN then 0
  else if a.isNaN || b.isNaN then 2 ^ 64
  else (ordBits a.toBits.toNat - ordBits b.toBits.toNat).natAbs

/-! ## canonical text of an explanation tree: `{<16 hex digits of the value>;<message>;<child>…}` -/

partial def Expl.render : Expl Float → String
  | .node v m cs => "{" ++ fbits v ++ ";" ++ m ++ ";" ++ String.join (cs.map Expl.render) ++ "}"

/-- recursive-descent parser of `Expl.render`'s format; returns the tree and the rest -/
partial def parseExplAux (cs : List Char) : Option (Expl Float × List Char) :=
  match cs with
  | '{' :: rest =>
    let (vs, r1) := rest.span (· != ';')
    match r1 with
    | ';' :: r2 =>
      let (ms, r3) := r2.span (· != ';')
      match r3, parseF (String.ofList vs) with
      | ';' :: r4, some v =>
        let rec kids (acc : List (Expl Float)) (r : List Char) : Option (List (Expl Float) × List Char) :=
          match r with
          | '}' :: r' => some (acc.reverse, r')
          | '{' :: _ => match parseExplAux r with
              | some (k, r') => kids (k :: acc) r'
              | none => none
          | _ => none
        match kids [] r4 with
        | some (ks, r5) => some (Expl.node v (String.ofList ms) ks, r5)
        | none => none
      | _, _ => none
    | _ => none
  | _ => none

def parseExpl (s : String) : Option (Expl Float) :=
  match parseExplAux s.toList with
  | some (t, []) => some t
  | _ => none

end Bluge.BM25

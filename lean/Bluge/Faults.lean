import Bluge.Persist
/-! # Crashes with torn files and I/O faults — extension of `Bluge.Persist` for C03 and C14 (core Lean only)

`Bluge.Persist` already has the events `crash`, `openWriter` (Reopen), `fault`, `segEnd/snapEnd/mergeSegEnd … false`,
`persistFail`, `cleanupRemove… false`. This file adds what the two properties need on top of it:

* `XEvent.tornSeg sid` — while a segment file is being written (or after a crash in the middle of the write) the
  directory holds a TORN file of that name. `Bluge.Persist` shows a torn snapshot file (`snapBegin` puts an
  incomplete entry) but no torn segment file; `OpenWriter` sees it (`List(ItemKindSegment)` seeds `nextSegmentID`),
  so the recovery theorems must quantify over it.
* the crash images of C03's quantifier: every file in flight is absent, torn, or fully written (`CrashSpec`), expressed
  by events of the model followed by `crash`: fully written = the Persist's effect without its return, absent = the
  effect of Persist's own clean-up, torn = `tornSeg` / the incomplete snapshot entry.
* `Obs`, `observe` — what the persister and the merger SAY at an event (error sent to the waiting batches, asynchronous
  error callback, callbacks invoked with nil and their order): transcription of `persisterLoop` 88–122 and
  `mergerLoop` 56–68. `XState` carries the ghost history of these observations within one writer lifetime.
* the byte level of a snapshot file as far as C03 needs it: the torn variants of an encoding (`tornVariants`) and the
  hypothesis `TornRejected`. -/
namespace Bluge.Persist

/-! ## torn segment files -/

/-- the segment files whose Persist has begun and not returned -/
def inFlightSegs (s : State) : List Nat :=
  s.mergeW ++ (match s.job with | some j => j.cur.toList | none => [])

/-- the torn file of a segment Persist in flight is in the directory -/
def stepTornSeg (s : State) (sid : Nat) : Option State :=
  if sid ∈ inFlightSegs s then some { s with disk := s.disk.putSeg sid false } else none

inductive XEvent
  | base (ev : Event)
  | tornSeg (sid : Nat)
  deriving DecidableEq, Repr, Inhabited

def XEvent.exact : XEvent → Bool
  | .base ev => ev.exact
  | .tornSeg _ => true

def xstep (s : State) : XEvent → Option State
  | .base ev => step s ev
  | .tornSeg sid => stepTornSeg s sid

def xrun (s : State) : List XEvent → Option State
  | [] => some s
  | ev :: evs => match xstep s ev with
      | some s' => xrun s' evs
      | none => none

/-- every state the protocol can reach from the empty directory, to any depth of crash / reopen, with torn
segment files visible, under `PersistExact` (= `Event.exact`, C13) -/
inductive XReachable (n : Nat) : State → Prop
  | init : XReachable n (init n)
  | step {s s' : State} (ev : XEvent) : XReachable n s → ev.exact = true → xstep s ev = some s' → XReachable n s'

inductive XLater : State → State → Prop
  | refl (s : State) : XLater s s
  | step {s s' s'' : State} (ev : XEvent) : XLater s s' → ev.exact = true → xstep s' ev = some s'' → XLater s s''

/-! ## crash images as events -/

/-- what a file in flight looks like after the crash -/
inductive Torn
  | absent | torn | full
  deriving DecidableEq, Repr, Inhabited

/-- the events that turn the directory of `s` into the crash image described: the snapshot file in flight (if any)
and each segment file in flight -/
def crashPrelude (s : State) (snap : Option Torn) (segs : List (Nat × Torn)) : List XEvent :=
  (match snap with
   | some .full => [.base (.snapEnd true true)]
   | some .absent => [.base (.snapEnd false true)]
   | _ => []) ++
  segs.flatMap fun (sid, t) =>
    match t with
    | .full => if (s.job.bind (·.cur)) = some sid then [.base (.segEnd sid true true)] else [.base (.mergeSegEnd sid true true)]
    | .torn => [.tornSeg sid]
    | .absent => []

/-- the state after a crash that leaves the files in flight as described -/
def crashTo (s : State) (snap : Option Torn) (segs : List (Nat × Torn)) : Option State :=
  (xrun s (crashPrelude s snap segs)).bind fun s' => step s' .crash

/-! ## observations (C14) -/

structure Obs where
  ackNil : List Nat := []     -- safe batches whose channel was closed without an error (Batch returns nil)
  errTo : List Nat := []      -- safe batches whose channel received the persist error (Batch returns it)
  cbNil : List Nat := []      -- persisted callbacks invoked with nil, in order of invocation
  parked : List Nat := []     -- callbacks appended to unpersistedCallbacks
  asyncErr : Bool := false    -- fireAsyncError
  deriving DecidableEq, Repr, Inhabited

/-- what the writer's loops say at an event (`persisterLoop`: `for ch in ourPersisted { if err != nil { ch <- err }; close(ch) }`,
then on error `unpersistedCallbacks = append(…, ourPersistedCallbacks…)`, `fireAsyncError`, `continue OUTER` — or `break OUTER`
without either on ErrClosed —, on success `append(unpersistedCallbacks, ourPersistedCallbacks…)` invoked in order with nil;
`mergerLoop`: `fireAsyncError` unless ErrClosed) -/
def observe (s : State) : Event → Obs
  | .ack => match s.job with
      | some j => if j.phase = .committed then { ackNil := j.acks, cbNil := s.unpCbs ++ j.cbs } else {}
      | none => {}
  | .persistFail closed => match s.job with
      | some j => if j.phase = .failed then
                    { errTo := j.acks, parked := if closed then [] else j.cbs, asyncErr := !closed }
                  else {}
      | none => {}
  | .fault .merger => { asyncErr := true }
  | _ => {}

/-- a writer state with the ghost history of one lifetime: which batches were told the error, how many asynchronous
errors fired, the callbacks invoked with nil in order -/
structure XState where
  s : State
  nacked : List Nat := []
  asyncErrs : Nat := 0
  cbLog : List Nat := []
  deriving DecidableEq, Repr, Inhabited

/-- the ghost history is per writer lifetime (batch numbers restart at the recovered content after a reopen) -/
def endsLifetime : Event → Bool
  | .crash => true
  | .closeWriter => true
  | _ => false

def ostep (x : XState) (ev : Event) : Option XState :=
  match step x.s ev with
  | none => none
  | some s' =>
      let o := observe x.s ev
      if endsLifetime ev then some { s := s' }
      else some { s := s', nacked := x.nacked ++ o.errTo, asyncErrs := x.asyncErrs + (if o.asyncErr then 1 else 0),
                  cbLog := x.cbLog ++ o.cbNil }

/-- the events by which an I/O failure enters the protocol -/
def isFault : Event → Bool
  | .segEnd _ false _ => true
  | .mergeSegEnd _ false _ => true
  | .snapEnd false _ => true
  | .fault _ => true
  | .persistFail _ => true
  | .cleanupRemoveSnap _ false => true
  | .cleanupRemoveSeg _ false => true
  | _ => false

/-! ## OpenWriter under a Load fault (C14) -/

/-- `loadSnapshots` when `Directory.Load` fails for the snapshot files of the epochs in `skip`: like unloadable files
they are logged and skipped (`continue`) — nothing else distinguishes an I/O error from a damaged file there -/
def reopenSkip (skip : List Nat) (s : State) : Option State :=
  let ls := (loadOrder s.disk).filter (fun f => !skip.contains f.epoch)
  match ls.getLast? with
  | none =>
      if s.disk.snaps.isEmpty then
        some { disk := s.disk, pol := { n := s.pol.n }, isOpen := true, lock := true,
               sidFloor := s.disk.maxSeg + 2, acked := s.acked, readers := s.readers }
      else none
  | some f =>
      some { disk := s.disk, pol := commitAll s.pol.n ls, isOpen := true, lock := true,
             sidFloor := s.disk.maxSeg + 2, acked := s.acked, readers := s.readers, commits := ls.map (·.epoch),
             applied := f.k, rootEpoch := f.epoch, nextEpoch := f.epoch + 1,
             rootSegs := f.segs, lastPersisted := f.epoch }

def stepOpenSkip (skip : List Nat) (s : State) : Option State :=
  if s.lock = true then some s
  else if s.isOpen = true then none
  else reopenSkip skip s

/-! ## the byte level of a snapshot file (C03) -/

abbrev FileBytes := List (BitVec 8)

/-- the torn variants of the quantifier text, for a file being written with content `new` over a previous file `old`
of the same name (`[]` if there was none): every prefix, the full length zero-filled, every prefix followed by the
stale tail of the previous file (including the whole new content followed by the tail a non-truncating write leaves) -/
def tornVariants (new old : FileBytes) : List FileBytes :=
  let ks := List.range (new.length + 1)
  ks.map (fun k => new.take k) ++ [List.replicate new.length 0] ++ ks.map (fun k => new.take k ++ old.drop k) ++ [old]

/-- **TornRejected**: the loader accepts no torn variant of an encoding other than the encoding itself — and the previous
file left untouched, which is the old state, not a torn one. CRC-32 cannot make this a theorem; it is a hypothesis,
evaluated by the harness on every torn image it builds. -/
def TornRejected {α : Type} (accept : FileBytes → Option α) (new old : FileBytes) : Prop :=
  ∀ v ∈ tornVariants new old, v ≠ new → v ≠ old → accept v = none

/-- the directory entry the model keeps for a snapshot file with bytes `b` written for content `(k, segs)`:
complete iff the loader accepts the bytes -/
def entryOf {α : Type} (accept : FileBytes → Option α) (epoch k : Nat) (segs : List Nat) (b : FileBytes) : SnapFile :=
  { epoch := epoch, k := k, segs := segs, complete := (accept b).isSome }

end Bluge.Persist

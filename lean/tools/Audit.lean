import Lean
/-! `lake env lean --run tools/Audit.lean <Module>`:
prints `THM <name> <axiom>*` for every theorem declared in `<Module>` (property theorems live one
module per property), with the axioms its proof depends on, transitively (own traversal of the
kernel environment: every constant reachable from the theorem's type and proof term). -/
open Lean

structure St where
  seen : NameSet := {}
  axioms : NameSet := {}

partial def collect (env : Environment) (c : Name) : StateM St Unit := do
  if (← get).seen.contains c then return
  modify fun s => { s with seen := s.seen.insert c }
  let go (e : Expr) : StateM St Unit := e.getUsedConstants.forM (collect env)
  match env.find? c with
  | some (.axiomInfo v)  => modify (fun s => { s with axioms := s.axioms.insert c }); go v.type
  | some (.defnInfo v)   => go v.type; go v.value
  | some (.thmInfo v)    => go v.type; go v.value
  | some (.opaqueInfo v) => go v.type; go v.value
  | some (.quotInfo _)   => pure ()
  | some (.ctorInfo v)   => go v.type
  | some (.recInfo v)    => go v.type
  | some (.inductInfo v) => go v.type; v.ctors.forM (collect env)
  | none                 => modify fun s => { s with axioms := s.axioms.insert (`MISSING ++ c) }

def main (args : List String) : IO UInt32 := do
  initSearchPath (← findSysroot)
  if args.isEmpty then do IO.eprintln "usage: Audit <Module>…"; return 2
  let mods := args.map String.toName
  let env ← importModules (mods.toArray.map fun m => {module := m}) {} (trustLevel := 1024)
  let mut n := 0
  for mod in mods do
    let some idx := env.getModuleIdx? mod | do IO.eprintln s!"module {mod} not found"; return 2
    let mut names : Array Name := #[]
    for (c, ci) in env.constants.map₁.toList do
      if env.getModuleIdxFor? c == some idx then
        match ci with
        | .thmInfo _ => if !c.isInternal then names := names.push c
        | _ => pure ()
    IO.println s!"MODULE {mod} {names.size}"
    for c in names.qsort (fun a b => a.toString < b.toString) do
      let (_, s) := (collect env c).run {}
      let axs := s.axioms.toArray.qsort (fun a b => a.toString < b.toString)
      IO.println s!"THM {c} {" ".intercalate (axs.toList.map toString)}"
      n := n + 1
  IO.println s!"AUDITED {n}"
  return 0

import Bluge.MergePlan
import BlugeGen.C19
import Std.Data.HashMap
/-! Model driver for C19 (merge planner). Line protocol: see go/harness/c19/main.go.

* `plan <opts> | <segs> | <scores>` : runs the model `plan`. When the harness recorded Go's scores
  (`<scores>` ≠ `-`) the model's `score` parameter is that table (so the choice among rosters is made
  on exactly the numbers the real planner saw), and the model's own `scoreSegmentsF` is compared with
  every recorded score (≤ 16 ulp: Go's `math.Pow` and libm's `pow` may round differently); otherwise the
  model scores with `scoreSegmentsF`. The verdict is the well-formedness oracle `wfReason` (and the
  quiescence / no-op checks) evaluated on the IMPLEMENTATION's tasks.
* `case h… <opts>`, `add`, `del`, `hplan`, `settled` : a simulated history; the driver keeps its own state
  and executes the MODEL's tasks with `executeTask`.
* `rplan <opts> | <segs> | <scores>` : a planner input recorded from a REAL writer's merger (through the
  `CalcBudget`/`ScoreSegments` hooks of `MergePlanOptions` and the root trace); same as `plan`, and the verdict
  first evaluates the theorems' hypotheses `idsDistinct`, `sizesSane` on it (`bad:assumption-…`).
* `score`, `budget` : the default scorer and budget on their own; `budget` lines carry, when the float
  operations are exact, the exact staircases `calcBudgetNat` / `calcBudgetRat` and the verdict evaluates
  `budget_logarithmic(_rat)` / `budget_linear_when_tier_stuck` on the implementation's number.
* `witness` : the score table of the Lean witness `livelock_real_scores` against the real `ScoreSegments`.

The variant of the roster guard (`Options.skipNoop`) is the regenerated `BlugeGen.C19.skipNoop`. -/
open Bluge Bluge.MergePlan

structure St where
  o : Options := defaultOptions
  fo : FOptions := ⟨10.0, 2.0⟩
  segs : List Seg := []
  inHist : Bool := false
  lastAllNoop : Bool := false    -- the last plan of the history consisted of no-op singletons only
  diverged : Bool := false       -- model and implementation disagreed earlier in this history: the states differ
  writer : Bool := false         -- the history runs with the options a writer really uses (`case hw…`)

def parseOpts (ws : List String) : Option (Options × FOptions) :=
  match ws with
  | [per, mx, pt, fl, g, w] => do
    let per ← per.toInt?; let mx ← mx.toInt?; let pt ← pt.toInt?; let fl ← fl.toInt?
    let g ← parseHex g; let w ← parseHex w
    pure (⟨per, mx, pt, fl, BlugeGen.C19.skipNoop⟩, ⟨Float.ofBits g.toUInt64, Float.ofBits w.toUInt64⟩)
  | _ => none

def parseSeg (s : String) : Option Seg :=
  match s.splitOn ":" with
  | [a, b, c] => do
    let id ← a.toNat?; let f ← b.toInt?; let l ← c.toInt?
    pure ⟨id, f, l⟩
  | _ => none

def parseSegs (s : String) : Option (List Seg) :=
  if s == "-" || s == "" then some [] else (s.splitOn " ").mapM parseSeg

def showTasksIds (ts : List (List Nat)) : String :=
  if ts.isEmpty then "-" else
  ";".intercalate (ts.map fun t => ",".intercalate (t.map toString))

def showTasks (ts : List (List Seg)) : String := showTasksIds (ts.map (·.map (·.id)))

def rosterKey (r : List Seg) : String := ".".intercalate (r.map fun s => toString s.id)

/-- distance in units in the last place between two floats given as bit patterns -/
def ulpDist (a b : UInt64) : Nat :=
  if a == b then 0
  else if (a >>> 63) == (b >>> 63) then (if a > b then (a - b).toNat else (b - a).toNat)
  else 1 <<< 62

def parseScores (s : String) : Option (List (String × UInt64)) :=
  if s == "-" || s == "" then some [] else
  (s.splitOn " ").mapM fun e => match e.splitOn "=" with
    | [k, v] => (parseHex v).map fun n => (k, n.toUInt64)
    | _ => none

/-- the tasks printed by the implementation, as id lists; `none` for `nil`/`timeout`/… -/
def parseTasks (s : String) : Option (List (List Nat)) :=
  if s == "-" then some [] else
  (s.splitOn ";").mapM fun t => (t.splitOn ",").mapM String.toNat?

/-- field `tasks=` of an implementation result line -/
def implField (impl key : String) : Option String :=
  (impl.splitOn " ").findSome? fun w => if w.startsWith key then some ((w.drop key.length).toString) else none

/-- `budget(total,first)=b` → b -/
def implBudget (impl : String) : Option Int :=
  match (impl.splitOn " ").find? (·.startsWith "budget(") with
  | some w => match w.splitOn "=" with
    | [_, b] => b.toInt?
    | _ => none
  | none => none

/-- instrumented copy of `buildRoster` for coverage only: (rejected by the size guard, rejected with
`rosterLive + live = max` exactly) -/
def rosterTrace (o : Options) : List Seg → Nat → Int → Bool × Bool
  | [], _, _ => (false, false)
  | e :: rest, n, live =>
    if (n : Int) < o.segmentsPerMergeTask then
      if live + e.liveSize < o.maxSegmentSize then rosterTrace o rest (n + 1) (live + e.liveSize)
      else
        let r := rosterTrace o rest n live
        (true, r.2 || live + e.liveSize == o.maxSegmentSize)
    else (false, false)

def guardCoverage (o : Options) : List Seg → Bool × Bool
  | [] => (false, false)
  | e :: rest =>
    let a := rosterTrace o (e :: rest) 0 0
    let b := guardCoverage o rest
    (a.1 || b.1, a.2 || b.2)

structure PlanOut where
  result : String
  verdict : String
  tasks : List (List Seg)     -- the model's tasks (for the history state)
  allNoop : Bool := false     -- the IMPLEMENTATION's plan consists of no-op singletons only

/-- the exact value of a `float64 ≥ 1` as a fraction `num/den` in lowest terms (`den` a power of two), when both
are below 2^20 (the harness decomposes the bit pattern the same way) -/
def growthFraction (bits : UInt64) : Option (Nat × Nat) :=
  let b := bits.toNat
  let e := (b >>> 52) &&& 0x7ff
  let m := (b &&& (2 ^ 52 - 1)) ||| 2 ^ 52
  if b >>> 63 == 1 || e == 0 || e == 0x7ff then none else
  -- value = m · 2^(e - 1075)
  let rec strip (fuel m sh : Nat) : Nat × Nat :=      -- sh = 1075 - e while positive
    match fuel with
    | 0 => (m, sh)
    | fuel + 1 => if sh > 0 && m % 2 == 0 then strip fuel (m / 2) (sh - 1) else (m, sh)
  let (num, den) :=
    if e ≥ 1075 then (m * 2 ^ (e - 1075), 1)
    else let (m', sh) := strip 64 m (1075 - e); (m', 2 ^ sh)
  if num < 2 ^ 20 && den < 2 ^ 20 && num ≥ den then some (num, den) else none

/-- verdict of a `budget` line: the logarithmic bound (or, when the truncation eats the growth step, the
linear lower bound) evaluated on the IMPLEMENTATION's number `ib` -/
def budgetVerdict (ib : Int) (per num den first total : Nat) : String :=
  if first * num / den == first then
    -- budget_linear_when_tier_stuck: total ≤ first · budget
    if (total : Int) ≤ first * ib then "ok br=budget-tier-stuck" else "bad:budget-below-linear-bound"
  else
    -- h = g − 1/first, as the fraction (num·first − den)/(den·first)
    let hn := num * first - den
    let hd := den * first
    if growthAtLeast num den hn hd first && hn > hd then
      match tiersNeededRat per hn hd first total 200 0 with
      | some k => if ib ≤ per * (k + 1) then "ok br=budget-log-bound-rat" else "bad:budget-not-logarithmic"
      | none => "ok br=budget-rat-many-tiers"
    else "ok br=budget-rat-growth-not-established"

/-- the staircase of a writer's own options must be logarithmic: the budget the planner computed obeys
`budget_logarithmic_rat` for its growth factor (clamped to ≥ 1 as `CalcBudget` does); a tier that does not grow
(`budget_linear_when_tier_stuck`) or a growth whose rate cannot be established is a violation here -/
def writerBudgetVerdict (o : Options) (fo : FOptions) (ib total first : Int) : Option String :=
  let g : Float := if fo.tierGrowth < 1 then 1 else fo.tierGrowth
  let perN := (if o.maxSegmentsPerTier < 1 then 1 else o.maxSegmentsPerTier).toNat
  let firstN := (if first < 1 then 1 else first).toNat
  if total ≤ 0 then none else
  match growthFraction g.toBits with
  | none => some "bad:writer-budget-growth-not-exact"
  | some (num, den) =>
    let v := budgetVerdict ib perN num den firstN total.toNat
    if v.startsWith "ok br=budget-log-bound-rat" || v.startsWith "ok br=budget-rat-many-tiers" then none
    else some "bad:writer-budget-not-logarithmic"

/-- one planner call: model result, oracle verdict on the implementation's tasks, branches -/
def doPlan (o : Options) (fo : FOptions) (segs : List Seg) (scoresStr implLine : String) (real : Bool := false)
    (writer : Bool := false) : PlanOut :=
  let impl := match implLine.splitOn " after " with | a :: _ => a | [] => implLine
  let cb := calcBudgetF o fo
  let sf := scoreSegmentsF o fo
  let table := (parseScores scoresStr).getD []
  let tmap : Std.HashMap String UInt64 := Std.HashMap.ofList table
  let goScore : List Seg → Float := fun r =>
    match tmap[rosterKey r]? with
    | some b => Float.ofBits b
    | none => sf r
  let idmap : Std.HashMap Nat Seg := Std.HashMap.ofList (segs.map fun s => (s.id, s))
  let distinct := idsDistinct segs
  -- the model's own scorer against every score Go reported
  let lookupRoster (k : String) : Option (List Seg) := (k.splitOn ".").mapM fun w => w.toNat? >>= (idmap[·]?)
  let cmp := table.foldl (fun (acc : Nat × Nat × Option String) (kv : String × UInt64) =>
      match lookupRoster kv.1 with
      | none => (acc.1, acc.2.1, acc.2.2 <|> some s!"differ({kv.1}:unknown-id)")
      | some r =>
        let m := (sf r).toBits
        let d := ulpDist m kv.2
        if d == 0 then (acc.1 + 1, acc.2.1, acc.2.2)
        else if d ≤ 16 then (acc.1, acc.2.1 + 1, acc.2.2)
        else (acc.1, acc.2.1, acc.2.2 <|> some s!"differ({kv.1}:go={toHex 16 kv.2.toNat},model={toHex 16 m.toNat})"))
    (0, 0, none)
  let scoresTok := if distinct then (cmp.2.2.getD "ok") else "ok"
  -- (with duplicate ids the table keyed by ids is ambiguous: malformed stream, own scorer)
  let useGo := !table.isEmpty && distinct
  let mplan := if useGo then plan o cb goScore (· < ·) segs else plan o cb sf (· < ·) segs
  let p := prep o cb segs
  let mtasks := mplan.getD []
  let result := if impl == "skipped-after-timeout" then impl else match mplan with
    | none => "nil"
    | some ts => s!"budget({p.eligiblesLive},{p.minLive})={p.budget} tasks={showTasks ts} scores={scoresTok}"
  -- coverage
  let floatSame := if useGo then (if plan o cb sf (· < ·) segs == mplan then ["floatplan-same"] else ["floatplan-differs"]) else []
  let gc := guardCoverage o p.eligibles1
  let half := Int.tdiv o.maxSegmentSize 2
  let br : List String :=
    (match mplan with
      | none => ["nil"]
      | some [] => ["no-task"]
      | some ts =>
        (if p.empties.length > 0 then ["empties-task"] else []) ++
        (if ts.length > (if p.empties.length > 0 then 1 else 0) then ["roster-task"] else []) ++
        (if ts.length > 1 then ["several-tasks"] else []) ++
        (if ts.any (fun t => t.length == 1) then ["singleton-task"] else []) ++
        (if ts.any (fun t => liveSum t == o.maxSegmentSize - 1) then ["sum-just-below-max"] else []) ++
        (if o.segmentsPerMergeTask ≥ 2 && ts.any isNoopSingleton then ["noop-singleton-task"] else []))
    ++ (if writer && p.eligiblesLive ≥ (if o.maxSegmentsPerTier < 1 then 1 else o.maxSegmentsPerTier) * p.minLive
          then ["writer-default-options-beyond-first-tier"] else [])
    ++ (if real then ["real-planner-input"] ++ (if segs.any (fun s => s.liveSize < s.fullSize) then ["real-input-with-deletions"] else []) else [])
    ++ (if useGo then ["go-scores"] else (if mtasks.length > (if p.empties.length > 0 then 1 else 0) then ["model-float-scores"] else []))
    ++ floatSame
    ++ (if cmp.1 > 0 then ["score-bits-equal"] else []) ++ (if cmp.2.1 > 0 then ["score-ulp-diff"] else [])
    ++ (if gc.1 then ["size-guard-rejects"] else []) ++ (if gc.2 then ["size-guard-rejects-at-equal"] else [])
    ++ (if segs.any (fun s => s.liveSize == half) then ["live-eq-half-max"] else [])
    ++ (if segs.any (fun s => s.liveSize == half - 1) then ["live-eq-half-max-minus-1"] else [])
    ++ (if segs.any (fun s => s.liveSize ≥ o.maxSegmentSize) then ["live-ge-max"] else [])
  -- verdict: the oracle on the implementation's own tasks
  let sane := optionsSane o && distinct
  let implTasks : Option (List (List Seg)) :=
    ((implField impl "tasks=").bind parseTasks).bind fun idTasks => idTasks.mapM (fun t => t.mapM (idmap[·]?))
  let implAllNoop := match implTasks with | some its => allNoop its | none => false
  let verdict : String :=
    -- the theorems' hypotheses, on what a real merger handed to the planner
    if real && !distinct then "bad:assumption-ids-distinct"
    else if real && !sizesSane segs then "bad:assumption-sizes-sane"
    else if impl == "timeout" || impl == "runaway" then "bad:planner-did-not-return"
    else if impl == "skipped-after-timeout" then "na"
    else if impl == "panic" then (if sane then "bad:panic" else "na")
    else if impl.startsWith "hook-divergence" then "bad:plan-depends-on-hook-identity"
    else if impl == "nil" then (if segs.length ≤ 1 then "ok" else "bad:nil-plan-for-two-or-more")
    else if !sane then "na"
    else match (implField impl "tasks=").bind parseTasks with
      | none => "bad:unparsable-tasks"
      | some idTasks =>
        match idTasks.mapM (fun t => t.mapM (idmap[·]?)) with
        | none => "bad:subset"
        | some its =>
          match wfReason o segs its with
          | some r => "bad:" ++ r
          | none =>
            -- quiescence: no task ⇒ #eligible within the budget the planner itself computed
            let b := (implBudget impl).getD p.budget
            -- (theorem quiescent_within_budget; with the repaired roster guard a lone eligible segment, or
            -- SegmentsPerMergeTask = 1, also end the planning)
            let wv : Option String :=
              if writer then writerBudgetVerdict o fo ((implBudget impl).getD p.budget) p.eligiblesLive p.minLive else none
            if let some w := wv then w else
            let lone := o.skipNoop && ((eligibles o segs).length == 1 || o.segmentsPerMergeTask == 1)
            if its.isEmpty && ((eligibles o segs).length : Int) > b && !lone then "bad:quiescent-over-budget"
            -- a merge of one deletion-free segment into itself can never make progress
            -- (one such task beside useful ones is wasted work: counted as branch `noop-singleton-task`)
            else if histOptionsSane o && sizesSane segs && allNoop its then "bad:plan-makes-no-progress"
            else "ok"
  let brs := if br.isEmpty then "" else " br=" ++ ",".intercalate br
  { result := result, verdict := verdict ++ brs, tasks := mtasks, allNoop := implAllNoop }

def sums (segs : List Seg) : String := s!"n={segs.length} full={fullSum segs} live={liveSum segs}"

def showScoreTable (t : List (List Int × Nat)) : String :=
  " ".intercalate (t.map fun e => ".".intercalate (e.1.map toString) ++ "=" ++ toHex 16 e.2)

def replaceAt (l : List Seg) (i : Nat) (s : Seg) : List Seg := l.set i s

def planLine (st : St) (op impl : String) (kind : String) : St × String :=
  match (op.drop (kind.length + 1)).toString.splitOn " | " with
  | [os, ss, sc] =>
    match parseOpts (os.splitOn " "), parseSegs ss with
    | some (o, fo), some segs =>
      let r := doPlan o fo segs sc impl (kind == "rplan") (kind == "wplan")
      (st, r.result ++ sep ++ r.verdict)
    | _, _ => (st, "bad-op" ++ sep ++ "na")
  | _ => (st, "bad-op" ++ sep ++ "na")

def c19step (st : St) (op : String) (impl : String) : St × String :=
  let ws := op.splitOn " "
  match ws with
  | "case" :: name :: rest =>
    if name.startsWith "h" then
      match parseOpts rest with
      | some (o, fo) => ({ o := o, fo := fo, segs := [], inHist := true, writer := name.startsWith "hw" },
          "case" ++ sep ++ (if histOptionsSane o then "na br=hist-options-sane" else "na br=hist-options-not-sane"))
      | none => (st, "bad-op" ++ sep ++ "na")
    else ({}, "case" ++ sep ++ "na")
  | "witness" :: _ => (st, showScoreTable livelockScores ++ sep ++ "ok br=witness-scores")
  | "plan" :: _ => planLine st op impl "plan"
  | "rplan" :: _ => planLine st op impl "rplan"
  | "wplan" :: _ => planLine st op impl "wplan"
  | "defaults" :: _ =>
    -- every constructor of the index package hands the writer `mergeplan.DefaultMergePlanOptions` (the model's
    -- `defaultOptions` with TierGrowth 10.0 and ReclaimDeletesWeight 2.0)
    let d := defaultOptions
    let one := s!"{d.maxSegmentsPerTier},{d.maxSegmentSize},{d.segmentsPerMergeTask},{d.floorSegmentSize}," ++
      toHex 16 (10.0 : Float).toBits.toNat ++ "," ++ toHex 16 (2.0 : Float).toBits.toNat
    let want := " ".intercalate (["fs", "mem", "dir", "mergeplan"].map fun k => k ++ "=" ++ one)
    (st, want ++ sep ++ (if impl == want then "ok br=writer-options-are-the-defaults" else "bad:writer-options-differ-from-defaults"))
  | "real" :: _ => (st, "ok" ++ sep ++ "na br=real-writer-ran")   -- the real writer opened, took its batches and closed
  | "hplan" :: nx :: "|" :: _ =>
    match nx.toNat? with
    | some next =>
      let sc := match op.splitOn " | " with | [_, s] => s | _ => "-"
      let r := doPlan st.o st.fo st.segs sc impl false st.writer
      let segs' := executeAll next st.segs r.tasks
      let res := r.result ++ " after " ++ sums segs'
      -- the oracle is evaluated on the implementation's tasks against the MODEL's state: once the two have
      -- disagreed (reported by ./check as a broken correspondence) later verdicts of this history mean nothing
      let verdict := if st.diverged then "na br=hist-diverged" else r.verdict
      ({ st with segs := segs', lastAllNoop := r.allNoop, diverged := st.diverged || res != impl }, res ++ sep ++ verdict)
    | none => (st, "bad-op" ++ sep ++ "na")
  | "add" :: _ =>
    match parseSegs (op.drop 4).toString with
    | some ss => let segs' := st.segs ++ ss; ({ st with segs := segs' }, sums segs' ++ sep ++ "ok")
    | none => (st, "bad-op" ++ sep ++ "na")
  | ["del", rank, pm] =>
    match rank.toNat?, pm.toNat? with
    | some rank, some pm =>
      if st.segs.isEmpty then (st, sums st.segs ++ sep ++ "ok") else
      let i := rank % st.segs.length
      let s := st.segs[i]!
      let d := Int.tdiv (s.liveSize * pm) 1000
      let segs' := replaceAt st.segs i { s with liveSize := s.liveSize - d }
      ({ st with segs := segs' }, sums segs' ++ sep ++ "ok")
    | _, _ => (st, "bad-op" ++ sep ++ "na")
  | ["settled", cap, nrounds] =>
    -- histories are judged for `histOptionsSane` options (the predicate of the convergence theorems'
    -- harness side); a history that does not settle because the planner keeps returning one-segment
    -- rewrites of deletion-free segments is the finding `plan-only-noop-singletons`
    let v :=
      if impl.startsWith "no-quiescence" then
        (if st.diverged then "na br=hist-diverged"
         else if !histOptionsSane st.o then "na br=hist-unsettled-options-not-sane"
         else if st.lastAllNoop then "bad:no-quiescence-noop-loop" else "bad:no-quiescence")
      else "ok br=settled"
    -- `settled <cap> <rounds>`: the harness stopped after <rounds> planning rounds; reaching the cap without an
    -- empty plan is the observation "no-quiescence"
    let pre := match cap.toNat?, nrounds.toNat? with
      | some c, some r => if r ≥ c then "no-quiescence " else ""
      | _, _ => ""
    (st, pre ++ sums st.segs ++ sep ++ v)
  | "score" :: _ =>
    match (op.drop 6).toString.splitOn " | " with
    | [os, ss] =>
      match parseOpts (os.splitOn " "), parseSegs ss with
      | some (o, fo), some segs =>
        let m := (scoreSegmentsF o fo segs).toBits
        match parseHex impl with
        | some ib =>
          let d := ulpDist m ib.toUInt64
          if d == 0 then (st, toHex 16 m.toNat ++ sep ++ "ok br=score-bits-equal")
          else if d ≤ 16 then (st, impl ++ sep ++ "ok br=score-ulp-diff")
          else (st, toHex 16 m.toNat ++ sep ++ "ok")
        | none => (st, toHex 16 m.toNat ++ sep ++ "ok")
      | _, _ => (st, "bad-op" ++ sep ++ "na")
    | _ => (st, "bad-op" ++ sep ++ "na")
  | ["budget", per, g, total, first] =>
    match per.toInt?, parseHex g, total.toInt?, first.toInt? with
    | some per, some gb, some total, some first =>
      let growth := Float.ofBits gb.toUInt64
      let o : Options := { defaultOptions with maxSegmentsPerTier := per }
      let b := calcBudgetF o ⟨growth, 2.0⟩ total first
      let perN := (if per < 1 then 1 else per).toNat
      let firstN := (if first < 1 then 1 else first).toNat
      let ib : Option Int := match impl.splitOn " " with | w :: _ => w.toInt? | [] => none
      -- field 2: the whole-number staircase (as before)
      let whole := growth ≥ 1 && growth ≤ 1000 && growth == growth.floor
      let f2 : String × Option String :=
        if whole && total < 2 ^ 45 && first < 2 ^ 45 then
          let gN := growth.toUInt64.toNat
          let bn := calcBudgetNat perN gN (total.toNat + 1) total.toNat firstN
          let v := match ib, tiersNeeded perN gN firstN total.toNat 64 0 with
            | some ib, some k => if ib ≤ perN * (k + 1) then "ok br=budget-log-bound" else "bad:budget-not-logarithmic"
            | _, _ => "ok br=budget-growth-1"
          (toString bn, some v)
        else ("-", none)
      -- field 3: the rational staircase, when every float operation of the real function is exact
      let f3 : String × Option String :=
        match growthFraction gb.toUInt64 with
        | some (num, den) =>
          if 0 ≤ total && total < 2 ^ 32 && first < 2 ^ 32 && per < 256 then
            let br := calcBudgetRat perN num den (total.toNat + 1) total.toNat firstN
            (toString br, ib.map fun ib => budgetVerdict ib perN num den firstN total.toNat)
          else ("-", none)
        | none => ("-", none)
      let v := match f2.2, f3.2 with
        | some v2, some v3 =>
          if v2.startsWith "bad" then v2 else if v3.startsWith "bad" then v3
          else v2 ++ "," ++ (v3.drop 6).toString     -- "ok br=a" + "ok br=b" → "ok br=a,b"
        | some v2, none => v2
        | none, some v3 => v3
        | none, none => "ok br=budget-float-growth"
      (st, s!"{b} {f2.1} {f3.1}" ++ sep ++ v)
    | _, _, _, _ => (st, "bad-op" ++ sep ++ "na")
  | _ => (st, "bad-op" ++ sep ++ "na")

def main : IO Unit := driverLoop ({} : St) c19step

import Std.Data.HashMap
import Bluge.Basic
import Bluge.Codec
/-! Model driver for C12 (line protocol, see go/harness/c12/main.go for the op lines).
Roaring is a parameter of the model: the harness supplies the real library's verdict on every payload
(`roar=` table); a payload the model needs and the table lacks prints `oracle-missing`. -/
open Bluge Bluge.Codec

/-- a deleted set as the driver sees it: the canonical serialisation the real library gives back -/
structure RV where
  canon : Bytes
  empty : Bool
  special : String := ""      -- "oracle-missing" | "roaring-panic"
deriving BEq

abbrev Table := Std.HashMap String RV

def parseTable (s : String) : Table :=
  if s == "-" then {} else
  (s.splitOn ",").foldl (fun (t : Table) ent =>
    match ent.splitOn ":" with
    | [p, "E"] => t.insert p { canon := [], empty := false, special := "E" }
    | [p, "P"] => t.insert p { canon := [], empty := false, special := "roaring-panic" }
    | [p, c] => t.insert p { canon := (hexToBytes p).getD [], empty := c == "0" }
    | [p, c, canon] => t.insert p { canon := (hexToBytes canon).getD [], empty := c == "0" }
    | _ => t) {}

def roarOf (t : Table) : Roar RV where
  enc v := v.canon
  dec p := match t.get? (bytesToHex p) with
    | some v => if v.special == "E" then none else some v
    | none => some { canon := p, empty := false, special := "oracle-missing" }
  isEmpty v := v.empty

def iceBytes : Bytes := [0x69, 0x63, 0x65]

def showSeg (s : Seg RV) : String :=
  toHex 16 s.id.toNat ++ ":" ++ bytesToHex s.typ ++ ":" ++ toHex 8 s.ver.toNat ++ ":" ++
    (match s.deleted with | some d => bytesToHex d.canon | none => "nil")

def showSegs (ss : List (Seg RV)) : String :=
  if ss.isEmpty then "-" else ";".intercalate (ss.map showSeg)

def specialOf (ss : List (Seg RV)) : Option String :=
  ss.findSome? fun s => match s.deleted with
    | some d => if d.special != "" then some d.special else none
    | none => none

def parseSeg (t : Table) (s : String) : Option (Seg RV) :=
  match s.splitOn ":" with
  | [id, typ, ver, del] => do
    let id ← parseHex id
    let typ ← hexToBytes typ
    let ver ← parseHex ver
    let d ← if del == "nil" then some none else (hexToBytes del).map (fun p => (roarOf t).dec p)
    pure { id := BitVec.ofNat 64 id, typ := typ, ver := BitVec.ofNat 32 ver, deleted := d }
  | _ => none

def parseSegs (t : Table) (s : String) : Option (List (Seg RV)) :=
  if s == "-" then some [] else (s.splitOn ";").mapM (parseSeg t)

def siteName : Site → String
  | .str => "str" | .del => "del" | .crcBytes => "crc"

def errName : Err → String
  | .version => "version" | .negCount => "negCount" | .eof => "eof" | .roaring => "roaring" | .crc => "crc"
  | .plugin => "plugin" | .segment => "segment" | .noSnapshot => "noSnapshot" | .length => "length"

/-- outcome class as the harness prints it; `gray`: a claim between the budget and 16× the budget, where
the real allocation may or may not be noticed by the measurement — the driver then repeats the
implementation's answer -/
def classOf {α : Type} (lim : Nat) (impl : String) (okStr : α → String) : Outcome α → String × List String
  | .ok a => (okStr a, ["ok"])
  | .error e => ("error", ["err-" ++ errName e])
  | .panic s => ("panic", ["panic-" ++ siteName s])
  | .fault s => ("fault", ["fault-" ++ siteName s])
  | .alloc s n =>
    if n > 16 * lim then ("overalloc", ["overalloc-" ++ siteName s])
    else (impl, ["alloc-gray", "overalloc-" ++ siteName s])

def implClass (impl : String) : String := (impl.splitOn " ").headD ""

def unsafeClass (c : String) : Bool := c == "panic" || c == "fault" || c == "overalloc" || c == "crash" || c == "hang"

/-- site of the model's unsafe outcome, for the verdict text -/
def siteOf {α : Type} : Outcome α → String
  | .panic s => "-" ++ siteName s | .fault s => "-" ++ siteName s | .alloc s _ => "-" ++ siteName s | _ => ""

/-- the segment count the header declares (second uvarint), if the header can be read -/
def declaredCount (inp : Bytes) : Option Nat :=
  match peekUvarint inp false {} with
  | .ok (_, _, r) => match peekUvarint inp false r with
    | .ok (c, _, _) => some c
    | _ => none
  | _ => none

/-- `bad:` verdicts for files that are accepted although they are not encodings (DESIGN 0.3, C12 findings
`accepted-truncated-or-extended-body` and `accepted-noncanonical-overlong-or-payload`); `false`: only counted
as the coverage branch `ld-accepted-noncanonical` -/
def strictCanonical : Bool := true

/-- the code with every repair except the length checks: what a file that is not an encoding needs to get past -/
def cfgUnchecked : Cfg := { Cfg.guarded with lengthChecked := false }

def brs (l : List String) : String := if l.isEmpty then "" else " br=" ++ ",".intercalate l

def sizeBr (n : Nat) : String :=
  if n ≤ 100 then "size-le100" else if n ≤ 4096 then "size-le4096" else if n ≤ 8192 then "size-le8192" else "size-gt8192"

def plugin (typ : Bytes) (ver : BitVec 32) : Bool := typ == iceBytes && (ver == 1 || ver == 2)

def parseCtx (s : String) : List (Nat × Nat) :=
  if s == "-" then [] else
  (s.splitOn ",").filterMap fun p => match p.splitOn ":" with
    | [id, v] => match parseHex id, v.toNat? with
      | some i, some v => some (i, v)
      | _, _ => none
    | _ => none

/-- the rest of loadSnapshot: the directory holds id:version files; a decoded segment is loadable iff a
plugin is registered for its type/version and a file with its id AND version is there -/
def checkSegs (cx : List (Nat × Nat)) : List (Seg RV) → Outcome Unit
  | [] => .ok ()
  | s :: rest =>
    if !plugin s.typ s.ver then .error .plugin
    else if !(cx.any fun (i, v) => i == s.id.toNat && v == s.ver.toNat) then .error .segment
    else checkSegs cx rest

def loadOne (ro : Roar RV) (cx : List (Nat × Nat)) (mmap : Bool) (cfg : Cfg) (b : Bytes) : Outcome (List (Seg RV)) := do
  let ss ← loadSnapshot ro cfg mmap b
  checkSegs cx ss
  pure ss

/-- OpenReader's walk over the snapshot files, newest first -/
def walkFiles (ro : Roar RV) (cx : List (Nat × Nat)) (mmap : Bool) (cfg : Cfg) : List Bytes → Nat → Outcome (Nat × List (Seg RV))
  | [], _ => .error .noSnapshot
  | b :: rest, i => match loadOne ro cx mmap cfg b with
    | .ok ss => .ok (i, ss)
    | .error _ => walkFiles ro cx mmap cfg rest (i + 1)
    | .panic s => .panic s
    | .alloc s n => .alloc s n
    | .fault s => .fault s

/-- `loadSnapshots` of the writer: the files OLDEST first (index 0 = oldest); the last one that loads wins -/
def walkFilesW (ro : Roar RV) (cx : List (Nat × Nat)) (mmap : Bool) (cfg : Cfg) :
    List Bytes → Nat → Option (Nat × List (Seg RV)) → Outcome (Option (Nat × List (Seg RV)))
  | [], _, acc => .ok acc
  | b :: rest, i, acc => match loadOne ro cx mmap cfg b with
    | .ok ss => walkFilesW ro cx mmap cfg rest (i + 1) (some (i, ss))
    | .error _ => walkFilesW ro cx mmap cfg rest (i + 1) acc
    | .panic s => .panic s
    | .alloc s n => .alloc s n
    | .fault s => .fault s

def c12step (_ : Unit) (op : String) (impl : String) : Unit × String :=
  -- split off the roaring table
  let (op1, tbl) := match op.splitOn " roar=" with
    | [a, t] => (a, parseTable t)
    | _ => (op, ({} : Table))
  let ro := roarOf tbl
  let ws := op1.splitOn " "
  let out : String × String := match ws with
    | ["uv", x] => match hexToBytes x with
        | some bs => let r := uvarint bs; (toHex 16 r.1 ++ " " ++ toString r.2,
            "ok" ++ brs [if r.2 > 0 then "uv-ok" else if r.2 == 0 then "uv-short" else "uv-overflow"])
        | none => ("bad-op", "na")
    | ["puv", x] => match parseHex x with
        | some v =>
            let bs := putUvarint v
            -- specification: decoding the implementation's bytes gives the value back
            let spec := match hexToBytes impl with
              | some ib => uvarint ib == (v, (ib.length : Int))
              | none => false
            (bytesToHex bs, if spec then "ok" else "bad:uvarint-roundtrip")
        | none => ("bad-op", "na")
    | ["crc", x] => match hexToBytes x with
        | some bs => (toHex 8 (crc32 bs).toNat, "ok")
        | none => ("bad-op", "na")
    | ["rt", spec] => match parseSegs tbl spec with
        | some segs =>
            let file := encFile ro segs
            let body := bodyOf file
            let lim := allocLimit body.length
            let res := readFrom ro currentCfg body
            let (cls, br) := classOf lim ((impl.splitOn " ").drop 1 |> " ".intercalate) (fun (x : List (Seg RV) × Nat × Rd) =>
              match specialOf x.1 with
              | some sp => sp
              | none => "ok " ++ showSegs x.1 ++ " n=" ++ toString x.2.1) res
            let hyp := segs.all (fun s => 3 ≤ s.typ.length && s.typ.length ≤ 5) && body.length < 2 ^ 48
            -- specification: the file read back is the snapshot written (an empty deleted set reads back absent)
            let want := "ok " ++ showSegs (segs.map (normSeg ro)) ++ " n=" ++ toString body.length
            let implRest := " ".intercalate ((impl.splitOn " ").drop 1)
            let verdict :=
              if implRest == want then "ok"
              else if hyp then "bad:roundtrip" else "bad:roundtrip-typelen"
            (bytesToHex file ++ " " ++ cls,
             verdict ++ brs (br.map ("rt-" ++ ·) ++ [if hyp then "rt-hyp" else "rt-nohyp", "rt-" ++ sizeBr body.length,
               if segs.length ≥ 128 then "rt-segs-ge128" else if segs.isEmpty then "rt-segs-0" else "rt-segs-lt128"]))
        | none => ("bad-op", "na")
    | ["rf", x] => match hexToBytes x with
        | some inp =>
            let lim := allocLimit inp.length
            let res := readFrom ro currentCfg inp
            let (cls, br) := classOf lim impl (fun (x : List (Seg RV) × Nat × Rd) =>
              match specialOf x.1 with
              | some sp => sp
              | none => "ok " ++ showSegs x.1 ++ " n=" ++ toString x.2.1) res
            let ic := implClass impl
            let countBad := match res, declaredCount inp with
              | .ok (ss, _, _), some c => ic == "ok" && c != ss.length
              | _, _ => false
            let verdict :=
              if unsafeClass ic then "bad:" ++ ic ++ siteOf res
              else if countBad then "bad:accepted-count-mismatch"
              else "ok"
            (cls, verdict ++ brs (br.map ("rf-" ++ ·) ++ ["rf-" ++ sizeBr inp.length]))
        | none => ("bad-op", "na")
    | ["ld", mode, f, o, ctx] => match hexToBytes f, (if o == "-" then some [] else hexToBytes o) with
        | some file, some older =>
            let mmap := mode == "mm"
            let cx := parseCtx ctx
            let files := if o == "-" then [file] else [file, older]
            let walk (cfg : Cfg) (fs : List Bytes) (i : Nat) := walkFiles ro cx mmap cfg fs i
            let lim := allocLimit (bodyOf file).length
            let res := walk currentCfg files 0
            let okStr (x : Nat × List (Seg RV)) : String := match specialOf x.2 with
              | some sp => sp
              | none => "ok epoch=" ++ toString (2 - x.1) ++ " " ++ showSegs x.2
            let (cls, br) := classOf lim impl okStr res
            -- specification
            let isEnc : Bool := match loadSnapshot ro Cfg.guarded false file with
              | .ok ss => encFile ro ss == file
              | _ => false
            let ic := implClass impl
            let newestRes := loadSnapshot ro currentCfg mmap file
            let verdict :=
              if unsafeClass ic then "bad:" ++ ic ++ siteOf newestRes
              else if isEnc then
                -- an intact encoding whose segments are all loadable must be the snapshot that is opened
                (if cls.startsWith "ok epoch=2 " && !impl.startsWith "ok epoch=2 " then "bad:intact-file-not-accepted" else "ok")
              else
                -- a file that is not an encoding must be passed over: the older intact snapshot, or an error
                let want := match (if o == "-" then Outcome.error Err.noSnapshot else walk Cfg.guarded [older] 1) with
                  | .ok x => okStr x
                  | _ => "error"
                if impl == want then "ok"
                else if impl.startsWith "ok epoch=2 " then
                  -- accepted although it is not an encoding: a count field that contradicts the result is the
                  -- int(numSegments) defect; otherwise a non-canonical but CRC-consistent file (see report)
                  let st := (impl.splitOn " ").getD 2 "-"
                  let implCount := if st == "-" then 0 else (st.splitOn ";").length
                  -- accepted although the trailer is not the CRC of the bytes read: the checksum is not doing its job
                  let crcWrong := match loadSnapshot ro Cfg.guarded false file, loadSnapshot ro Cfg.pinned false file with
                    | .error .crc, _ => true
                    | _, .error .crc => true
                    | _, _ => false
                  if crcWrong then "bad:accepted-with-wrong-crc" else
                  match declaredCount (bodyOf file) with
                  | some c =>
                    if c != implCount then "bad:accepted-count-mismatch"
                    else if !strictCanonical then "ok"
                    else
                      -- not an encoding, yet accepted. Would the length-checked decoder have refused it (a field missing
                      -- at the end of the body read as 0, bytes behind the last segment)? Otherwise the body spells its
                      -- state with an over-long uvarint or a payload roaring reads but does not write.
                      match loadSnapshot ro Cfg.guarded false file with
                      | .ok _ => "bad:accepted-noncanonical-overlong-or-payload"
                      | _ => "bad:accepted-truncated-or-extended-body"
                  | none => "bad:accepted-non-encoding"
                else if ic == "error" then "bad:no-fallback"
                else "bad:accepted-other-state"
            -- classes of inputs that are not encodings but CRC-consistent (by the model alone, whatever the code does)
            let noncanon : List String :=
              if isEnc then [] else
              match loadSnapshot ro cfgUnchecked false file, loadSnapshot ro Cfg.guarded false file with
              | .ok _, .ok _ => ["ld-noncanon-overlong-or-payload"]
              | .ok _, _ => ["ld-noncanon-truncated-or-extended"]
              | _, _ => []
            let extra :=
              (if isEnc then ["ld-encoding"] else ["ld-damaged"]) ++
              (if isEnc && file.length > 4100 then ["ld-encoding-gt4096"] else []) ++ noncanon ++
              (if !isEnc && impl.startsWith "ok epoch=2 " then ["ld-accepted-noncanonical"] else []) ++
              (if impl.startsWith "ok epoch=1 " then ["ld-fallback-used"] else []) ++
              (match newestRes with | .error e => ["ld-newest-err-" ++ errName e] | .ok _ => ["ld-newest-accepted"] | _ => []) ++
              ["ld-" ++ mode, "ld-" ++ sizeBr file.length]
            (cls, verdict ++ brs (br.map ("ld-" ++ ·) ++ extra))
        | _, _ => ("bad-op", "na")
    | ["ldw", mode, f, o, ctx] => match hexToBytes f, (if o == "-" then some [] else hexToBytes o) with
        | some file, some older =>
            let mmap := mode == "mm"
            let cx := parseCtx ctx
            -- oldest first: epoch 1 (if present), then epoch 2
            let files := if o == "-" then [file] else [older, file]
            let base := if o == "-" then 2 else 1
            let lim := allocLimit (bodyOf file).length
            let res : Outcome (Nat × List (Seg RV)) := match walkFilesW ro cx mmap currentCfg files 0 none with
              | .ok (some x) => .ok x
              | .ok none => .error .noSnapshot
              | .error e => .error e
              | .panic s => .panic s
              | .alloc s n => .alloc s n
              | .fault s => .fault s
            let okStr (x : Nat × List (Seg RV)) : String := match specialOf x.2 with
              | some sp => sp
              | none => "ok epoch=" ++ toString (base + x.1) ++ " " ++ showSegs x.2
            let (cls, br) := classOf lim impl okStr res
            let ic := implClass impl
            -- specification: an intact, loadable older snapshot below a newest file that is not accepted ⇒ the writer opens
            let olderIntact : Bool := o != "-" && (match loadOne ro cx mmap Cfg.guarded older with
              | .ok ss => encFile ro ss == older
              | _ => false)
            let newestRes := loadOne ro cx mmap currentCfg file
            let verdict :=
              if unsafeClass ic then "bad:" ++ ic ++ siteOf newestRes
              else if olderIntact && ic == "error" then "bad:no-fallback-writer"
              else "ok"
            let extra :=
              (match newestRes with | .ok _ => ["ldw-newest-accepted"] | .error e => ["ldw-newest-err-" ++ errName e] | _ => []) ++
              (if impl.startsWith "ok epoch=1 " then ["ldw-fallback-used"] else []) ++
              (if olderIntact then ["ldw-older-intact"] else []) ++ ["ldw-" ++ mode]
            (cls, verdict ++ brs (br.map ("ldw-" ++ ·) ++ extra))
        | _, _ => ("bad-op", "na")
    | "case" :: _ => ("case", "na")
    | _ => ("bad-op", "na")
  ((), out.1 ++ sep ++ out.2)

def main : IO Unit := driverLoop () c12step

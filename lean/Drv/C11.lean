import Bluge.PersistDrv
/-! Model driver for C11 (stream `dirtrace`: directory listing after every operation; see go/harness/persistlib). -/
open Bluge Bluge.Persist.Drv

def main : IO Unit := driverLoop ({} : DState) (driverStep false)

import Bluge.Analysis
import Bluge.C18.StemDrv
/-! Model driver for C18 (line protocol, see go/harness/c18/main.go for the op lines).
For every line the driver (1) replays the modelled component on the stage input carried by the op line
and prints the model's token stream, which ./check compares with the real one as strings, and
(2) evaluates the specification (`Valid`, `SliceEq`, `Ordered`, determinism and round-trip flags) on the
implementation's own output: a `bad:` verdict is a concrete failing input of the real code. -/
open Bluge Bluge.Analysis

namespace C18

/-! ### parsing / printing -/

def hexNib (c : Char) : Nat :=
  let n := c.toNat
  if n ≥ 97 then n - 87 else if n ≥ 65 then n - 55 else n - 48

def unhex (s : String) : Bytes :=
  if s == "-" then [] else
  let rec go : List Char → List Byte → List Byte
    | a :: b :: rest, acc => go rest (BitVec.ofNat 8 (hexNib a * 16 + hexNib b) :: acc)
    | _, acc => acc.reverse
  go s.toList []

def hexChar (n : Nat) : Char := if n < 10 then Char.ofNat (48 + n) else Char.ofNat (87 + n)

def hex (bs : Bytes) : String :=
  if bs.isEmpty then "-" else
  bs.foldl (fun (acc : String) b => (acc.push (hexChar (b.toNat / 16))).push (hexChar (b.toNat % 16))) ""

def parseTok (s : String) : Option Token :=
  match s.splitOn "," with
  | [t, a, b, p, ty, kw] =>
    match a.toInt?, b.toInt?, p.toInt?, ty.toNat? with
    | some a, some b, some p, some ty => some { term := unhex t, start := a, stop := b, posIncr := p, typ := ty, kw := kw == "1" }
    | _, _, _, _ => none
  | _ => none

def parseStream (s : String) : Option (List Token) :=
  if s == "_" then some [] else (s.splitOn ";").mapM parseTok

/-- offsets only (terms of the big `an` lines are not decoded) -/
def parseOffsets (s : String) : Option (List (Int × Int × Int)) :=
  if s == "_" then some [] else
  (s.splitOn ";").mapM fun t => match t.splitOn "," with
    | [_, a, b, p, _, _] => match a.toInt?, b.toInt?, p.toInt? with
      | some a, some b, some p => some (a, b, p)
      | _, _, _ => none
    | _ => none

def showTok (t : Token) : String :=
  hex t.term ++ "," ++ toString t.start ++ "," ++ toString t.stop ++ "," ++ toString t.posIncr ++ "," ++ toString t.typ ++ "," ++
    (if t.kw then "1" else "0")

def showStream (ts : List Token) : String := if ts.isEmpty then "_" else ";".intercalate (ts.map showTok)

def showOpt : Option (List Token) → String
  | some ts => showStream ts
  | none => "panic"

def unhexList (s : String) : List Bytes := if s == "-" then [] else (s.splitOn "+").map unhex

/-! ### Go's unicode tables, as observed by the harness -/

/-- add (rune ↦ value) pairs; `none` when one rune is given two values (then it is not a function) -/
def addObs (m : List (Rune × Nat)) : List (Rune × Nat) → Option (List (Rune × Nat))
  | [] => some m
  | (r, v) :: rest => match m.lookup r with
    | some v' => if v = v' then addObs m rest else none
    | none => addObs ((r, v) :: m) rest

def obsFun (m : List (Rune × Nat)) (dflt : Nat) (r : Rune) : Nat := (m.lookup r).getD dflt

def charCode (c : Char) : Nat :=
  if c == '1' then 1 else if c == '0' then 0 else if c == 'l' then 0 else if c == 'u' then 1 else if c == 'n' then 2 else 3

/-- the runes the character tokenizer loop decodes (it stops at the first RuneError) -/
def runesUntilError (p : Bytes) (fuel : Nat) : List Rune :=
  match fuel with
  | 0 => []
  | fuel + 1 =>
    let d := decodeRune p
    if d.1 = runeError then [] else d.1 :: runesUntilError (p.drop d.2) fuel

/-- per-token aux strings ("/"-joined, "-" = no rune) against the model's own decoding of the terms -/
def auxTable (ts : List Token) (aux : String) : Option (List (Rune × Nat)) :=
  if ts.isEmpty then some [] else
  let parts := aux.splitOn "/"
  if parts.length ≠ ts.length then none else
  (ts.zip parts).foldlM (fun m (tp : Token × String) =>
    let rs := runes tp.1.term
    let cs := if tp.2 == "-" then [] else tp.2.toList
    if rs.length ≠ cs.length then none else addObs m (rs.zip (cs.map charCode))) []

/-! ### specification predicates on the implementation's output -/

def validOffsets (len : Int) (os : List (Int × Int × Int)) : Bool :=
  os.all fun o => decide (0 ≤ o.1 ∧ o.1 ≤ o.2.1 ∧ o.2.1 ≤ len ∧ 0 ≤ o.2.2)

def isAlnumASCII (r : Rune) : Bool := (48 ≤ r && r ≤ 57) || (97 ≤ r && r ≤ 122) || (65 ≤ r && r ≤ 90)

/-- hypotheses of the component theorems (`Bluge.Analysis`), evaluated on the real stage input -/
def termFitsRunes (ts : List Token) : Bool := ts.all fun t => decide (FitsRunes t)
def termFitsBytes (ts : List Token) : Bool := ts.all fun t => decide (FitsBytes t)
def ideoFits (ts : List Token) : Bool := ts.all fun t => decide (IdeoFits t)

structure FltRes where
  model : Option (List Token)   -- none = the model panics
  known : Bool                   -- spec understood
  paramsOk : Bool                -- parameters inside the stated ranges
  hyp : Bool                     -- filter-specific hypothesis of the `…_valid` / `…_total` theorems
  name : String

def intArg (ps : List String) (i : Nat) : Int := ((ps.getD i "0").toInt?).getD 0

def runFilter (spec : String) (ts : List Token) (aux : Option String) : FltRes :=
  let ps := spec.splitOn ":"
  let name := ps.headD ""
  let n := intArg ps
  match name with
  | "ngram" => { model := ngramFilter (n 1) (n 2) ts, known := true, paramsOk := 1 ≤ n 1 ∧ n 1 ≤ n 2, hyp := true, name }
  | "edge" => { model := edgeNgramFilter (ps.getD 1 "f" == "b") (n 2) (n 3) ts, known := true, paramsOk := 1 ≤ n 2 ∧ n 2 ≤ n 3, hyp := true, name }
  | "trunc" => { model := truncateFilter (n 1) ts, known := true, paramsOk := 1 ≤ n 1, hyp := true, name }
  | "length" => { model := some (lengthFilter (n 1) (n 2) ts), known := true, paramsOk := true, hyp := true, name }
  | "unique" => { model := some (uniqueFilter ts), known := true, paramsOk := true, hyp := true, name }
  | "stop" => { model := some (stopFilter (unhexList (ps.getD 1 "-")) ts), known := true, paramsOk := true, hyp := true, name }
  | "kwmark" => { model := some (keywordMarkerFilter (unhexList (ps.getD 1 "-")) ts), known := true, paramsOk := true, hyp := true, name }
  | "shingle" =>
    { model := shingleFilter (n 1) (n 2) (n 3 == 1) (unhex (ps.getD 4 "-")) (unhex (ps.getD 5 "-")) ts, known := true,
      paramsOk := 1 ≤ n 1 ∧ n 1 ≤ n 2, hyp := decide (Mono ts), name }
  | "elision" => { model := some (elisionFilter (unhexList (ps.getD 1 "-")) ts), known := true, paramsOk := true, hyp := true, name }
  | "apos" => { model := some (apostropheFilter ts), known := true, paramsOk := true, hyp := true, name }
  | "dict" =>
    { model := dictFilter (unhexList (ps.getD 5 "-")) (n 1) (n 2) (n 3) (n 4 == 1) ts, known := true,
      paramsOk := 1 ≤ n 2 ∧ n 2 ≤ n 3, hyp := termFitsRunes ts, name }
  | "cjk" => { model := cjkBigramFilter (n 1 == 1) ts, known := true, paramsOk := true, hyp := ideoFits ts, name }
  | "reverse" =>
    match aux.bind (auxTable ts) with
    | some m => { model := reverseFilter (fun r => obsFun m 0 r == 1) ts, known := true, paramsOk := true, hyp := true, name }
    | none => { model := none, known := false, paramsOk := true, hyp := false, name }
  | "camel" =>
    match aux.bind (auxTable ts) with
    | some m => { model := some (camelCaseFilter (obsFun m 3) ts), known := true, paramsOk := true, hyp := termFitsBytes ts, name }
    | none => { model := none, known := false, paramsOk := true, hyp := false, name }
  | _ => { model := none, known := false, paramsOk := false, hyp := false, name }

/-! ### TokenFrequency / Document.Analyze rendering -/

def bytesLe : Bytes → Bytes → Bool
  | [], _ => true
  | _ :: _, [] => false
  | a :: as, b :: bs => if a.toNat < b.toNat then true else if a.toNat > b.toNat then false else bytesLe as bs

def showTF (r : List TokenFreq × Int) : String :=
  let es := r.1.mergeSort (fun a b => bytesLe a.term b.term)
  "pos=" ++ toString r.2 ++ String.join (es.map fun e =>
    " " ++ hex e.term ++ ":" ++ toString e.freq ++ ":" ++
      (if e.locs.isEmpty then "-" else "/".intercalate (e.locs.map fun l => s!"{l.start},{l.stop},{l.pos}")))

def showDoc (fs : List (List Location)) : String :=
  "|".intercalate (fs.map fun ls =>
    if ls.isEmpty then "-" else ",".intercalate (((ls.map (·.pos)).mergeSort (fun a b => decide (a ≤ b))).map toString))

def parseMatches (s : String) : Option (List (Int × Int)) :=
  if s == "_" then some [] else
  (s.splitOn ",").mapM fun p => match p.splitOn "-" with
    | [a, b] => match a.toInt?, b.toInt? with
      | some a, some b => some (a, b)
      | _, _ => none
    | _ => none

/-- "len:type,…" → consecutive slices of the input with their segment type -/
def parseSegs (s : String) (input : Bytes) : Option (List (Bytes × Nat)) :=
  if s == "_" then some [] else
  match (s.splitOn ",").mapM (fun p => match p.splitOn ":" with
    | [a, b] => match a.toNat?, b.toNat? with
      | some a, some b => some (a, b)
      | _, _ => none
    | _ => none) with
  | none => none
  | some lts =>
    some ((lts.foldl (fun (st : Bytes × List (Bytes × Nat)) lt => (st.1.drop lt.1, (st.1.take lt.1, lt.2) :: st.2)) (input, [])).2.reverse)

/-! ### the step function -/

def field (kvs : List String) (key : String) : String :=
  match kvs.find? (·.startsWith (key ++ "=")) with
  | some kv => (kv.drop (key.length + 1)).toString
  | none => ""

/-- `an` and `pipe` results: echo, and judge the implementation's final stream -/
def judgeFinal (impl : String) : String × String :=
  if impl == "panic" then (impl, "bad:panic br=final-panic") else
  let kvs := impl.splitOn " "
  match (field kvs "tlen").toInt?, parseOffsets (field kvs "toks") with
  | some tlen, some os =>
    let mq := field kvs "mq"
    let v :=
      if !validOffsets tlen os then "bad:invalid-offsets"
      else if field kvs "det" != "1" then "bad:nondeterministic"
      else if field kvs "steps" != "1" then "bad:stage-invalid-or-stages-differ-from-Analyze"
      else if mq == "skip" then "ok"
      else if os.isEmpty then (if mq == "none" then "ok" else "bad:match-query-" ++ mq)
      else (if mq == "found" then "ok" else "bad:match-query-" ++ mq)
    (impl, v ++ (if os.isEmpty then " br=final-empty" else " br=final-tokens") ++ (if mq == "found" then ",mq-found" else ""))
  | _, _ => ("unparsable", "na")

def judgeTokenizer (input : Bytes) (impl : String) (kind : String) : String :=
  if impl == "panic" then "bad:panic-tokenizer-" ++ kind
  else if impl == "nondeterministic" then "bad:nondeterministic"
  else match parseStream impl with
    | none => "na"
    | some ts =>
      if !decide (Valid input.length ts) then "bad:invalid-offsets-tokenizer-" ++ kind
      else if !decide (SliceEq input ts) then "bad:term-is-not-the-input-slice-" ++ kind
      else if !decide (Ordered ts) then "bad:tokens-out-of-order-" ++ kind
      else "ok"

/-- `conc` / `concp`: in the model analysis is a FUNCTION of the bytes, so one analyzer value used by several
goroutines at once answers exactly as a fresh one used alone: the model result is always `same`. -/
def judgeConc (impl : String) (br : String) : String × String :=
  let v :=
    if impl == "same" then "ok"
    else if impl.startsWith "differs" then "bad:analyzer-not-reentrant"
    else if impl.startsWith "panic" then "bad:panic-concurrent"
    else "na"
  ((if impl == "ref-panic" || impl == "bad-op" then impl else "same"), v ++ " br=" ++ br ++ (if impl == "same" then "," ++ br ++ "-same" else ""))

def step (_ : Unit) (op : String) (impl : String) : Unit × String :=
  let ws := op.splitOn " "
  let out : String × String := match ws with
    | "an" :: _ => judgeFinal impl
    | "pipe" :: _ => judgeFinal impl
    | "tok" :: kind :: h :: rest =>
      let input := unhex h
      let model : Option (List Token) := match kind with
        | "ws" => some (whitespaceTokenize input)
        | "alnum" => some (charTokenize isAlnumASCII input)
        | "single" => some (singleTokenize input)
        | "letter" =>
          let bits := rest.headD "-"
          let cs := if bits == "-" then [] else bits.toList
          let rs := runesUntilError input (input.length + 1)
          if rs.length ≠ cs.length then none else
          (addObs [] (rs.zip (cs.map charCode))).map fun m => charTokenize (fun r => obsFun m 0 r == 1) input
        | _ => none
      match model with
      | some ts => (showStream ts, judgeTokenizer input impl kind ++ " br=tok-" ++ kind ++ (if ts.isEmpty then "" else ",tok-nonempty"))
      | none => ("class-observation-inconsistent", "na")
    | "tokx" :: kind :: h :: rest =>
      let input := unhex h
      let verdict := judgeTokenizer input impl kind
      -- the tokenizer's own arithmetic is replayed on what the dependency returned (aux), when given
      let replay : Option (String × String) := match rest.head? with
        | some aux =>
          if aux.startsWith "m=" then
            match parseMatches (aux.drop 2).toString with
            | none => none
            | some ms =>
              let hyp := decide (MatchesFrom input.length 0 ms)
              let model : Option (List Token) :=
                if kind == "excws" then exceptionsTokenize whitespaceTokenize ms input
                else if kind == "reword" || kind == "renonspace" then
                  -- detectTokenType is taken from the implementation's own (term, type) pairs
                  let tys : List (Bytes × Nat) := ((parseStream impl).getD []).map fun t => (t.term, t.typ)
                  regexpTokenize (fun b => (tys.lookup b).getD 0) ms input
                else none
              if kind == "excletter" then none
              else some (showOpt model, if hyp then "" else "bad:assumption-FindAllIndex-order")
          else if aux.startsWith "seg=" then
            match parseSegs (aux.drop 4).toString input with
            | none => none
            | some segs =>
              let total := (segs.map (·.1.length)).sum
              some (showStream (unicodeTokenize segs), if total ≤ input.length then "" else "bad:assumption-segments-exceed-input")
          else none
        | none => none
      match replay with
      | some (m, asm) => (m, (if asm != "" && verdict == "ok" then asm else verdict) ++ " br=tokx-" ++ kind ++ ",tokx-replayed")
      | none => (impl, verdict ++ " br=tokx-" ++ kind)
    | "flt" :: spec :: len :: stream :: rest =>
      match len.toInt?, parseStream stream with
      | some len, some ts =>
        let r := runFilter spec ts rest.head?
        if !r.known then ("unknown-filter-or-bad-aux", "na") else
        let inOk := decide (Valid len ts)
        let v :=
          if impl == "nondeterministic" then "bad:nondeterministic"
          else if !(inOk && r.paramsOk) then "na"
          else if impl == "panic" then "bad:panic-filter-" ++ r.name ++ (if r.hyp then "" else ":hyp-fails")
          else if !r.hyp then "na"
          else match parseStream impl with
            | some os => if decide (Valid len os) then "ok" else "bad:invalid-offsets-filter-" ++ r.name
            | none => "na"
        let br := "flt-" ++ r.name ++ (if r.model.isNone then ",model-panic" else "") ++
          (if !inOk then ",malformed-input" else "") ++ (if !r.paramsOk then ",params-out-of-range" else "") ++
          (if inOk && r.paramsOk && !r.hyp then ",hyp-fails-" ++ r.name else "")
        (showOpt r.model, v ++ " br=" ++ br)
      | _, _ => ("bad-op", "na")
    | ["tf", tv, start, stream] =>
      match start.toInt?, parseStream stream with
      | some so, some ts => (showTF (tokenFrequency ts (tv == "1") so), "ok br=tf")
      | _, _ => ("bad-op", "na")
    | ["doc", gap, streams] =>
      match gap.toInt?, (streams.splitOn "|").mapM parseStream with
      | some g, some fs => (showDoc (docAnalyze g fs 0), "ok br=doc")
      | _, _ => ("bad-op", "na")
    | "stem" :: _ => C18S.stemStep ws impl
    | "util" :: _ => C18S.stemStep ws impl
    | "conc" :: _ => judgeConc impl "conc"
    | "concp" :: _ => judgeConc impl "concp"
    | _ => ("bad-op", "na")
  ((), out.1 ++ sep ++ out.2)

end C18

def main : IO Unit := driverLoop () C18.step

import Bluge.Numeric
import Bluge.C07.Query
import Bluge.C07.Postings
/-! Model driver for C07 (line protocol, see go/harness/hlib and go/harness/c07).

Per case it keeps the abstract index (live analysed documents with their doc numbers, one batch =
one segment), and for every `q <mode> <sexpr>` line it
* evaluates the specification `denote` directly,
* compiles the query to the searcher plan of query.go and runs the transcribed searcher state
  machines of `Bluge.Search` the way a collector does (mode `none`: after the unadorned rewrites),
* answers `<ids produced by the model machines> ## <verdict>`; verdict `bad:` when the
  IMPLEMENTATION's id list differs from `denote` (missed / extra / duplicate). -/
open Bluge Bluge.Search Bluge.C07

/-! ### s-expressions -/
inductive SExp where
  | atom (s : String)
  | list (xs : List SExp)
deriving Repr, Inhabited

def tokenize (s : String) : List String :=
  let rec go (cs : List Char) (cur : List Char) (acc : List String) : List String :=
    let flush (acc : List String) := if cur.isEmpty then acc else String.ofList cur.reverse :: acc
    match cs with
    | [] => (flush acc).reverse
    | '(' :: r => go r [] ("(" :: flush acc)
    | ')' :: r => go r [] (")" :: flush acc)
    | ' ' :: r => go r [] (flush acc)
    | c :: r => go r (c :: cur) acc
  go s.toList [] []

/-- parse one expression; returns the rest of the tokens -/
partial def parseSExp : List String → Option (SExp × List String)
  | [] => none
  | "(" :: r =>
    let rec items (ts : List String) (acc : List SExp) : Option (SExp × List String) :=
      match ts with
      | [] => none
      | ")" :: r => some (.list acc.reverse, r)
      | ts => match parseSExp ts with
        | none => none
        | some (e, r) => items r (e :: acc)
    items r []
  | ")" :: _ => none
  | a :: r => some (.atom a, r)

def atoms (xs : List SExp) : List String := xs.filterMap fun | .atom a => some a | _ => none

/-! ### the abstract index -/
/-- the physical layout of the snapshot the queries run on, as printed by the harness (`snap` line):
per segment its offset, its size and the stored ids of its local documents with their deleted marks -/
abbrev Layout := List (Nat × Nat × List (String × Bool))

structure DState where
  /-- every document ever inserted: (doc number, doc, live?) in doc-number order -/
  docs : List (Nat × Doc × Bool)
  next : Nat
  /-- pending batch: ids to delete, documents to add -/
  pendDel : List String
  pendAdd : List Doc
  /-- layout of the current reader's snapshot (`none` until its `snap` line was seen) -/
  layout : Option Layout := none
deriving Inhabited

def DState.empty : DState := ⟨[], 0, [], [], none⟩

def DState.flush (s : DState) : DState :=
  if s.pendDel.isEmpty && s.pendAdd.isEmpty then s else
  let docs := s.docs.map fun (n, d, live) => (n, d, live && !s.pendDel.contains d.id)
  let adds := s.pendAdd.reverse.zipIdx.map fun (d, i) => (s.next + i, d, true)
  { docs := docs ++ adds, next := s.next + adds.length, pendDel := [], pendAdd := [], layout := none }

/-- the live documents in the model's own numbering (insertion order) -/
def DState.indexOwn (s : DState) : Index := s.docs.filterMap fun (n, d, live) => if live then some (n, d) else none

/-- the snapshot layout as (offset, size) pairs -/
def layoutSn (l : Layout) : SnapLayout := l.map fun (off, size, _) => (off, size)

/-- the live documents with the REAL global doc numbers of the reader's snapshot (`offset + local`) -/
def DState.indexOf (s : DState) (l : Layout) : Index :=
  let live := s.indexOwn
  l.flatMap fun (off, _, ids) =>
    ids.zipIdx.filterMap fun ((id, deleted), i) =>
      if deleted then none else
      match live.find? (fun e => e.2.id == id) with
      | some e => some (off + i, e.2)
      | none => none

def DState.index (s : DState) : Index :=
  match s.layout with
  | some l => s.indexOf l
  | none => s.indexOwn

/-- first unused doc number -/
def DState.bound (s : DState) : Nat :=
  match s.layout with
  | some l => (layoutSn l).total
  | none => s.next

def parseLayout (impl : String) : Option Layout :=
  if impl == "-" then some [] else
  (impl.splitOn " ").mapM fun tok =>
    match tok.splitOn ":" with
    | [o, sz, ids] =>
      match o.toNat?, sz.toNat? with
      | some off, some size =>
        let idl := if ids.isEmpty then [] else (ids.splitOn ",").map fun x =>
          if x.endsWith "*" then ((x.dropRight 1), true) else (x, false)
        some (off, size, idl)
      | _, _ => none
    | _ => none

def parseBits (s : String) : Option Float := (parse64 s).map fun b => Float.ofBits b.toNat.toUInt64

def sortableOfBits (s : String) : Option Int := (parse64 s).map fun b => (Numeric.f2i b).toInt

def parseDoc (id : String) (toks : List String) : Doc :=
  toks.foldl (fun d tok =>
    match tok.splitOn "=" with
    | [k, v] =>
      if k == "t" || k == "u" then { d with terms := d.terms ++ [(k, if v.isEmpty then [] else v.splitOn ",")] }
      else if k == "k" then { d with terms := d.terms ++ [(k, [v])] }
      else if k == "n" then match sortableOfBits v with
        | some i => { d with nums := d.nums ++ [(k, i)] }
        | none => d
      else if k == "d" then match v.toInt? with
        | some i => { d with nums := d.nums ++ [(k, i)] }
        | none => d
      else if k == "g" then
        -- g=<lon>,<lat>:<qlon>,<qlat> : the quantised pair is what was indexed
        match v.splitOn ":" with
        | [_, q] => match q.splitOn "," with
          | [a, b] => match parseBits a, parseBits b with
            | some lon, some lat => { d with geos := d.geos ++ [(k, lon, lat)] }
            | _, _ => d
          | _ => d
        | _ => d
      else d
    | _ => d) { id := id, terms := [("_id", [id])], nums := [], geos := [] }   -- the `_id` field holds the id as its only term

/-! ### queries -/
def hexToString (s : String) : String :=
  match hexToBytes s with
  | some bs => String.ofList (bs.map fun b => Char.ofNat b.toNat)
  | none => ""

def int64Min : Int := -9223372036854775808
def int64Max : Int := 9223372036854775807

/-- NewNumericRangeSearcher's bounds from the two int64 end points (`ulo`/`uhi`: the end was given as an
infinity = unbounded). As repaired by 656262d: an unbounded end has no end point to exclude, and an exclusive
end at an extreme value leaves an empty range (proved about the translated code: BlugeProofs.C10.Bounds). -/
def adjustBounds (lo hi : Int) (ulo uhi : Bool) (il ih : Bool) : Int × Int :=
  let p : Int × Int := if !il && !ulo then (if lo == int64Max then (lo, int64Min) else (lo + 1, hi)) else (lo, hi)
  if !ih && !uhi then (if p.2 == int64Min then (int64Max, p.2) else (p.1, p.2 - 1)) else p

/-- end point and whether it is unbounded -/
def numBound (s : String) (isMin : Bool) : Option (Int × Bool) :=
  match parse64 s with
  | none => none
  | some b =>
    if isMin && b == 0xfff0000000000000#64 then some (int64Min, true)
    else if !isMin && b == 0x7ff0000000000000#64 then some (int64Max, true)
    else some ((Numeric.f2i b).toInt, false)

def dateBound (s : String) (isMin : Bool) : Option (Int × Bool) :=
  if s == "z" then some (if isMin then int64Min else int64Max, true) else s.toInt?.map (·, false)

/-- query + outcome of `Searcher()` construction (first error / panic in construction order) -/
partial def parseQuery : SExp → Option (Query × Outcome)
  | .list (.atom "t" :: .atom f :: .atom w :: []) => some (.term f w, .ok)
  | .list [.atom "all"] => some (.all, .ok)
  | .list [.atom "none"] => some (.none, .ok)
  | .list (.atom "m" :: .atom f :: .atom op :: ws) =>
    let ts := (atoms ws).map (Query.term f)
    if ts.isEmpty then some (.none, .ok)
    else if op == "and" then some (.bool ts [] [] 0, .ok) else some (.bool [] ts [] 1, .ok)
  | .list (.atom "ph" :: .atom f :: .atom slop :: ws) =>
    let ts := atoms ws
    if ts.isEmpty then some (.none, .ok) else some (.phrase f slop.toNat! (ts.map fun w => [w]), .ok)
  | .list (.atom "mp" :: .atom f :: .atom slop :: ps) =>
    some (.phrase f slop.toNat! (ps.map fun | .list xs => atoms xs | .atom a => [a]), .ok)
  | .list [.atom "px", .atom f, .atom p] => some (.multi f (.pfx p), .ok)
  | .list [.atom "wc", .atom f, .atom p] => some (.multi f (.wild p), .ok)
  | .list [.atom "re", .atom f, .atom _, .list acc] => some (.multi f (.oneOf (atoms acc)), .ok)
  | .list [.atom "fz", .atom f, .atom _, .atom fuzz, .atom _, .list acc] =>
    match fuzz.toInt? with
    | some z =>
      some (.multi f (.oneOf (atoms acc)), fuzzyOutcome z)   -- fuzziness 0: automatons[0] on an empty slice
    | none => none
  | .list [.atom "tr", .atom f, .atom lo, .atom hi, .atom il, .atom ih] =>
    some (.multi f (.range (if lo == "_" then none else some lo) (if hi == "_" then none else some hi) (il == "1") (ih == "1")), .ok)
  | .list [.atom "nr", .atom f, .atom lo, .atom hi, .atom il, .atom ih] =>
    match numBound lo true, numBound hi false with
    | some l, some h => let b := adjustBounds l.1 h.1 l.2 h.2 (il == "1") (ih == "1"); some (.numRange f b.1 b.2, .ok)
    | _, _ => none
  | .list [.atom "dr", .atom f, .atom lo, .atom hi, .atom il, .atom ih] =>
    match dateBound lo true, dateBound hi false with
    | some l, some h => let b := adjustBounds l.1 h.1 l.2 h.2 (il == "1") (ih == "1"); some (.numRange f b.1 b.2, .ok)
    | _, _ => none
  | .list [.atom "gb", .atom f, .atom a, .atom b, .atom c, .atom d] =>
    match parseBits a, parseBits b, parseBits c, parseBits d with
    | some tlLon, some tlLat, some brLon, some brLat => some (.geoBox f tlLon brLat brLon tlLat, .ok)
    | _, _, _, _ => none
  | .list [.atom "gd", .atom f, .atom a, .atom b, .atom c] =>
    match parseBits a, parseBits b, parseBits c with
    | some lon, some lat, some dist => some (.geoDist f lon lat dist, .ok)
    | _, _, _ => none
  | .list [.atom "b", .atom min, .list ms, .list ss, .list ns] =>
    let sub (xs : List SExp) : Option (List (Query × Outcome)) := xs.mapM parseQuery
    match sub ms, sub ss, sub ns with
    | some m, some s, some n =>
      -- construction order of BooleanQuery.initPrimarySearchers: mustNots, musts, shoulds
      let firstBad := ((n ++ m ++ s).map (·.2)).find? (· != .ok)
      -- a584889: `len(shoulds) == 0 && minShould > 0` returns MatchNone BEFORE any clause is constructed
      let firstBad := if s.isEmpty && min.toNat! > 0 then none else firstBad
      some (.bool (m.map (·.1)) (s.map (·.1)) (n.map (·.1)) min.toNat!, firstBad.getD .ok)
    | _, _, _ => none
  | _ => none

/-- the outcome of `Searcher()` on a tree where fuzziness 0 has been repaired (2b928d2: an exact term
search instead of a panic): the first ERROR in construction order, panics ignored -/
partial def outcomeRepaired : SExp → Outcome
  | .list [.atom "fz", .atom _, .atom _, .atom fuzz, .atom _, .list _] =>
    match fuzz.toInt? with
    | some z => if fuzzyOutcome z == .err then .err else .ok
    | none => .ok
  | .list [.atom "b", .atom min, .list ms, .list ss, .list ns] =>
    if ss.isEmpty && min.toNat! > 0 then .ok else
    (((ns ++ ms ++ ss).map outcomeRepaired).find? (· != .ok)).getD .ok
  | _ => .ok

/-! ### geo: points within relative 1e-3 of an edge / of the distance threshold are classified `na` -/
def absF (x : Float) : Float := if x < 0 then -x else x
def maxF (a b : Float) : Float := if a < b then b else a

def nearEdge (p e extent : Float) : Bool := absF (p - e) ≤ maxF (maxF (1e-3 * absF e) (1e-3 * extent)) 1e-5

partial def geoNear (d : Doc) : Query → Bool
  | .geoBox f minLon minLat maxLon maxLat =>
    (d.geosOf f).any fun p =>
      let w := if maxLon < minLon then 360 - (minLon - maxLon) else maxLon - minLon
      let h := maxLat - minLat
      nearEdge p.1 minLon w || nearEdge p.1 maxLon w || nearEdge p.2 minLat h || nearEdge p.2 maxLat h ||
      nearEdge p.1 180 w || nearEdge p.1 (-180) w
  | .geoDist f lon lat dist =>
    (d.geosOf f).any fun p => absF (haversinMeters p.1 p.2 lon lat - dist) ≤ 2e-3 * dist + 1
  | .bool ms ss ns _ => (ms ++ ss ++ ns).any (geoNear d)
  | _ => false

/-! ### classification of a violation -/

/-- boolean nodes on which the unadorned rewrite can lose `minShould`: must + ≥2 should clauses, min = 1 -/
def isCand (ms ss : List Query) (min : Nat) : Bool := !ms.isEmpty && ss.length ≥ 2 && min == 1

/-- relax `minShould` to 0 on the candidate nodes selected by `pick` (numbered in traversal order) -/
partial def relaxWith (pick : Nat → Bool) : Query → Nat → Query × Nat
  | .bool ms ss ns min, i =>
    let go (qs : List Query) (i : Nat) : List Query × Nat :=
      qs.foldl (fun (acc : List Query × Nat) q => let r := relaxWith pick q acc.2; (acc.1 ++ [r.1], r.2)) ([], i)
    let rm := go ms i
    let rs := go ss rm.2
    let rn := go ns rs.2
    if isCand ms ss min then (.bool rm.1 rs.1 rn.1 (if pick rn.2 then 0 else min), rn.2 + 1)
    else (.bool rm.1 rs.1 rn.1 min, rn.2)
  | q, i => (q, i)

/-- is the implementation's answer the meaning of the query with `minShould` dropped on some candidates? -/
def explainedByLostMin (idx : Index) (q : Query) (implIds : String) (showIds : List Nat → String) : Bool :=
  let k := (relaxWith (fun _ => false) q 0).2
  if k == 0 then false else
  let k' := if k > 6 then 6 else k
  (List.range (2 ^ k')).any fun mask =>
    mask != 0 && showIds (denote idx (relaxWith (fun i => (mask >>> (if i < k' then i else k' - 1)) % 2 == 1) q 0).1) == implIds

partial def hasIrregularRange : Query → Bool
  | .multi _ m => !m.regular
  | .bool ms ss ns _ => (ms ++ ss ++ ns).any hasIrregularRange
  | _ => false

partial def hasMinWithoutShould : Query → Bool
  | .bool ms ss ns min => (ss.isEmpty && min != 0) || (ms ++ ss ++ ns).any hasMinWithoutShould
  | _ => false

/-! ### running one query -/
def insertSorted (x : String) : List String → List String
  | [] => [x]
  | y :: ys => if x ≤ y then x :: y :: ys else y :: insertSorted x ys

def sortStrings (xs : List String) : List String := xs.foldl (fun acc x => insertSorted x acc) []

def showIds (idx : Index) (nums : List Nat) : String :=
  let ids := sortStrings (nums.map fun n => match idx.find? (·.1 == n) with | some e => e.2.id | none => s!"?{n}")
  if ids.isEmpty then "-" else " ".intercalate ids

partial def planKinds : Plan → List String
  | .leaf k _ => [match k with | .postings => "leaf" | .unadorned => "leaf-unadorned" | .all => "leaf-all"]
  | .conj ps => "conj" :: ps.flatMap planKinds
  | .disj ps _ => (if heapTakeover < ps.length then "disjH" else "disjS") :: ps.flatMap planKinds
  | .bool m s n _ =>
    "bool" :: ((if n.isSome then ["bool-mustnot"] else []) ++ (if m.isSome && s.isSome then ["bool-must-should"] else []) ++
      (if m.isNone then ["bool-should-only"] else []) ++
      (match m with | some p => planKinds p | none => []) ++ (match s with | some p => planKinds p | none => []) ++
      (match n with | some p => planKinds p | none => []))
  | .filt p _ => "filt" :: planKinds p
  | .phrase p _ => "phrase" :: planKinds p

def diffList (a b : List String) : List String := a.filter (fun x => !b.contains x)

/-- the query as a REPAIRED implementation would treat it: `tr` an inverted / degenerate term range
selects nothing; `mws` minShould > 0 without should clauses selects nothing -/
partial def repairQ (tr mws : Bool) : Query → Query
  | .multi f m => if tr && !m.regular then .none else .multi f m
  | .bool ms ss ns min =>
    if mws && ss.isEmpty && min != 0 then .none
    else .bool (ms.map (repairQ tr mws)) (ss.map (repairQ tr mws)) (ns.map (repairQ tr mws)) min
  | q => q

/-- ids produced by the modelled searcher machines for `q` (mode `none`: after the unadorned rewrites) -/
def modelFor (sn : Option SnapLayout) (idx : Index) (bound : Nat) (mode : String) (keepMin : Bool) (q : Query) : String × Plan :=
  let plan0 := compile idx q
  let plan := if mode == "none" then (plan0.rewriteNone ⟨keepMin⟩ bound).1 else plan0
  match sn with
  | some sn =>
    -- the searcher tree over the per-segment postings iterators of the reader's snapshot
    (showIds idx (plan.runSeg sn (Plan.width plan)), plan)
  | none => (showIds idx (plan.run bound (Plan.width plan)), plan)

/-- the searcher tree of the CURRENT code: the two early `MatchNoneSearcher` returns (`Query.norm`), the
`minSearcher` wrap of the unadorned rewrite (`keepMin`), fuzziness 0 as an exact term search -/
def chooseVariant (sn : Option SnapLayout) (idx : Index) (bound : Nat) (mode : String) (q : Query) (_outcome : Outcome) (_impl : String) :
    String × Plan × String :=
  let r := modelFor sn idx bound mode true q.norm
  (r.1, r.2, "")

/-- does the query hold a fuzzy clause with fuzziness 0 (the shape of the repaired finding `fuzziness-0-panics`)? -/
partial def hasFuzzy0 : SExp → Bool
  | .list [.atom "fz", .atom _, .atom _, .atom fuzz, .atom _, .list _] => fuzz == "0"
  | .list [.atom "b", .atom _, .list ms, .list ss, .list ns] => (ms ++ ss ++ ns).any hasFuzzy0
  | _ => false

/-- an open-ended date range whose open end faces a stored value within 2^52 ns of that end of the int64
time line (the open end must be `MinInt64` / `MaxInt64`, not the image of ±Inf under the float coding) -/
partial def openDateBeyond (idx : Index) : Query → Bool
  | .numRange f lo hi =>
    f == "d" && idx.any fun e => (e.2.numsOf f).any fun v =>
      (hi ≥ int64Max - 1 && v > int64Max - 4503599627370496 && lo ≤ v && v ≤ hi) ||
      (lo ≤ int64Min + 1 && v < int64Min + 4503599627370496 && lo ≤ v && v ≤ hi)
  | .bool ms ss ns _ => (ms ++ ss ++ ns).any (openDateBeyond idx)
  | _ => false

/-- the lists of the unadorned leaves of a plan -/
partial def unadornedLists : Plan → List (List Nat)
  | .leaf .unadorned l => [l]
  | .leaf _ _ => []
  | .conj ps => ps.flatMap unadornedLists
  | .disj ps _ => ps.flatMap unadornedLists
  | .bool m s n _ =>
    (match m with | some p => unadornedLists p | none => []) ++ (match s with | some p => unadornedLists p | none => []) ++
    (match n with | some p => unadornedLists p | none => [])
  | .filt p _ => unadornedLists p
  | .phrase p _ => unadornedLists p

/-- the set expression of every sub-plan -/
partial def allDens (bound : Nat) (p : Plan) : List (List Nat) :=
  p.den bound :: (match p with
    | .leaf _ _ => []
    | .conj ps => ps.flatMap (allDens bound)
    | .disj ps _ => ps.flatMap (allDens bound)
    | .bool m s n _ =>
      (match m with | some p => allDens bound p | none => []) ++ (match s with | some p => allDens bound p | none => []) ++
      (match n with | some p => allDens bound p | none => [])
    | .filt p _ => allDens bound p
    | .phrase p _ => allDens bound p)

partial def hasRangeOrGeo : Query → Bool
  | .numRange _ _ _ => true
  | .geoBox _ _ _ _ _ => true
  | .geoDist _ _ _ _ => true
  | .bool ms ss ns _ => (ms ++ ss ++ ns).any hasRangeOrGeo
  | _ => false

def runQuery (st : DState) (mode : String) (e : SExp) (impl0 : String) : String :=
  -- "<ids> !fresh=<ids>": the harness found that a history-free reference reader answers differently
  let parts := impl0.splitOn " !fresh="
  let impl := parts.headD impl0
  if parts.length > 1 then
    impl0 ++ sep ++ "bad:postings-iterator-reused-after-recycle answer-depends-on-earlier-searches live=[" ++ impl ++
      "] fresh=[" ++ (parts.getD 1 "") ++ "] br=depends-on-history"
  else
  match parseQuery e with
  | none => "bad-op" ++ sep ++ "na"
  | some (q, outcome) =>
    let idx := st.index
    let bound := st.bound
    let sn := st.layout.map layoutSn
    let modelFor := modelFor sn
    match outcome with
    | .err => "err" ++ sep ++ "ok br=expect-err"
    | _ =>
      if outcome == .panic && impl == "err" && outcomeRepaired e == .err then
        -- fuzziness 0 no longer panics, and a later clause of the same tree is an error
        "err" ++ sep ++ "ok br=expect-err,repaired-fuzzy0"
      else
      let spec := showIds idx (denote idx q)
      let (model, plan, variant) := chooseVariant sn idx bound mode q outcome impl
      let kinds := (planKinds plan).eraseDups
      -- the abstract-leaf tree and the per-segment tree must agree (plan_exact / plan_exact_seg)
      let agree := match sn with
        | some sn' => plan.run bound (Plan.width plan) == plan.runSeg sn' (Plan.width plan)
        | none => true
      let br := " br=" ++ ",".intercalate (kinds ++ (if sn.isSome then ["seg-machine"] else ["no-layout"]) ++
                  (if agree then [] else ["MODEL-LEAVES-DISAGREE"]) ++ (if q.WF then [] else ["not-wf"]) ++
                  (if openDateBeyond idx q then ["open-date-range-with-value-beyond-2^63-2^52"] else []) ++
                  (if outcome == .panic then ["expect-panic"] else []) ++ (if variant.isEmpty then [] else [variant]))
      let plan0 := compile idx q.norm
      if !agree then
        "model-leaves-disagree" ++ sep ++ "bad:model-abstract-and-segment-leaves-disagree" ++ br
      else if !plan0.okB bound (Plan.width plan0) then
        -- hypothesis of C07_exact_partial / plan_exact, evaluated on every query
        model ++ sep ++ "bad:assumption-plan-okB" ++ br
      else if impl == spec then
        model ++ sep ++ "ok" ++ br
      else if impl == "panic" && hasFuzzy0 e then
        model ++ sep ++ "bad:fuzziness-0-panics" ++ br
      else if idx.any (fun e => geoNear e.2 q) then
        impl ++ sep ++ "na" ++ br ++ ",geo-near-edge"
      else
        let implIds := if impl == "-" then [] else impl.splitOn " "
        let specIds := if spec == "-" then [] else spec.splitOn " "
        let missed := diffList specIds implIds
        let extra := diffList implIds specIds
        let dup := implIds.length != implIds.eraseDups.length
        -- classification against the behaviour BEFORE the repairs (no early MatchNone, Min() lost)
        let scored := (modelFor idx bound "all" false q).1
        let oldModel := (modelFor idx bound mode false q).1
        let why :=
          if impl == "err" || impl == "panic" then "bad:" ++ impl ++ "-instead-of-result"
          else if mode == "none" && scored == spec && (impl == oldModel || explainedByLostMin idx q impl (showIds idx)) then
            "bad:minshould-lost-under-score-none"
          else if hasIrregularRange q && impl == scored then "bad:termrange-inverted-returns-max-term"
          else if hasMinWithoutShould q && impl == scored then "bad:minshould-without-should-clauses"
          else if mode == "none" && explainedByLostMin idx q impl (showIds idx) then "bad:minshould-lost-under-score-none"
          else "bad:result-differs-from-meaning"
        model ++ sep ++ why ++ " expected=[" ++ spec ++ "] missed=[" ++ " ".intercalate missed ++ "] extra=[" ++ " ".intercalate extra ++ "]" ++
          (if dup then " duplicate" else "") ++ br

/-! ### node-level replay of the real searcher tree (`trace` lines)

The harness rebuilt the searcher tree of the query on the reader's snapshot, wrapped every node in a
logging `search.Searcher` and drove it with the real collector. Each node is replayed here IN ISOLATION on
the corresponding transcribed machine: a composite gets scripted children that answer exactly what the
real children answered (and flag any call the real node did not make, or made differently); a leaf is
replayed on the `PIter` machine over the snapshot layout. -/

/-- a node of the real tree: pre-order id, kind, detail atoms, children (`none` = absent boolean clause) -/
inductive TNode where
  | mk (id : Nat) (kind : String) (args : List String) (kids : List (Option TNode))
deriving Inhabited

def TNode.id : TNode → Nat | .mk i _ _ _ => i
def TNode.kind : TNode → String | .mk _ k _ _ => k
def TNode.args : TNode → List String | .mk _ _ a _ => a
def TNode.kids : TNode → List (Option TNode) | .mk _ _ _ k => k

/-- s-expression → tree with pre-order ids; returns the next free id -/
partial def toTNode (e : SExp) (next : Nat) : Option (TNode × Nat) :=
  match e with
  | .list (.atom kind :: rest) =>
    let args := rest.filterMap fun | .atom a => some a | _ => none
    let step (acc : Option (List (Option TNode) × Nat)) (x : SExp) : Option (List (Option TNode) × Nat) :=
      match acc with
      | none => none
      | some (ks, n) =>
        match x with
        | .atom "-" => if kind == "bool" then some (ks ++ [none], n) else some (ks, n)
        | .atom _ => some (ks, n)
        | .list _ => match toTNode x n with
          | some (k, n') => some (ks ++ [some k], n')
          | none => none
    match rest.foldl step (some ([], next + 1)) with
    | some (ks, n) =>
      -- a bool node prints its three clauses positionally (`-` = absent); other kinds only have list children
      let args := if kind == "bool" then [] else args
      some (.mk next kind args ks, n)
    | none => none
  | _ => none

partial def TNode.all (t : TNode) : List TNode :=
  t :: t.kids.flatMap fun | some k => k.all | none => []

def parseAns (s : String) : Option Resp :=
  if s == "-" then some none else (s.toNat?).map some

/-- `N>5`, `A7>9`, `N>-` -/
def parseEv (s : String) : Option (Call × Resp) :=
  match s.splitOn ">" with
  | [c, a] =>
    match parseAns a with
    | none => none
    | some r =>
      if c == "N" then some (.next, r)
      else if c.startsWith "A" then ((c.drop 1).toString.toNat?).map fun n => (.adv n, r)
      else none
  | _ => none

def parseEvents (s : String) : Option (List (Nat × List (Call × Resp))) :=
  (s.splitOn ";").mapM fun part =>
    match part.splitOn ":" with
    | [i, evs] =>
      match i.toNat? with
      | none => none
      | some id =>
        if evs.isEmpty then some (id, []) else
        ((evs.splitOn ",").mapM parseEv).map fun l => (id, l)
    | _ => none

/-- a child that answers what the real child answered -/
structure Script where
  log : List (Call × Resp)
  bad : Bool := false
deriving Inhabited

def Script.step (k : Script) (c : Call) : Resp × Script :=
  match k.log with
  | (c', r) :: rest => if c == c' then (r, { k with log := rest }) else (none, { log := [], bad := true })
  | [] => (none, { k with bad := true })

def Script.done (k : Script) : Bool := !k.bad && k.log.isEmpty

/-- feed the recorded calls of a node to its model machine; the first answer that differs is
`some (call index, model answer, real answer)` -/
def replayCalls {σ : Type} (step : σ → Call → Resp × σ) : σ → List (Call × Resp) → Nat → Option (Nat × Resp × Resp) × σ
  | s, [], _ => (none, s)
  | s, (c, r) :: rest, i =>
    let (m, s') := step s c
    if m == r then replayCalls step s' rest (i + 1) else (some (i, m, r), s')

def showResp : Resp → String | none => "-" | some d => toString d

/-- replay a leaf on the `PIter` machine and report which paths of `postingsIterator.Next/Advance` ran -/
def replayLeaf (s : PIter) (evs : List (Call × Resp)) : Option (Nat × Resp × Resp) × List String :=
  let rec go (s : PIter) (es : List (Call × Resp)) (i : Nat) (brs : List String) : Option (Nat × Resp × Resp) × List String :=
    match es with
    | [] => (none, brs)
    | (c, r) :: rest =>
      let (m, s') := s.step c
      let brs := match c with
        | .next =>
          if s'.segOff > s.segOff && m.isSome then brs ++ ["leaf-next-falls-through-exhausted-segment"] else brs
        | .adv n =>
          let restarted := s.kind != .all && s.started && decide (n ≤ s.curr)
          brs ++ (if restarted then [if s.kind == .unadorned then "leaf-restart-unadorned" else "leaf-restart"] else []) ++
            (if s'.segOff > s.segOff + 1 || (s'.segOff > s.segOff && s.segs.length > 1) then ["leaf-advance-jumps-to-later-segment"] else []) ++
            (match segIndexOf ((s.advStart n).segs.map (·.off)) n, m with
             | some k, some _ => if s'.segOff > k then ["leaf-advance-falls-through-to-next"] else []
             | _, _ => [])
      if m == r then go s' rest (i + 1) brs else (some (i, m, r), brs)
  let (r, brs) := go s evs 0 []
  (r, brs.eraseDups)

/-- `Min()` of a real node -/
partial def TNode.minOf (t : TNode) : Nat :=
  match t.kind with
  | "disjS" | "disjH" | "min" => (t.args.headD "0").toNat!
  | "filt" => match t.kids with | [some k] => k.minOf | _ => 0
  | _ => 0

def answersOf (evs : List (Call × Resp)) : List Nat := (evs.filterMap (·.2)).eraseDups

/-- per-segment contents of an unadorned leaf: `b1,2` bitmap, `h5` 1-hit, `e` empty -/
def parseSegIt (s : String) : Option (List Nat × SegIt) :=
  if s == "e" then some ([], .list [])
  else if s.startsWith "h" then ((s.drop 1).toString.toNat?).map fun d => ([d], .oneHit (some d))
  else if s.startsWith "b" then
    let body := (s.drop 1).toString
    if body.isEmpty then some ([], .list []) else
    ((body.splitOn ",").mapM (fun (x : String) => x.toNat?)).map fun l => (l, SegIt.list l)
  else none

structure ReplayCtx where
  sn : SnapLayout
  idx : Index
  bound : Nat
  events : List (Nat × List (Call × Resp))
  /-- the documents the filter of the query's only geo leaf accepts, as the SPECIFICATION says (present
  when the query has exactly one geo leaf and no document lies near its edge); otherwise a filter node is
  replayed with the documents it was seen to accept -/
  geoAcc : Option (List Nat) := none

def ReplayCtx.evs (c : ReplayCtx) (id : Nat) : List (Call × Resp) :=
  match c.events.find? (·.1 == id) with | some e => e.2 | none => []

def kidScripts (c : ReplayCtx) (kids : List (Option TNode)) : List Script :=
  kids.filterMap fun | some k => some { log := c.evs k.id } | none => none

/-- replay ONE node; `none` = consistent. Second component: branches. -/
def replayNode (c : ReplayCtx) (t : TNode) : Option String × List String :=
  let evs := c.evs t.id
  let kids := kidScripts c t.kids
  let fuel := (c.bound + 2) * (2 * kids.length + 4)
  let report (what : String) (r : Option (Nat × Resp × Resp)) (kidsDone : Bool) : Option String :=
    match r with
    | some (i, m, real) => some s!"node={t.id} kind={what} call#{i} model={showResp m} real={showResp real}"
    | none => if kidsDone then none else some s!"node={t.id} kind={what} children-called-differently"
  match t.kind with
  | "conj" =>
    let (r, s) := replayCalls (Conj.step Script.step fuel) (Conj.mk' kids) evs 0
    (report "conj" r (s.kids.all (·.done)), ["replay-conj"])
  | "disjS" =>
    let (r, s) := replayCalls (DisjS.step Script.step fuel) (DisjS.mk' kids t.minOf) evs 0
    (report "disjS" r (s.kids.all (·.done)),
      ["replay-disjS"] ++ (if heapTakeover < kids.length then ["WRONG-DISJUNCTION-KIND"] else []))
  | "disjH" =>
    let (r, s) := replayCalls (DisjH.step Script.step fuel) (DisjH.mk' kids t.minOf) evs 0
    (report "disjH" r (s.kids.all (·.done)),
      ["replay-disjH"] ++ (if heapTakeover < kids.length then [] else ["WRONG-DISJUNCTION-KIND"]))
  | "bool" =>
    match t.kids with
    | [m, sh, n] =>
      let sc (k : Option TNode) : Option Script := k.map fun k => { log := c.evs k.id }
      let smin := match sh with | some k => k.minOf | none => 0
      let (r, s) := replayCalls (BoolS.step Script.step fuel) (BoolS.mk' (sc m) (sc sh) (sc n) smin) evs 0
      let dn (k : Option Script) : Bool := match k with | some k => k.done | none => true
      (report "bool" r (dn s.must && dn s.should && dn s.mustNot), ["replay-bool"])
    | _ => (some s!"node={t.id} bool-without-three-clauses", [])
  | "filt" =>
    match kids with
    | [k] =>
      let acc := match c.geoAcc with | some a => a | none => answersOf evs
      -- branch: an Advance whose target the filter rejected, with the child's next candidate rejected too
      let rec walk (s : Filt Script) (es : List (Call × Resp)) (i : Nat) (brs : List String) :
          Option (Nat × Resp × Resp) × Filt Script × List String :=
        match es with
        | [] => (none, s, brs)
        | (cl, r) :: rest =>
          let before := s.kid.log.length
          let (m, s') := Filt.step Script.step fuel s cl
          let used := before - s'.kid.log.length
          let brs := match cl with
            | .adv _ => brs ++ ["replay-filt-advance"] ++ (if used ≥ 2 then ["replay-filt-advance-target-rejected"] else []) ++
                (if used ≥ 3 then ["replay-filt-advance-rejected-then-next-rejected"] else [])
            | .next => brs
          if m == r then walk s' rest (i + 1) brs else (some (i, m, r), s', brs)
      let (r, s, brs) := walk ⟨k, acc⟩ evs 0 []
      (report "filt" r s.kid.done, ["replay-filt"] ++ (if c.geoAcc.isSome then ["replay-filt-with-spec-predicate"] else []) ++ brs.eraseDups)
    | _ => (some s!"node={t.id} filt-without-child", [])
  | "phrase" =>
    match kids with
    | [k] =>
      let (r, s) := replayCalls (PhraseS.step Script.step fuel) (PhraseS.mk' k (answersOf evs)) evs 0
      (report "phrase" r s.must.done, ["replay-phrase"])
    | _ => (some s!"node={t.id} phrase-without-child", [])
  | "min" =>
    -- `minSearcher` embeds the searcher it wraps: every call goes straight through
    match kids with
    | [k] => (if k.log == evs then none else some s!"node={t.id} kind=min child-log-differs", ["replay-min"])
    | _ => (some s!"node={t.id} min-without-child", [])
  | "none" =>
    (if evs.all (fun e => e.2.isNone) then none else some s!"node={t.id} kind=none answered-a-document", ["replay-none"])
  | "all" =>
    let (r, lbrs) := replayLeaf (PIter.mk' c.sn .all (allDocs c.idx)) evs
    (report "all" r true, ["replay-leaf-all"] ++ lbrs)
  | "term" =>
    match t.args with
    | "p" :: f :: term :: segsS =>
      if (f == "t" || f == "u" || f == "k") && !term.startsWith "x" then
        -- the iterator starts from what its per-segment iterators REALLY hold (the push-down conjunction
        -- optimisation may have narrowed them); a restart goes back to the term's own postings
        let own := post c.idx f term
        match segsS.mapM parseSegIt with
        | some its =>
          if its.length != c.sn.length then (some s!"node={t.id} postings-leaf-segment-count", []) else
          let segs : List PSeg := (c.sn.zip its).map fun (e, x) => { off := e.1, fresh := localsOf own e.1 e.2, it := x.2 }
          let narrowed := segs.any fun g => g.it.toList != g.fresh
          let sound := segs.all fun g => g.it.toList.all (fun y => g.fresh.contains y)
          if !sound then (some s!"node={t.id} kind=term per-segment-iterator-holds-a-document-that-is-not-a-live-posting-of-{term}", []) else
          let m : PIter := { kind := .postings, segs := segs, segOff := 0, started := false, curr := 0 }
          let (r, lbrs) := replayLeaf m evs
          (report "term" r true, ["replay-leaf-postings"] ++ lbrs ++ (if narrowed then ["leaf-narrowed"] else []) ++
            (if its.any (fun x => match x.2 with | .oneHit _ => true | _ => false) then ["replay-leaf-postings-1hit"] else []) ++
            (if evs.any (fun e => match e.1 with | .adv _ => true | .next => false) then ["replay-leaf-postings-advance"] else []))
        | none => (none, ["replay-leaf-skipped"])
      else (none, ["replay-leaf-skipped"])
    | "a" :: _ =>
      let (r, _) := replayCalls PIter.step (PIter.mk' c.sn .all (allDocs c.idx)) evs 0
      (report "term-all" r true, ["replay-leaf-all"])
    | "u" :: _ :: _ :: segsS =>
      match segsS.mapM parseSegIt with
      | some its =>
        if its.length != c.sn.length then (some s!"node={t.id} unadorned-leaf-segment-count", []) else
        let segs : List PSeg := (c.sn.zip its).map fun (e, x) => { off := e.1, fresh := x.1, it := x.2 }
        let m : PIter := { kind := .unadorned, segs := segs, segOff := 0, started := false, curr := 0 }
        let (r, lbrs) := replayLeaf m evs
        (report "term-unadorned" r true, ["replay-leaf-unadorned"] ++ lbrs ++
          (if its.any (fun x => match x.2 with | .oneHit _ => true | _ => false) then ["replay-leaf-unadorned-1hit"] else []))
      | none => (none, ["replay-leaf-skipped"])
    | _ => (none, ["replay-leaf-skipped"])
  | _ => (none, ["replay-other-kind"])

/-- the text-term leaves among the children of a node: (node, own postings, per-segment contents) -/
def textLeaf (c : ReplayCtx) (t : TNode) : Option (TNode × List Nat × List (List Nat)) :=
  match t.kind, t.args with
  | "term", "p" :: f :: term :: segsS =>
    if (f == "t" || f == "u" || f == "k") && !term.startsWith "x" then
      match segsS.mapM parseSegIt with
      | some its => some (t, post c.idx f term, its.map (fun x => x.2.toList))
      | none => none
    else none
  | _, _ => none

/-- through the "wrapper around a single Optimizable child" disjunctions (search_disjunction_slice.go
`Optimize`: a disjunction with exactly one child hands the optimisation to it) -/
partial def throughWrappers (t : TNode) : TNode :=
  match t.kind, t.kids with
  | "disjS", [some k] => throughWrappers k
  | "disjH", [some k] => throughWrappers k
  | _, _ => t

/-- the push-down conjunction optimisation (index/optimize.go `optimizeConjunction.Finish`) replaces the
per-segment bitmaps of the term searchers of an all-term conjunction (terms possibly wrapped in
single-child disjunctions) by their AND. Checked on the real contents: a narrowed leaf occurs only as such a
participant of a conjunction (`allowed`), and — when all participants are text terms, whose postings the
model knows — what a leaf still holds contains every document that all participants have (nothing the
conjunction needs is lost). -/
partial def narrowingErrors (c : ReplayCtx) (t : TNode) (allowed : Bool) : List String :=
  let kids := t.kids.filterMap id
  let isNarrowed (l : TNode × List Nat × List (List Nat)) : Bool :=
    (c.sn.zip l.2.2).any fun (e, have_) => have_ != localsOf l.2.1 e.1 e.2
  let here : List String :=
    match textLeaf c t with
    | some l => if isNarrowed l && !allowed then [s!"node={t.id} postings-leaf-narrowed-outside-a-conjunction"] else []
    | none => []
  let conjCheck : List String :=
    if t.kind != "conj" then [] else
    let parts := kids.map throughWrappers
    let leaves := parts.filterMap (textLeaf c)
    if leaves.length != parts.length then [] else
    let inter : List Nat := match leaves with
      | [] => []
      | l :: ls => l.2.1.filter fun x => ls.all (fun m => m.2.1.contains x)
    leaves.filterMap fun l =>
      let ok := (c.sn.zip l.2.2).all fun (e, have_) => (localsOf inter e.1 e.2).all (fun y => have_.contains y)
      if ok then none else some s!"node={l.1.id} conjunction-push-down-lost-a-common-document"
  let kidAllowed : Bool :=
    if t.kind == "conj" then true
    else if (t.kind == "disjS" || t.kind == "disjH") && kids.length == 1 then allowed
    else false
  here ++ conjCheck ++ kids.flatMap (fun k => narrowingErrors c k kidAllowed)

partial def geoLeaves : Query → List Query
  | .geoBox f a b c d => [.geoBox f a b c d]
  | .geoDist f a b c => [.geoDist f a b c]
  | .bool ms ss ns _ => (ms ++ ss ++ ns).flatMap geoLeaves
  | _ => []

def traceStep (st : DState) (mode : String) (qe : Option SExp) (impl : String) : String :=
  match st.layout with
  | none => impl ++ sep ++ "na br=replay-no-layout"
  | some l =>
    match impl.splitOn " @ " with
    | [treeS, evS, numsS] =>
      match parseSExp (tokenize treeS), parseEvents evS with
      | some (e, []), some events =>
        match toTNode e 0 with
        | some (root, _) =>
          let idx := st.index
          let geoAcc : Option (List Nat) :=
            match qe.bind parseQuery with
            | some (q, _) =>
              match geoLeaves q with
              | [g] => if idx.any (fun e => geoNear e.2 g) then none
                       else some ((idx.filter (fun e => sat e.2 g)).map (·.1))
              | _ => none
            | none => none
          let c : ReplayCtx := { sn := layoutSn l, idx := idx, bound := st.bound, events := events, geoAcc := geoAcc }
          let results := root.all.map (replayNode c)
          -- score none: the unadorned leaves of the real tree hold exactly what the model's rewrite computes
          -- (the OR / AND of the per-segment postings of the rewritten children)
          let unadornedErr : List String :=
            if mode != "none" then [] else
            match qe.bind parseQuery with
            | some (q, _) =>
              if hasRangeOrGeo q then [] else
              -- (the real dictionary may still hold terms of deleted documents, so the real code can rewrite a
              -- disjunction the model sees as a single term: compare with the set of EVERY model sub-plan)
              let plan0 := compile idx q.norm
              let cands := allDens st.bound plan0 ++ unadornedLists (plan0.rewriteNone ⟨true⟩ st.bound).1
              let realLs : List (List Nat) := root.all.filterMap fun t =>
                match t.kind, t.args with
                | "term", "u" :: _ :: _ :: segsS =>
                  match segsS.mapM parseSegIt with
                  | some its => if its.length != c.sn.length then none else
                      some ((c.sn.zip its).flatMap fun (e, x) => x.2.toList.map (· + e.1))
                  | none => none
                | _, _ => none
              match realLs.find? (fun l => !cands.contains l) with
              | some l => [s!"unadorned-leaf-holds-{l}-which-is-the-set-of-no-sub-plan-of-the-model"]
              | none => []
            | none => []
          let errs := results.filterMap (·.1) ++ narrowingErrors c root false ++ unadornedErr
          let brs := (results.flatMap (·.2)).eraseDups
          -- the documents the collector received are the answers of the root
          let top := (c.evs 0).filterMap (·.2)
          let nums := if numsS == "-" then [] else (numsS.splitOn ",").filterMap (·.toNat?)
          let topOk := sortNat top == sortNat nums
          let br := " br=" ++ ",".intercalate (["replay"] ++ brs ++
            (if mode == "none" && brs.contains "replay-leaf-unadorned" then ["replay-unadorned-contents-checked"] else []))
          if brs.contains "WRONG-DISJUNCTION-KIND" then
            -- a break of the correspondence (model constant vs real tree), not a verdict on the implementation
            "replay-mismatch disjunction-kind-differs-from-the-takeover-constant-of-the-model" ++ sep ++ "na" ++ br
          else match errs with
          | e :: _ => "replay-mismatch " ++ e ++ sep ++ "na" ++ br
          | [] =>
            if !topOk then "replay-mismatch top-level-answers-differ-from-the-collected-documents" ++ sep ++ "na" ++ br
            else impl ++ sep ++ "ok" ++ br
        | none => impl ++ sep ++ "na br=replay-unparsed"
      | _, _ => impl ++ sep ++ "na br=replay-unparsed"
    | _ => impl ++ sep ++ "na br=replay-not-traced"
where
  sortNat (xs : List Nat) : List Nat := xs.foldl (fun acc x => ins x acc) []
  ins (x : Nat) : List Nat → List Nat
    | [] => [x]
    | y :: ys => if x ≤ y then x :: y :: ys else y :: ins x ys

/-- the `snap` line: the real `Snapshot.offsets`, segment sizes (`FullSize`), stored ids and deleted marks.
Evaluates the hypothesis `offsetsOK` of `plan_exact_seg` / `postings_exact` on the real snapshot and ties
the model's abstract index to the physical layout (same live ids). -/
def snapStep (st : DState) (impl : String) : DState × String :=
  let st := st.flush
  match parseLayout impl with
  | none => (st, impl ++ sep ++ "bad:assumption-layout snapshot-not-readable")
  | some l =>
    let sn := layoutSn l
    let sizesOk := l.all fun (_, size, ids) => ids.length == size
    let liveIds := sortStrings (l.flatMap fun (_, _, ids) => ids.filterMap fun (id, del) => if del then none else some id)
    let ownIds := sortStrings (st.indexOwn.map (·.2.id))
    if !(offsetsOK 0 sn && sizesOk) then
      (st, impl ++ sep ++ "bad:assumption-offsets offsets-are-not-the-running-sums-of-the-segment-sizes")
    else if liveIds != ownIds then
      (st, impl ++ sep ++ "bad:assumption-layout live-ids-differ model=[" ++ " ".intercalate ownIds ++ "]")
    else
      let br := ["snap"] ++ (if l.length > 1 then ["snap-multi-segment"] else []) ++
        (if l.any (fun (_, _, ids) => ids.any (·.2)) then ["snap-has-deleted"] else []) ++
        (if l.isEmpty then ["snap-empty"] else [])
      ({ st with layout := some l }, impl ++ sep ++ "ok br=" ++ ",".intercalate br)

def c07step (st : DState) (op : String) (impl : String) : DState × String :=
  let ws := op.splitOn " "
  match ws with
  | "case" :: _ => (DState.empty, "ok" ++ sep ++ "na")
  | ["snap"] => snapStep st impl
  | ["waitmerge"] => (st.flush, "ok" ++ sep ++ "na")
  | "trace" :: mode :: _ =>
    let rest := (op.drop (6 + mode.length + 1)).toString
    let qe := match parseSExp (tokenize rest) with | some (e, []) => some e | _ => none
    (st, traceStep st mode qe impl)
  | ["seg"] => (st.flush, "ok" ++ sep ++ "na")
  | "ins" :: id :: fs => ({ st with pendAdd := parseDoc id fs :: st.pendAdd }, "ok" ++ sep ++ "na")
  | "upd" :: id :: fs => ({ st with pendDel := id :: st.pendDel, pendAdd := parseDoc id fs :: st.pendAdd }, "ok" ++ sep ++ "na")
  | ["del", id] => ({ st with pendDel := id :: st.pendDel }, "ok" ++ sep ++ "na")
  | "qskip" :: _ => (st, "walk" ++ sep ++ "na br=numeric-walk-capped")
  | "q" :: mode :: _ =>
    let st := st.flush
    let rest := (op.drop (2 + mode.length + 1)).toString
    match parseSExp (tokenize rest) with
    | some (e, []) => (st, runQuery st mode e impl)
    | _ => (st, "bad-op" ++ sep ++ "na")
  | _ => (st, "bad-op" ++ sep ++ "na")

def main : IO Unit := driverLoop DState.empty c07step

import Bluge.Numeric
import Bluge.C07.Query
/-! Model driver for C07 (line protocol, see go/harness/hlib and go/harness/c07).

Per case it keeps the abstract index (live analysed documents with their doc numbers, one batch =
one segment), and for every `q <mode> <sexpr>` line it
* evaluates the specification `denote` directly,
* compiles the query to the searcher plan of query.go and runs the transcribed searcher state
  machines of `Bluge.Search` the way a collector does (mode `none`: after the unadorned rewrites),
* answers `<ids produced by the model machines> ## <verdict>`; verdict `bad:` when the
  IMPLEMENTATION's id list differs from `denote` (missed / extra / duplicate). -/
open Bluge Bluge.Search Bluge.C07

/-! ### s-expressions -/
inductive SExp where
  | atom (s : String)
  | list (xs : List SExp)
deriving Repr, Inhabited

def tokenize (s : String) : List String :=
  let rec go (cs : List Char) (cur : List Char) (acc : List String) : List String :=
    let flush (acc : List String) := if cur.isEmpty then acc else String.ofList cur.reverse :: acc
    match cs with
    | [] => (flush acc).reverse
    | '(' :: r => go r [] ("(" :: flush acc)
    | ')' :: r => go r [] (")" :: flush acc)
    | ' ' :: r => go r [] (flush acc)
    | c :: r => go r (c :: cur) acc
  go s.toList [] []

/-- parse one expression; returns the rest of the tokens -/
partial def parseSExp : List String → Option (SExp × List String)
  | [] => none
  | "(" :: r =>
    let rec items (ts : List String) (acc : List SExp) : Option (SExp × List String) :=
      match ts with
      | [] => none
      | ")" :: r => some (.list acc.reverse, r)
      | ts => match parseSExp ts with
        | none => none
        | some (e, r) => items r (e :: acc)
    items r []
  | ")" :: _ => none
  | a :: r => some (.atom a, r)

def atoms (xs : List SExp) : List String := xs.filterMap fun | .atom a => some a | _ => none

/-! ### the abstract index -/
structure DState where
  /-- every document ever inserted: (doc number, doc, live?) in doc-number order -/
  docs : List (Nat × Doc × Bool)
  next : Nat
  /-- pending batch: ids to delete, documents to add -/
  pendDel : List String
  pendAdd : List Doc
deriving Inhabited

def DState.empty : DState := ⟨[], 0, [], []⟩

def DState.flush (s : DState) : DState :=
  if s.pendDel.isEmpty && s.pendAdd.isEmpty then s else
  let docs := s.docs.map fun (n, d, live) => (n, d, live && !s.pendDel.contains d.id)
  let adds := s.pendAdd.reverse.zipIdx.map fun (d, i) => (s.next + i, d, true)
  { docs := docs ++ adds, next := s.next + adds.length, pendDel := [], pendAdd := [] }

def DState.index (s : DState) : Index := s.docs.filterMap fun (n, d, live) => if live then some (n, d) else none

def parseBits (s : String) : Option Float := (parse64 s).map fun b => Float.ofBits b.toNat.toUInt64

def sortableOfBits (s : String) : Option Int := (parse64 s).map fun b => (Numeric.f2i b).toInt

def parseDoc (id : String) (toks : List String) : Doc :=
  toks.foldl (fun d tok =>
    match tok.splitOn "=" with
    | [k, v] =>
      if k == "t" || k == "u" then { d with terms := d.terms ++ [(k, if v.isEmpty then [] else v.splitOn ",")] }
      else if k == "k" then { d with terms := d.terms ++ [(k, [v])] }
      else if k == "n" then match sortableOfBits v with
        | some i => { d with nums := d.nums ++ [(k, i)] }
        | none => d
      else if k == "d" then match v.toInt? with
        | some i => { d with nums := d.nums ++ [(k, i)] }
        | none => d
      else if k == "g" then
        -- g=<lon>,<lat>:<qlon>,<qlat> : the quantised pair is what was indexed
        match v.splitOn ":" with
        | [_, q] => match q.splitOn "," with
          | [a, b] => match parseBits a, parseBits b with
            | some lon, some lat => { d with geos := d.geos ++ [(k, lon, lat)] }
            | _, _ => d
          | _ => d
        | _ => d
      else d
    | _ => d) { id := id, terms := [], nums := [], geos := [] }

/-! ### queries -/
def hexToString (s : String) : String :=
  match hexToBytes s with
  | some bs => String.ofList (bs.map fun b => Char.ofNat b.toNat)
  | none => ""

def int64Min : Int := -9223372036854775808
def int64Max : Int := 9223372036854775807

/-- NewNumericRangeSearcher's bounds from the two int64 end points -/
def adjustBounds (lo hi : Int) (il ih : Bool) : Int × Int :=
  let lo := if !il && lo != int64Max then lo + 1 else lo
  let hi := if !ih && hi != int64Min then hi - 1 else hi
  (lo, hi)

def numBound (s : String) (isMin : Bool) : Option Int :=
  match parse64 s with
  | none => none
  | some b =>
    if isMin && b == 0xfff0000000000000#64 then some int64Min
    else if !isMin && b == 0x7ff0000000000000#64 then some int64Max
    else some (Numeric.f2i b).toInt

def dateBound (s : String) (isMin : Bool) : Option Int :=
  if s == "z" then some (if isMin then int64Min else int64Max) else s.toInt?

/-- query + outcome of `Searcher()` construction (first error / panic in construction order) -/
partial def parseQuery : SExp → Option (Query × Outcome)
  | .list (.atom "t" :: .atom f :: .atom w :: []) => some (.term f w, .ok)
  | .list [.atom "all"] => some (.all, .ok)
  | .list [.atom "none"] => some (.none, .ok)
  | .list (.atom "m" :: .atom f :: .atom op :: ws) =>
    let ts := (atoms ws).map (Query.term f)
    if ts.isEmpty then some (.none, .ok)
    else if op == "and" then some (.bool ts [] [] 0, .ok) else some (.bool [] ts [] 1, .ok)
  | .list (.atom "ph" :: .atom f :: .atom slop :: ws) =>
    let ts := atoms ws
    if ts.isEmpty then some (.none, .ok) else some (.phrase f slop.toNat! (ts.map fun w => [w]), .ok)
  | .list (.atom "mp" :: .atom f :: .atom slop :: ps) =>
    some (.phrase f slop.toNat! (ps.map fun | .list xs => atoms xs | .atom a => [a]), .ok)
  | .list [.atom "px", .atom f, .atom p] => some (.multi f (.pfx p), .ok)
  | .list [.atom "wc", .atom f, .atom p] => some (.multi f (.wild p), .ok)
  | .list [.atom "re", .atom f, .atom _, .list acc] => some (.multi f (.oneOf (atoms acc)), .ok)
  | .list [.atom "fz", .atom f, .atom _, .atom fuzz, .atom _, .list acc] =>
    match fuzz.toInt? with
    | some z =>
      some (.multi f (.oneOf (atoms acc)), fuzzyOutcome z)   -- fuzziness 0: automatons[0] on an empty slice
    | none => none
  | .list [.atom "tr", .atom f, .atom lo, .atom hi, .atom il, .atom ih] =>
    some (.multi f (.range (if lo == "_" then none else some lo) (if hi == "_" then none else some hi) (il == "1") (ih == "1")), .ok)
  | .list [.atom "nr", .atom f, .atom lo, .atom hi, .atom il, .atom ih] =>
    match numBound lo true, numBound hi false with
    | some l, some h => let b := adjustBounds l h (il == "1") (ih == "1"); some (.numRange f b.1 b.2, .ok)
    | _, _ => none
  | .list [.atom "dr", .atom f, .atom lo, .atom hi, .atom il, .atom ih] =>
    match dateBound lo true, dateBound hi false with
    | some l, some h => let b := adjustBounds l h (il == "1") (ih == "1"); some (.numRange f b.1 b.2, .ok)
    | _, _ => none
  | .list [.atom "gb", .atom f, .atom a, .atom b, .atom c, .atom d] =>
    match parseBits a, parseBits b, parseBits c, parseBits d with
    | some tlLon, some tlLat, some brLon, some brLat => some (.geoBox f tlLon brLat brLon tlLat, .ok)
    | _, _, _, _ => none
  | .list [.atom "gd", .atom f, .atom a, .atom b, .atom c] =>
    match parseBits a, parseBits b, parseBits c with
    | some lon, some lat, some dist => some (.geoDist f lon lat dist, .ok)
    | _, _, _ => none
  | .list [.atom "b", .atom min, .list ms, .list ss, .list ns] =>
    let sub (xs : List SExp) : Option (List (Query × Outcome)) := xs.mapM parseQuery
    match sub ms, sub ss, sub ns with
    | some m, some s, some n =>
      -- construction order of BooleanQuery.initPrimarySearchers: mustNots, musts, shoulds
      let firstBad := ((n ++ m ++ s).map (·.2)).find? (· != .ok)
      some (.bool (m.map (·.1)) (s.map (·.1)) (n.map (·.1)) min.toNat!, firstBad.getD .ok)
    | _, _, _ => none
  | _ => none

/-! ### geo: points within relative 1e-3 of an edge / of the distance threshold are classified `na` -/
def absF (x : Float) : Float := if x < 0 then -x else x
def maxF (a b : Float) : Float := if a < b then b else a

def nearEdge (p e extent : Float) : Bool := absF (p - e) ≤ maxF (maxF (1e-3 * absF e) (1e-3 * extent)) 1e-5

partial def geoNear (d : Doc) : Query → Bool
  | .geoBox f minLon minLat maxLon maxLat =>
    (d.geosOf f).any fun p =>
      let w := if maxLon < minLon then 360 - (minLon - maxLon) else maxLon - minLon
      let h := maxLat - minLat
      nearEdge p.1 minLon w || nearEdge p.1 maxLon w || nearEdge p.2 minLat h || nearEdge p.2 maxLat h ||
      nearEdge p.1 180 w || nearEdge p.1 (-180) w
  | .geoDist f lon lat dist =>
    (d.geosOf f).any fun p => absF (haversinMeters p.1 p.2 lon lat - dist) ≤ 2e-3 * dist + 1
  | .bool ms ss ns _ => (ms ++ ss ++ ns).any (geoNear d)
  | _ => false

/-! ### classification of a violation -/

/-- boolean nodes on which the unadorned rewrite can lose `minShould`: must + ≥2 should clauses, min = 1 -/
def isCand (ms ss : List Query) (min : Nat) : Bool := !ms.isEmpty && ss.length ≥ 2 && min == 1

/-- relax `minShould` to 0 on the candidate nodes selected by `pick` (numbered in traversal order) -/
partial def relaxWith (pick : Nat → Bool) : Query → Nat → Query × Nat
  | .bool ms ss ns min, i =>
    let go (qs : List Query) (i : Nat) : List Query × Nat :=
      qs.foldl (fun (acc : List Query × Nat) q => let r := relaxWith pick q acc.2; (acc.1 ++ [r.1], r.2)) ([], i)
    let rm := go ms i
    let rs := go ss rm.2
    let rn := go ns rs.2
    if isCand ms ss min then (.bool rm.1 rs.1 rn.1 (if pick rn.2 then 0 else min), rn.2 + 1)
    else (.bool rm.1 rs.1 rn.1 min, rn.2)
  | q, i => (q, i)

/-- is the implementation's answer the meaning of the query with `minShould` dropped on some candidates? -/
def explainedByLostMin (idx : Index) (q : Query) (implIds : String) (showIds : List Nat → String) : Bool :=
  let k := (relaxWith (fun _ => false) q 0).2
  if k == 0 then false else
  let k' := if k > 6 then 6 else k
  (List.range (2 ^ k')).any fun mask =>
    mask != 0 && showIds (denote idx (relaxWith (fun i => (mask >>> (if i < k' then i else k' - 1)) % 2 == 1) q 0).1) == implIds

partial def hasIrregularRange : Query → Bool
  | .multi _ m => !m.regular
  | .bool ms ss ns _ => (ms ++ ss ++ ns).any hasIrregularRange
  | _ => false

partial def hasMinWithoutShould : Query → Bool
  | .bool ms ss ns min => (ss.isEmpty && min != 0) || (ms ++ ss ++ ns).any hasMinWithoutShould
  | _ => false

/-! ### running one query -/
def insertSorted (x : String) : List String → List String
  | [] => [x]
  | y :: ys => if x ≤ y then x :: y :: ys else y :: insertSorted x ys

def sortStrings (xs : List String) : List String := xs.foldl (fun acc x => insertSorted x acc) []

def showIds (idx : Index) (nums : List Nat) : String :=
  let ids := sortStrings (nums.map fun n => match idx.find? (·.1 == n) with | some e => e.2.id | none => s!"?{n}")
  if ids.isEmpty then "-" else " ".intercalate ids

partial def planKinds : Plan → List String
  | .leaf k _ => [match k with | .postings => "leaf" | .unadorned => "leaf-unadorned" | .all => "leaf-all"]
  | .conj ps => "conj" :: ps.flatMap planKinds
  | .disj ps _ => (if heapTakeover < ps.length then "disjH" else "disjS") :: ps.flatMap planKinds
  | .bool m s n _ =>
    "bool" :: ((if n.isSome then ["bool-mustnot"] else []) ++ (if m.isSome && s.isSome then ["bool-must-should"] else []) ++
      (if m.isNone then ["bool-should-only"] else []) ++
      (match m with | some p => planKinds p | none => []) ++ (match s with | some p => planKinds p | none => []) ++
      (match n with | some p => planKinds p | none => []))
  | .filt p _ => "filt" :: planKinds p
  | .phrase p _ => "phrase" :: planKinds p

def diffList (a b : List String) : List String := a.filter (fun x => !b.contains x)

/-- the query as a REPAIRED implementation would treat it: `tr` an inverted / degenerate term range
selects nothing; `mws` minShould > 0 without should clauses selects nothing -/
partial def repairQ (tr mws : Bool) : Query → Query
  | .multi f m => if tr && !m.regular then .none else .multi f m
  | .bool ms ss ns min =>
    if mws && ss.isEmpty && min != 0 then .none
    else .bool (ms.map (repairQ tr mws)) (ss.map (repairQ tr mws)) (ns.map (repairQ tr mws)) min
  | q => q

/-- ids produced by the modelled searcher machines for `q` (mode `none`: after the unadorned rewrites) -/
def modelFor (idx : Index) (bound : Nat) (mode : String) (keepMin : Bool) (q : Query) : String × Plan :=
  let plan0 := compile idx q
  let plan := if mode == "none" then (plan0.rewriteNone ⟨keepMin⟩ bound).1 else plan0
  (showIds idx (plan.run bound (Plan.width plan)), plan)

/-- the behaviours the driver accepts as "the implementation as modelled": the pinned tree, or a tree on
which some of the four reported defects have been repaired (each repair = the documented meaning on that
shape). Returns the first variant that reproduces `impl`, with its name. -/
def chooseVariant (idx : Index) (bound : Nat) (mode : String) (q : Query) (outcome : Outcome) (impl : String) :
    String × Plan × String :=
  let pinned := if outcome == .panic then ("panic", Plan.leaf .postings []) else modelFor idx bound mode false q
  if pinned.1 == impl then (pinned.1, pinned.2, "") else
  let combos : List (Bool × Bool × Bool) :=
    [(true, false, false), (false, true, false), (false, false, true), (true, true, false), (true, false, true),
     (false, true, true), (true, true, true)]
  let tries := combos.filterMap fun (tr, mws, km) =>
    if km && mode != "none" then none else
    let r := modelFor idx bound mode km (repairQ tr mws q)
    if r.1 == impl then some (r.1, r.2, "repaired" ++ (if tr then "-termrange" else "") ++ (if mws then "-minwithoutshould" else "") ++
      (if km then "-minkept" else "") ++ (if outcome == .panic then "-fuzzy0" else "")) else none
  let tries := if outcome == .panic then
      (let r := modelFor idx bound mode false q
       if r.1 == impl then [(r.1, r.2, "repaired-fuzzy0")] else []) ++ tries
    else tries
  match tries with
  | t :: _ => t
  | [] => (pinned.1, pinned.2, "")

def runQuery (st : DState) (mode : String) (e : SExp) (impl0 : String) : String :=
  -- "<ids> !fresh=<ids>": the harness found that a history-free reference reader answers differently
  let parts := impl0.splitOn " !fresh="
  let impl := parts.headD impl0
  if parts.length > 1 then
    impl0 ++ sep ++ "bad:postings-iterator-reused-after-recycle answer-depends-on-earlier-searches live=[" ++ impl ++
      "] fresh=[" ++ (parts.getD 1 "") ++ "] br=depends-on-history"
  else
  match parseQuery e with
  | none => "bad-op" ++ sep ++ "na"
  | some (q, outcome) =>
    let idx := st.index
    let bound := st.next
    match outcome with
    | .err => "err" ++ sep ++ "ok br=expect-err"
    | _ =>
      let spec := showIds idx (denote idx q)
      let (model, plan, variant) := chooseVariant idx bound mode q outcome impl
      let kinds := (planKinds plan).eraseDups
      let br := " br=" ++ ",".intercalate (kinds ++ (if q.WF then [] else ["not-wf"]) ++
                  (if outcome == .panic then ["expect-panic"] else []) ++ (if variant.isEmpty then [] else [variant]))
      let plan0 := compile idx q
      if !plan0.okB bound (Plan.width plan0) then
        -- hypothesis of C07_exact_partial / plan_exact, evaluated on every query
        model ++ sep ++ "bad:assumption-plan-okB" ++ br
      else if impl == spec then
        model ++ sep ++ "ok" ++ br
      else if impl == "panic" && outcome == .panic then
        model ++ sep ++ "bad:fuzziness-0-panics" ++ br
      else if idx.any (fun e => geoNear e.2 q) then
        impl ++ sep ++ "na" ++ br ++ ",geo-near-edge"
      else
        let implIds := if impl == "-" then [] else impl.splitOn " "
        let specIds := if spec == "-" then [] else spec.splitOn " "
        let missed := diffList specIds implIds
        let extra := diffList implIds specIds
        let dup := implIds.length != implIds.eraseDups.length
        let scored := (modelFor idx bound "all" false q).1
        let why :=
          if impl == "err" || impl == "panic" then "bad:" ++ impl ++ "-instead-of-result"
          else if mode == "none" && scored == spec && (impl == model || explainedByLostMin idx q impl (showIds idx)) then
            "bad:minshould-lost-under-score-none"
          else if hasIrregularRange q && impl == scored then "bad:termrange-inverted-returns-max-term"
          else if hasMinWithoutShould q && impl == scored then "bad:minshould-without-should-clauses"
          else if mode == "none" && explainedByLostMin idx q impl (showIds idx) then "bad:minshould-lost-under-score-none"
          else "bad:result-differs-from-meaning"
        model ++ sep ++ why ++ " expected=[" ++ spec ++ "] missed=[" ++ " ".intercalate missed ++ "] extra=[" ++ " ".intercalate extra ++ "]" ++
          (if dup then " duplicate" else "") ++ br

def c07step (st : DState) (op : String) (impl : String) : DState × String :=
  let ws := op.splitOn " "
  match ws with
  | "case" :: _ => (DState.empty, "ok" ++ sep ++ "na")
  | ["seg"] => (st.flush, "ok" ++ sep ++ "na")
  | "ins" :: id :: fs => ({ st with pendAdd := parseDoc id fs :: st.pendAdd }, "ok" ++ sep ++ "na")
  | "upd" :: id :: fs => ({ st with pendDel := id :: st.pendDel, pendAdd := parseDoc id fs :: st.pendAdd }, "ok" ++ sep ++ "na")
  | ["del", id] => ({ st with pendDel := id :: st.pendDel }, "ok" ++ sep ++ "na")
  | "qskip" :: _ => (st, "walk" ++ sep ++ "na br=numeric-walk-capped")
  | "q" :: mode :: _ =>
    let st := st.flush
    let rest := (op.drop (2 + mode.length + 1)).toString
    match parseSExp (tokenize rest) with
    | some (e, []) => (st, runQuery st mode e impl)
    | _ => (st, "bad-op" ++ sep ++ "na")
  | _ => (st, "bad-op" ++ sep ++ "na")

def main : IO Unit := driverLoop DState.empty c07step

import Bluge.Basic
import Bluge.FS
import BlugeGen.C13
/-! Model driver for C13 (line protocol, see go/harness/hlib and go/harness/c13).

Every op line describes one scenario; the driver runs `Bluge.FS.interp` on the GENERATED program
(`BlugeGen.C13.persistProgram` / `removeProgram`) in that scenario, prints what the harness can observe
on the real directory in the same canonical form, and judges the implementation's own output against
the specification (`bad:` = success reported for a file that is not exactly the content, a failure that
leaves a file under the name, a success without an fsync after the last write, …).

    prog
    persist  kind=seg|snp id=N data=SPEC prior=absent|SPEC chunks=-|n,n,… fault=none|wfail:K|cancel:K|syncfail|lockbusy|noent
    tpersist (same; the real run was traced with strace, the result carries `trace=`)
    remove   kind=… id=N prior=absent|SPEC lock=none|shared|exclusive
    SPEC = hex:HEX | pat:SEED:LEN        (byte i of a pattern = (SEED + 7 i + 13 (i / 251)) mod 256)
-/
open Bluge Bluge.FS

def patBytes (seed len : Nat) : Bytes :=
  (List.range len).map fun i => BitVec.ofNat 8 (seed + 7 * i + 13 * (i / 251))

def parseSpec (s : String) : Option Bytes :=
  match s.splitOn ":" with
  | ["hex", h] => hexToBytes h
  | ["pat", a, b] => do
      let seed ← a.toNat?
      let len ← b.toNat?
      pure (patBytes seed len)
  | _ => none

def kv (ws : List String) (k : String) : Option String :=
  ws.findSome? fun w => if w.startsWith (k ++ "=") then some ((w.drop (k.length + 1)).toString) else none

def fnv (bs : Bytes) : UInt64 :=
  bs.foldl (fun h b => (h ^^^ UInt64.ofNat b.toNat) * 1099511628211) 14695981039346656037

def renderBytes (bs : Bytes) : String :=
  if bs.length ≤ 40 then toString bs.length ++ ":" ++ bytesToHex bs
  else toString bs.length ++ ":#" ++ toHex 16 (fnv bs).toNat

def renderFile : Option File → String
  | none => "absent"
  | some f => renderBytes f.vol

def flagName : OFlag → String
  | .O_RDONLY => "O_RDONLY" | .O_WRONLY => "O_WRONLY" | .O_RDWR => "O_RDWR" | .O_APPEND => "O_APPEND"
  | .O_CREATE => "O_CREATE" | .O_EXCL => "O_EXCL" | .O_SYNC => "O_SYNC" | .O_TRUNC => "O_TRUNC"

def octal (n : Nat) : String := String.ofList (Nat.toDigits 8 n)

def e (ok : Bool) : String := if ok then "" else "=err"

/-- system calls only: what strace can see (a Close/Sync of an already closed *os.File makes no call) -/
def renderEv : Ev → Option String
  | .open fl pm ok => some ("open[" ++ "|".intercalate (fl.map flagName) ++ "]:" ++ octal pm ++ e ok)
  | .flock ex ok => some ("flock:" ++ (if ex then "ex" else "sh") ++ e ok)
  | .trunc n ok => some ("trunc:" ++ toString n ++ e ok)
  | .write n => some ("write:" ++ toString n)
  | .writerRet _ => none
  | .fsync true => some "fsync"
  | .fsync false => none
  | .close true => some "close"
  | .close false => none
  | .unlink ok => some ("unlink" ++ e ok)
  | .ret ok => some ("ret:" ++ (if ok then "ok" else "err"))

def renderTrace (t : Trace) : String := ",".intercalate (t.filterMap renderEv)

/-- the events of an observed trace that matter for the sync order -/
def parseEv (s : String) : Ev :=
  if s.startsWith "write:" then .write ((s.drop 6).toString.toNat?.getD 0)
  else if s.startsWith "trunc:" then .trunc 0 (!(s.endsWith "=err"))
  else if s == "fsync" then .fsync true
  else .writerRet true

def bystander : Bytes := [0xbb, 0xbb, 0xbb]

structure Scn where
  id : Nat
  content : Bytes
  prior : Option Bytes
  env : Env
  st : FSState
  fault : String
  noent : Bool

def mkScn (ws : List String) : Option Scn := do
  let id ← (← kv ws "id").toNat?
  let content ← match kv ws "data" with
    | some d => parseSpec d
    | none => some []
  let prior ← match kv ws "prior" with
    | some "absent" => some none
    | some p => (parseSpec p).map some
    | none => some none
  let chunks := match kv ws "chunks" with
    | some "-" => []
    | some c => (c.splitOn ",").filterMap String.toNat?
    | none => []
  let fault := (kv ws "fault").getD "none"
  let lock := (kv ws "lock").getD "none"
  let stop : Option Nat := match fault.splitOn ":" with
    | ["wfail", k] => k.toNat?
    | ["cancel", k] => k.toNat?
    | _ => none
  let other : LockMode :=
    if fault == "lockbusy" || lock == "exclusive" then .exclusive
    else if lock == "shared" then .shared else .none
  let noent := fault == "noent"
  let env : Env := { name := id, content := content, chunks := chunks, writerStop := stop,
                     openFault := noent, otherLock := other, syncFault := fault == "syncfail" }
  let st : FSState := { dir := fun n =>
      if n = id then prior.map (fun b => ⟨b, some b⟩)
      else if n = id + 1 ∧ !noent then some ⟨bystander, some bystander⟩ else none }
  pure { id, content, prior, env, st, fault, noent }

def priorClass (s : Scn) : String :=
  match s.prior with
  | none => "prior-absent"
  | some p => if p.length < s.content.length then "prior-shorter"
              else if p.length == s.content.length then "prior-equal" else "prior-longer"

def observe (r : Result × FSState × Trace) (s : Scn) : String :=
  (if r.1 == .ok then "ok" else "err") ++ " file=" ++ renderFile (r.2.1.dir s.id) ++
    " others=" ++ (match r.2.1.dir (s.id + 1) with
      | some f => toString (s.id + 1) ++ ":" ++ renderBytes f.vol
      | none => "-")

/-- judge the implementation's own output against the specification of the property -/
def judgePersist (s : Scn) (impl : String) (traced : Bool) : String :=
  let ws := impl.splitOn " "
  let res := ws.head?.getD ""
  let file := (kv ws "file").getD "?"
  let openBlocked := s.fault == "lockbusy" || s.noent
  if res == "ok" then
    if s.fault != "none" then "bad:failure-not-reported"
    else if file != renderBytes s.content then
      match s.prior with
      | some p =>
        if p.length > s.content.length ∧ file == renderBytes (s.content ++ p.drop s.content.length)
        then "bad:persist-no-truncate-longer-prior" else "bad:ok-but-bytes-differ"
      | none => "bad:ok-but-bytes-differ"
    else if traced then
      let tr := ((kv ws "trace").getD "").splitOn ","
      if syncedAtReturn (tr.map parseEv) then "ok" else "bad:no-fsync-after-last-write"
    else "ok"
  else if res == "err" then
    if openBlocked then
      (if s.fault == "lockbusy" ∧ file != renderFile (s.prior.map fun b => ⟨b, none⟩) then "bad:locked-file-modified" else "ok")
    else if file != "absent" then "bad:partial-file-left"
    else "ok"
  else "bad:unexpected-result"

def judgeRemove (s : Scn) (impl : String) : String :=
  let ws := impl.splitOn " "
  let res := ws.head?.getD ""
  let file := (kv ws "file").getD "?"
  if res == "ok" then (if file == "absent" then "ok" else "bad:remove-ok-but-present")
  else if res == "err" then
    (if s.env.otherLock != .none ∧ file != renderFile (s.prior.map fun b => ⟨b, none⟩) then "bad:remove-blocked-but-modified" else "ok")
  else "bad:unexpected-result"

def c13step (_ : Unit) (op : String) (impl : String) : Unit × String :=
  let ws := op.splitOn " "
  let out : String × String := match ws with
    | ["prog"] =>
        ("-", "ok br=" ++ (if HasTruncate BlugeGen.C13.persistProgram then "world-truncating" else "world-no-truncate"))
    | "persist" :: rest | "tpersist" :: rest =>
        let traced := ws.head? == some "tpersist"
        match mkScn rest with
        | some s =>
          let r := interp BlugeGen.C13.persistProgram s.env s.st
          let m := observe r s ++ (if traced then " trace=" ++ renderTrace r.2.2 else "")
          let br := [priorClass s, "fault-" ++ (s.fault.splitOn ":").head!, if r.1 == .ok then "res-ok" else "res-err",
                     if s.env.chunks.isEmpty then "one-write" else "chunked"] ++ (if traced then ["traced"] else [])
          (m, judgePersist s impl traced ++ " br=" ++ ",".intercalate br)
        | none => ("bad-op", "na")
    | "remove" :: rest =>
        match mkScn rest with
        | some s =>
          let r := interp BlugeGen.C13.removeProgram s.env s.st
          (observe r s, judgeRemove s impl ++ " br=remove," ++ priorClass s ++ (if r.1 == .ok then ",res-ok" else ",res-err"))
        | none => ("bad-op", "na")
    | "case" :: _ => ("case", "na")
    | _ => ("bad-op", "na")
  ((), out.1 ++ sep ++ out.2)

def main : IO Unit := driverLoop () c13step

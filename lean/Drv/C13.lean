import Bluge.Basic
import Bluge.FS
import BlugeGen.C13
/-! Model driver for C13 (line protocol, see go/harness/hlib and go/harness/c13).

Every op line describes one scenario; the driver runs `Bluge.FS.interp` on the GENERATED program
(`BlugeGen.C13.persistProgram` / `removeProgram`) in that scenario, prints what the harness can observe
on the real directory in the same canonical form, and judges the implementation's own output against
the specification (`bad:` = success reported for a file that is not exactly the content, a failure that
leaves a file under the name, a success without an fsync after the last write, …).

    prog
    persist  kind=seg|snp id=N data=SPEC prior=absent|SPEC chunks=-|n,n,… fault=none|wfail:K|cancel:K|syncfail|closefail|lockbusy|noent
    tpersist (same; the real run was traced with strace, the result carries `trace=`)
    remove   kind=… id=N prior=absent|SPEC lock=none|shared|exclusive
    pid      steps=A:lock,B:lock,A:unlock,…      (tpid: traced)   Lock/Unlock programs in the several-actor world
    writers  steps=1:open,2:open,1:close,…                        OpenWriter (Lock + its failure branch) / Close (Unlock)
    load     kind=… id=N prior=SPEC mode=mm|nm steps=load,remove,close,…   (tload: traced)
    SPEC = hex:HEX | pat:SEED:LEN        (byte i of a pattern = (SEED + 7 i + 13 (i / 251)) mod 256)
-/
open Bluge Bluge.FS

def patBytes (seed len : Nat) : Bytes :=
  (List.range len).map fun i => BitVec.ofNat 8 (seed + 7 * i + 13 * (i / 251))

def parseSpec (s : String) : Option Bytes :=
  match s.splitOn ":" with
  | ["hex", h] => hexToBytes h
  | ["pat", a, b] => do
      let seed ← a.toNat?
      let len ← b.toNat?
      pure (patBytes seed len)
  | _ => none

def kv (ws : List String) (k : String) : Option String :=
  ws.findSome? fun w => if w.startsWith (k ++ "=") then some ((w.drop (k.length + 1)).toString) else none

def fnv (bs : Bytes) : UInt64 :=
  bs.foldl (fun h b => (h ^^^ UInt64.ofNat b.toNat) * 1099511628211) 14695981039346656037

def renderBytes (bs : Bytes) : String :=
  if bs.length ≤ 40 then toString bs.length ++ ":" ++ bytesToHex bs
  else toString bs.length ++ ":#" ++ toHex 16 (fnv bs).toNat

def renderFile : Option File → String
  | none => "absent"
  | some f => renderBytes f.vol

def flagName : OFlag → String
  | .O_RDONLY => "O_RDONLY" | .O_WRONLY => "O_WRONLY" | .O_RDWR => "O_RDWR" | .O_APPEND => "O_APPEND"
  | .O_CREATE => "O_CREATE" | .O_EXCL => "O_EXCL" | .O_SYNC => "O_SYNC" | .O_TRUNC => "O_TRUNC"

def octal (n : Nat) : String := String.ofList (Nat.toDigits 8 n)

def e (ok : Bool) : String := if ok then "" else "=err"

/-- system calls only: what strace can see (a Close/Sync of an already closed *os.File makes no call) -/
def renderEv : Ev → Option String
  | .open fl pm ok => some ("open[" ++ "|".intercalate (fl.map flagName) ++ "]:" ++ octal pm ++ e ok)
  | .flock ex ok => some ("flock:" ++ (if ex then "ex" else "sh") ++ e ok)
  | .trunc n ok => some ("trunc:" ++ toString n ++ e ok)
  | .write n => some ("write:" ++ toString n)
  | .writerRet _ => none
  | .fsync true => some "fsync"
  | .fsync false => none
  | .close true => some "close"
  | .close false => none
  | .unlink ok => some ("unlink" ++ e ok)
  | .ret ok => some ("ret:" ++ (if ok then "ok" else "err"))
  | .mmap ok => some ("mmap" ++ e ok)
  | .munmap => some "munmap"

def renderTrace (t : Trace) : String := ",".intercalate (t.filterMap renderEv)

/-- the events of an observed trace that matter for the sync order -/
def parseEv (s : String) : Ev :=
  if s.startsWith "write:" then .write ((s.drop 6).toString.toNat?.getD 0)
  else if s.startsWith "trunc:" then .trunc 0 (!(s.endsWith "=err"))
  else if s == "fsync" then .fsync true
  else .writerRet true

def bystander : Bytes := [0xbb, 0xbb, 0xbb]

structure Scn where
  id : Nat
  content : Bytes
  prior : Option Bytes
  env : Env
  st : FSState
  fault : String
  noent : Bool

def mkScn (ws : List String) : Option Scn := do
  let id ← (← kv ws "id").toNat?
  let content ← match kv ws "data" with
    | some d => parseSpec d
    | none => some []
  let prior ← match kv ws "prior" with
    | some "absent" => some none
    | some p => (parseSpec p).map some
    | none => some none
  let chunks := match kv ws "chunks" with
    | some "-" => []
    | some c => (c.splitOn ",").filterMap String.toNat?
    | none => []
  let fault := (kv ws "fault").getD "none"
  let lock := (kv ws "lock").getD "none"
  let stop : Option Nat := match fault.splitOn ":" with
    | ["wfail", k] => k.toNat?
    | ["cancel", k] => k.toNat?
    | _ => none
  let other : LockMode :=
    if fault == "lockbusy" || lock == "exclusive" then .exclusive
    else if lock == "shared" then .shared else .none
  let noent := fault == "noent"
  let env : Env := { name := id, content := content, chunks := chunks, writerStop := stop,
                     openFault := noent, otherLock := other, syncFault := fault == "syncfail",
                     closeFault := fault == "closefail" }
  let st : FSState := { dir := fun n =>
      if n = id then prior.map (fun b => ⟨b, some b⟩)
      else if n = id + 1 ∧ !noent then some ⟨bystander, some bystander⟩ else none }
  pure { id, content, prior, env, st, fault, noent }

def priorClass (s : Scn) : String :=
  match s.prior with
  | none => "prior-absent"
  | some p => if p.length < s.content.length then "prior-shorter"
              else if p.length == s.content.length then "prior-equal" else "prior-longer"

def observe (r : Result × FSState × Trace) (s : Scn) : String :=
  (if r.1 == .ok then "ok" else "err") ++ " file=" ++ renderFile (r.2.1.dir s.id) ++
    " others=" ++ (match r.2.1.dir (s.id + 1) with
      | some f => toString (s.id + 1) ++ ":" ++ renderBytes f.vol
      | none => "-")

/-- judge the implementation's own output against the specification of the property -/
def judgePersist (s : Scn) (impl : String) (traced : Bool) : String :=
  let ws := impl.splitOn " "
  let res := ws.head?.getD ""
  let file := (kv ws "file").getD "?"
  let openBlocked := s.fault == "lockbusy" || s.noent
  if res == "ok" then
    if s.fault != "none" then "bad:failure-not-reported"
    else if file != renderBytes s.content then
      match s.prior with
      | some p =>
        if p.length > s.content.length ∧ file == renderBytes (s.content ++ p.drop s.content.length)
        then "bad:persist-no-truncate-longer-prior" else "bad:ok-but-bytes-differ"
      | none => "bad:ok-but-bytes-differ"
    else if traced then
      let tr := ((kv ws "trace").getD "").splitOn ","
      if syncedAtReturn (tr.map parseEv) then "ok" else "bad:no-fsync-after-last-write"
    else "ok"
  else if res == "err" then
    if openBlocked then
      (if s.fault == "lockbusy" ∧ file != renderFile (s.prior.map fun b => ⟨b, none⟩) then "bad:locked-file-modified" else "ok")
    else if file != "absent" then "bad:partial-file-left"
    else "ok"
  else "bad:unexpected-result"

def judgeRemove (s : Scn) (impl : String) : String :=
  let ws := impl.splitOn " "
  let res := ws.head?.getD ""
  let file := (kv ws "file").getD "?"
  if res == "ok" then (if file == "absent" then "ok" else "bad:remove-ok-but-present")
  else if res == "err" then
    (if s.env.otherLock != .none ∧ file != renderFile (s.prior.map fun b => ⟨b, none⟩) then "bad:remove-blocked-but-modified" else "ok")
  else "bad:unexpected-result"


/-! ## Lock / Unlock / OpenWriter / Load in the several-actor world -/
section WorldDrv
open Bluge.FS.World

/-- the pid line (its digits are the harness's business: it prints `pid` when the file holds its own pid line) -/
def pidData : Bytes := [0x50]

def actorId (s : String) : Nat := s.toList.foldl (fun h c => h * 131 + c.toNat) 7

def pidFileState (w : W) : String :=
  match w.link with
  | none => "absent"
  | some i =>
    let v := (w.ino i).vol
    if v == pidData then "pid" else if v.isEmpty then "empty" else "other"

def okErr (b : Bool) : String := if b then "ok" else "err"

/-- events of one program run by one actor, through the single-handle interpreter: the other actors' locks are
its environment (`otherLock`), the actor's own open handle its state -/
def traceOf (prog : Prog) (w : W) (a : Actor) (data : Bytes) (perm600 : Bool := true) : List String :=
  let other : LockMode := match w.link with
    | some i => if conflicts true (w.ino i).locks then (if conflicts false (w.ino i).locks then .exclusive else .shared) else .none
    | none => .none
  let env : Env := { name := 0, content := data, otherLock := other }
  let st : FSState :=
    { dir := fun n => if n = 0 then (w.link.map fun i => ⟨(w.ino i).vol, (w.ino i).dur⟩) else none,
      h := (w.fd a).map fun f => ⟨0, f.pos, f.writable, false⟩ }
  let _ := perm600
  ((interp prog env st).2.2.filterMap fun ev => match ev with
    | .ret _ => none
    | .write _ => some "write:pid"
    | ev => renderEv ev)

structure PidRun where
  w : W := {}
  /-- actors whose `d.pid` is not nil (a failed `Lock()` stores nil: `d.pid, err = d.openExclusive(…)`) -/
  pidSet : List Nat := []
  openW : List Nat := []       -- writers that are open (writers scenario)
  outs : List String := []
  evs : List String := []
  bad : Option String := none

def implSteps (impl : String) : List (String × String) :=
  (((impl.splitOn " ").headD "").splitOn ",").map fun s =>
    match s.splitOn "/" with
    | [a, b] => (a, b)
    | _ => (s, "?")

/-- one `pid` step -/
def pidStep (r : PidRun) (a : Nat) (op : String) (traced : Bool) : PidRun :=
  if op == "lock" then
    let ev := traceOf BlugeGen.C13.lockProgram r.w a pidData
    let x := World.run a pidData BlugeGen.C13.lockProgram r.w
    { r with w := x.2, pidSet := if x.1 then a :: r.pidSet.erase a else r.pidSet.erase a,
             outs := r.outs ++ [okErr x.1 ++ "/" ++ (if traced then "-" else pidFileState x.2)], evs := r.evs ++ ev }
  else if op == "unlock" then
    if !r.pidSet.contains a then
      -- `d.pid.Close()` on the nil interface value
      { r with outs := r.outs ++ ["panic/" ++ (if traced then "-" else pidFileState r.w)] }
    else
      let ev := traceOf BlugeGen.C13.unlockProgram r.w a pidData
      let x := World.run a pidData BlugeGen.C13.unlockProgram r.w
      { r with w := x.2, outs := r.outs ++ [okErr x.1 ++ "/" ++ (if traced then "-" else pidFileState x.2)], evs := r.evs ++ ev }
  else { r with outs := r.outs ++ ["bad-step/" ++ pidFileState r.w] }

/-- one `writers` step -/
def writerStep (r : PidRun) (a : Nat) (op : String) : PidRun :=
  if op == "open" then
    match Bluge.FS.World.run a pidData BlugeGen.C13.lockProgram r.w, BlugeGen.C13.openWriterAfterLockFail with
    | (true, w'), _ => { r with w := w', openW := a :: r.openW, outs := r.outs ++ ["ok/" ++ pidFileState w'] }
    | (false, w'), [] => { r with w := w', outs := r.outs ++ ["err/" ++ pidFileState w'] }
    | (false, w'), _ => { r with w := w', outs := r.outs ++ ["unmodelled-failure-branch/" ++ pidFileState w'] }
  else if op == "close" then
    if !r.openW.contains a then { r with outs := r.outs ++ ["not-open/" ++ pidFileState r.w] }
    else
      let x := World.run a pidData BlugeGen.C13.unlockProgram r.w
      { r with w := x.2, openW := r.openW.erase a, outs := r.outs ++ [okErr x.1 ++ "/" ++ pidFileState x.2] }
  else { r with outs := r.outs ++ ["bad-step/" ++ pidFileState r.w] }

/-- specification, evaluated on the implementation's own step results: a `Lock()`/`OpenWriter` while the lock is
held (by the model's account of who holds what) must fail, and must leave the pid file as it was -/
def judgeLockSteps (steps : List (Nat × String)) (impl : String) (writers : Bool) : String :=
  let is := implSteps impl
  let rec go (r : PidRun) (prev : String) : List (Nat × String) → List (String × String) → String
    | [], _ => "ok"
    | _, [] => "ok"
    | (a, op) :: rest, (res, st) :: irest =>
      let locking := op == "lock" || op == "open"
      let held := lockAbs r.w
      if writers && res == "panic" then "bad:open-writer-panicked"      -- refused means an error, not a crash
      else if locking && held && res == "ok" then (if writers then "bad:second-writer-admitted" else "bad:second-lock-admitted")
      else if locking && held && res != "ok" && st != prev && st != "-" then
        (if writers then "bad:refused-writer-removed-lock-file" else "bad:refused-lock-touched-pid-file")
      else if locking && !held && res == "ok" && st != "pid" && st != "-" then "bad:lock-without-pid-line"
      else go (if writers then writerStep r a op else pidStep r a op false) st rest irest
  go {} "absent" steps is

def parseSteps (s : String) : List (Nat × String) :=
  (s.splitOn ",").filterMap fun st => match st.splitOn ":" with
    | [a, op] => some (actorId a, op)
    | _ => none

structure LoadRun where
  w : W
  loaded : List Nat := []
  outs : List String := []
  evs : List String := []

def fileNow (w : W) : String :=
  match w.link with
  | none => "absent"
  | some i => renderBytes (w.ino i).vol

def newBytes : Bytes := [0x4e, 0x45, 0x57, 0x21]

def loadStep (mm traced : Bool) (r : LoadRun) (st : String) : LoadRun :=
  let fin (w : W) (res : String) (ev : List String) (loaded : List Nat) : LoadRun :=
    { w := w, loaded := loaded, outs := r.outs ++ [res ++ "/" ++ (if traced then "-" else fileNow w)], evs := r.evs ++ ev }
  let loader := if mm then BlugeGen.C13.loadMMapAlwaysProgram else BlugeGen.C13.loadMMapNeverProgram
  let closer := if mm then BlugeGen.C13.loadMMapAlwaysCloser else BlugeGen.C13.loadMMapNeverCloser
  if st == "load" || st == "load2" then
    let a := if st == "load" then 10 else 11
    if r.loaded.contains a then fin r.w "already-loaded" [] r.loaded
    else
      let prog := BlugeGen.C13.loadProgram ++ loader
      let ev := traceOf prog r.w a []
      let x := World.run a [] prog r.w
      if x.1 then fin x.2 ("ok:" ++ fileNow x.2) ev (a :: r.loaded) else fin x.2 "err" ev r.loaded
  else if st == "close" || st == "close2" then
    let a := if st == "close" then 10 else 11
    if !r.loaded.contains a then fin r.w "not-loaded" [] r.loaded
    else
      let ev := traceOf closer r.w a []
      let x := World.run a [] closer r.w
      fin x.2 (okErr x.1) ev (r.loaded.erase a)
  else if st == "remove" then
    let ev := traceOf BlugeGen.C13.removeProgram r.w 12 []
    let x := World.run 12 [] BlugeGen.C13.removeProgram r.w
    fin x.2 (okErr x.1) ev r.loaded
  else if st == "persist" then
    let ev := traceOf BlugeGen.C13.persistProgram r.w 12 newBytes
    let x := World.run 12 newBytes BlugeGen.C13.persistProgram r.w
    fin x.2 (okErr x.1) ev r.loaded
  else fin r.w "bad-step" [] r.loaded

/-- specification on the implementation's own results (the readers' holds are counted from the step names and
the implementation's answers, not from the generated programs): while a reader holds the item — it loaded it and
has not run the closer — a Remove / Persist by somebody else must fail and leave the bytes alone; once every
closer has run, a Remove must go through (the closer released the handle and its lock) -/
def judgeLoad (steps : List String) (impl : String) (file0 : String) : String :=
  let is := implSteps impl
  let rec go (held : List String) (prev : String) : List String → List (String × String) → String
    | [], _ => "ok"
    | _, [] => "ok"
    | st :: rest, (res, file) :: irest =>
      let disturbing := st == "remove" || st == "persist"
      if disturbing && !held.isEmpty && res == "ok" then "bad:open-reader-disturbed"
      else if disturbing && !held.isEmpty && file != prev && file != "-" then "bad:refused-but-file-changed"
      else if disturbing && held.isEmpty && res != "ok" then "bad:closer-did-not-release"
      else
        let held' :=
          if (st == "load" || st == "load2") && res.startsWith "ok" then st :: held
          else if st == "close" then held.erase "load"
          else if st == "close2" then held.erase "load2"
          else held
        go held' file rest irest
  go [] file0 steps is

end WorldDrv

def c13step (_ : Unit) (op : String) (impl : String) : Unit × String :=
  let ws := op.splitOn " "
  let out : String × String := match ws with
    | ["prog"] =>
        ("-", "ok br=" ++ (if HasTruncate BlugeGen.C13.persistProgram then "world-truncating" else "world-no-truncate"))
    | "persist" :: rest | "tpersist" :: rest =>
        let traced := ws.head? == some "tpersist"
        match mkScn rest with
        | some s =>
          let r := interp BlugeGen.C13.persistProgram s.env s.st
          let m := observe r s ++ (if traced then " trace=" ++ renderTrace r.2.2 else "")
          let br := [priorClass s, "fault-" ++ (s.fault.splitOn ":").head!, if r.1 == .ok then "res-ok" else "res-err",
                     if s.env.chunks.isEmpty then "one-write" else "chunked"] ++ (if traced then ["traced"] else [])
          (m, judgePersist s impl traced ++ " br=" ++ ",".intercalate br)
        | none => ("bad-op", "na")
    | "remove" :: rest =>
        match mkScn rest with
        | some s =>
          let r := interp BlugeGen.C13.removeProgram s.env s.st
          (observe r s, judgeRemove s impl ++ " br=remove," ++ priorClass s ++ (if r.1 == .ok then ",res-ok" else ",res-err"))
        | none => ("bad-op", "na")
    | "pid" :: rest | "tpid" :: rest =>
        let traced := ws.head? == some "tpid"
        let steps := parseSteps ((kv rest "steps").getD "")
        let r := steps.foldl (fun r (a, o) => pidStep r a o traced) ({} : PidRun)
        let m := ",".intercalate r.outs ++ (if traced then " trace=" ++ ",".intercalate r.evs else "")
        let refused := r.outs.any (·.startsWith "err/")
        (m, judgeLockSteps steps impl false ++ " br=pid" ++ (if refused then ",pid-refused" else "") ++
          (if r.outs.any (·.startsWith "panic/") then ",pid-unlock-nil" else "") ++ (if traced then ",traced-pid" else ""))
    | "writers" :: rest =>
        let steps := parseSteps ((kv rest "steps").getD "")
        let r := steps.foldl (fun r (a, o) => writerStep r a o) ({} : PidRun)
        let refused := r.outs.any (·.startsWith "err/")
        let third := (r.outs.filter (·.startsWith "err/")).length ≥ 2
        (",".intercalate r.outs, judgeLockSteps steps impl true ++ " br=writers" ++ (if refused then ",writer-refused" else "") ++
          (if third then ",writer-refused-twice" else ""))
    | "load" :: rest | "tload" :: rest =>
        let traced := ws.head? == some "tload"
        let mm := (kv rest "mode").getD "mm" == "mm"
        let prior : Option Bytes := match kv rest "prior" with
          | some "absent" => none
          | some p => parseSpec p
          | none => none
        let w0 : Bluge.FS.World.W := match prior with
          | some b => { link := some 0, next := 1, ino := fun _ => { vol := b, dur := some b } }
          | none => {}
        let steps := ((kv rest "steps").getD "").splitOn ","
        let r := steps.foldl (loadStep mm traced) ({ w := w0 } : LoadRun)
        let m := ",".intercalate r.outs ++ (if traced then " trace=" ++ ",".intercalate r.evs else "")
        let blocked := (steps.zip r.outs).any fun (st, o) => (st == "remove" || st == "persist") && o.startsWith "err/"
        (m, judgeLoad steps impl (fileNow w0) ++ " br=load,load-" ++ (if mm then "mm" else "nm") ++ (if blocked then ",load-blocks-remove" else "") ++
          (if traced then ",traced-load" else ""))
    | "case" :: _ => ("case", "na")
    | _ => ("bad-op", "na")
  ((), out.1 ++ sep ++ out.2)

def main : IO Unit := driverLoop () c13step
